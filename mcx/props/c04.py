"""C04 - PRBS emits the maximal-length sequence of its ITU polynomial and can be resumed.

Technique: explicit-state enumeration of the REAL generator's state space + exploration of
resumed-call histories, in lock-step with an independent reference.

Reference model (three independently written forms that must agree with each other before the
library is looked at; a disagreement is a harness error, never a violation):
  * `ref_stream`   - the recurrence a[m] = a[m-n] ^ a[m-t] on a bit array whose n first entries are
                     the seed's bits (vectorised in blocks; for long records the squared recurrences
                     a[m] = a[m-n*2^k] ^ a[m-t*2^k], which follow from p(E)^2 = p(E^2) over GF(2))
  * `ref_literal`  - the same recurrence, one scalar xor per term (used to validate `ref_stream`)
  * native/lfsr_walk.c - window-in-a-word walker in C: literal period / ones / visited-bitmap count
                     over the whole cycle, checkpoints, bit emission
  * GF(2) algebra  - companion matrix (jump-ahead checkpoints) and polynomial arithmetic (order of x
                     modulo the polynomial = 2^n-1: the primitivity computation)

Parts (see run()):
  model       reference self-consistency + primitivity + literal C walks           (no library call)
  fullcycle   real PRBS(n, 2^n-1, seed=1): one call over the whole period
  segments    real PRBS on segments started from model checkpoints (orders 23/31)
  steps       one-call transition relation  state --len--> (bits, state')  from every start state
  histories   1..3 resumed calls (returned state fed back) == single call, all splits
  seeds       seed reduction mod 2^n, zero-class replacement + warning (incl. every machine-word boundary +-1)
  forms       typed argument forms: seed / len / order given as numpy integer scalars, bool, integral floats, 0-d arrays;
              positional call forms; independence of the global grid `gv`
  validation  len / order validation clauses, alone and combined (unsupported order x len x seed x return_seed)
"""
from __future__ import annotations

import hashlib
import itertools
import os
import subprocess
import time
import warnings

import numpy as np

from mcx.core.kernel import res, VERIF

ID = 'C04'
LEVEL = 'model_checking'
NONTRIVIAL = ('a case whose start states are not only the two seeds the test-suite uses (default all-ones, 0->1) and whose '
              'output contains both symbols; counted per case (= chunk of start states / one segment / one seed value), each '
              'case having a distinct (order, start-state set, length alphabet) tag; validation cases count when the '
              '(order, len, seed) triple is not one the test-suite already asserts; typed-argument cases count when the library '
              'accepted the argument (so that its output was compared), not when it rejected the type')

# documented taps (n, t) of the ITU-T O.150 polynomials x^n + x^t + 1 (property text / docstring),
# written down here independently of the table inside PRBS
REF_TAPS = {7: 6, 9: 5, 11: 9, 15: 14, 20: 3, 23: 18, 31: 28}
ORDERS = sorted(REF_TAPS)

# machine-word boundaries (bits): int8/uint8 ... int64/uint64, float32/float64 mantissas, 128-bit
WORD_BITS = (7, 8, 15, 16, 24, 31, 32, 53, 62, 63, 64, 65, 127, 128)
INT_DTYPES = ('int8', 'uint8', 'int16', 'uint16', 'int32', 'uint32', 'int64', 'uint64')
# what counts as "the argument was rejected" where the statement leaves the treatment of an argument TYPE open
REJECT = (TypeError, ValueError, OverflowError)


def mk(spec):
    """build an argument from plain (picklable) case data: ('T', type name, value) -> typed scalar / 0-d / 1-d array;
    anything else is passed as it is"""
    if not (isinstance(spec, tuple) and len(spec) == 3 and spec[0] == 'T'):
        return spec
    _, tname, v = spec
    if tname in ('int', 'float', 'bool', 'complex'):
        return {'int': int, 'float': float, 'bool': bool, 'complex': complex}[tname](v)
    if tname[:3] in ('0d:', '1d:'):
        return np.array(v, dtype=tname[3:])
    return getattr(np, tname)(v)


def spec_label(spec):
    if isinstance(spec, tuple) and len(spec) == 3 and spec[0] == 'T':
        return f'{spec[1]}({spec[2]!r})'
    return repr(spec)


# =========================================================================== GF(2) algebra
def pmulmod(a, b, p, n):
    """a*b mod p in GF(2)[x]; polynomials are ints (bit i = coefficient of x^i), deg p = n"""
    r = 0
    while b:
        if b & 1:
            r ^= a
        b >>= 1
        a <<= 1
        if (a >> n) & 1:
            a ^= p
    return r


def xpow(e, p, n):
    """x^e mod p"""
    r, base = 1, 2
    while e:
        if e & 1:
            r = pmulmod(r, base, p, n)
        base = pmulmod(base, base, p, n)
        e >>= 1
    return r


def prime_factors(m):
    out, d = [], 2
    while d * d <= m:
        if m % d == 0:
            out.append(d)
            while m % d == 0:
                m //= d
        d += 1 if d == 2 else 2
    if m > 1:
        out.append(m)
    return out


def order_of_x_is_maximal(n, k):
    """is the multiplicative order of x modulo p = x^n + x^k + 1 exactly 2^n - 1 ?
    (then GF(2)[x]/(p) has 2^n-1 units, so p is irreducible and primitive)"""
    p = (1 << n) | (1 << k) | 1
    N = (1 << n) - 1
    qs = prime_factors(N)
    one = xpow(N, p, n) == 1
    cof = {q: xpow(N // q, p, n) != 1 for q in qs}
    return {'poly': f'x^{n}+x^{k}+1', 'N': N, 'prime_factors': qs, 'x^N==1': one,
            'x^(N/q)!=1': {str(q): v for q, v in cof.items()}, 'primitive': bool(one and all(cof.values()))}


def companion(n, t):
    """one step of the window (bit j = a[m-j]):  new bit0 = bit(n-1) ^ bit(t-1), bit j <- bit j-1.
    rows[i] = mask of the input bits that are xored into output bit i"""
    rows = [0] * n
    rows[0] = (1 << (n - 1)) | (1 << (t - 1))
    for j in range(1, n):
        rows[j] = 1 << (j - 1)
    return rows


def matvec(M, s):
    r = 0
    for i, row in enumerate(M):
        r |= (bin(row & s).count('1') & 1) << i
    return r


def matmul(A, B):
    """(A o B): first B then A"""
    C = []
    for row in A:
        acc, j = 0, 0
        while row:
            if row & 1:
                acc ^= B[j]
            row >>= 1
            j += 1
        C.append(acc)
    return C


def identity(n):
    return [1 << i for i in range(n)]


def matpow(M, e):
    R = identity(len(M))
    while e:
        if e & 1:
            R = matmul(M, R)
        M = matmul(M, M)
        e >>= 1
    return R


def jump(n, t, s, k):
    """window after k steps from window s (GF(2) jump-ahead)"""
    return matvec(matpow(companion(n, t), k), s)


def checkpoints(n, t, K, count, s0=1):
    """windows after 0, K, 2K, ... (count+1 values)"""
    MK = matpow(companion(n, t), K)
    out = [s0]
    for _ in range(count):
        out.append(matvec(MK, out[-1]))
    return out


# =========================================================================== reference streams
def ref_stream(n, t, seed, L):
    """arr[(n-1)+m] = a[m] for m = -(n-1) .. L : the recurrence a[m] = a[m-n] ^ a[m-t] (m >= 1)
    with a[-j] = bit j of seed (j = 0..n-1).  Length n+L."""
    total = n + L
    arr = np.zeros(total, np.uint8)
    for j in range(n):
        arr[n - 1 - j] = (seed >> j) & 1
    i, ln, lt = n, n, t
    while i < total:
        while i >= 2 * ln:          # squared recurrence (lags 2ln, 2lt) is valid for indices >= 2ln
            ln, lt = 2 * ln, 2 * lt
        m = min(lt, total - i)
        arr[i:i + m] = arr[i - ln:i - ln + m] ^ arr[i - lt:i - lt + m]
        i += m
    return arr


def ref_literal(n, t, seed, L):
    a = [0] * (n + L)
    for j in range(n):
        a[n - 1 - j] = (seed >> j) & 1
    for i in range(n, n + L):
        a[i] = a[i - n] ^ a[i - t]
    return np.array(a, np.uint8)


def window(arr, n, k):
    """window (state) whose bit 0 is a[k]: bit j = a[k-j]"""
    base = n - 1 + k
    s = 0
    for j in range(n):
        s |= int(arr[base - j]) << j
    return s


def first_diff(a, b):
    d = np.flatnonzero(a != b)
    return int(d[0]) if d.size else -1


# =========================================================================== native walker
def walker():
    src = os.path.join(VERIF, 'native', 'lfsr_walk.c')
    exe = os.path.join(VERIF, 'build', 'lfsr_walk')
    if not os.path.exists(exe) or os.path.getmtime(exe) < os.path.getmtime(src):
        os.makedirs(os.path.dirname(exe), exist_ok=True)
        tmp = f'{exe}.{os.getpid()}.tmp'
        subprocess.run(['gcc', '-O2', '-o', tmp, src], check=True)
        os.replace(tmp, exe)
    return exe


def c_bits(n, t, seed, L):
    p = subprocess.run([walker(), 'bits', str(n), str(t), str(seed), str(L)], capture_output=True, check=True)
    raw = p.stdout
    if len(raw) != L + 8:
        raise RuntimeError(f'lfsr_walk bits returned {len(raw)} bytes, expected {L + 8}')
    return np.frombuffer(raw[:L], np.uint8), int.from_bytes(raw[L:], 'little')


def c_walk_start(n, t, K, bitmap):
    cmd = [walker(), 'walk', str(n), str(t), str(K)] + (['bitmap'] if bitmap else [])
    return subprocess.Popen(cmd, stdout=subprocess.PIPE, text=True)


def c_walk_collect(proc):
    out, _ = proc.communicate()
    if proc.returncode != 0:
        raise RuntimeError(f'lfsr_walk walk failed with code {proc.returncode}')
    d, cks = {}, []
    for line in out.split('\n'):
        f = line.split()
        if not f:
            continue
        if f[0] == 'ck':
            assert int(f[1]) == len(cks)
            cks.append(int(f[2]))
        else:
            d[f[0]] = int(f[1])
    d['ck'] = cks
    return d


# =========================================================================== calling the library
class Shape(Exception):
    """the library returned something that is not (binary 0/1 sequence of the requested length, integer state)"""


def impl(n, L, seed, rec=None):
    from opticomlib.devices import PRBS
    if rec is None:
        r = PRBS(order=n, len=L, seed=seed, return_seed=True)
    else:
        with warnings.catch_warnings(record=True) as w:
            warnings.simplefilter('always')
            r = PRBS(order=n, len=L, seed=seed, return_seed=True)
        rec.extend(w)
    if not (isinstance(r, tuple) and len(r) == 2):
        raise Shape(f'PRBS({n}, {L}, seed={seed}, return_seed=True) returned {type(r).__name__}, not (sequence, state)')
    out, st = r
    data = getattr(out, 'data', None)
    if not isinstance(data, np.ndarray) or data.ndim != 1:
        raise Shape(f'PRBS({n}, {L}, seed={seed}): output has no 1-D .data array')
    if isinstance(st, (bool, np.bool_)) or not isinstance(st, (int, np.integer)):
        raise Shape(f'PRBS({n}, {L}, seed={seed}): returned state {st!r} is not an integer')
    if data.size != L:
        raise Shape(f'PRBS({n}, {L}, seed={seed}): output length {data.size} != len')
    if not np.all((data == 0) | (data == 1)):
        raise Shape(f'PRBS({n}, {L}, seed={seed}): output is not binary')
    return data.astype(np.uint8), st


def sha(*parts):
    h = hashlib.sha256()
    for p in parts:
        h.update(p if isinstance(p, (bytes, bytearray)) else (p.tobytes() if isinstance(p, np.ndarray) else repr(p).encode()))
    return h.hexdigest()[:20]


def compare_call(viol, n, t, seed_eff, L, bits, st, arr, what):
    """bits/st of one real call against the reference array `arr` (>= n+L long) started from seed_eff"""
    ref = arr[n - 1:n - 1 + L]
    ok = True
    if not np.array_equal(bits, ref):
        i = first_diff(bits, ref)
        viol.append(('stream:bits!=recurrence',
                     f'{what}: output bit {i} is {int(bits[i])}, the recurrence a[m]=a[m-{n}]^a[m-{t}] from seed bits of '
                     f'{seed_eff} gives {int(ref[i])}'))
        ok = False
    exp = window(arr, n, L)
    if int(st) % (1 << n) != exp:       # the state is only ever used as a seed, i.e. modulo 2^n
        viol.append(('resume:state!=model',
                     f'{what}: returned state {int(st)} but the window after {L} outputs is {exp} (it must resume the stream)'))
        ok = False
    return ok


# =========================================================================== case: full cycle on the implementation
def case_full(case):
    n, t = case
    P = (1 << n) - 1
    viol = []
    try:
        bits, st = impl(n, P, 1)
    except Shape as e:
        return res(viol=[('api:shape', str(e))], obs=('shape', n))
    arr = ref_stream(n, t, 1, P)
    compare_call(viol, n, t, 1, P, bits, st, arr, f'PRBS({n}, 2^{n}-1, seed=1)')
    if int(st) % (1 << n) != 1:
        viol.append(('period:state-not-back-after-2^n-1', f'order {n}: state after 2^{n}-1 shifts from 1 is {int(st)}, not 1'))
    ones = int(bits.sum(dtype=np.int64))
    if ones != 1 << (n - 1):
        viol.append(('period:ones!=2^(n-1)', f'order {n}: {ones} ones in 2^{n}-1 outputs from seed 1, expected {1 << (n - 1)}'))
    # every window of the real output (with the seed's bits as predecessors) = the state sequence; all 2^n-1
    # non-zero states must occur exactly once
    ext = np.concatenate([arr[:n - 1], bits]).astype(np.int32)
    vals = np.zeros(P, np.int32)
    for j in range(n):
        vals |= ext[n - 1 - j:n - 1 - j + P] << j
    seen = np.zeros(1 << n, bool)
    seen[vals] = True
    distinct = int(seen.sum())
    if seen[0] or distinct != P:
        viol.append(('period:states-not-all-visited',
                     f'order {n}: the {P} output windows of one period hold {distinct} distinct states (zero state seen: {bool(seen[0])}); '
                     f'expected all {P} non-zero states once'))
    return res(viol=viol, obs=(n, sha(bits), int(st), ones, distinct), nontrivial=('full', n),
               stats={'impl_calls': 1, 'impl_shifts': P, 'impl_fullcycle_states': P},
               payload={'n': n, 'ones': ones, 'distinct': distinct, 'final': int(st), 'sha': sha(bits)})


# =========================================================================== case: one segment from a model checkpoint
def case_segment(case):
    n, t, idx, start_step, s_start, L, s_end, ccheck = case
    viol = []
    arr = ref_stream(n, t, s_start, L)
    if window(arr, n, L) != s_end:
        raise RuntimeError(f'model: recurrence window after {L} steps from {s_start} is {window(arr, n, L)}, jump-ahead says {s_end}')
    if ccheck:
        cb, cs = c_bits(n, t, s_start, L)
        if cs != s_end or not np.array_equal(cb, arr[n - 1:n - 1 + L]):
            raise RuntimeError(f'model: C walker and recurrence disagree on segment {idx} of order {n}')
    try:
        bits, st = impl(n, L, s_start)
    except Shape as e:
        return res(viol=[('api:shape', str(e))], obs=('shape', n, idx))
    compare_call(viol, n, t, s_start, L, bits, st, arr,
                 f'PRBS({n}, {L}, seed={s_start}) [segment {idx}: steps {start_step}..{start_step + L} of the cycle from 1]')
    ones = int(bits.sum(dtype=np.int64))
    return res(viol=viol, obs=(n, idx, sha(bits), int(st)), nontrivial=('seg', n, idx),
               stats={'impl_calls': 1, 'impl_shifts': L, f'impl_segment_states_n{n}': L},
               payload={'idx': idx, 'ones': ones, 'final': int(st), 'L': L, 'ok': not viol})


# =========================================================================== case: one-call transition relation
def divisors_to_test(P):
    return [P // q for q in prime_factors(P) if P // q >= 1]


def case_steps(case):
    """for every start state s in `seeds` and every length l in `lens`: one real call; output and returned state
    against the reference.  Lengths >= 2P also get the period checks directly on the real output."""
    n, t, seeds, lens = case
    P = (1 << n) - 1
    viol, h = [], hashlib.sha256()
    calls = shifts = mixed = 0
    Lmax = max(lens)
    try:
        for s in seeds:
            arr = ref_stream(n, t, s, Lmax)
            for L in lens:
                bits, st = impl(n, L, s)
                calls += 1
                shifts += L
                h.update(bits.tobytes())
                h.update(repr(int(st)).encode())
                what = f'PRBS({n}, {L}, seed={s})'
                compare_call(viol, n, t, s, L, bits, st, arr, what)
                k = int(bits.sum())
                mixed += 0 < k < L
                if L >= P:
                    o = int(bits[:P].sum())
                    if o != 1 << (n - 1):
                        viol.append(('period:ones!=2^(n-1)', f'{what}: {o} ones in the first 2^{n}-1 outputs, expected {1 << (n - 1)}'))
                if L % P == 0 and int(st) % (1 << n) != s:
                    viol.append(('period:state-not-back-after-2^n-1', f'{what}: returned state {int(st)} != start state'))
                if L >= 2 * P:
                    if not np.array_equal(bits[:L - P], bits[P:]):
                        viol.append(('period:not-2^n-1', f'{what}: output is not periodic with 2^{n}-1'))
                    for d in divisors_to_test(P):
                        if np.array_equal(bits[:L - d], bits[d:]):
                            viol.append(('period:not-2^n-1', f'{what}: output has the smaller period {d}'))
    except Shape as e:
        viol.append(('api:shape', str(e)))
    return res(viol=viol, obs=(n, h.hexdigest()[:24]), nontrivial=(('steps', n, seeds[0], len(seeds), tuple(lens)) if mixed else False),
               stats={'impl_calls': calls, 'impl_shifts': shifts, 'step_transitions': calls, 'calls_with_both_symbols': mixed})


# =========================================================================== case: resumed-call histories
def short_lens(n):
    return [1, 2, 3, n - 1, n, n + 1, 2 * n + 3]


def long_lens(P):
    """one period -1/0/+1, two periods -1/0/+1/+3, three periods 0/+2"""
    return [P - 1, P, P + 1, 2 * P - 1, 2 * P, 2 * P + 1, 2 * P + 3, 3 * P, 3 * P + 2]


def compositions(total, parts):
    if parts == 1:
        yield (total,)
        return
    for a in range(1, total - parts + 2):
        for rest in compositions(total - a, parts - 1):
            yield (a,) + rest


def history_alphabet(n, long_too):
    """all call-length sequences explored from one start state (deterministic, simplest first)"""
    lens = short_lens(n)
    seqs = []
    for k in (1, 2, 3):
        seqs += list(itertools.product(lens, repeat=k))
    seqs += [c for c in compositions(2 * n + 3, 2)]          # every two-way split of 2n+3
    seqs += [c for c in compositions(n + 2, 3)]              # every three-way split of n+2
    seqs += list(itertools.product((1, 2, n + 1), repeat=4))  # depth 4 (always fed back unchanged, see case_hist)
    if long_too:
        P = (1 << n) - 1
        seqs += [(P, 5), (5, P), (P - 1, 1, P + 1), (P + 1, P)]
        seqs += [(P, P), (P, 1, P), (2 * P, 1), (1, 2 * P), (1, P - 1, 1, P), (P - 1, 1, 1, P - 1), (P, P, P, 1)]
    out, seen = [], set()
    for s in seqs:
        if s not in seen:
            seen.add(s)
            out.append(s)
    return out


def case_hist(case):
    n, t, seeds, long_too = case
    seqs = history_alphabet(n, long_too)
    maxtot = max(sum(s) for s in seqs)
    viol, h = [], hashlib.sha256()
    calls = shifts = hist = 0
    try:
        for s in seeds:
            arr = ref_stream(n, t, s, maxtot)
            single = {}
            for seq in seqs:
                tot = sum(seq)
                if tot not in single:
                    b1, s1 = impl(n, tot, s)
                    calls += 1
                    shifts += tot
                    compare_call(viol, n, t, s, tot, b1, s1, arr, f'PRBS({n}, {tot}, seed={s})')
                    single[tot] = (b1, int(s1))
                b1, s1 = single[tot]
                if len(seq) == 1:
                    continue
                cur, parts = s, []
                for i, L in enumerate(seq):
                    b, st = impl(n, L, cur)
                    calls += 1
                    shifts += L
                    parts.append(b)
                    # feed back exactly the object that was returned (no int() conversion); every second history of
                    # depth <= 3 feeds the plain-int value instead, histories of depth 4 never do
                    cur = st if (hist % 2 == 0 or len(seq) >= 4) else int(st)
                hist += 1
                cat = np.concatenate(parts)
                h.update(cat.tobytes())
                h.update(repr(int(cur)).encode())
                if not np.array_equal(cat, b1):
                    i = first_diff(cat, b1)
                    viol.append(('resume:split!=single-call',
                                 f'order {n} seed {s}: calls of lengths {seq} with the returned state fed back differ from the single '
                                 f'call of {tot} at bit {i} ({int(cat[i])} vs {int(b1[i])})'))
                if (int(cur) - s1) % (1 << n):
                    viol.append(('resume:split-state!=single-call',
                                 f'order {n} seed {s}: final state after calls {seq} is {int(cur)}, after the single call of {tot} it is {s1}'))
    except Shape as e:
        viol.append(('api:shape', str(e)))
    return res(viol=viol, obs=(n, h.hexdigest()[:24]), nontrivial=('hist', n, seeds[0], len(seeds), len(seqs)),
               stats={'impl_calls': calls, 'impl_shifts': shifts, 'histories': hist, 'history_transitions': calls})


# =========================================================================== case: seed clause
def seed_alphabet(n):
    N = 1 << n
    zero = [('0', 0), ('2^n', N), ('-2^n', -N), ('3*2^n', 3 * N), ('2^(n+5)', N << 5), ('-2^(n+40)', -(N << 40))]
    nonzero = [('-3', -3), ('2^n+5', N + 5), ('2^(n+3)+1', (N << 3) + 1), ('2^64+3', (1 << 64) + 3), ('-1', -1),
               ('2^n-1', N - 1), ('2^n+1', N + 1), ('-2^n+1', -N + 1), ('2^(n-1)', N >> 1), ('-(2^n-1)', -(N - 1)),
               ('5*2^n+2^(n-1)', 5 * N + (N >> 1)), ('1', 1), ('2', 2),
               # machine-word boundaries: a seed that is not reduced before it meets numpy integers behaves differently here
               ('2^31+5', (1 << 31) + 5), ('2^32-1', (1 << 32) - 1), ('2^62+1', (1 << 62) + 1), ('2^63-1', (1 << 63) - 1),
               ('2^63+5', (1 << 63) + 5), ('2^64-1', (1 << 64) - 1), ('-(2^63)-7', -(1 << 63) - 7), ('2^100+9', (1 << 100) + 9)]
    out = [('zero', a, b) for a, b in zero] + [('nonzero', a, b) for a, b in nonzero]
    # every machine-word boundary exactly and one unit inside / outside, both signs (the class follows from the value)
    seen = {v for _, _, v in out}
    for k in WORD_BITS:
        for sign in ('', '-'):
            for d in (-1, 0, 1):
                v = (1 << k) + d
                v = -v if sign else v
                if v not in seen:
                    seen.add(v)
                    out.append(('zero' if v % N == 0 else 'nonzero', f'{sign}(2^{k}{d:+d})' if d else f'{sign}2^{k}', v))
    return out


def case_seed(case):
    n, t, cls, label, seed = case
    L = 2 * n + 3
    eff = seed % (1 << n)            # mathematical residue in [0, 2^n)
    viol, rec = [], []
    try:
        bits, st = impl(n, L, seed, rec)
    except Shape as e:
        return res(viol=[('api:shape', str(e))], obs=('shape', n, label))
    warned = any(issubclass(w.category, Warning) for w in rec)
    what = f'PRBS({n}, {L}, seed={label}={seed})'
    target = 1 if cls == 'zero' else eff
    assert (eff == 0) == (cls == 'zero')
    arr = ref_stream(n, t, target, L)

    def matches(b, s_):
        return np.array_equal(b, arr[n - 1:n - 1 + L]) and int(s_) % (1 << n) == window(arr, n, L)

    if not matches(bits, st):
        # classify (nothing is dropped): if the call with the canonical representative itself is wrong, this is a stream
        # defect (same keys as the other parts); if only the non-canonical seed misbehaves, it is the seed clause
        canonical_ok = False
        if seed != target:
            try:
                cb, cs = impl(n, L, target)
                canonical_ok = matches(cb, cs)
            except Shape:
                canonical_ok = False
        if not canonical_ok:
            compare_call(viol, n, t, target, L, bits, st, arr, what)
        elif cls == 'zero':
            viol.append(('seed:zero-class-not-replaced-by-1',
                         f'{what}: seed = 0 mod 2^{n} must behave as seed 1; got bits {bits[:n + 2].tolist()}.. state {int(st)}, '
                         f'seed 1 gives {arr[n - 1:2 * n + 1].tolist()}.. state {window(arr, n, L)}'))
        else:
            viol.append(('seed:not-reduced-mod-2^n',
                         f'{what}: must behave as seed {eff} = seed mod 2^{n}; got bits {bits[:n + 2].tolist()}.. state {int(st)}, '
                         f'expected {arr[n - 1:2 * n + 1].tolist()}.. state {window(arr, n, L)}'))
    if cls == 'zero' and not warned:
        viol.append(('seed:zero-class-no-warning', f'{what}: seed = 0 mod 2^{n} replaced without a warning'))
    # return_seed=False: the same output alone
    from opticomlib.devices import PRBS
    with warnings.catch_warnings():
        warnings.simplefilter('ignore')
        o2 = PRBS(order=n, len=L, seed=seed)
    d2 = getattr(o2, 'data', None)
    if isinstance(o2, tuple) or not isinstance(d2, np.ndarray) or not np.array_equal(d2, bits):
        viol.append(('api:return_seed=False-output-differs', f'{what}: without return_seed the output is not the same sequence alone'))
    return res(viol=viol, obs=(n, label, sha(bits), int(st), warned if cls == 'zero' else None),
               nontrivial=(('seed', n, label) if seed not in (0, 1) else False),
               stats={'impl_calls': 2, 'impl_shifts': 2 * L, 'seed_cases': 1})


# =========================================================================== case: typed argument forms
def typed_seed_alphabet(n):
    """seeds that are not plain Python ints: every numpy integer dtype at its own limits and around 2^n, bool, integral
    floats, 0-d arrays.  The mathematical value of each is int(argument)."""
    N = 1 << n
    wanted = [1, 0, 2, 5, N - 1, N, N + 1, N >> 1, 3 * N, 5 * N + 2, -1, -3, -N, -N + 1, -(N - 1)]
    out = []
    for tn in INT_DTYPES:
        ii = np.iinfo(tn)
        seen = set()
        for v in wanted + [ii.min, ii.min + 1, ii.max - 1, ii.max, ii.max >> 1, (ii.max >> 1) + 1, (ii.max >> 1) + 6]:
            v = int(v)
            if ii.min <= v <= ii.max and v not in seen:
                seen.add(v)
                out.append(('T', tn, v))
    for tn in ('bool', 'bool_'):
        out += [('T', tn, True), ('T', tn, False)]
    for tn in ('float', 'float64', 'float32'):
        for v in (1.0, 0.0, 5.0, float(N - 1), float(N), float(N + 1), -3.0, 2.0 ** 53 + 2.0, 2.0 ** 64, 2.0 ** 64 + 4096.0,
                  -(2.0 ** 64) - 4096.0):
            out.append(('T', tn, v))
    out += [('T', '0d:int64', 5), ('T', '0d:int64', N - 1), ('T', '0d:int64', 0), ('T', '0d:int32', -3), ('T', '0d:uint8', 5),
            ('T', '0d:uint64', 5), ('T', '0d:uint64', (1 << 64) - 1)]
    return out


def forms_alphabet():
    cases = []
    for n in ORDERS:
        t = REF_TAPS[n]
        N = 1 << n
        cases += [('seed', n, t, spec) for spec in typed_seed_alphabet(n)]
        # len: positive values in integer-like types (floats and non-positive values belong to the validation part)
        lens = [('T', tn, v) for tn in INT_DTYPES for v in (1, 10, 2 * n + 3, 127, 128, 255, 256, 300, 1000) if v <= np.iinfo(tn).max]
        lens += [('T', 'bool', True), ('T', 'bool_', True), ('T', '0d:int64', 10), ('T', '0d:uint8', 2 * n + 3)]
        cases += [('len', n, t, spec, seed) for spec in lens for seed in (5, ('T', 'int64', N - 2))]
        cases += [('len', n, t, ('T', tn, v), 5) for tn in INT_DTYPES for v in (32767, 32768, 65535, 65536) if v <= np.iinfo(tn).max]
        # order: the supported value itself in another type
        orders = [('T', tn, n) for tn in INT_DTYPES + ('float', 'float64', 'float32', '0d:int64', '0d:uint8')]
        cases += [('order', n, t, spec, seed, L) for spec in orders for seed in (5, N - 1, ('T', 'int64', 3)) for L in (2 * n + 3,)]
        cases += [('order', n, t, spec, 5, ('T', 'int64', 10)) for spec in orders[:8:3]]
        cases += [('call', n, t, seed) for seed in (5, N - 1, N + 2)]
        cases += [('gv', n, t, seed) for seed in (5, N - 1)]
    return cases


GV_CONFIGS = [dict(sps=16, R=1e9), dict(sps=8, fs=7.3e9), dict(R=2.5e9, fs=20e9), dict(fs=1e9), dict(sps=4, R=1e9, N=7),
              dict(sps=16, R=1e9, wavelength=1310e-9), dict(sps=3, R=1.25e9, N=1)]


def _matches(n, arr, off, L, bits, st):
    """one real call of L bits that started `off` steps into the reference array"""
    return (np.array_equal(bits, arr[n - 1 + off:n - 1 + off + L]) and int(st) % (1 << n) == window(arr, n, off + L))


def case_form(case):
    kind, n, t = case[:3]
    N = 1 << n
    viol, obs = [], []
    calls = accepted = 0

    if kind == 'seed':
        spec = case[3]
        tname = spec[1]
        arg = mk(spec)
        v = int(arg)                       # floats of the alphabet are integral
        eff = v % N
        target = eff or 1
        lens = (1, n + 1, 2 * n + 3)
        M = n + 2
        arr = ref_stream(n, t, target, lens[-1] + M)
        _, st0 = impl(n, 1, 1)
        # the statement demands that what return_seed=True hands out is accepted as a seed: an object of that very type
        # with a value a state can have.  For every other non-int type the statement is silent: rejecting it is fine,
        # accepting it and generating something else than the sequence of its integer value is not.
        strict = type(arg) is type(st0) and 1 <= v < N
        for L in lens:                     # the same argument object is used for every call
            what = f'PRBS({n}, {L}, seed={spec_label(spec)})'
            rec = []
            calls += 1
            try:
                bits, st = impl(n, L, arg, rec)
            except REJECT as e:
                if strict:
                    viol.append(('resume:state-type-rejected',
                                 f'{what}: {type(e).__name__} ({e}); {type(st0).__name__} is the type of the state the library returns'))
                obs.append(('rejected', type(e).__name__))
                continue
            except Shape as e:
                if strict:
                    viol.append(('api:shape', str(e)))
                obs.append(('shape',))
                continue
            accepted += 1
            obs.append((sha(bits), int(st)))
            if not _matches(n, arr, 0, L, bits, st):
                # classify (nothing is dropped): canonical seed wrong -> stream defect; the Python int of the same value wrong
                # as well -> the general seed clause; only the typed form wrong -> misread
                cb, cs = impl(n, L, target)
                if not _matches(n, arr, 0, L, cb, cs):
                    compare_call(viol, n, t, target, L, bits, st, arr, what)
                    continue
                with warnings.catch_warnings():
                    warnings.simplefilter('ignore')
                    pb, ps = impl(n, L, v)
                if not _matches(n, arr, 0, L, pb, ps):
                    viol.append(('seed:zero-class-not-replaced-by-1' if eff == 0 else 'seed:not-reduced-mod-2^n',
                                 f'{what} and the int seed {v}: must behave as seed {target}; got bits {bits[:n + 2].tolist()}.. state {int(st)}'))
                    continue
                viol.append((f'seed:misread:{tname}',
                             f'{what}: accepted, but the output is not the sequence of its integer value {v} (= {target} after '
                             f'reduction mod 2^{n}): got bits {bits[:n + 2].tolist()}.. state {int(st)}, PRBS({n}, {L}, seed={target}) '
                             f'gives {cb[:n + 2].tolist()}.. state {int(cs)}'))
                continue
            if eff == 0 and not rec:
                viol.append(('seed:zero-class-no-warning', f'{what}: seed = 0 mod 2^{n} replaced without a warning'))
            # resume from the state of a call that was seeded with the typed value; state passed on as returned
            calls += 1
            b2, s2 = impl(n, M, st)
            obs.append((sha(b2), int(s2)))
            compare_call(viol, n, t, window(arr, n, L), M, b2, s2, arr[L:], f'{what} -> state {st!r} -> PRBS({n}, {M}, seed=<that state>)')
        tag = ('form', 'seed', n, spec[1], spec[2]) if accepted else False

    elif kind == 'len':
        spec, seed_s = case[3], case[4]
        tname = spec[1]
        arg, seed = mk(spec), mk(seed_s)
        L = int(arg)
        s_eff = int(seed) % N
        arr = ref_stream(n, t, s_eff, L)
        what = f'PRBS({n}, len={spec_label(spec)}, seed={spec_label(seed_s)})'
        calls += 1
        try:
            bits, st = impl(n, arg, seed)
        except REJECT as e:
            obs.append(('rejected', type(e).__name__))
        except Shape as e:
            viol.append((f'len:misread:{tname}', f'{what}: accepted, but {e}'))
            obs.append(('shape',))
        else:
            accepted += 1
            obs.append((sha(bits), int(st)))
            if not _matches(n, arr, 0, L, bits, st):
                cb, cs = impl(n, L, s_eff)
                if _matches(n, arr, 0, L, cb, cs):
                    viol.append((f'len:misread:{tname}', f'{what}: accepted, but output/state differ from PRBS({n}, {L}, seed={s_eff})'))
                else:
                    compare_call(viol, n, t, s_eff, L, bits, st, arr, what)
        tag = ('form', 'len', n, spec[1], spec[2], spec_label(seed_s)) if accepted else False

    elif kind == 'order':
        spec, seed_s, L_s = case[3], case[4], case[5]
        tname = spec[1]
        arg, seed, Larg = mk(spec), mk(seed_s), mk(L_s)
        L = int(Larg)
        s_eff = int(seed) % N
        arr = ref_stream(n, t, s_eff, L)
        what = f'PRBS(order={spec_label(spec)}, len={spec_label(L_s)}, seed={spec_label(seed_s)})'
        calls += 1
        try:
            bits, st = impl(arg, Larg, seed)
        except REJECT as e:
            obs.append(('rejected', type(e).__name__))
        except Shape as e:
            viol.append((f'order:misread:{tname}', f'{what}: accepted, but {e}'))
            obs.append(('shape',))
        else:
            accepted += 1
            obs.append((sha(bits), int(st)))
            if not _matches(n, arr, 0, L, bits, st):
                cb, cs = impl(n, L, s_eff)
                if _matches(n, arr, 0, L, cb, cs):
                    viol.append((f'order:misread:{tname}', f'{what}: accepted, but output/state differ from PRBS({n}, {L}, seed={s_eff})'))
                else:
                    compare_call(viol, n, t, s_eff, L, bits, st, arr, what)
        tag = ('form', 'order', n, spec[1], spec_label(seed_s), spec_label(L_s)) if accepted else False

    elif kind == 'call':
        from opticomlib.devices import PRBS
        seed = case[3]
        L = 2 * n + 3
        s_eff = seed % N
        arr = ref_stream(n, t, s_eff, L)
        forms = [('PRBS(n, L, s, True)', lambda: PRBS(n, L, seed, True)),
                 ('PRBS(n, L, seed=s, return_seed=True)', lambda: PRBS(n, L, seed=seed, return_seed=True)),
                 ('PRBS(return_seed=True, seed=s, len=L, order=n)', lambda: PRBS(return_seed=True, seed=seed, len=L, order=n)),
                 ('PRBS(n, L, s)', lambda: PRBS(n, L, seed)),
                 ('PRBS(n, L, s, False)', lambda: PRBS(n, L, seed, False)),
                 ('PRBS(n, seed=s, len=L, return_seed=False)', lambda: PRBS(n, seed=seed, len=L, return_seed=False))]
        for label, f in forms:
            calls += 1
            r = f()
            with_state = 'True' in label
            out = r[0] if (with_state and isinstance(r, tuple) and len(r) == 2) else r
            data = getattr(out, 'data', None)
            good = isinstance(data, np.ndarray) and data.shape == (L,) and np.array_equal(data, arr[n - 1:n - 1 + L])
            if with_state:
                good = good and isinstance(r, tuple) and isinstance(r[1], (int, np.integer)) and int(r[1]) % N == window(arr, n, L)
            else:
                good = good and not isinstance(r, tuple)
            obs.append((label, bool(good)))
            if not good:
                b1, s1 = impl(n, L, seed)
                if _matches(n, arr, 0, L, b1, s1):
                    viol.append(('api:call-form-differs', f'{label} with n={n}, L={L}, s={seed}: not the result of the keyword call '
                                                         f'PRBS(order=n, len=L, seed=s, return_seed=...)'))
                else:
                    compare_call(viol, n, t, s_eff, L, b1, s1, arr, f'PRBS({n}, {L}, seed={seed})')
            accepted += 1
        tag = ('form', 'call', n, seed)

    elif kind == 'gv':
        from mcx.core.env import gv_reset
        seed = case[3]
        L = 2 * n + 3
        arr = ref_stream(n, t, seed % N, L)
        gv_reset()
        b0, s0 = impl(n, L, seed)
        calls += 1
        compare_call(viol, n, t, seed % N, L, b0, s0, arr, f'PRBS({n}, {L}, seed={seed})')
        for cfg in GV_CONFIGS + GV_CONFIGS[:2]:          # the first two once more after the grid was reconfigured
            gv_reset(**cfg)
            b, s_ = impl(n, L, seed)
            calls += 1
            accepted += 1
            obs.append((sha(b), int(s_)))
            if not (np.array_equal(b, b0) and int(s_) == int(s0)):
                viol.append(('stream:depends-on-gv', f'PRBS({n}, {L}, seed={seed}, return_seed=True) after gv({cfg}) differs from the '
                                                     f'same call on the default grid'))
        gv_reset()
        tag = ('form', 'gv', n, seed)
    else:
        raise RuntimeError(f'unknown form {kind}')
    return res(viol=viol, obs=(kind, n, repr(case[3:]), tuple(obs)), nontrivial=tag,
               stats={'impl_calls': calls, 'form_cases': 1, 'form_calls_accepted': accepted})


# =========================================================================== case: len / order validation
def validation_alphabet():
    """(kind, order, label of len, len, seed, return_seed); order / len / seed may be ('T', type, value) specs (see mk)"""
    T = lambda tn, v: ('T', tn, v)
    cases = []
    bad_lens = [('0', 0), ('-1', -1), ('-5', -5), ('1.0', 1.0), ('2.5', 2.5), ("'5'", '5'), ('[5]', [5])]
    for n in (7, 31):
        for seed in (None, 1):
            for label, L in bad_lens:
                cases.append(('len', n, label, L, seed, True))
    base_orders = (8, 0, 32, 1, 6, 10, 16, 30, 33, 63, 64, -1, -7)
    for order in base_orders:
        for L in (None, 10):
            for seed in (None, 1):
                cases.append(('order', order, repr(L), L, seed, True))
    # ---- hardening pass: more ways of not being a positive int (typed zeros / negatives, floats of every kind, containers)
    more_lens = bad_lens + [('10.0', 10.0), ('0.0', 0.0), ('-0.0', -0.0), ('1e3', 1e3), ('inf', float('inf')), ('nan', float('nan')),
                            ('5+0j', 5 + 0j), ("b'5'", b'5'), ('(5,)', (5,)), ('False', False)]
    more_lens += [(spec_label(x), x) for x in (T('int64', 0), T('int64', -1), T('int32', -5), T('uint8', 0), T('int8', -128),
                                               T('float64', 5.0), T('float64', 10.0), T('float32', 2.5), T('float32', 1.0),
                                               T('0d:float64', 5.0), T('0d:int64', 0), T('1d:int64', [5]), T('1d:int64', [5, 6]),
                                               T('bool_', False))]
    seen = set(map(repr, cases))
    for n in (7, 31):
        for seed in (None, 1, T('int64', 5)):
            for rs in (True, False):
                for label, L in more_lens:
                    c = ('len', n, label, L, seed, rs)
                    if repr(c) not in seen:
                        seen.add(repr(c))
                        cases.append(c)
    # ---- unsupported orders x len x seed x return_seed; values around / containing the supported ones
    orders = list(base_orders) + [2, 3, 4, 5, 12, 13, 14, 17, 19, 21, 22, 24, 29, 70, 71, 77, 79, 90, 91, 97, 110, 115, 120, 123,
                                  127, 128, 131, 150, 200, 230, 231, 310, 311, 1000, -9, -11, -15, -20, -23, -31]
    for order in orders:
        for L in (None, 10, 1, T('int64', 10)):
            for seed in (None, 1, 0, T('int64', 5)):
                for rs in (True, False):
                    c = ('order', order, spec_label(L), L, seed, rs)
                    if repr(c) not in seen:
                        seen.add(repr(c))
                        cases.append(c)
    typed_orders = [T('int64', 8), T('int32', 32), T('uint8', 0), T('int8', -7), T('int64', 30), T('uint64', 8), T('int16', 1000),
                    T('float', 8.0), T('float', 7.5), T('float', 31.5), T('float64', 7.5), T('float', 6.999999), T('float', 7.000001),
                    T('float32', 30.5), T('bool', True), T('bool', False)]
    for order in typed_orders:
        for L in (None, 10):
            for seed in (None, 1):
                for rs in (True, False):
                    cases.append(('order', order, repr(L), L, seed, rs))
    # ---- invalid in both ways: any of the two errors
    for order in (8, 0, 32, -7, T('int64', 8)):
        for label, L in bad_lens + [('np.int64(0)', T('int64', 0)), ('10.0', 10.0)]:
            for seed in (None, 1):
                for rs in (True, False):
                    cases.append(('both', order, label, L, seed, rs))
    return cases


def case_valid(case):
    kind, order_s, label, L_s, seed_s, rs = case
    from opticomlib.devices import PRBS
    order, L, seed = mk(order_s), mk(L_s), mk(seed_s)
    what = f'PRBS(order={spec_label(order_s)}, len={label}, seed={spec_label(seed_s)}, return_seed={rs})'
    # "unsupported orders raise ValueError": demanded for an int order with a valid (or default) len; where the order or the
    # len is of another type the statement does not say which of the two errors comes -> TypeError or ValueError
    strict_order = kind == 'order' and type(order) is int and (L is None or (type(L) is int and L > 0))
    accept = (ValueError,) if strict_order else ((TypeError, ValueError) if kind == 'order' else REJECT)
    obs0 = (kind, spec_label(order_s), label, spec_label(seed_s), rs)
    try:
        with warnings.catch_warnings():
            warnings.simplefilter('ignore')
            PRBS(order=order, len=L, seed=seed, return_seed=rs)
    except accept as e:
        in_tests = (kind, order_s, L_s, seed_s) in (('order', 8, None, None), ('len', 7, 0, None))
        return res(obs=obs0 + (type(e).__name__,), nontrivial=(False if in_tests else obs0), stats={'validation_cases': 1})
    except (TypeError, ValueError) as e:    # only reachable for kind == 'order'
        return res(viol=[('valid:order-wrong-exception', f'{what}: raised {type(e).__name__} ({e}), the statement requires ValueError')],
                   obs=obs0 + (type(e).__name__,), stats={'validation_cases': 1})
    key = {'len': 'valid:len-not-rejected', 'order': 'valid:unsupported-order-accepted', 'both': 'valid:bad-order-and-len-accepted'}[kind]
    return res(viol=[(key, f'{what}: returned normally')], obs=obs0 + ('returned',), stats={'validation_cases': 1})


# =========================================================================== start-state sets
def state_set(n, t, count):
    """`count` start states for the larger orders: unit vectors, all-ones, alternating patterns, then model states
    spread over the cycle (jump-ahead)"""
    N = (1 << n) - 1
    base = [1, N, 1 << (n - 1), 0x5555555555555555 & N, 0xAAAAAAAAAAAAAAAA & N] + [1 << j for j in range(n)]
    out, seen = [], set()
    for s in base:
        if s and s not in seen:
            seen.add(s)
            out.append(s)
    if len(out) < count:
        K = N // (count + 1)
        MK = matpow(companion(n, t), K)
        s = 1
        while len(out) < count:
            s = matvec(MK, s)
            if s not in seen:
                seen.add(s)
                out.append(s)
    return out[:count]


def chunks(xs, k):
    return [xs[i:i + k] for i in range(0, len(xs), k)]


# =========================================================================== model part (no library call)
def model_selfcheck(ctx):
    """the reference forms must agree with each other; primitivity of the documented polynomials"""
    prim = {}
    checks = 0
    for n in ORDERS:
        t = REF_TAPS[n]
        N = (1 << n) - 1
        # primitivity: characteristic polynomial of the recurrence a[m+n] = a[m+n-t] + a[m] is x^n + x^(n-t) + 1;
        # the ITU polynomial x^n + x^t + 1 is its reciprocal.  Both are computed (no appeal to the reciprocity theorem).
        pc = order_of_x_is_maximal(n, n - t)
        pi = order_of_x_is_maximal(n, t)
        M = companion(n, t)
        I = identity(n)
        m_full = matpow(M, N) == I
        m_cof = {str(q): matpow(M, N // q) != I for q in prime_factors(N)}
        prim[str(n)] = {'recurrence_charpoly': pc, 'itu_poly': pi, 'companion^N==I': m_full, 'companion^(N/q)!=I': m_cof}
        if not (pc['primitive'] and pi['primitive'] and m_full and all(m_cof.values())):
            raise RuntimeError(f'model: reference polynomial of order {n} is not primitive: {prim[str(n)]}')
        checks += 2 * (1 + len(pc['prime_factors'])) + 1 + len(m_cof)
        # stream forms agree: blocked recurrence == scalar recurrence == C walker; windows == matrix jump-ahead
        for seed in (1, N, (0x5555555555555555 & N), 1 << (n - 1)):
            for L in (1, n, 5 * n + 7, 4099):
                a = ref_stream(n, t, seed, L)
                b = ref_literal(n, t, seed, L)
                cb, cs = c_bits(n, t, seed, L)
                if not (np.array_equal(a, b) and np.array_equal(cb, a[n - 1:n - 1 + L])
                        and cs == window(a, n, L) == jump(n, t, seed, L)):
                    raise RuntimeError(f'model: reference forms disagree for order {n} seed {seed} L {L}')
                checks += 4
        if n <= 15:   # whole period: blocked == scalar, bit for bit
            if not np.array_equal(ref_stream(n, t, 1, 2 * N + 3), ref_literal(n, t, 1, 2 * N + 3)):
                raise RuntimeError(f'model: blocked and scalar recurrence differ over two periods of order {n}')
            checks += 1
    ctx.extra['primitivity'] = prim
    ctx.add_stats({'model_consistency_checks': checks})
    print(f'[C04] model: documented polynomials primitive for all {len(ORDERS)} orders '
          f'(x^(2^n-1)=1, x^((2^n-1)/q)!=1 for every prime q); reference forms agree ({checks} checks)', flush=True)


def check_walk(n, w, want_bitmap, cks_expected):
    P = (1 << n) - 1
    if w['period'] != P or w['ones'] != 1 << (n - 1) or w['zero'] != 0:
        raise RuntimeError(f'model: C walk of order {n}: {dict((k, v) for k, v in w.items() if k != "ck")}, expected period {P}')
    if want_bitmap and (w.get('distinct') != P or w.get('revisits') != 0):
        raise RuntimeError(f'model: C walk bitmap of order {n}: distinct={w.get("distinct")} revisits={w.get("revisits")}')
    if cks_expected is not None and w['ck'][:len(cks_expected)] != cks_expected[:len(w['ck'])]:
        raise RuntimeError(f'model: C walk checkpoints of order {n} differ from GF(2) jump-ahead')


# =========================================================================== driver
def run(ctx):
    quick = ctx.quick
    walker()                                   # (re)build the native model if missing / stale
    t_run = time.time()
    budget31 = float(os.environ.get('MCX_C04_BUDGET31', '600'))
    total_budget = float(os.environ.get('MCX_C04_BUDGET', '840'))

    ctx.rule('C04: (model) order of x modulo the documented polynomial computed = 2^n-1 for all 7 orders, literal C walk of the '
             'whole cycle (period, ones, visited bitmap); (fullcycle) ONE real call PRBS(n, 2^n-1, seed=1, return_seed=True) per order: '
             'bit-for-bit against the recurrence, state back to 1, 2^(n-1) ones, every non-zero state occurs once among the output '
             'windows; (segments) real calls started from GF(2) jump-ahead checkpoints must reproduce the reference and land on the '
             'next checkpoint; (steps) the one-call transition relation state --len--> (bits, state) from EVERY non-zero start state '
             '(orders with 2^n-1 <= bound) or a fixed set of start states, all lengths of the alphabet incl. >= one and two periods; '
             '(histories) all sequences of 1..3 resumed calls over {1,2,3,n-1,n,n+1,2n+3} + every 2-split of 2n+3 + every 3-split of '
             'n+2 + all 81 sequences of 4 calls over {1,2,n+1} (+ period-multiple sequences for n<=9), the returned state object fed '
             'back unchanged, against the single call; (seeds) residues/zero class incl. +-2^k, +-(2^k+-1) for every machine-word size k; '
             '(forms) seed/len/order given as every numpy integer dtype at its limits and around 2^n, bool, integral floats, 0-d arrays: '
             'the library may reject a type the statement does not name, but a call that returns must produce the sequence of the '
             'integer value, and the type return_seed=True itself hands out must be accepted; positional/keyword call forms; the same '
             'call under 7 configurations of the global grid; (validation) every way of not being a positive int x order {7,31} x seed x '
             'return_seed, 59 unsupported int orders + 16 typed ones x len {None,10,1,np.int64(10)} x seed {None,1,0,np.int64(5)} x '
             'return_seed, and order and len both invalid')
    ctx.assume('PRBS is a function of (order, len, seed) apart from what the histories part would expose; GF(2) algebra, numpy and the C '
               'compiler are trusted; the theory "order of x mod p = 2^n-1 => every non-zero start lies on the single cycle" is '
               'standard (Lidl/Niederreiter 8.28) and is confirmed literally by the C walk')

    ctx.rule('this tier: ' + ('full cycle on the real generator for n in {7,9,11,15,20}; n in {23,31}: C model over the whole cycle + 64 real '
                             'segments of 2^16 consecutive states each from checkpoints spread evenly over the cycle; every non-zero start state '
                             'in steps for n<=15, 64 states otherwise; histories from every non-zero state for n in {7,9}, 64 states otherwise'
                             if quick else
                             'full cycle on the real generator for n in {7,9,11,15,20,23} in one call each, n=23 again in 16 and n=31 in 256 chained '
                             'segments (time-budgeted, see caps_hit / lfsr.impl_segments); every non-zero start state in steps for n<=20, 4096 '
                             'states otherwise; histories from every non-zero state for n in {7,9,11}, 256 states otherwise'))
    # ---- native walks run in the background while the library is exercised
    walks = {}
    SEGLOG = {23: 19, 31: 27}
    for n in ORDERS:
        bitmap = (n <= 23) or not quick
        K = 1 << SEGLOG[n] if n in SEGLOG else 0
        walks[n] = (c_walk_start(n, REF_TAPS[n], K, bitmap), bitmap)

    model_selfcheck(ctx)

    lfsr = {'impl_fullcycle_orders': [], 'impl_segments': {}, 'model_walk': {}}
    impl_shifts_cycle = 0

    # ---- validation clauses
    ctx.pmap('validation', case_valid, validation_alphabet(), horizon=20)
    # ---- one-call transition relation
    all_bound = 15 if quick else 20            # every non-zero start state for n <= bound
    big_count = 64 if quick else 4096
    step_cases = []
    call_states = 0
    for n in ORDERS:
        t = REF_TAPS[n]
        P = (1 << n) - 1
        short = short_lens(n)
        if n <= all_bound:
            seeds = list(range(1, P + 1))
            per = 16 if n <= 15 else 256
            if n <= 9:
                lens = short + long_lens(P)
                step_cases += [(n, t, c, lens) for c in chunks(seeds, per)]
            else:
                step_cases += [(n, t, c, short) for c in chunks(seeds, per)]
                if n <= 15:
                    step_cases += [(n, t, c, long_lens(P)) for c in chunks(state_set(n, t, 64 if n == 11 else 16), 4)]
            call_states += P
        else:
            seeds = state_set(n, t, big_count)
            step_cases += [(n, t, c, short) for c in chunks(seeds, 8)]
            call_states += len(seeds)
    ctx.pmap('steps', case_steps, step_cases, horizon=300, recheck=4)

    # ---- full cycle on the implementation
    full_orders = [7, 9, 11, 15, 20] + ([] if quick else [23])
    pay = ctx.pmap('fullcycle', case_full, [(n, REF_TAPS[n]) for n in full_orders], horizon=600, chunk=1, recheck=3)
    for p in pay:
        if p:
            lfsr['impl_fullcycle_orders'].append(p)
            impl_shifts_cycle += (1 << p['n']) - 1

    # ---- resumed-call histories
    hist_all = (7, 9) if quick else (7, 9, 11)
    hist_cases = []
    for n in ORDERS:
        t = REF_TAPS[n]
        if n in hist_all:
            seeds = list(range(1, 1 << n))
            hist_cases += [(n, t, c, n <= 9) for c in chunks(seeds, 4)]
        else:
            hist_cases += [(n, t, c, False) for c in chunks(state_set(n, t, 64 if quick else 256), 4)]
    ctx.extra['history_alphabet'] = {str(n): len(history_alphabet(n, n <= 9)) for n in ORDERS}
    ctx.pmap('histories', case_hist, hist_cases, horizon=300, recheck=2)

    # ---- seed clause
    seed_cases = [(n, REF_TAPS[n], cls, label, s) for n in ORDERS for (cls, label, s) in seed_alphabet(n)]
    ctx.pmap('seeds', case_seed, seed_cases, horizon=20)

    # ---- typed argument forms (numpy scalars, bool, integral floats, 0-d arrays), call forms, gv independence
    ctx.pmap('forms', case_form, forms_alphabet(), horizon=20)

    # ---- orders 23 / 31 on segments from model checkpoints
    if quick:
        NSEG, SL = 64, 1 << 16
        for n in (23, 31):
            t = REF_TAPS[n]
            P = (1 << n) - 1
            K = P // NSEG
            starts = checkpoints(n, t, K, NSEG - 1)
            ends = [jump(n, t, s, SL) for s in starts]
            cases = [(n, t, i, i * K, starts[i], SL, ends[i], True) for i in range(NSEG)]
            pay = ctx.pmap(f'segments.n{n}', case_segment, cases, horizon=120, recheck=1)
            done = sum(p['L'] for p in pay if p)
            lfsr['impl_segments'][str(n)] = {'segments': NSEG, 'shifts_each': SL, 'spacing': K, 'states_on_impl': done,
                                            'fraction_of_cycle': done / P}
            impl_shifts_cycle += done
    else:
        n, t = 31, REF_TAPS[31]
        P = (1 << n) - 1
        LOG = 23
        K = 1 << LOG
        NSEG = 1 << (n - LOG)                      # 256 segments; the last one is one step shorter
        cps = checkpoints(n, t, K, NSEG - 1)
        cases = []
        for i in range(NSEG):
            L = K if i < NSEG - 1 else K - 1
            end = cps[i + 1] if i < NSEG - 1 else 1
            cases.append((n, t, i, i * K, cps[i], L, end, True))
        if jump(n, t, cps[-1], K - 1) != 1:
            raise RuntimeError('model: jump-ahead does not close the order-31 cycle')
        WAVE = 32
        t31 = time.time()
        # the whole thorough run should stay near 14 min: what the earlier parts used is taken off the order-31 budget
        budget31 = min(budget31, max(60.0, total_budget - (t31 - t_run)))
        ones = done = nseg = 0
        all_ok = True
        for w0 in range(0, NSEG, WAVE):
            tw = time.time()
            pay = ctx.pmap('segments.n31', case_segment, cases[w0:w0 + WAVE], horizon=900, chunk=1, recheck=0, quiet=True,
                           sample_every=WAVE)
            for p in pay:
                if p:
                    ones += p['ones']
                    done += p['L']
                    nseg += 1
                    all_ok &= p['ok']
            dtw = time.time() - tw
            used = time.time() - t31
            print(f'[C04] order 31: {nseg}/{NSEG} segments on the implementation, {done} states, wave {dtw:.0f}s, used {used:.0f}s', flush=True)
            if w0 + WAVE < NSEG and used + dtw > budget31:
                ctx.cap(f'order 31 on the implementation: {nseg} of {NSEG} segments of 2^{LOG} shifts ({done} of {P} states = '
                        f'{100.0 * done / P:.1f} %) fitted the {budget31:.0f}s budget; the rest is covered by the C model only')
                break
        lfsr['impl_segments']['31'] = {'segments_done': nseg, 'segments_total': NSEG, 'shifts_each': K, 'states_on_impl': done,
                                       'fraction_of_cycle': done / P, 'ones': ones, 'wall_s': round(time.time() - t31, 1)}
        impl_shifts_cycle += done
        if nseg == NSEG and all_ok and ones != 1 << (n - 1):
            ctx.violation('segments.n31', 'period:ones!=2^(n-1)', f'order 31: {ones} ones over the whole cycle, expected 2^30')
        # order 23 is also run in 16 segments of 2^19 (different call boundaries than the single full call)
        n, t = 23, REF_TAPS[23]
        K = 1 << 19
        cps = checkpoints(n, t, K, 15)
        cases = [(n, t, i, i * K, cps[i], K if i < 15 else K - 1, cps[i + 1] if i < 15 else 1, True) for i in range(16)]
        pay = ctx.pmap('segments.n23', case_segment, cases, horizon=600, chunk=1, recheck=0)
        o23 = sum(p['ones'] for p in pay if p)
        if all(p and p['ok'] for p in pay) and o23 != 1 << 22:
            ctx.violation('segments.n23', 'period:ones!=2^(n-1)', f'order 23: {o23} ones over the whole cycle in 16 segments')
        lfsr['impl_segments']['23'] = {'segments_done': 16, 'segments_total': 16, 'shifts_each': K, 'ones': o23}

    # ---- collect the native walks; literal counts and checkpoints against the algebra
    model_states = 0
    for n in ORDERS:
        proc, bitmap = walks[n]
        w = c_walk_collect(proc)
        exp = None
        if n in SEGLOG:
            K = 1 << SEGLOG[n]
            exp = checkpoints(n, REF_TAPS[n], K, len(w['ck']) - 1)
        check_walk(n, w, bitmap, exp)
        lfsr['model_walk'][str(n)] = {'period': w['period'], 'ones': w['ones'], 'distinct_states_bitmap': w.get('distinct'),
                                      'checkpoints_crosschecked': len(w['ck'])}
        model_states += w['period']
    print(f'[C04] C walks: literal period 2^n-1 and 2^(n-1) ones for all orders ({model_states} states); checkpoints == jump-ahead', flush=True)

    call_transitions = ctx.stats.get('step_transitions', 0) + ctx.stats.get('history_transitions', 0)
    lfsr.update({'model_states_walked': model_states, 'impl_shift_transitions_in_cycle_walks': impl_shifts_cycle,
                 'impl_shift_transitions_total': ctx.stats.get('impl_shifts', 0),
                 'call_level_transitions': call_transitions, 'call_level_start_states': call_states})
    ctx.extra['lfsr'] = lfsr
    # states: every LFSR state enumerated (model walk; the part also walked on the real generator is in traces / extra);
    # transitions: one per shift of those walks + one per real call of the call-level graph
    ctx.graph(states=model_states, transitions=model_states + call_transitions,
              traces=impl_shifts_cycle + call_transitions)
    print(f'[C04] states walked on the implementation (cycle walks): {impl_shifts_cycle}; real calls in steps/histories: '
          f'{call_transitions}; total real shifts {ctx.stats.get("impl_shifts", 0)}; elapsed {time.time() - t_run:.0f}s', flush=True)
