"""C06 - MZM obeys its passive transfer function; PM / laser phase terms are pure rotations.

Bounded-exhaustive exploration on the real `opticomlib.devices.MZM / PM / LASER`:

* part `mzm.lattice`    deviation lattice (k <= 2 quick, k <= 3 thorough) over
                        (drive values, bias, Vpi, loss, ER, pol) with the FULL product over
                        (layout x noise kind x drive container) at every lattice point;
* part `mzm.dtypes`     the same lattice with k-1 for the stored-dtype / scale / provenance layouts (real, int64, int32, uint8, bool,
                        float16, float32, complex64 fields whose noise has the same dtype; empty second polarisation; x1e-9, x1e6,
                        1e6 + small variation; mixed signal / noise dtypes; write-protected buffers; the return value of LASER);
* part `mzm.containers` lattice k-1 for the further drive containers (numpy int64 / int32 / float32 scalars, 0-d array, bool; int8,
                        uint8, int16, int32, bool, complex128 arrays, a write-protected strided view, tuple, electrical_signal WITH noise);
* part `mzm.ptypes`     lattice k-1 with bias / Vpi / loss_dB / ER_dB given as python int, numpy int64 / int32 / float64 / float32,
                        0-d array, bool;  part `mzm.grids`: lattice k-1 under other global grids;
* part `mzm.badpol`     pol values other than 'x' / 'y' (rejected, or the result of one of the two settings), numpy str 'x' / 'y';
* part `intlimits`      integer drive arrays holding the largest / smallest value of their dtype, bias 0 / +-1 V;
* part `pm.product`     full product (layout incl. the dtype layouts x noise x container x drive values x Vpi) for PM;
* part `pm.extra`       every container (incl. the further ones) x Vpi scalar types x grids on three layouts x three noise kinds;
* part `pm.seq2/seq3`   every ordered sequence of 2 / 3 PM operations from a drive alphabet
                        (additivity PM(PM(x,a),b) == PM(x,a+b));
* part `chain.mixed`    every ordered sequence of 2 / 3 device calls (3 MZM settings, 3 PM drives): each step against its own input;
* part `laser.product`  LASER under the scripted RNG: every phase-noise answer vector of the
                        answer alphabet x every offset on an FFT bin x powers x linewidths x grids x
                        time-vector kinds (float64 / float32 seconds, int64 / int32 / uint8 sample indices);
* part `laser.lattice`  deviation lattice (k <= 3 / 4) over those axes extended by four more grids, prime N, a far time offset, scalar
                        types of p / lw / df, extreme powers and RIN values (the phase terms stay pure rotations under RIN);
* part `laser.nyquist`  offsets beyond fs/2 (factors of fs, the neighbouring doubles of +-fs/2, integers) must raise ValueError;
* part `laser.gvseq`    every ordered pair of grids: a call, the grid reconfigured, then calls whose legality depends on the grid in force.

MZM and PM are memoryless per sample, so the alphabets are per-sample: the six field values
{0, 1, -1, j, 0.5-0.5j, 2} cycle with period 6 and the 17 drive levels {-2Vpi..2Vpi step Vpi/4}
with period 17; the record `prod102` (N = 102 = 6*17, gcd = 1) contains every (field value,
drive level) pair exactly once.  Record lengths are 1, 2, 3, 6, 13, 102, 1025: for every field length N (N = 1 included)
every drive length of {0, 2, 3, N-1, N+1, N+6, 2N} must raise ValueError in every waveform container; a length-1 array against
N > 1 is either rejected with ValueError or applied as the constant drive (the statement leaves that open).

Reference model (boring): out = in * sqrt(loss) * (cos th + j 10^(-ER/20) sin th),
th = pi (u + bias) / (2 Vpi) for MZM; out = in * exp(j pi u / Vpi) for PM; sqrt(P) times unit
phasors for LASER.  Tolerances are rounding bounds, see `_mzm_units/_pm_units` and notes/C06.md.
"""
from __future__ import annotations

import itertools

import numpy as np

from mcx.core.kernel import res, Horizon
from mcx.core.env import gv_reset, ScriptedRNG, scripted_rng

ID = 'C06'
LEVEL = 'exploration'
NONTRIVIAL = ('MZM/PM: input carries a non-zero noise component, or is two-polarisation, or the drive is a '
              'non-constant waveform / a non-float container, or >= 2 chained PM operations with a non-zero '
              'total drive; LASER: non-zero phase-noise answers or df != 0 (distinct observations counted)')

EPS = float(np.finfo(float).eps)
EPS32 = float(np.finfo(np.float32).eps)

# ----------------------------------------------------------------------------- alphabets
FIELD6 = [0, 1, -1, 1j, 0.5 - 0.5j, 2]
REAL6 = [0.0, 1.0, -1.0, 0.5, 2.0, -2.0]
INT6 = [0, 1, -1, 3, 2, -2]
LAYOUTS = ['1pol', '2pol', '1pol-real', '1pol-seeded']
# dtype classes of the STORED field (optical_signal keeps the dtype it is given; the noise of these layouts is cast to the
# same dtype so that the field really stays real / integer / single precision inside the library)
LAYOUTS_X = ['2pol-real', '1pol-int', '2pol-int32', '1pol-f32', '2pol-c64',
             # hardening pass: empty second polarisation; scaled fields (x1e-9, x1e6; noise scaled alike); large DC offset with a
             # small variation; noise of another dtype than the signal (attribute assignment, as in the MZM docstring example);
             # write-protected buffers; a field that is the RETURN VALUE of another device (LASER)
             '2pol-yzero', '1pol-1e-9', '2pol-1e6', '1pol-dc', '1pol-mixed', '2pol-ro', '1pol-laser',
             '1pol-u8', '1pol-f16', '2pol-bool']            # the remaining dtype kinds: unsigned, half precision, bool
LAYOUT_SCALE = {'1pol-1e-9': 1e-9, '2pol-1e6': 1e6}
LAYOUT_DTYPE = {'1pol-real': float, '2pol-real': float, '1pol-int': np.int64, '2pol-int32': np.int32,
                '1pol-f32': np.float32, '2pol-c64': np.complex64, '1pol-u8': np.uint8, '1pol-f16': np.float16, '2pol-bool': np.bool_}
NOISES = ['none', 'alt', 'zero', 'ramp', 'anti', 'seeded']   # 'alt' (+-0.1 alternating) has SUM == 0
NOISES_2POL = ['xonly', 'yonly']      # two-polarisation layouts only: noise in ONE polarisation, the other all-zero


def noises_of(layout, noises=None):
    noises = NOISES if noises is None else noises
    return list(noises) + (NOISES_2POL if layout.startswith('2pol') else [])
# drive levels in quarters of Vpi, simplest first: 0, +-Vpi, +-Vpi/2, +-2Vpi, ...
LEVELS = [1, 0, 4, -4, 2, -2, 8, -8, -1, 3, -3, 5, -5, 6, -6, 7, -7]
WAVES = {
    'ramp6': [0, 1, 2, 4, -3, 8],
    'alt01': [0, 4],
    'neg6': [0, -1, -2, -4, 3, -8],
    'const4': [4],
    'prod102': [(i % 17) - 8 for i in range(102)],
    'big6': [400, -400, 1000, -999, 4001, 0],      # 100 ... 1000 Vpi: the phase argument is hundreds of pi
}
# record lengths: 6 (one period of the field alphabet), 102, and the SHORT records 1, 2, 3 (a field of exactly one sample
# is the corner where "length 1" stops meaning "scalar drive")
WAVE_SPECS = [('wave', 'ramp6', 6), ('wave', 'alt01', 6), ('wave', 'neg6', 6), ('wave', 'const4', 6),
              ('lvl', 0, 6), ('wave', 'prod102', 102),
              ('lvl', 4, 1), ('lvl', -1, 1), ('wave', 'alt01', 2), ('lvl', 2, 2), ('wave', 'neg6', 3),
              ('wave', 'ramp6', 13), ('wave', 'big6', 6), ('wave', 'neg6', 1025)]     # prime length; huge drive; 1024 + 1
LVL_SPECS = [('lvl', k, 6) for k in LEVELS] + [('lvl', 4, 1), ('lvl', 1, 1), ('lvl', 2, 2)]
SCALAR_CONT = ['float', 'int', 'npfloat']
WAVE_CONT_MZM = ['ndarray', 'ndarray_int', 'electrical_signal', 'list',
                 'ndarray_f32', 'electrical_signal_int', 'electrical_signal_cplx']
WAVE_CONT_PM = ['ndarray', 'ndarray_int', 'electrical_signal', 'electrical_signal_noisy',
                'ndarray_f32', 'electrical_signal_int', 'electrical_signal_cplx']
# hardening pass: further scalar types (numpy scalars, 0-d array, bool) and array dtypes / layouts (small and unsigned integers, bool,
# complex with zero imaginary part, float16, a write-protected non-contiguous view, tuple, electrical_signal WITH noise)
SCALAR_CONT_X = ['npint', 'npint32', 'npf32', 'zero_d', 'bool']
WAVE_CONT_X_MZM = ['ndarray_i8', 'ndarray_u8', 'ndarray_i16', 'ndarray_i32', 'ndarray_bool', 'ndarray_c128', 'ndarray_ro',
                   'tuple', 'electrical_signal_noisy']
WAVE_CONT_X_PM = ['ndarray_i8', 'ndarray_u8', 'ndarray_i16', 'ndarray_i32', 'ndarray_bool', 'ndarray_c128', 'ndarray_ro',
                  'ndarray_f16']
# integer-valued containers: dtype and the range the voltages are clipped to (rint first)
INT_RANGE = {'int': (None, -2.0 ** 62, 2.0 ** 62), 'ndarray_int': (np.int64, -2.0 ** 62, 2.0 ** 62),
             'electrical_signal_int': (np.int64, -2.0 ** 62, 2.0 ** 62), 'npint': (np.int64, -2.0 ** 62, 2.0 ** 62),
             'npint32': (np.int32, -2.0 ** 31, 2.0 ** 31 - 1), 'bool': (None, 0, 1),
             'ndarray_i8': (np.int8, -128, 127), 'ndarray_u8': (np.uint8, 0, 255), 'ndarray_i16': (np.int16, -32768, 32767),
             'ndarray_i32': (np.int32, -2.0 ** 31, 2.0 ** 31 - 1), 'ndarray_bool': (np.bool_, 0, 1)}
INT_CONT = tuple(INT_RANGE)
ES_CONT = ('electrical_signal', 'electrical_signal_noisy', 'electrical_signal_int', 'electrical_signal_cplx')
# spelling of the numeric parameters (bias, Vpi, loss_dB, ER_dB; Vpi of PM; p, lw, df of LASER): the value in another scalar type
# whenever it is exactly representable there.  Unsigned and 8/16-bit numpy scalars are NOT parameter forms of this check (coordinator
# decision: the statement does not speak about parameter types; -np.uint8(x) wraps inside MZM, see notes "outside the statement")
PTYPES = ['float', 'int', 'npint64', 'npint32', 'npf64', 'npf32', 'zero_d', 'bool']
# global-grid configurations the devices are called under (MZM / PM never read the grid with BW=None: results must not depend on it)
GRIDS_MP = [{}, {'sps': 8, 'R': 1e9, 'wavelength': 1310e-9, 'N': 4}, {'R': 3e9, 'fs': 10e9}]


def spell(kind, v):
    """the number v as the scalar type `kind` when it is exactly representable there, else v itself"""
    f = float(v)
    integral = np.isfinite(f) and f == np.rint(f)
    if kind == 'int' and integral:
        return int(f)
    if kind == 'npint64' and integral and abs(f) < 2.0 ** 62:
        return np.int64(f)
    if kind == 'npint32' and integral and abs(f) < 2.0 ** 31:
        return np.int32(f)
    if kind == 'bool' and f in (0.0, 1.0):
        return bool(f)
    if kind == 'npf32' and float(np.float32(f)) == f:
        return np.float32(f)
    if kind == 'npf64':
        return np.float64(f)
    if kind == 'zero_d':
        return np.array(f)
    return v


def prec_of(conts):
    """working precision of the library arithmetic in units of the double eps: a float32 drive array makes numpy evaluate
    theta / the phase and cos/sin/exp in single precision (same operation count, every rounding is a float32 rounding);
    a float16 array times 1j is complex64 (PM only; MZM would evaluate cos/sin in HALF precision, not enumerated)"""
    return EPS32 / EPS if any(c in ('ndarray_f32', 'ndarray_f16', 'npf32') for c in conts) else 1.0


def wrong_lengths(N, cont):
    """drive lengths that do NOT match a field of N samples: empty, 2, 3, N-1, N+1, N+6, 2N (length 1 against N > 1 is
    treated apart, see `len1`); an empty electrical_signal cannot be constructed, so 0 is left out for those containers"""
    bad = set([0, 2, 3, N - 1, N + 1, N + 6, 2 * N]) - {N, 1, -1}
    if cont in ES_CONT:
        bad.discard(0)
    return sorted(bad)

BIAS = [0.0, 0.5, -1.0, 0.3]          # in units of Vpi
VPI = [5.0, 1.7, 1, 1e-3]             # 1 is a python int on purpose; 1e-3: extreme but legal (drives scale with Vpi)
TINY = 5e-324                         # the smallest positive double: "one ulp inside" the lower limit 0
LOSS = [0.0, 2.0, 10.0, 0.5, TINY, 200.0]          # dB; both ends of loss_dB >= 0 and an extreme value
ER = [26.0, 0.0, 10.0, 60.0, 12.5, TINY, float(np.nextafter(60.0, 0.0))]    # dB; both limits exactly and one ulp inside
POL = ['x', 'y']
# pol values that are NOT one of the two settings (several contain a valid token); ('npstr', 'y') is numpy's str subclass: VALID
BAD_POL = ['X', 'Y', 'z', '', 'xy', 'yx', 'xx', 'x ', ' y', 'x,y', 'pol', 0, 1, None, True, ('x',)]


def is_scalar_cont(c):
    return c in SCALAR_CONT or c in SCALAR_CONT_X


# ----------------------------------------------------------------------------- builders
def _cyc(vals, N, shift=0):
    off = 1 if N < 6 else 0          # short records start at the first NON-ZERO value of the alphabet
    return [vals[(i + off + shift) % 6] for i in range(N)]


def build_field(layout, N, seed):
    if layout == '1pol':
        return np.array(_cyc(FIELD6, N), complex)
    if layout == '2pol':
        return np.array([_cyc(FIELD6, N), _cyc(FIELD6, N, 1)], complex)
    if layout == '1pol-real':
        return np.array(_cyc(REAL6, N), float)
    if layout == '2pol-real':
        return np.array([_cyc(REAL6, N), _cyc(REAL6, N, 1)], float)
    if layout == '1pol-int':
        return np.array(_cyc(INT6, N), np.int64)
    if layout == '2pol-int32':
        return np.array([_cyc(INT6, N), _cyc(INT6, N, 1)], np.int32)
    if layout == '1pol-f32':
        return np.array(_cyc(REAL6, N), np.float32)
    if layout == '2pol-c64':
        return np.array([_cyc(FIELD6, N), _cyc(FIELD6, N, 1)], np.complex64)
    if layout == '1pol-seeded':
        r = np.random.RandomState(seed % (2 ** 31))
        return r.standard_normal(N) + 1j * r.standard_normal(N)
    if layout == '1pol-u8':
        return np.array([abs(v) for v in _cyc(INT6, N)], np.uint8)
    if layout == '1pol-f16':
        return np.array(_cyc(REAL6, N), np.float16)
    if layout == '2pol-bool':
        return np.array([_cyc(INT6, N), _cyc(INT6, N, 1)]) != 0
    if layout == '2pol-yzero':                       # second polarisation present but empty
        return np.array([_cyc(FIELD6, N), [0] * N], complex)
    if layout in LAYOUT_SCALE:                       # the same field values at another scale (the devices are linear in the field)
        base = build_field('2pol' if layout.startswith('2pol') else '1pol', N, seed)
        return base * LAYOUT_SCALE[layout]
    if layout == '1pol-dc':                          # large DC offset with a small variation
        return 1e6 + 1e-3 * np.array(_cyc(FIELD6, N), complex)
    if layout == '1pol-mixed':
        return np.array(_cyc(FIELD6, N), complex)
    if layout == '2pol-ro':
        return build_field('2pol', N, seed)
    raise KeyError(layout)


def build_noise(kind, layout, N, seed):
    n = _build_noise(kind, layout, N, seed)
    dt = LAYOUT_DTYPE.get(layout) if layout in LAYOUTS_X else None     # '1pol-real' keeps its historical complex noise
    if n is not None and layout in LAYOUT_SCALE:
        return n * LAYOUT_SCALE[layout]
    if n is not None and layout == '1pol-mixed':                        # real single-precision noise next to a complex128 signal
        return (n.real + n.imag).astype(np.float32)
    if n is None or dt is None:
        return n
    if dt is np.complex64:
        return n.astype(np.complex64)
    r = n.real + n.imag                                                 # non-zero wherever n is
    if dt in (np.int64, np.int32):
        return np.rint(20 * r).astype(dt)                               # 'alt' -> +-2, 'ramp' -> 0,0,0,1,1,1, ...
    if dt is np.uint8:
        return np.rint(20 * np.abs(r)).astype(dt)
    if dt is np.bool_:
        return np.rint(20 * r) != 0
    return r.astype(dt)


def _build_noise(kind, layout, N, seed):
    two = layout.startswith('2pol')
    i = np.arange(N)
    if kind == 'none':
        return None
    if kind == 'zero':
        n = np.zeros(N, complex)
        return np.array([n, n]) if two else n
    if kind == 'alt':                      # +-0.1 alternating: np.sum(...) == 0 exactly (N even)
        n = (0.1 * np.where(i % 2 == 0, 1.0, -1.0)).astype(complex)
        return np.array([n, 1j * n[::-1]]) if two else n
    if kind == 'ramp':
        n = 0.1 * (i + 1) / N * (1 - 0.5j)
        return np.array([n, 1j * n[::-1]]) if two else n
    if kind == 'anti':                     # 2-pol: x = ramp, y = -ramp (zero sum across polarisations)
        n = 0.1 * (i + 1) / N * (1 - 0.5j)
        return np.array([n, -n]) if two else np.full(N, 0.1 + 0j)
    if kind == 'seeded':
        r = np.random.RandomState((seed + 7919) % (2 ** 31))
        sh = (2, N) if two else (N,)
        return 0.1 * (r.standard_normal(sh) + 1j * r.standard_normal(sh))
    if kind in ('xonly', 'yonly'):         # noise in ONE polarisation only, the other one all-zero
        n = 0.1 * (i + 1) / N * (1 - 0.5j)
        z = np.zeros(N, complex)
        return np.array([n, z] if kind == 'xonly' else [z, n])
    raise KeyError(kind)


def drive_values(spec, Vpi, cont, N=None):
    """float array (length N) of the drive voltages of `spec`, as the container `cont` will carry them"""
    kind, what, n = spec
    N = n if N is None else N
    if kind == 'lvl':
        q = np.full(N, float(what))
    else:
        w = WAVES[what]
        q = np.array([w[i % len(w)] for i in range(N)], float)
    u = q / 4.0 * float(Vpi)
    if cont in INT_CONT:
        _, lo, hi = INT_RANGE[cont]
        u = np.clip(np.rint(u), lo, hi)             # the nearest voltages the integer container can carry
    if cont in ('ndarray_f32', 'npf32'):
        u = u.astype(np.float32).astype(float)      # the voltages the float32 container really carries
    if cont == 'ndarray_f16':
        u = u.astype(np.float16).astype(float)
    return u


def drive_noise(n):
    """the electrical noise component carried by the container `electrical_signal_noisy`"""
    return 0.3 * (1 - 2 * (np.arange(n) % 2)) + 0.05 * np.arange(n)


def realise(u, cont):
    """wrap the voltages u (float array) in the container type; ints fall back to the float
    counterpart when the values are not integers (used only for the derived on/off and +2Vpi calls)"""
    from opticomlib.typing import electrical_signal
    u = np.asarray(u, float)
    if cont in INT_CONT:
        _, lo, hi = INT_RANGE[cont]
        if not bool(np.all((u == np.rint(u)) & (u >= lo) & (u <= hi))):
            cont = 'electrical_signal' if cont == 'electrical_signal_int' else ('float' if is_scalar_cont(cont) else 'ndarray')
    if cont in ('npf32', 'ndarray_f32', 'ndarray_f16'):
        dt = np.float16 if cont == 'ndarray_f16' else np.float32
        if not bool(np.all(u.astype(dt).astype(float) == u)):
            cont = 'float' if cont == 'npf32' else 'ndarray'
    if cont == 'float':
        return float(u[0])
    if cont == 'int':
        return int(u[0])
    if cont == 'npfloat':
        return np.float64(u[0])
    if cont == 'npint':
        return np.int64(u[0])
    if cont == 'npint32':
        return np.int32(u[0])
    if cont == 'npf32':
        return np.float32(u[0])
    if cont == 'zero_d':
        return np.array(float(u[0]))
    if cont == 'bool':
        return bool(u[0])
    if cont in ('ndarray_i8', 'ndarray_u8', 'ndarray_i16', 'ndarray_i32', 'ndarray_bool'):
        return np.array(u).astype(INT_RANGE[cont][0])
    if cont == 'ndarray_f16':
        return np.array(u, np.float16)
    if cont == 'ndarray_c128':                 # complex dtype, zero imaginary part
        return np.array(u, complex)
    if cont == 'ndarray_ro':                   # write-protected, non-contiguous view of a float64 buffer
        b = np.repeat(np.array(u, float), 2)
        b.flags.writeable = False
        return b[::2]
    if cont == 'tuple':
        return tuple(float(v) for v in u)
    if cont == 'ndarray':
        return np.array(u, float)
    if cont == 'ndarray_int':
        return np.array(u).astype(np.int64)
    if cont == 'ndarray_f32':
        return np.array(u, np.float32)
    if cont == 'electrical_signal':
        return electrical_signal(np.array(u, float))
    if cont == 'electrical_signal_int':        # electrical_signal keeps the integer dtype of its argument
        return electrical_signal(np.array(u).astype(np.int64))
    if cont == 'electrical_signal_cplx':       # what electrical_signal('1 2 3') / a complex baseband waveform stores: x + 0j
        return electrical_signal(np.array(u, complex))
    if cont == 'electrical_signal_noisy':      # a drive that carries its own (electrical) noise component
        uu = np.array(u, float)
        return electrical_signal(uu, drive_noise(uu.size))
    if cont == 'list':
        return [float(v) for v in u]
    raise KeyError(cont)


def make_input(layout, noise, N, seed):
    from opticomlib.typing import optical_signal
    if layout == '1pol-laser':
        # the RETURN VALUE of another device: LASER on the present grid, offset fs/8, 1 mW; the noise is attached afterwards
        from opticomlib.devices import LASER
        from opticomlib.typing import gv
        x = LASER(np.arange(N) * gv.dt, 0.0, df=gv.fs / 8)
        n = build_noise(noise, '1pol', N, seed)
        if n is not None:
            x.noise = 0.03 * n
    elif layout == '1pol-mixed':
        x = optical_signal(build_field(layout, N, seed))
        n = build_noise(noise, layout, N, seed)
        if n is not None:
            x.noise = n                     # attribute assignment (as the MZM docstring example does): no dtype harmonisation
    else:
        s = build_field(layout, N, seed)
        n = build_noise(noise, layout, N, seed)
        x = optical_signal(s, n)
    if layout == '2pol-ro':                 # write-protected buffers: the devices must not need to write into their operand
        x.signal.flags.writeable = False
        if x.noise is not None:
            x.noise.flags.writeable = False
    # the reference works on the STORED values, converted exactly to complex128 (every stored dtype embeds exactly)
    s_in = np.array(x.signal).astype(complex)
    n_in = None if x.noise is None else np.array(x.noise).astype(complex)
    return x, s_in, n_in


def lib_call(fn, *a, **k):
    """call a library function; returns (result, None) or (None, exception)"""
    try:
        with scripted_rng(ScriptedRNG()):
            return fn(*a, **k), None
    except Horizon:
        raise
    except Exception as e:  # noqa - every exception type is data here
        return None, e


def _bytes(a):
    if a is None:
        return b'None'
    a = np.asarray(a)
    return a.dtype.str.encode() + repr(a.shape).encode() + a.tobytes()


def _excess(out, ref, scale, units):
    """max over samples of |out-ref| / (units*eps*scale) (0/0 := 0, x/0 := inf)"""
    d = np.abs(np.asarray(out) - ref)
    lim = units * EPS * scale
    bad = d > lim
    if not bad.any():
        return None
    i = int(np.argmax(np.where(lim > 0, d / np.where(lim > 0, lim, 1), np.where(d > 0, np.inf, 0))))
    idx = np.unravel_index(i, d.shape)
    return idx, np.asarray(out)[idx], ref[idx], float(d[idx]), float(lim[idx])


def _nz(a):
    return a is not None and bool(np.any(a != 0))


# ----------------------------------------------------------------------------- tolerances
def _mzm_units(theta_max):
    """|out - ref| <= units*eps*sqrt(loss)*|in|.
    theta = pi/2/Vpi*(u+bias): 4 roundings (u+bias, pi/2, /Vpi, *) -> |d theta| <= 2 eps |theta|; cos/sin 1 ulp each,
    eta and sqrt(loss) (pow, sqrt) 3 eps, eta/2*sin and the complex sum 2 eps, complex product in*h 3 eps:
    (2|theta| + 9) eps per evaluation path; library and reference each take one path -> x2; safety factor 2."""
    return 4.0 * (2.0 * theta_max + 9.0)


def _pm_units(phis, phi_tot):
    """|out - ref| <= units*eps*|in|.
    phi = u*pi/Vpi: 3 roundings -> |d phi| <= 1.5 eps |phi|; exp 1 ulp per component (1.5 eps), complex product 3 eps:
    (1.5|phi_i| + 4.5) eps per library operation; the reference with the summed drive costs (1.5|phi_tot| + 4.5) eps plus
    the n roundings of the sum of n drives (each <= 0.5 eps |phi_tot|); safety factor 2."""
    n = len(phis)
    return 2.0 * (sum(1.5 * p + 4.5 for p in phis) + 1.5 * phi_tot + 4.5 + 0.5 * n * phi_tot)


# ----------------------------------------------------------------------------- MZM
def mzm_case(case):
    from opticomlib.devices import MZM
    from opticomlib.typing import gv as _gv
    gv_reset(**case.get('grid', {}))
    layout, noise, cont, spec = case['layout'], case['noise'], case['cont'], case['drive']
    N, seed = case['N'], case['seed']
    pt = case.get('pt', 'float')
    # the numeric parameters in the scalar type `pt` (python float / int / bool, numpy int64 / int32 / float64 / float32, 0-d array) wherever the value
    # is exactly representable there; the reference uses the float values
    Vpi_s = spell(pt, case['Vpi'])
    Vpi = case['Vpi'] if pt == 'float' else float(Vpi_s)
    loss_dB, ER_dB, pol = case['loss'], case['ER'], case['pol']
    bias = case['bias'] * float(Vpi)
    bias_s, loss_s, ER_s = spell(pt, bias), spell(pt, loss_dB), spell(pt, ER_dB)
    if pt == 'float':
        Vpi_s = Vpi                                                     # the alphabet member itself (1 is a python int)
    x, s_in, n_in = make_input(layout, noise, N, seed)
    u = drive_values(spec, Vpi, cont, N)
    viol, stats = [], {'mzm_calls': 0, f'mzm_field_dtype_{x.signal.dtype.name}': 1}
    tag = f'{cont}-drive'
    prec = max(prec_of([cont]), EPS32 / EPS if pt == 'npf32' else 1.0)
    pdesc = '' if pt == 'float' else f', parameter types={pt}: bias={bias_s!r}, Vpi={Vpi_s!r}, loss_dB={loss_s!r}, ER_dB={ER_s!r}'

    def fail(key, msg):
        viol.append((key, f'MZM(layout={layout}, noise={noise}, N={N}, drive={cont}:{spec[:2]} u={_short(u)}, bias={bias}, '
                          f'Vpi={Vpi!r}, loss_dB={loss_dB}, ER_dB={ER_dB}, pol={pol}{pdesc}): {msg}'))

    def call(d, p=pol):
        stats['mzm_calls'] += 1
        return lib_call(MZM, x, d, bias=bias_s, Vpi=Vpi_s, loss_dB=loss_s, ER_dB=ER_s, pol=p)

    def run(uu, c=cont):
        return call(realise(uu, c))

    d0 = realise(u, cont)                  # ONE drive object: passed again to the later calls on the same input object
    out, exc = call(d0)
    if exc is not None:
        fail(f'MZM:{tag}:{type(exc).__name__}', f'raised {type(exc).__name__}: {exc}')
        return res(viol=viol, obs=('EXC', type(exc).__name__), nontrivial=True, stats=stats)

    two = s_in.ndim == 2
    sel = 0 if pol == 'x' else 1
    rl = 10.0 ** (-loss_dB / 20.0)
    r = 10.0 ** (-ER_dB / 20.0)
    osig = np.asarray(out.signal)
    onoise = None if out.noise is None else np.asarray(out.noise)
    obs = (_bytes(osig), _bytes(onoise))
    if osig.shape != s_in.shape or (onoise is not None and onoise.shape != s_in.shape):
        fail('MZM:shape', f'output shape {osig.shape}/{None if onoise is None else onoise.shape} != input shape {s_in.shape}')
        return res(viol=viol, obs=obs, nontrivial=True, stats=stats)
    pick = (lambda a: a[sel]) if two else (lambda a: a)      # the modulated polarisation
    scale_s = rl * np.abs(s_in)

    def model(uu):
        th = np.pi * (uu + bias) / (2.0 * float(Vpi))
        return th, rl * (np.cos(th) + 1j * r * np.sin(th)), prec * _mzm_units(float(np.max(np.abs(th))) + np.pi)   # +pi: shifted drive

    theta, h, units = model(u)
    drive_noise_used = False
    if cont == 'electrical_signal_noisy':
        # The statement does not say whether the NOISE COMPONENT OF THE DRIVE takes part in the modulation.  Both readings are
        # accepted, but nothing else: the field is modulated by u = drive.signal or by u = drive.signal + drive.noise - and the
        # accompanying optical noise by the SAME transfer function.
        th2, h2, units2 = model(u + drive_noise(N))
        if _excess(pick(osig), pick(s_in * h), pick(scale_s), units) and not _excess(pick(osig), pick(s_in * h2), pick(scale_s), units2):
            theta, h, units, drive_noise_used = th2, h2, units2, True
        stats['mzm_noisy_drive_noise_' + ('used' if drive_noise_used else 'ignored')] = 1

    ref_s = s_in * h

    # --- transfer function on the signal (selected polarisation) ---
    e = _excess(pick(osig), pick(ref_s), pick(scale_s), units)
    if e:
        fail('MZM:transfer:signal', f'sample {e[0]}: out={e[1]} expected in*h={e[2]} |diff|={e[3]:.3g} > {units:.0f} eps*sqrt(loss)*|in|={e[4]:.3g}')
    # --- passivity ---
    if np.any(np.abs(osig) > scale_s * (1 + 16 * EPS * prec)):
        i = np.unravel_index(int(np.argmax(np.abs(osig) - scale_s)), osig.shape)
        fail('MZM:passivity', f'sample {i}: |out|={abs(osig[i])!r} > sqrt(loss)*|in|={scale_s[i]!r}')
    # --- unselected polarisation extinguished ---
    if two and np.any(osig[1 - sel] != 0):
        fail('MZM:pol-not-extinguished:signal', f'pol={pol}: unselected polarisation of the signal is {_short(osig[1 - sel])}')
    # --- noise modulated exactly like the signal ---
    if _nz(n_in):
        zs = 'zero-sum-noise' if np.sum(n_in) == 0 else 'nonzero-sum-noise'
        if onoise is None:
            if _nz(pick(n_in)):          # (noise only in the unselected polarisation: the expected output noise is all-zero, None is as good)
                fail(f'MZM:noise-dropped:{zs}', 'input noise is non-zero but output.noise is None')
        else:
            ref_n = n_in * h
            scale_n = rl * np.abs(n_in)
            e = _excess(pick(onoise), pick(ref_n), pick(scale_n), units)
            if e:
                fail('MZM:transfer:noise', f'noise sample {e[0]}: out={e[1]} expected noise*h={e[2]} |diff|={e[3]:.3g} > tol {e[4]:.3g} '
                                           f'(accompanying noise must be modulated exactly like the signal)')
            if np.any(np.abs(onoise) > scale_n * (1 + 16 * EPS * prec)):
                fail('MZM:passivity:noise', 'noise component amplified: |noise_out| > sqrt(loss)*|noise_in|')
            if two and np.any(onoise[1 - sel] != 0):
                fail('MZM:pol-not-extinguished:noise', f'pol={pol}: unselected polarisation of the noise is {_short(onoise[1 - sel])}')
    elif onoise is not None and np.any(onoise != 0):
        fail('MZM:noise-created', f'input noise absent/zero but output noise is {_short(onoise)}')

    # --- containers give identical results (against the float counterpart holding the same voltages) ---
    if cont not in ('float', 'ndarray') and not drive_noise_used:
        base = 'float' if is_scalar_cont(cont) else 'ndarray'
        o2, exc2 = run(u, base)
        if exc2 is None:
            d = _excess(np.asarray(o2.signal), osig, scale_s, 2 * units)
            dn = None
            if onoise is not None and o2.noise is not None:
                dn = _excess(np.asarray(o2.noise), onoise, rl * np.abs(n_in), 2 * units)
            if d or dn or ((onoise is None) != (o2.noise is None) and _nz(pick(n_in))):
                fail(f'MZM:containers-differ:{cont}', f'result with a {cont} drive differs from the result with the same voltages as {base}')
            stats['mzm_container_bitwise_equal'] = int(_bytes(o2.signal) == _bytes(osig))
            stats['mzm_container_pairs'] = 1

    # --- output power is 2*Vpi periodic in the drive ---
    o3, exc3 = run(u + 2.0 * float(Vpi))
    if exc3 is not None:
        fail(f'MZM:{tag}:{type(exc3).__name__}', f'drive u+2Vpi raised {type(exc3).__name__}: {exc3}')
    else:
        p1, p3 = np.abs(osig) ** 2, np.abs(np.asarray(o3.signal)) ** 2
        if np.any(np.abs(p1 - p3) > 2 * units * EPS * scale_s ** 2):
            i = np.unravel_index(int(np.argmax(np.abs(p1 - p3))), p1.shape)
            fail('MZM:periodicity', f'sample {i}: power at u is {p1[i]!r}, at u+2Vpi {p3[i]!r}')
        if onoise is not None and o3.noise is not None and n_in is not None:
            q1, q3 = np.abs(onoise) ** 2, np.abs(np.asarray(o3.noise)) ** 2
            if np.any(np.abs(q1 - q3) > 2 * units * EPS * (rl * np.abs(n_in)) ** 2):
                fail('MZM:periodicity:noise', 'noise power at u and u+2Vpi differ')

    # --- on/off power ratio equals ER_dB ---
    on, e_on = run(np.full(N, -bias))
    off, e_off = run(np.full(N, float(Vpi) - bias))
    if e_on is not None or e_off is not None:
        ee = e_on or e_off
        fail(f'MZM:{tag}:{type(ee).__name__}', f'constant on/off drive raised {type(ee).__name__}: {ee}')
    elif not drive_noise_used:
        p_on, p_off = np.abs(np.asarray(on.signal)) ** 2, np.abs(np.asarray(off.signal)) ** 2
        er_lin = 10.0 ** (ER_dB / 10.0)
        lim = 64 * EPS * prec * scale_s ** 2   # P_on = loss |in|^2 (1 +- few eps); cos(pi/2)^2 * ER_lin <= 1e-24 is far below
        if np.any(np.abs(p_on - er_lin * p_off) > lim):
            i = np.unravel_index(int(np.argmax(np.abs(p_on - er_lin * p_off) - lim)), p_on.shape)
            ratio = p_on[i] / p_off[i] if p_off[i] else float('inf')
            fail('MZM:onoff-ratio', f'sample {i}: P(theta=0)/P(theta=pi/2) = {ratio!r} ({10 * np.log10(ratio):.6f} dB), ER_dB = {ER_dB}')

    # --- mismatched lengths raise ValueError (every length of wrong_lengths(N), whatever the field length) ---
    if not is_scalar_cont(cont):
        for Nbad in wrong_lengths(N, cont):
            ubad = drive_values(spec, Vpi, cont, Nbad)
            ob, ex = run(ubad)
            stats['mzm_wrong_length_calls'] = stats.get('mzm_wrong_length_calls', 0) + 1
            if ex is None:
                fail(f'MZM:wrong-length-accepted:{cont}', f'{cont} drive of length {Nbad} for a field of length {N} was accepted '
                                                          f'(output shape {np.shape(ob.signal)}, input shape {s_in.shape})')
            elif not isinstance(ex, ValueError):
                fail(f'MZM:{tag}:{type(ex).__name__}', f'drive of length {Nbad} raised {type(ex).__name__} instead of ValueError: {ex}')
        # --- a length-1 array against N > 1 samples: the statement leaves open whether that is a "scalar" drive or a
        #     "mismatched length"; it is either rejected with ValueError or applied as the constant drive, nothing else ---
        if N > 1:
            u1 = drive_values(spec, Vpi, cont, 1)
            o1, ex = run(u1)
            if ex is not None:
                stats['mzm_len1_drive_rejected'] = 1
                if not isinstance(ex, ValueError):
                    fail(f'MZM:len1-drive:{type(ex).__name__}', f'{cont} drive of length 1 for a field of length {N} raised {type(ex).__name__}: {ex}')
            else:
                stats['mzm_len1_drive_accepted'] = 1
                ok1 = False
                o1s = np.asarray(o1.signal)
                for u1v in ([u1[0]] + ([u1[0] + drive_noise(1)[0]] if cont == 'electrical_signal_noisy' else [])):
                    th1 = np.pi * (u1v + bias) / (2.0 * float(Vpi))
                    ref1 = s_in * (rl * (np.cos(th1) + 1j * r * np.sin(th1)))
                    if two:
                        ref1[1 - sel] = 0
                    ok1 = ok1 or (o1s.shape == s_in.shape and not _excess(o1s, ref1, scale_s, units))
                if not ok1:
                    fail('MZM:len1-drive:not-the-constant-drive', f'{cont} drive of length 1 ({u1[0]!r}) for a field of length {N} was accepted '
                                                                  f'but the output (shape {o1s.shape}) is not in*h(u) sample by sample')

    # --- sweep on the SAME input object and the SAME drive object: the other polarisation setting, then the first call again
    #     after the global grid was reconfigured (MZM without BW does not depend on the grid): both follow from out = in*h ---
    if two:
        op, exp_ = call(d0, 'y' if pol == 'x' else 'x')
        if exp_ is not None:
            fail(f'MZM:{tag}:{type(exp_).__name__}', f'second call on the same input object with the other pol raised {type(exp_).__name__}: {exp_}')
        else:
            ops_ = np.asarray(op.signal)
            if ops_.shape != s_in.shape or _excess(ops_[1 - sel], ref_s[1 - sel], scale_s[1 - sel], units) or np.any(ops_[sel] != 0):
                fail('MZM:shared-input-sweep', f'second call on the SAME input object with pol={"y" if pol == "x" else "x"}: the output is not '
                                               f'in*h on that polarisation and 0 on the other one (was the operand modified by the first call?)')
    import warnings
    with warnings.catch_warnings():
        warnings.simplefilter('ignore')
        _gv(sps=4, R=2e9, wavelength=1300e-9)
    orr, exr = call(d0)
    if exr is not None:
        fail(f'MZM:{tag}:{type(exr).__name__}', f'the same call repeated (same objects, grid reconfigured to sps=4, R=2e9) raised {type(exr).__name__}: {exr}')
    elif _bytes(orr.signal) != obs[0] or _bytes(orr.noise) != obs[1]:
        fail('MZM:repeat-call-differs', 'the same call repeated with the same input and drive objects after the global grid was reconfigured '
                                        '(sps=4, R=2e9, 1300 nm) returns a different result')

    nt = _nz(n_in) or two or not is_scalar_cont(cont) or cont != 'float'
    return res(viol=viol, obs=obs, nontrivial=bool(nt), stats=stats)


def _short(a):
    a = np.asarray(a).ravel()
    return np.array2string(a[:6], precision=4, separator=',') + ('...' if a.size > 6 else '')


# ----------------------------------------------------------------------------- PM (single op and sequences)
def pm_case(case):
    """case['ops'] = [(container, spec), ...] applied in order: y = PM(...PM(PM(x,u1),u2)...)"""
    from opticomlib.devices import PM
    from opticomlib.typing import gv as _gv
    gv_reset(**case.get('grid', {}))
    layout, noise, N, seed = case['layout'], case['noise'], case['N'], case['seed']
    vt = case.get('vt', 'float')                     # scalar type Vpi is given in
    Vpi_s = case['Vpi'] if vt == 'float' else spell(vt, case['Vpi'])
    Vpi = case['Vpi'] if vt == 'float' else float(Vpi_s)
    ops = case['ops']
    x, s_in, n_in = make_input(layout, noise, N, seed)
    viol, stats = [], {'pm_calls': 0, f'pm_field_dtype_{x.signal.dtype.name}': 1}
    prec = max(prec_of([c for c, _ in ops]), EPS32 / EPS if vt == 'npf32' else 1.0)
    us = [drive_values(spec, Vpi, cont, N) for cont, spec in ops]
    utot = np.sum(us, axis=0)
    desc = ' -> '.join(f'{c}:{_short(u) if not is_scalar_cont(c) else u[0]!r}' for (c, _), u in zip(ops, us))

    def fail(key, msg):
        viol.append((key, f'PM chain [{desc}] on (layout={layout}, noise={noise}, N={N}, Vpi={Vpi_s!r}): {msg}'))

    y = x
    first = None
    for k, ((cont, spec), u) in enumerate(zip(ops, us)):
        n_before = None if y.noise is None else np.array(y.noise)
        stats['pm_calls'] += 1
        d = realise(u, cont)
        y2, exc = lib_call(PM, y, d, Vpi_s)
        if k == 0:
            first = d
        if exc is not None:
            if isinstance(exc, TypeError) and cont in SCALAR_CONT_X:
                # PM documents TypeError for drives that are not float / ndarray / electrical_signal; whether a numpy integer / float32
                # scalar or a 0-d array is a "scalar drive" is not said: rejected with the documented TypeError or applied, nothing else
                stats[f'pm_scalar_{cont}_rejected_TypeError'] = 1
                return res(viol=viol, obs=('TYPEERROR', k, cont), nontrivial=True, stats=stats)
            fail(f'PM:{cont}-drive:{type(exc).__name__}', f'op {k + 1} ({cont} drive of matching length {N}) raised {type(exc).__name__}: {exc}')
            return res(viol=viol, obs=('EXC', k, type(exc).__name__), nontrivial=True, stats=stats)
        if _nz(n_before) and (y2.noise is None or not np.any(np.asarray(y2.noise) != 0)):
            zs = 'zero-sum-noise' if np.sum(n_before) == 0 else 'nonzero-sum-noise'
            tot_in = np.abs(np.asarray(y.signal) + n_before) ** 2
            tot_out = np.abs(np.asarray(y2.signal)) ** 2
            fail(f'PM:noise-dropped:{zs}', f'op {k + 1}: input noise {_short(n_before)} (np.sum = {np.sum(n_before)!r}) is non-zero but '
                                           f'output.noise is {None if y2.noise is None else "all zero"}; total-field power |S+N|^2 changed from '
                                           f'{_short(tot_in)} to {_short(tot_out)}')
            return res(viol=viol, obs=('DROP', k, _bytes(y2.signal)), nontrivial=True, stats=stats)
        y = y2

    osig = np.asarray(y.signal)
    onoise = None if y.noise is None else np.asarray(y.noise)
    obs = (_bytes(osig), _bytes(onoise))
    if osig.shape != s_in.shape or (onoise is not None and onoise.shape != s_in.shape):
        fail('PM:shape', f'output shape {osig.shape} != input shape {s_in.shape}')
        return res(viol=viol, obs=obs, nontrivial=True, stats=stats)

    phis = [float(np.max(np.abs(u))) * np.pi / float(Vpi) for u in us]
    phi_tot = float(np.max(np.abs(utot))) * np.pi / float(Vpi)
    units = prec * _pm_units(phis, phi_tot)
    rot = np.exp(1j * np.pi * utot / float(Vpi))
    what = 'pi*u/Vpi' if len(ops) == 1 else 'pi*(sum of drives)/Vpi'

    noisy_drive = any(c == 'electrical_signal_noisy' for c, _ in ops)
    if noisy_drive:
        # The statement does not say whether the noise component of a drive takes part in the phase shift; what it does say
        # is that PM is a pure rotation of the TOTAL field: signal and noise must be rotated by the same angle per sample.
        tin = s_in if n_in is None else s_in + n_in
        tout = osig if onoise is None else osig + onoise
        pin, pout = np.abs(tin) ** 2, np.abs(tout) ** 2
        mag = (np.abs(s_in) + (0 if n_in is None else np.abs(n_in))) ** 2
        if np.any(np.abs(pin - pout) > 64 * EPS * prec * (mag + 1e-300)):
            i = np.unravel_index(int(np.argmax(np.abs(pin - pout))), pin.shape)
            fail('PM:total-power-changed:noisy-drive', f'drive with an electrical noise component: sample {i}: |S+N|^2 in = {pin[i]!r}, out = {pout[i]!r} '
                                                       f'(signal and noise rotated by different angles)')
        # ... and the angle is pi*u/Vpi with u = drive.signal or u = drive.signal + drive.noise (both readings accepted, nothing else),
        # the same u for the signal and for the accompanying optical noise
        ok = False
        for ueff in (utot, utot + sum(drive_noise(N) for c, _ in ops if c == 'electrical_signal_noisy')):
            ph = float(np.max(np.abs(ueff))) * np.pi / float(Vpi)
            un = prec * _pm_units([ph], ph)
            rot = np.exp(1j * np.pi * ueff / float(Vpi))
            good = not _excess(osig, s_in * rot, np.abs(s_in), un)
            if good and _nz(n_in):
                good = onoise is not None and not _excess(onoise, n_in * rot, np.abs(n_in), un)
            ok = ok or good
        if not ok:
            fail('PM:phase-shift:noisy-drive', 'drive with an electrical noise component: the output is in*exp(j pi u/Vpi) neither with '
                                               'u = drive.signal nor with u = drive.signal + drive.noise (signal and optical noise alike)')
    else:
        e = _excess(osig, s_in * rot, np.abs(s_in), units)
        if e:
            fail('PM:phase-shift:signal' if len(ops) == 1 else 'PM:additivity:signal',
                 f'sample {e[0]}: out={e[1]} expected in*exp(j {what})={e[2]} |diff|={e[3]:.3g} > {units:.0f} eps*|in|={e[4]:.3g}')
        if _nz(n_in):
            e = _excess(onoise, n_in * rot, np.abs(n_in), units)
            if e:
                fail('PM:phase-shift:noise' if len(ops) == 1 else 'PM:additivity:noise',
                     f'noise sample {e[0]}: out={e[1]} expected noise*exp(j {what})={e[2]} |diff|={e[3]:.3g} > tol {e[4]:.3g}')
        elif onoise is not None and np.any(onoise != 0):
            fail('PM:noise-created', f'input noise absent/zero but output noise is {_short(onoise)}')

        # instantaneous power of the total field (signal plus noise) unchanged
        tin = s_in if n_in is None else s_in + n_in
        tout = osig if onoise is None else osig + onoise
        pin, pout = np.abs(tin) ** 2, np.abs(tout) ** 2
        mag = (np.abs(s_in) + (0 if n_in is None else np.abs(n_in))) ** 2
        if np.any(np.abs(pin - pout) > 2 * units * EPS * mag):
            i = np.unravel_index(int(np.argmax(np.abs(pin - pout))), pin.shape)
            fail('PM:total-power-changed', f'sample {i}: |S+N|^2 in = {pin[i]!r}, out = {pout[i]!r}')

        # composition: the chain equals ONE library call with the summed drive
        if len(ops) > 1:
            allscalar = all(is_scalar_cont(c) for c, _ in ops)
            stats['pm_calls'] += 1
            z, exc = lib_call(PM, x, realise(utot, 'float' if allscalar else 'ndarray'), Vpi_s)
            if exc is not None:
                fail(f'PM:{"float" if allscalar else "ndarray"}-drive:{type(exc).__name__}', f'PM(x, a+b) raised {type(exc).__name__}: {exc}')
            else:
                e = _excess(np.asarray(z.signal), osig, np.abs(s_in), 2 * units)
                en = None
                if _nz(n_in) and z.noise is not None:
                    en = _excess(np.asarray(z.noise), onoise, np.abs(n_in), 2 * units)
                if e or en or (_nz(n_in) and z.noise is None):
                    fail('PM:additivity:vs-single-call', f'chain result differs from PM(x, sum of drives): {e or en or "noise missing in the single call"}')
            stats['pm_chains'] = 1

    # mismatched lengths raise ValueError (single-op cases only)
    if len(ops) == 1 and not is_scalar_cont(ops[0][0]):
        cont, spec = ops[0]
        for Nbad in wrong_lengths(N, cont):
            ubad = drive_values(spec, Vpi, cont, Nbad)
            ob, ex = lib_call(PM, x, realise(ubad, cont), Vpi_s)
            stats['pm_wrong_length_calls'] = stats.get('pm_wrong_length_calls', 0) + 1
            if ex is None:
                fail(f'PM:wrong-length-accepted:{cont}', f'{cont} drive of length {Nbad} for a field of length {N} was accepted '
                                                         f'(output shape {np.shape(ob.signal)}, input shape {s_in.shape})')
            elif not isinstance(ex, ValueError):
                fail(f'PM:{cont}-drive:{type(ex).__name__}', f'{cont} drive of length {Nbad} (field {N}) raised {type(ex).__name__} instead of ValueError: {ex}')
        # a length-1 array against N > 1 samples: rejected with ValueError or applied as the constant drive (statement is silent which)
        if N > 1:
            u1 = drive_values(spec, Vpi, cont, 1)
            o1, ex = lib_call(PM, x, realise(u1, cont), Vpi_s)
            if ex is not None:
                stats['pm_len1_drive_rejected'] = 1
                if not isinstance(ex, ValueError):
                    fail(f'PM:len1-drive:{type(ex).__name__}', f'{cont} drive of length 1 for a field of length {N} raised {type(ex).__name__}: {ex}')
            else:
                stats['pm_len1_drive_accepted'] = 1
                o1s = np.asarray(o1.signal)
                u1s = [u1[0]] + ([u1[0] + drive_noise(1)[0]] if cont == 'electrical_signal_noisy' else [])
                if o1s.shape != s_in.shape or all(_excess(o1s, s_in * np.exp(1j * np.pi * v / float(Vpi)), np.abs(s_in), units) for v in u1s):
                    fail('PM:len1-drive:not-the-constant-drive', f'{cont} drive of length 1 ({u1[0]!r}) for a field of length {N} was accepted '
                                                                 f'but the output (shape {o1s.shape}) is not in*exp(j pi u/Vpi) sample by sample')

    # the same call again with the SAME input and drive objects after the global grid was reconfigured (PM does not depend on it)
    if len(ops) == 1:
        import warnings
        with warnings.catch_warnings():
            warnings.simplefilter('ignore')
            _gv(sps=4, R=2e9, wavelength=1300e-9)
        stats['pm_calls'] += 1
        yr, exr = lib_call(PM, x, first, Vpi_s)
        if exr is not None:
            fail(f'PM:{ops[0][0]}-drive:{type(exr).__name__}', f'the same call repeated (same objects, grid reconfigured) raised {type(exr).__name__}: {exr}')
        elif _bytes(yr.signal) != obs[0] or _bytes(yr.noise) != obs[1]:
            fail('PM:repeat-call-differs', 'the same call repeated with the same input and drive objects after the global grid was reconfigured '
                                           '(sps=4, R=2e9, 1300 nm) returns a different result')

    nt = (_nz(n_in) or s_in.ndim == 2 or any(not is_scalar_cont(c) or c != 'float' for c, _ in ops)
          or (len(ops) > 1 and bool(np.any(utot != 0))) or noisy_drive)
    return res(viol=viol, obs=obs, nontrivial=bool(nt), stats=stats)


# ----------------------------------------------------------------------------- LASER
GRIDS = [{}, {'sps': 8, 'R': 1e9}]
# hardening pass: fs alone; (R, fs) with a non-integer fs/R; (sps, R) giving a non-integer fs; (sps, fs) with another wavelength and a slot count
GRIDS_X = [{'fs': 20e9}, {'R': 3e9, 'fs': 10e9}, {'sps': 7, 'R': 1e9 / 3}, {'sps': 16, 'fs': 25e9, 'wavelength': 1310e-9, 'N': 8}]
LASER_N = [16, 64]
LASER_N_SHORT = [1, 2]               # degenerate records: only the level clause (and the trivial peak) applies
LASER_N_ODD = [13, 127]              # prime record lengths (no bin at fs/2, df = fs*m/N is not exact)
LASER_T0 = [0, 3]
# dtype / unit of the time vector: seconds on the gv grid as float64 / float32, or integer sample indices (1 s steps)
# as int64 / int32 / uint8  (LASER derives the envelope from `t`, so the dtype of t must not leak into the amplitude)
LASER_TK = ['f64', 'i64', 'i32', 'f32', 'u8']
T_DTYPE = {'f64': float, 'f32': np.float32, 'i64': np.int64, 'i32': np.int32, 'u8': np.uint8}
LASER_P = [0.0, 10.0, -30.0, 23.5]
LASER_LW = [None, 0.0, 1e5, 1e7, 1e9]
LASER_ANS = ['zero', 'ramp', 'altpi', 'seeded', 'big']
NYQ_OUT = [0.5 + 2.0 ** -20, -(0.5 + 2.0 ** -20), 0.75, -0.75, 1.0, -1.0, 10.0, -10.0]
# hardening pass (part laser.lattice): (value, scalar type) spellings of p / lw / df, extreme powers, RIN values, a far time offset
LASER_P_X = [(0.0, 'int'), (10.0, 'int'), (-30.0, 'int'), (-30.0, 'npint64'), (10.0, 'npint32'), (23.5, 'npf32'), (23.5, 'npf64'),
             (10.0, 'zero_d'), (1.0, 'bool'), (-90.0, 'float'), (50.0, 'float')]
LASER_LW_X = [(0.0, 'int'), (1e5, 'int'), (1e7, 'npint64'), (1e5, 'npint32'), (1e5, 'npf32'), (1e7, 'zero_d')]
LASER_DFK = ['float', 'int', 'npint64', 'npint32', 'npf32', 'zero_d', 'npf64']
LASER_RIN = [None, -140.0, -150, -120.0]      # dB/Hz (-150 is a python int)
LASER_T0_X = [10 ** 6]


def _answer(kind, seed, lw_on=True, rin_on=False):
    """answers of the scripted numpy.random.normal.  LASER asks first for the phase-noise increments (iff lw is not None), then for the
    RIN samples (iff rin is not None); the RIN answers are always 2*cos(1+i) standard deviations (|.| <= 2: far from the -1 guard)"""
    state = {'i': 0}

    def f(fn, info):
        i = state['i']
        state['i'] += 1
        n = info['size']
        n = int(np.prod(n)) if n is not None else 1
        sc = info.get('scale', 1.0)
        sc = sc if isinstance(sc, float) else 1.0
        if fn == 'normal' and rin_on and i == (1 if lw_on else 0):
            return 2.0 * np.cos(1.0 + np.arange(n))
        if fn != 'normal' or kind == 'zero' or not sc:
            return None
        if kind == 'ramp':
            return np.arange(n) / n
        if kind == 'altpi':                       # increments of +-pi radians
            return np.where(np.arange(n) % 2 == 0, 1.0, -1.0) * (np.pi / sc)
        if kind == 'big':
            return np.full(n, 1e3)
        if kind == 'seeded':
            return np.random.RandomState((seed + 104729) % (2 ** 31)).standard_normal(n)
        raise KeyError(kind)
    return f


def laser_case(case):
    from opticomlib.devices import LASER
    gv = gv_reset(**case['grid'])
    fs, dt = float(gv.fs), float(gv.dt)
    N, t0, p, lw, ans, m, seed = case['N'], case['t0'], case['p'], case['lw'], case['ans'], case['m'], case['seed']
    tk = case.get('tk', 'f64')
    pk, lwk, dfk, rin = case.get('pk', 'float'), case.get('lwk', 'float'), case.get('dfk', 'float'), case.get('rin')
    if tk in ('f64', 'f32'):
        t = ((np.arange(N) + t0) * dt).astype(T_DTYPE[tk])
        step = dt
        df = None if m is None else fs * (m / N)      # m/N dyadic -> exact; |df| <= fs/2 exactly (odd N: |m/N| < 1/2)
        tdesc = f'((arange({N})+{t0})*dt).astype({tk})'
    else:
        # integer sample indices: the grid of t is 1 s, bin m of the N-point FFT is m/N Hz (far inside gv.fs/2)
        t = (np.arange(N) + t0).astype(T_DTYPE[tk])
        step = 1.0
        df = None if m is None else m / N
        tdesc = f'(arange({N})+{t0}).astype({tk})'
    # the scalar arguments in another scalar type wherever the value is exactly representable there
    p_s = spell(pk, p)
    lw_s = None if lw is None else spell(lwk, lw)
    df_s = None if df is None else spell(dfk, df)
    # float32 time vector: numpy evaluates the envelope / the offset phasor in single precision
    prec = EPS32 / EPS if tk == 'f32' else 1.0
    viol, stats = [], {'laser_calls': 0, f'laser_t_{tk}': 1}

    def fail(key, msg):
        viol.append((key, f'LASER(t={tdesc}, p={p_s!r}, lw={lw_s!r}, rin={rin!r}, df={df_s!r}) grid={case["grid"]} fs={fs:g} '
                          f'phase-noise answers={ans}: {msg}'))

    def run(dfv, lwv=lw_s):
        script = ScriptedRNG(_answer(ans, seed, lw_on=lwv is not None, rin_on=rin is not None))
        stats['laser_calls'] += 1
        try:
            with scripted_rng(script):
                return LASER(t, p_s, lw=lwv, rin=rin, df=dfv), None, script
        except Horizon:
            raise
        except Exception as e:  # noqa
            return None, e, script

    out, exc, script = run(df_s)
    if exc is not None:
        fail(f'LASER:within-nyquist:{type(exc).__name__}', f'raised {type(exc).__name__}: {exc}')
        return res(viol=viol, obs=('EXC', type(exc).__name__), nontrivial=True, stats=stats)
    E = np.asarray(out.signal)
    obs = (_bytes(E), _bytes(out.noise))
    if E.shape != t.shape:
        fail('LASER:shape', f'field shape {E.shape} != t.shape {t.shape}')
        return res(viol=viol, obs=obs, nontrivial=True, stats=stats)
    P = 1e-3 * 10.0 ** (p / 10.0)
    tot = E if out.noise is None else E + np.asarray(out.noise)
    pw = np.abs(tot) ** 2
    if rin is None:
        # level: idbm exponent rounding (2.3*6 eps) + pow ulp on both sides, sqrt+square, two unit phasors, two products: < 32 eps; x2
        if np.any(np.abs(pw - P) > 64 * EPS * prec * P):
            i = int(np.argmax(np.abs(pw - P)))
            fail('LASER:power-not-constant', f'sample {i}: |E|^2 = {pw[i]!r}, P = {P!r} (rel. dev. {abs(pw[i] - P) / P:.3g})')
    else:
        # with RIN the statement fixes no level; but the phase-noise and frequency-offset terms are still pure rotations: the
        # instantaneous power equals that of the SAME laser (same scripted RIN samples) without linewidth and offset
        plain, excp, _ = run(None, None)
        if excp is not None:
            fail(f'LASER:within-nyquist:{type(excp).__name__}', f'lw=None, df=None raised {type(excp).__name__}: {excp}')
        else:
            pw0 = np.abs(np.asarray(plain.signal)) ** 2
            stats['laser_rin_cases'] = 1
            if np.any(np.abs(pw - pw0) > 64 * EPS * prec * pw0) or not np.all(pw0 > 0):
                i = int(np.argmax(np.abs(pw - pw0)))
                fail('LASER:phase-terms-change-power:rin', f'sample {i}: |E|^2 = {pw[i]!r} with lw/df, {pw0[i]!r} without (same RIN samples): '
                                                           f'the phase-noise / offset terms are not pure rotations')
    phase_free = lw is None or ans == 'zero' or lw == 0.0
    kb = None if m is None else m % N
    if phase_free and rin is None:
        k = int(np.argmax(np.abs(np.fft.fft(E))))
        want = 0 if kb is None else kb
        if k != want:
            fail('LASER:spectral-peak-not-at-df', f'no phase noise: FFT peak at bin {k} (f = {np.fft.fftfreq(N, step)[k]:g} Hz), df = {df!r} is bin {want}')
    if m is not None:
        # the frequency-offset term alone: same scripted phase noise (and RIN samples) with and without df
        base, exc0, script0 = run(None)
        if exc0 is not None:
            fail(f'LASER:within-nyquist:{type(exc0).__name__}', f'df=None raised {type(exc0).__name__}: {exc0}')
        else:
            B = np.asarray(base.signal)
            ratio = E * np.conj(B) / (P if rin is None else np.abs(B) ** 2)
            if np.any(np.abs(np.abs(ratio) - 1) > 64 * EPS * prec):
                fail('LASER:offset-term-not-a-rotation', f'|E(df)/E(df=None)| deviates from 1 by {np.max(np.abs(np.abs(ratio) - 1)):.3g}')
            k = int(np.argmax(np.abs(np.fft.fft(ratio))))
            if k != kb:
                fail('LASER:spectral-peak-not-at-df', f'offset term E(df)/E(df=None): FFT peak at bin {k} '
                                                      f'(f = {np.fft.fftfreq(N, step)[k]:g} Hz), df = {df!r} is bin {kb}')
    # conformance of the documented Wiener model (statistic only, not part of the statement)
    if lw is not None and script.requests:
        stats['laser_normal_requests'] = len(script.requests)
    nt = (lw is not None and not phase_free) or (m not in (None, 0)) or rin is not None
    return res(viol=viol, obs=obs, nontrivial=bool(nt), stats=stats)


def laser_nyquist_case(case):
    """offsets beyond Nyquist must raise ValueError.  case['f']: a factor of fs, or 'ulp+' / 'ulp-' (the neighbours of +-fs/2 outside),
    or 'int+' / 'int-' (the integers floor(fs/2)+1 as python int / numpy int64)"""
    from opticomlib.devices import LASER
    gv = gv_reset(**case['grid'])
    fs, dt = float(gv.fs), float(gv.dt)
    t = np.arange(case['N']) * dt
    f = case['f']
    if f == 'ulp+':
        df = float(np.nextafter(gv.fs / 2, np.inf))
    elif f == 'ulp-':
        df = -float(np.nextafter(gv.fs / 2, np.inf))
    elif f == 'int+':
        df = int(np.floor(fs / 2)) + 1
    elif f == 'int-':
        df = np.int64(-(int(np.floor(fs / 2)) + 1))
    else:
        df = fs * f
    out, exc = None, None
    try:
        with scripted_rng(ScriptedRNG(_answer(case['ans'], 0))):
            out = LASER(t, case['p'], lw=case['lw'], rin=None, df=df)
    except Horizon:
        raise
    except Exception as e:  # noqa
        exc = e
    viol = []
    if exc is None:
        viol.append(('LASER:beyond-nyquist-accepted', f'LASER(df={df!r}) with grid {case["grid"]}, fs={fs!r} (|df| > fs/2 = {fs / 2!r}) '
                                                                f'returned instead of raising'))
    elif not isinstance(exc, ValueError):
        viol.append((f'LASER:beyond-nyquist:{type(exc).__name__}', f'LASER(df={df!r}) with fs={fs:g} raised {type(exc).__name__} instead of ValueError: {exc}'))
    return res(viol=viol, obs=('raised', type(exc).__name__ if exc else None, str(f)), nontrivial=True, stats={'laser_calls': 1})


def laser_gvseq_case(case):
    """LASER reads the grid (fs for the Nyquist guard, dt for the linewidth) at CALL time: grid g1, one call, the grid reconfigured to g2
    (no clean in between), then calls whose legality depends on the grid in force"""
    import warnings
    from opticomlib.devices import LASER
    from opticomlib.typing import gv as _gv
    gv = gv_reset(**case['g1'])
    N = case['N']
    fs1 = float(gv.fs)
    viol, stats = [], {'laser_calls': 0}

    def fail(key, msg):
        viol.append((key, f'gv({case["g1"]}); LASER; gv({case["g2"]}); then {msg}'))

    def call(df):
        stats['laser_calls'] += 1
        t = np.arange(N) * float(_gv.dt)
        try:
            with scripted_rng(ScriptedRNG(_answer('ramp', 0))):
                return LASER(t, 0.0, lw=case['lw'], rin=None, df=df), None
        except Horizon:
            raise
        except Exception as e:  # noqa
            return None, e

    o1, e1 = call(fs1 / 2)
    if e1 is not None:
        viol.append((f'LASER:within-nyquist:{type(e1).__name__}', f'gv({case["g1"]}); LASER(df=fs/2) raised {type(e1).__name__}: {e1}'))
    with warnings.catch_warnings():
        warnings.simplefilter('ignore')
        _gv(**case['g2'])
    fs2 = float(_gv.fs)
    obs = [fs1, fs2]
    inside = [(fs2 / 2, N // 2), (-fs2 / 2, N // 2), (fs2 * 0.375, 3 * N // 8)]
    outside = [float(np.nextafter(fs2 / 2, np.inf)), -float(np.nextafter(fs2 / 2, np.inf)), 0.75 * fs2]
    for dfo in (fs1 / 2, -fs1 * 0.375):          # legal under the FIRST grid; under the second one only if it fits
        if abs(dfo) <= fs2 / 2:
            inside.append((dfo, None))
        else:
            outside.append(dfo)
    for df, kb in inside:
        o, e = call(df)
        obs.append(('in', df, None if e is None else type(e).__name__))
        if e is not None:
            fail(f'LASER:within-nyquist:{type(e).__name__}', f'LASER(df={df!r}) with fs={fs2!r} in force raised {type(e).__name__}: {e}')
            continue
        E = np.asarray(o.signal)
        if E.shape != (N,) or np.any(np.abs(np.abs(E) ** 2 - 1e-3) > 64 * EPS * 1e-3):
            fail('LASER:power-not-constant', f'LASER(df={df!r}): |E|^2 != P')
        if kb is not None and case['lw'] is None and int(np.argmax(np.abs(np.fft.fft(E)))) != kb:
            fail('LASER:spectral-peak-not-at-df', f'LASER(df={df!r}) with fs={fs2!r} in force: FFT peak at bin {int(np.argmax(np.abs(np.fft.fft(E))))}, not {kb}')
    for df in outside:
        o, e = call(df)
        obs.append(('out', df, None if e is None else type(e).__name__))
        if e is None:
            fail('LASER:beyond-nyquist-accepted', f'LASER(df={df!r}) with fs={fs2!r} in force (|df| > fs/2) returned instead of raising')
        elif not isinstance(e, ValueError):
            fail(f'LASER:beyond-nyquist:{type(e).__name__}', f'LASER(df={df!r}) raised {type(e).__name__} instead of ValueError: {e}')
    return res(viol=viol, obs=tuple(obs), nontrivial=fs1 != fs2, stats=stats)


# ----------------------------------------------------------------------------- invalid / alternative pol values
VALID_POL_X = ['npstr:x', 'npstr:y']          # numpy's str subclass: equal to 'x' / 'y', must behave like them


def mzm_badpol_case(case):
    """`pol` is one of two settings.  The statement says nothing about other values, so a value that is not 'x' / 'y' may be rejected (any
    exception) - but if it is ACCEPTED the result must be that of one of the two settings (one polarisation modulated, the other one
    extinguished): there is no third behaviour in the statement."""
    from opticomlib.devices import MZM
    gv_reset()
    layout, noise, cont, polv, N, seed = case['layout'], case['noise'], case['cont'], case['pol'], case['N'], case['seed']
    x, s_in, n_in = make_input(layout, noise, N, seed)
    spec = ('lvl', 1, N) if is_scalar_cont(cont) else ('wave', 'ramp6', N)
    d = realise(drive_values(spec, 5.0, cont, N), cont)
    valid = isinstance(polv, str) and polv.startswith('npstr:')
    pv = np.str_(polv[6:]) if valid else polv
    viol, stats = [], {'mzm_calls': 3}
    refs = {}
    for q in ('x', 'y'):
        o, e = lib_call(MZM, x, d, pol=q)
        refs[q] = None if e is not None else (_bytes(o.signal), _bytes(o.noise))
    o, e = lib_call(MZM, x, d, pol=pv)
    got = None if e is not None else (_bytes(o.signal), _bytes(o.noise))
    where = f'MZM(layout={layout}, noise={noise}, drive={cont}, pol={pv!r})'
    if valid:
        if e is not None:
            viol.append((f'MZM:pol-spelling:{type(e).__name__}', f'{where}: numpy str equal to {polv[6:]!r} raised {type(e).__name__}: {e}'))
        elif got != refs[polv[6:]]:
            viol.append(('MZM:pol-spelling:differs', f'{where}: result differs from pol={polv[6:]!r}'))
    elif e is not None:
        stats[f'mzm_badpol_rejected_{type(e).__name__}'] = 1
    else:
        stats['mzm_badpol_accepted'] = 1
        if got not in (refs['x'], refs['y']):
            viol.append(('MZM:invalid-pol-accepted:neither-x-nor-y', f'{where} was accepted and the result is neither that of pol=\'x\' nor of pol=\'y\' '
                                                                    f'(output signal {_short(o.signal)})'))
    return res(viol=viol, obs=('badpol', repr(polv), None if e is None else type(e).__name__, got), nontrivial=True, stats=stats)


# ----------------------------------------------------------------------------- integer drives at the limits of their dtype
INT_LIMIT_DT = ['int8', 'uint8', 'int16', 'int32', 'int64']
INT_LIMIT_BIAS = [('int', 0), ('int', 1), ('int', -1), ('npint64', 1), ('npint64', -1), ('float', 1), ('float', -1)]


def intlimit_case(case):
    """drive = integer ndarray holding the largest / smallest value of its dtype, Vpi = 0.8*max (theta about pi/1.6), bias 0 / +1 / -1 V
    given as python int, as numpy int64, or as float.  Reference: exact integer sum, then the closed form."""
    from opticomlib.devices import MZM, PM
    gv_reset()
    dev, dtn, end, (bk, bv), noise, seed = case['dev'], case['dt'], case['end'], case['bias'], case['noise'], case['seed']
    dt = np.dtype(dtn)
    info = np.iinfo(dt)
    v = int(info.max if end == 'max' else info.min)
    N = 6
    x, s_in, n_in = make_input('1pol', noise, N, seed)
    Vpi = 0.8 * float(info.max)
    d = np.full(N, v, dt)
    bias = int(bv) if bk == 'int' else (np.int64(bv) if bk == 'npint64' else float(bv))
    key = f'{dev}:int-limit-drive'
    where = (f'{dev}(1pol noise={noise}, drive=np.full(6, {v}, {dtn}), ' + (f'bias={bias!r}, ' if dev == 'MZM' else '') + f'Vpi={Vpi!r})')
    viol, stats = [], {f'{dev.lower()}_calls': 1}
    if dev == 'MZM':
        out, e = lib_call(MZM, x, d, bias=bias, Vpi=Vpi)
        th = np.pi * float(v + int(bv)) / (2.0 * Vpi)
        r = 10.0 ** (-26.0 / 20.0)
        h = np.cos(th) + 1j * r * np.sin(th)
        units = _mzm_units(abs(th))
    else:
        out, e = lib_call(PM, x, d, Vpi)
        ph = np.pi * float(v) / Vpi
        h = np.exp(1j * ph)
        units = _pm_units([abs(ph)], abs(ph))
    if e is not None:
        viol.append((key, f'{where} raised {type(e).__name__}: {e}'))
        return res(viol=viol, obs=('EXC', type(e).__name__), nontrivial=True, stats=stats)
    osig = np.asarray(out.signal)
    obs = (_bytes(osig), _bytes(out.noise))
    ex = _excess(osig, s_in * h, np.abs(s_in), units) if osig.shape == s_in.shape else ('shape', osig.shape, None, 0.0, 0.0)
    if ex:
        viol.append((key, f'{where}: sample {ex[0]}: out={ex[1]} expected {ex[2]} (the drive voltage is {v}' +
                          (f' + {int(bv)} = {v + int(bv)} V' if dev == 'MZM' else ' V') + ')'))
    if _nz(n_in):
        if out.noise is None or _excess(np.asarray(out.noise), n_in * h, np.abs(n_in), units):
            viol.append((key, f'{where}: the noise is not modulated like the signal'))
    return res(viol=viol, obs=obs, nontrivial=True, stats=stats)


# ----------------------------------------------------------------------------- mixed chains: the result of one device fed to the next
MIX_OPS = [('MZM', 'float', ('lvl', 1, 6), {}),
           ('MZM', 'ndarray', ('wave', 'ramp6', 6), {'pol': 'y'}),
           ('MZM', 'electrical_signal', ('wave', 'neg6', 6), {'ER_dB': 0.0, 'loss_dB': 2.0, 'bias': 2.5}),
           ('PM', 'float', ('lvl', 4, 6), {}),
           ('PM', 'ndarray', ('wave', 'alt01', 6), {}),
           ('PM', 'electrical_signal', ('wave', 'ramp6', 6), {})]


def chain_case(case):
    """every step is checked against ITS OWN actual input (the object returned by the previous device call)"""
    from opticomlib.devices import MZM, PM
    gv_reset()
    layout, noise, N, seed, ops = case['layout'], case['noise'], 6, case['seed'], case['ops']
    x, s_in, n_in = make_input(layout, noise, N, seed)
    Vpi = 5.0
    viol, stats = [], {'mzm_calls': 0, 'pm_calls': 0, 'mixed_chains': 1}
    desc = ' -> '.join(f'{MIX_OPS[i][0]}({MIX_OPS[i][1]}{MIX_OPS[i][3] or ""})' for i in ops)
    y = x
    for k, i in enumerate(ops):
        dev, cont, spec, kw = MIX_OPS[i]
        u = drive_values(spec, Vpi, cont, N)
        sp = np.array(y.signal).astype(complex)
        npv = None if y.noise is None else np.array(y.noise).astype(complex)
        stats[f'{dev.lower()}_calls'] += 1
        if dev == 'MZM':
            y2, e = lib_call(MZM, y, realise(u, cont), Vpi=Vpi, **kw)
            rl = 10.0 ** (-kw.get('loss_dB', 0.0) / 20.0)
            th = np.pi * (u + kw.get('bias', 0.0)) / (2.0 * Vpi)
            h = rl * (np.cos(th) + 1j * 10.0 ** (-kw.get('ER_dB', 26.0) / 20.0) * np.sin(th))
            units, scale = _mzm_units(float(np.max(np.abs(th)))), rl
        else:
            y2, e = lib_call(PM, y, realise(u, cont), Vpi)
            ph = float(np.max(np.abs(u))) * np.pi / Vpi
            h = np.exp(1j * np.pi * u / Vpi)
            units, scale = _pm_units([ph], ph), 1.0

        def fail(clause, msg):
            viol.append((f'{dev}:chain:{clause}', f'chain [{desc}] on (layout={layout}, noise={noise}), step {k + 1} ({dev}): {msg}'))
        if e is not None:
            fail(type(e).__name__, f'raised {type(e).__name__}: {e}')
            return res(viol=viol, obs=('EXC', k, type(e).__name__), nontrivial=True, stats=stats)
        o = np.asarray(y2.signal)
        on = None if y2.noise is None else np.asarray(y2.noise)
        if o.shape != sp.shape or (on is not None and on.shape != sp.shape):
            fail('shape', f'output shape {o.shape} != shape {sp.shape} of the field it was given')
            return res(viol=viol, obs=('SHAPE', k), nontrivial=True, stats=stats)
        ref_s, ref_n = sp * h, None if npv is None else npv * h
        if dev == 'MZM' and sp.ndim == 2:
            off = 1 if kw.get('pol', 'x') == 'x' else 0
            ref_s[off] = 0
            if ref_n is not None:
                ref_n[off] = 0
        if _excess(o, ref_s, scale * np.abs(sp), units):
            fail('transfer:signal', 'the output is not the transfer function applied to the field returned by the previous device')
        if _nz(ref_n):
            if on is None or _excess(on, ref_n, scale * np.abs(npv), units):
                fail('transfer:noise', 'the noise is not modulated / rotated like the signal')
        elif on is not None and np.any(on != 0) and not _nz(npv):
            fail('noise-created', 'noise appears although the field it was given had none')
        y = y2
    return res(viol=viol, obs=(_bytes(y.signal), _bytes(y.noise)), nontrivial=True, stats=stats)


# ----------------------------------------------------------------------------- spaces
def deviations(axes, k):
    """all points differing from the baseline (first value of every axis) in at most k axes; fewest deviations first"""
    names = [n for n, _ in axes]
    out = []
    for r in range(min(k, len(axes)) + 1):
        for idxs in itertools.combinations(range(len(axes)), r):
            for combo in itertools.product(*[axes[i][1][1:] for i in idxs]):
                p = {n: v[0] for n, v in axes}
                for i, c in zip(idxs, combo):
                    p[names[i]] = c
                out.append((r, p))
    return out


def mzm_cases(k, seed, layouts=None, scalar_conts=None, wave_conts=None, noises=None, extra=({},)):
    """deviation lattice k over (drive, bias, Vpi, loss, ER, pol); at every point the product layouts x noise kinds x containers
    (x the `extra` settings: parameter types / grids)"""
    layouts = LAYOUTS if layouts is None else layouts
    scalar_conts = SCALAR_CONT if scalar_conts is None else scalar_conts
    wave_conts = WAVE_CONT_MZM if wave_conts is None else wave_conts
    cases = []
    sizes = {}
    for kindname, conts, specs in (('scalar', scalar_conts, LVL_SPECS), ('waveform', wave_conts, WAVE_SPECS)):
        axes = [('drive', specs), ('bias', BIAS), ('Vpi', VPI), ('loss', LOSS), ('ER', ER), ('pol', POL)]
        lat = deviations(axes, k)
        sizes[kindname] = len(lat)
        for pi_, (r, p) in enumerate(lat):
            for xi, ex in enumerate(extra):
                for li, layout in enumerate(layouts):
                    for ni, noise in enumerate(noises_of(layout, noises)):
                        for ci, cont in enumerate(conts):
                            c = dict(p)
                            c.update(layout=layout, noise=noise, cont=cont, N=p['drive'][2], seed=seed)
                            c.update(ex)
                            cases.append(((r, xi, li, ni, 0 if kindname == 'scalar' else 1, ci, pi_), c))
    cases.sort(key=lambda t: t[0])
    return [c for _, c in cases], sizes


def mzm_badpol_cases(seed):
    return [{'layout': layout, 'noise': noise, 'cont': cont, 'pol': polv, 'N': 6, 'seed': seed}
            for polv in VALID_POL_X + BAD_POL for layout in ('2pol', '1pol', '2pol-int32') for noise in ('none', 'alt', 'yonly')
            for cont in ('float', 'ndarray', 'electrical_signal') if not (noise == 'yonly' and layout == '1pol')]


def intlimit_cases(seed):
    cases = []
    for dev in ('MZM', 'PM'):
        for dtn in INT_LIMIT_DT:
            for end in ('max', 'min'):
                for b in (INT_LIMIT_BIAS if dev == 'MZM' else [('int', 0)]):
                    for noise in ('none', 'alt'):
                        cases.append({'dev': dev, 'dt': dtn, 'end': end, 'bias': b, 'noise': noise, 'seed': seed})
    return cases


def chain_cases(depth, seed):
    return [{'layout': layout, 'noise': noise, 'seed': seed, 'ops': list(ops)}
            for ops in itertools.product(range(len(MIX_OPS)), repeat=depth)
            for layout in ('1pol', '2pol', '1pol-int', '1pol-laser') for noise in ('none', 'alt', 'ramp')]


def pm_product_cases(seed):
    cases = []
    for Vpi in VPI:
        for layout in LAYOUTS + LAYOUTS_X:
            for noise in noises_of(layout):
                for conts, specs in ((SCALAR_CONT, LVL_SPECS), (WAVE_CONT_PM, WAVE_SPECS)):
                    for cont in conts:
                        for spec in specs:
                            cases.append({'layout': layout, 'noise': noise, 'N': spec[2], 'seed': seed, 'Vpi': Vpi, 'ops': [(cont, spec)]})
    return cases


PM_VT = [(5.0, 'float'), (5.0, 'int'), (5.0, 'npint64'), (5.0, 'npint32'), (1.7, 'npf64'), (2.5, 'npf32'), (5.0, 'zero_d'), (1.0, 'bool')]


def pm_extra_cases(seed):
    """every container (old and new) x the scalar types of Vpi x the grid configurations, on three layouts x three noise kinds"""
    cases = []
    for gi, grid in enumerate(GRIDS_MP):
        for Vpi, vt in (PM_VT if gi == 0 else PM_VT[:1]):
            for layout in ('1pol', '2pol', '1pol-int'):
                for noise in ('none', 'alt', 'ramp'):
                    for conts, specs in ((SCALAR_CONT + SCALAR_CONT_X, LVL_SPECS), (WAVE_CONT_PM + WAVE_CONT_X_PM, WAVE_SPECS)):
                        for cont in conts:
                            if gi == 0 and vt == 'float' and cont in SCALAR_CONT + WAVE_CONT_PM:
                                continue                                   # already in pm.product
                            for spec in specs:
                                cases.append({'layout': layout, 'noise': noise, 'N': spec[2], 'seed': seed, 'Vpi': Vpi, 'vt': vt,
                                              'grid': grid, 'ops': [(cont, spec)]})
    return cases


def seq_alphabet(full):
    lv = LEVELS if full else [1, 4, -4, 8]
    a = [('float', ('lvl', k, 6)) for k in lv]
    a += [('int', ('lvl', 4, 6))]
    if full:
        a += [('int', ('lvl', -8, 6))]
    a += [('ndarray', ('wave', 'ramp6', 6)), ('ndarray', ('wave', 'alt01', 6))]
    if full:
        a += [('ndarray_int', ('wave', 'ramp6', 6))]
    a += [('electrical_signal', ('wave', 'ramp6', 6))]
    return a


def pm_seq_cases(depth, full, seed, layouts, noises, vpis):
    A = seq_alphabet(full)
    cases = []
    for ops in itertools.product(A, repeat=depth):
        for Vpi in vpis:
            for layout in layouts:
                for noise in noises:
                    cases.append({'layout': layout, 'noise': noise, 'N': 6, 'seed': seed, 'Vpi': Vpi, 'ops': list(ops)})
    return cases, len(A)


def laser_cases(seed):
    cases = []
    for tk in LASER_TK:
        for grid in GRIDS:
            for N in LASER_N + LASER_N_SHORT:
                ms = [None, 0, 1, -1, 3, -3, N // 8, -(N // 8), N // 2, -(N // 2)] if N >= 16 else [None, 0]
                for t0 in LASER_T0:
                    for p in LASER_P:
                        for lw in LASER_LW:
                            for ans in (['zero'] if lw is None else LASER_ANS):
                                for m in ms:
                                    cases.append({'grid': grid, 'N': N, 't0': t0, 'p': p, 'lw': lw, 'ans': ans, 'm': m,
                                                  'seed': seed, 'tk': tk})
    return cases


def laser_lattice_cases(k, seed):
    """deviation lattice around (float64 seconds, default grid, N=16, t0=0, p=0 dBm float, lw=1e7 float, answers=ramp, df on bin 3 as
    float, no RIN) over ALL members of every axis (those of laser.product and the hardening members); combinations that do not
    exist (no bin N/2 for odd N, a far time offset in a narrow time dtype, ...) are dropped"""
    axes = [('tk', LASER_TK), ('grid', GRIDS + GRIDS_X), ('N', LASER_N + LASER_N_SHORT + LASER_N_ODD), ('t0', LASER_T0 + LASER_T0_X),
            ('p', [(v, 'float') for v in LASER_P] + LASER_P_X),
            ('lw', [(1e7, 'float'), None, (0.0, 'float'), (1e5, 'float'), (1e9, 'float')] + LASER_LW_X),
            ('ans', ['ramp', 'zero', 'altpi', 'seeded', 'big']),
            ('m', [3, None, 0, 1, -1, -3, 'N/8', '-N/8', 'N/2', '-N/2']),
            ('dfk', LASER_DFK), ('rin', LASER_RIN)]
    cases = []
    for r, p in deviations(axes, k):
        N, m = p['N'], p['m']
        if isinstance(m, str):
            if N % 8:
                continue
            m = {'N/8': N // 8, '-N/8': -(N // 8), 'N/2': N // 2, '-N/2': -(N // 2)}[m]
        if N < 13 and m not in (None, 0):
            continue
        if p['t0'] > 3 and p['tk'] in ('u8', 'f32'):
            continue
        if p['lw'] is None and p['ans'] != 'ramp':
            continue
        lw, lwk = (None, 'float') if p['lw'] is None else p['lw']
        cases.append({'grid': p['grid'], 'N': N, 't0': p['t0'], 'p': p['p'][0], 'pk': p['p'][1], 'lw': lw, 'lwk': lwk,
                      'ans': 'zero' if lw is None else p['ans'], 'm': m, 'dfk': p['dfk'], 'rin': p['rin'], 'seed': seed, 'tk': p['tk']})
    return cases


NYQ_EDGE = ['ulp+', 'ulp-', 'int+', 'int-']


def laser_nyquist_cases():
    return [{'grid': g, 'N': 64, 'p': 0.0, 'lw': lw, 'ans': 'ramp', 'f': f}
            for g in GRIDS + GRIDS_X for lw in (None, 1e7) for f in NYQ_OUT + NYQ_EDGE]


def laser_gvseq_cases():
    G = GRIDS + GRIDS_X
    return [{'g1': g1, 'g2': g2, 'N': 16, 'lw': lw} for g1 in G for g2 in G for lw in (None, 1e7)]


# minimal inputs of the two PM defects (DESIGN 8 #3, #4); replayed first so that a returning defect shows in seconds
REGRESS = [
    ('pm', {'layout': '1pol', 'noise': 'alt', 'N': 2, 'seed': 0, 'Vpi': 5.0, 'ops': [('float', ('lvl', 0, 2))]}),
    ('pm', {'layout': '1pol', 'noise': 'none', 'N': 2, 'seed': 0, 'Vpi': 5.0, 'ops': [('electrical_signal', ('lvl', 0, 2))]}),
]


def run(ctx):
    quick = ctx.quick
    k = 2 if quick else 3
    seed = int(ctx.seed)
    ctx.assume('cos/sin/exp/pow of numpy are faithful to ~1 ulp; tolerances are k*eps rounding bounds relative to sqrt(loss)*|in| '
               '(MZM) or |in| (PM), k derived from the operation count and the largest phase argument (see _mzm_units/_pm_units); '
               'with a float32 drive array / float32 time vector / float32 scalar parameters numpy may work in single precision and eps is the float32 eps')
    ctx.assume('the scripted RNG stands for numpy.random.normal: LASER draws its phase-noise increments (first request, iff lw is not None) and '
               'its RIN samples (next request, iff rin is not None) only through that entry point (any other numpy.random call fails loudly)')
    ctx.assume('continuum quantifiers (all complex fields, all drive voltages) are covered at the per-sample alphabet points only: '
               'fields {0,1,-1,j,.5-.5j,2} (also x1e-9, x1e6, 1e6 + 1e-3*field) + real + seeded, 17 drive levels in steps of Vpi/4 and one waveform of '
               '100...1000 Vpi; BW (band-pass stage of MZM) is left None')
    ctx.assume('where the statement is silent both behaviours are accepted and nothing else: a length-1 drive array against N > 1 (ValueError or '
               'the constant drive), the noise component of an electrical_signal drive (ignored or added to the drive, alike for signal and '
               'optical noise), numpy-integer / float32 / 0-d scalars as PM drive (documented TypeError or applied), pol values other than x / y '
               '(any exception, or the result of one of the two settings)')
    for kind, case in REGRESS:
        ctx.run_case('regress', pm_case, case)

    mz, sizes = mzm_cases(k, seed)
    ctx.space('mzm.lattice.points.scalar-drive', sizes['scalar'])
    ctx.space('mzm.lattice.points.waveform-drive', sizes['waveform'])
    ctx.rule(f'MZM: deviation lattice k<={k} over (drive values[{len(LVL_SPECS)} level records | {len(WAVE_SPECS)} waveform records, field lengths '
             f'1, 2, 3, 6, 13, 102, 1025], bias{BIAS}*Vpi, Vpi{VPI}, '
             f'loss{LOSS}, ER{ER}, pol{POL}) around (u=Vpi/4 | ramp6, 0, 5, 0, 26, x); at EVERY lattice point the full product '
             f'layouts{LAYOUTS} x noise{NOISES} (+ {NOISES_2POL} for two polarisations) x containers{SCALAR_CONT + WAVE_CONT_MZM}; per case: transfer '
             f'identity on signal and noise, passivity, pol extinction, container equivalence, +2Vpi periodicity, on/off ratio, every wrong drive length of '
             f'{{0, 2, 3, N-1, N+1, N+6, 2N}} for the field length N (N = 1 included) must raise ValueError, a length-1 drive array against '
             f'N > 1 is either rejected with ValueError or applied as the constant drive; then on the SAME input and drive objects: the other pol '
             f'setting, and the first call again after the grid was reconfigured (bitwise equal)')
    ctx.pmap('mzm.lattice', mzm_case, mz, horizon=20)

    mzx, sizes_x = mzm_cases(k - 1, seed, LAYOUTS_X)
    ctx.space('mzm.dtypes.points.scalar-drive', sizes_x['scalar'])
    ctx.space('mzm.dtypes.points.waveform-drive', sizes_x['waveform'])
    ctx.rule(f'MZM stored-dtype / scale / provenance layouts {LAYOUTS_X} (real / int64 / int32 / float32 / complex64 fields whose noise has the same '
             f'dtype; empty second polarisation; fields x1e-9, x1e6, 1e6 + small variation; float32 noise next to a complex128 signal; '
             f'write-protected buffers; the return value of LASER): the same lattice with k<={k - 1}, full product x noise x containers at every point, same oracles')
    ctx.pmap('mzm.dtypes', mzm_case, mzx, horizon=20)

    mzc, _ = mzm_cases(k - 1, seed, LAYOUTS, SCALAR_CONT_X, WAVE_CONT_X_MZM)
    ctx.rule(f'MZM further drive containers {SCALAR_CONT_X + WAVE_CONT_X_MZM}: lattice k<={k - 1} x layouts{LAYOUTS} x noise, same oracles (integer '
             f'containers carry the voltages rounded and clipped to their range; the noise component of an electrical_signal drive may be '
             f'ignored or added to the drive)')
    ctx.pmap('mzm.containers', mzm_case, mzc, horizon=20)

    thin = dict(layouts=['1pol', '2pol'], noises=['none', 'alt', 'ramp'])
    mzp, _ = mzm_cases(k - 1, seed, extra=[{'pt': pt} for pt in PTYPES[1:]], **thin)
    ctx.rule(f'MZM parameter types: bias, Vpi, loss_dB, ER_dB given as {PTYPES[1:]} wherever the value is exactly representable (so ER_dB = 0 / 60, '
             f'loss_dB = 0, Vpi = 5 / 1, bias = 0 / -Vpi occur as python int, numpy int64 / int32, float64 / float32, 0-d array, bool): lattice k<={k - 1} x '
             f'{thin["layouts"]} x {thin["noises"]} x containers{SCALAR_CONT + WAVE_CONT_MZM}; reference with the float values')
    ctx.pmap('mzm.ptypes', mzm_case, mzp, horizon=20)
    mzg, _ = mzm_cases(k - 1, seed, extra=[{'grid': g} for g in GRIDS_MP[1:]], **thin)
    ctx.rule(f'MZM under other global grids {GRIDS_MP[1:]}: lattice k<={k - 1} x {thin["layouts"]} x {thin["noises"]} x containers, same oracles')
    ctx.pmap('mzm.grids', mzm_case, mzg, horizon=20)
    ctx.rule(f'MZM pol values: numpy str {VALID_POL_X} must behave like x / y; {len(BAD_POL)} other values {BAD_POL} are either rejected or give '
             f'the result of one of the two settings')
    ctx.pmap('mzm.badpol', mzm_badpol_case, mzm_badpol_cases(seed), horizon=20)
    ctx.rule(f'integer drive arrays at the limits of their dtype {INT_LIMIT_DT} x (max, min) x bias{INT_LIMIT_BIAS} (python int, numpy int64, '
             f'float) for MZM, and for PM: reference = exact integer sum u + bias, then the closed form')
    ctx.pmap('intlimits', intlimit_case, intlimit_cases(seed), horizon=20)

    ctx.rule(f'PM: full product Vpi{VPI} x layouts{LAYOUTS + LAYOUTS_X} x noise x (3 scalar containers x {len(LVL_SPECS)} level records + '
             f'{len(WAVE_CONT_PM)} waveform containers{WAVE_CONT_PM} x {len(WAVE_SPECS)} waveform records, field lengths 1, 2, 3, 6, 13, 102, 1025); '
             f'phase shift pi*u/Vpi on signal AND noise, |S+N|^2 unchanged, wrong lengths {{0, 2, 3, N-1, N+1, N+6, 2N}}, length-1 drive array against N > 1, '
             f'the same call again on the same objects after the grid was reconfigured')
    ctx.pmap('pm.product', pm_case, pm_product_cases(seed), horizon=20)
    ctx.rule(f'PM further containers {SCALAR_CONT_X + WAVE_CONT_X_PM}, Vpi types {PM_VT} and grids {GRIDS_MP}: every container x every record x '
             f'(Vpi types on the default grid + the other grids with a float Vpi) x layouts (1pol, 2pol, 1pol-int) x noise (none, alt, ramp)')
    ctx.pmap('pm.extra', pm_case, pm_extra_cases(seed), horizon=20)

    s2, n2 = pm_seq_cases(2, True, seed, ['1pol', '2pol'], NOISES if not quick else ['none', 'alt', 'ramp', 'zero'], VPI[:2])
    ctx.rule(f'PM sequences: ALL ordered sequences of depth 2 over a {n2}-element drive alphabet (17 float levels, ints, ndarray/int-ndarray/'
             f'electrical_signal waveforms) x layouts x noise x Vpi: chain == reference with the summed drive == one library call with the summed drive')
    ctx.pmap('pm.seq2', pm_case, s2, horizon=20)
    s3, n3 = pm_seq_cases(3, not quick, seed, ['1pol', '2pol'], ['none', 'ramp', 'alt'] if quick else NOISES, VPI[:2] if not quick else VPI[:1])
    ctx.rule(f'depth 3 over a {n3}-element alphabet ({n3 ** 3} ordered sequences)')
    ctx.pmap('pm.seq3', pm_case, s3, horizon=20)
    cd = 2 if quick else 3
    ctx.rule(f'mixed chains: ALL ordered sequences of depth {cd} over {len(MIX_OPS)} device calls (3 MZM settings, 3 PM drives) x layouts (1pol, 2pol, '
             f'1pol-int, LASER output) x noise: every step against the closed form applied to the object returned by the previous step')
    ctx.pmap('chain.mixed', chain_case, chain_cases(cd, seed), horizon=20)

    lc = laser_cases(seed)
    ctx.rule(f'LASER (scripted RNG): full product time-vector kinds{LASER_TK} (seconds as float64/float32, integer sample indices as '
             f'int64/int32/uint8 with df in cycles per index) x grids{GRIDS} x N{LASER_N} (+ degenerate N{LASER_N_SHORT} with df in (None, 0)) x '
             f't-offset{LASER_T0} x p_dBm{LASER_P} x lw{LASER_LW} x '
             f'phase-noise answer vectors{LASER_ANS} x df on bins {{None,0,+-1,+-3,+-N/8,+-N/2}}: |E|^2 == P at every sample, FFT peak at df '
             f'(of E when the phase noise is nil, of E(df)/E(df=None) under the same answers otherwise); |df| > fs/2 raises ValueError')
    ctx.pmap('laser.product', laser_case, lc, horizon=20)
    lk = 3 if quick else 4
    ctx.rule(f'LASER deviation lattice k<={lk} over all those axes extended by: grids{GRIDS_X}, prime N{LASER_N_ODD}, t-offset{LASER_T0_X}, '
             f'(p, type){LASER_P_X}, (lw, type){LASER_LW_X}, type of df{LASER_DFK}, rin{LASER_RIN} (with RIN: |E|^2 equals that of the same laser '
             f'without lw and df under the same scripted RIN samples; offset term E(df)/E(None) unit modulus with its peak at df)')
    ctx.pmap('laser.lattice', laser_case, laser_lattice_cases(lk, seed), horizon=20)
    ctx.rule(f'LASER Nyquist guard: df/fs in {NYQ_OUT}, the two doubles next to +-fs/2 outside, the integers +-(floor(fs/2)+1) as python int / '
             f'numpy int64, on grids{GRIDS + GRIDS_X} x lw (None, 1e7): ValueError')
    ctx.pmap('laser.nyquist', laser_nyquist_case, laser_nyquist_cases(), horizon=20)
    ctx.rule('LASER after the grid changed: ALL ordered pairs (g1, g2) of the 6 grids x lw (None, 1e7): a call under g1, gv(**g2) without clean, then '
             'df = +-fs2/2, 3/8 fs2 accepted (level, peak), the doubles next to +-fs2/2 and 0.75 fs2 rejected, fs1/2 and -3/8 fs1 accepted iff within fs2/2')
    ctx.pmap('laser.gvseq', laser_gvseq_case, laser_gvseq_cases(), horizon=20)
    ctx.extra['bounds'] = {'mzm_deviation_k': k, 'pm_seq_depth': 3, 'pm_seq_alphabet': {'depth2': n2, 'depth3': n3},
                           'record_lengths': [1, 2, 3, 6, 13, 102, 1025], 'mzm_dtype_layout_k': k - 1,
                           'laser_time_vector_kinds': LASER_TK, 'laser_lattice_k': lk, 'mixed_chain_depth': cd}
