"""C06 - MZM obeys its passive transfer function; PM / laser phase terms are pure rotations.

Bounded-exhaustive exploration on the real `opticomlib.devices.MZM / PM / LASER`:

* part `mzm.lattice`   deviation lattice (k <= 2 quick, k <= 3 thorough) over
                       (drive values, bias, Vpi, loss, ER, pol) with the FULL product over
                       (layout x noise kind x drive container) at every lattice point;
* part `mzm.dtypes`    the same lattice with k-1 for the stored-dtype layouts (real / int64 / int32 / float32 /
                       complex64 fields whose noise has the same dtype);
* part `pm.product`    full product (layout incl. the dtype layouts x noise x container x drive values x Vpi) for PM;
* part `pm.seq2/seq3`  every ordered sequence of 2 / 3 PM operations from a drive alphabet
                       (additivity PM(PM(x,a),b) == PM(x,a+b));
* part `laser.product` LASER under the scripted RNG: every phase-noise answer vector of the
                       answer alphabet x every offset on an FFT bin x powers x linewidths x grids x
                       time-vector kinds (float64 / float32 seconds, int64 / int32 / uint8 sample indices);
* part `laser.nyquist` offsets beyond fs/2 must raise ValueError.

MZM and PM are memoryless per sample, so the alphabets are per-sample: the six field values
{0, 1, -1, j, 0.5-0.5j, 2} cycle with period 6 and the 17 drive levels {-2Vpi..2Vpi step Vpi/4}
with period 17; the record `prod102` (N = 102 = 6*17, gcd = 1) contains every (field value,
drive level) pair exactly once.  Record lengths are 1, 2, 3, 6, 102: for every field length N (N = 1 included)
every drive length of {0, 2, 3, N-1, N+1, N+6, 2N} must raise ValueError in every waveform container (ndarray of
float64 / int64 / float32, list, electrical_signal of float / int / complex / with noise); a length-1 array against
N > 1 is either rejected with ValueError or applied as the constant drive (the statement leaves that open).

Reference model (boring): out = in * sqrt(loss) * (cos th + j 10^(-ER/20) sin th),
th = pi (u + bias) / (2 Vpi) for MZM; out = in * exp(j pi u / Vpi) for PM; sqrt(P) times unit
phasors for LASER.  Tolerances are rounding bounds, see `_mzm_units/_pm_units` and notes/C06.md.
"""
from __future__ import annotations

import itertools

import numpy as np

from mcx.core.kernel import res, Horizon
from mcx.core.env import gv_reset, ScriptedRNG, scripted_rng

ID = 'C06'
LEVEL = 'exploration'
NONTRIVIAL = ('MZM/PM: input carries a non-zero noise component, or is two-polarisation, or the drive is a '
              'non-constant waveform / a non-float container, or >= 2 chained PM operations with a non-zero '
              'total drive; LASER: non-zero phase-noise answers or df != 0 (distinct observations counted)')

EPS = float(np.finfo(float).eps)
EPS32 = float(np.finfo(np.float32).eps)

# ----------------------------------------------------------------------------- alphabets
FIELD6 = [0, 1, -1, 1j, 0.5 - 0.5j, 2]
REAL6 = [0.0, 1.0, -1.0, 0.5, 2.0, -2.0]
INT6 = [0, 1, -1, 3, 2, -2]
LAYOUTS = ['1pol', '2pol', '1pol-real', '1pol-seeded']
# dtype classes of the STORED field (optical_signal keeps the dtype it is given; the noise of these layouts is cast to the
# same dtype so that the field really stays real / integer / single precision inside the library)
LAYOUTS_X = ['2pol-real', '1pol-int', '2pol-int32', '1pol-f32', '2pol-c64']
LAYOUT_DTYPE = {'1pol-real': float, '2pol-real': float, '1pol-int': np.int64, '2pol-int32': np.int32,
                '1pol-f32': np.float32, '2pol-c64': np.complex64}
NOISES = ['none', 'alt', 'zero', 'ramp', 'anti', 'seeded']   # 'alt' (+-0.1 alternating) has SUM == 0
# drive levels in quarters of Vpi, simplest first: 0, +-Vpi, +-Vpi/2, +-2Vpi, ...
LEVELS = [1, 0, 4, -4, 2, -2, 8, -8, -1, 3, -3, 5, -5, 6, -6, 7, -7]
WAVES = {
    'ramp6': [0, 1, 2, 4, -3, 8],
    'alt01': [0, 4],
    'neg6': [0, -1, -2, -4, 3, -8],
    'const4': [4],
    'prod102': [(i % 17) - 8 for i in range(102)],
}
# record lengths: 6 (one period of the field alphabet), 102, and the SHORT records 1, 2, 3 (a field of exactly one sample
# is the corner where "length 1" stops meaning "scalar drive")
WAVE_SPECS = [('wave', 'ramp6', 6), ('wave', 'alt01', 6), ('wave', 'neg6', 6), ('wave', 'const4', 6),
              ('lvl', 0, 6), ('wave', 'prod102', 102),
              ('lvl', 4, 1), ('lvl', -1, 1), ('wave', 'alt01', 2), ('lvl', 2, 2), ('wave', 'neg6', 3)]
LVL_SPECS = [('lvl', k, 6) for k in LEVELS] + [('lvl', 4, 1), ('lvl', 1, 1), ('lvl', 2, 2)]
SCALAR_CONT = ['float', 'int', 'npfloat']
WAVE_CONT_MZM = ['ndarray', 'ndarray_int', 'electrical_signal', 'list',
                 'ndarray_f32', 'electrical_signal_int', 'electrical_signal_cplx']
WAVE_CONT_PM = ['ndarray', 'ndarray_int', 'electrical_signal', 'electrical_signal_noisy',
                'ndarray_f32', 'electrical_signal_int', 'electrical_signal_cplx']
INT_CONT = ('int', 'ndarray_int', 'electrical_signal_int')
ES_CONT = ('electrical_signal', 'electrical_signal_noisy', 'electrical_signal_int', 'electrical_signal_cplx')


def prec_of(conts):
    """working precision of the library arithmetic in units of the double eps: a float32 drive array makes numpy evaluate
    theta / the phase and cos/sin/exp in single precision (same operation count, every rounding is a float32 rounding)"""
    return EPS32 / EPS if any(c == 'ndarray_f32' for c in conts) else 1.0


def wrong_lengths(N, cont):
    """drive lengths that do NOT match a field of N samples: empty, 2, 3, N-1, N+1, N+6, 2N (length 1 against N > 1 is
    treated apart, see `len1`); an empty electrical_signal cannot be constructed, so 0 is left out for those containers"""
    bad = set([0, 2, 3, N - 1, N + 1, N + 6, 2 * N]) - {N, 1, -1}
    if cont in ES_CONT:
        bad.discard(0)
    return sorted(bad)

BIAS = [0.0, 0.5, -1.0, 0.3]          # in units of Vpi
VPI = [5.0, 1.7, 1]                   # 1 is a python int on purpose
LOSS = [0.0, 2.0, 10.0, 0.5]          # dB
ER = [26.0, 0.0, 10.0, 60.0, 12.5]    # dB
POL = ['x', 'y']


def is_scalar_cont(c):
    return c in SCALAR_CONT


# ----------------------------------------------------------------------------- builders
def _cyc(vals, N, shift=0):
    off = 1 if N < 6 else 0          # short records start at the first NON-ZERO value of the alphabet
    return [vals[(i + off + shift) % 6] for i in range(N)]


def build_field(layout, N, seed):
    if layout == '1pol':
        return np.array(_cyc(FIELD6, N), complex)
    if layout == '2pol':
        return np.array([_cyc(FIELD6, N), _cyc(FIELD6, N, 1)], complex)
    if layout == '1pol-real':
        return np.array(_cyc(REAL6, N), float)
    if layout == '2pol-real':
        return np.array([_cyc(REAL6, N), _cyc(REAL6, N, 1)], float)
    if layout == '1pol-int':
        return np.array(_cyc(INT6, N), np.int64)
    if layout == '2pol-int32':
        return np.array([_cyc(INT6, N), _cyc(INT6, N, 1)], np.int32)
    if layout == '1pol-f32':
        return np.array(_cyc(REAL6, N), np.float32)
    if layout == '2pol-c64':
        return np.array([_cyc(FIELD6, N), _cyc(FIELD6, N, 1)], np.complex64)
    if layout == '1pol-seeded':
        r = np.random.RandomState(seed % (2 ** 31))
        return r.standard_normal(N) + 1j * r.standard_normal(N)
    raise KeyError(layout)


def build_noise(kind, layout, N, seed):
    n = _build_noise(kind, layout, N, seed)
    dt = LAYOUT_DTYPE.get(layout) if layout in LAYOUTS_X else None     # '1pol-real' keeps its historical complex noise
    if n is None or dt is None:
        return n
    if dt is np.complex64:
        return n.astype(np.complex64)
    r = n.real + n.imag                                                 # non-zero wherever n is
    if dt in (np.int64, np.int32):
        return np.rint(20 * r).astype(dt)                               # 'alt' -> +-2, 'ramp' -> 0,0,0,1,1,1, ...
    return r.astype(dt)


def _build_noise(kind, layout, N, seed):
    two = layout.startswith('2pol')
    i = np.arange(N)
    if kind == 'none':
        return None
    if kind == 'zero':
        n = np.zeros(N, complex)
        return np.array([n, n]) if two else n
    if kind == 'alt':                      # +-0.1 alternating: np.sum(...) == 0 exactly (N even)
        n = (0.1 * np.where(i % 2 == 0, 1.0, -1.0)).astype(complex)
        return np.array([n, 1j * n[::-1]]) if two else n
    if kind == 'ramp':
        n = 0.1 * (i + 1) / N * (1 - 0.5j)
        return np.array([n, 1j * n[::-1]]) if two else n
    if kind == 'anti':                     # 2-pol: x = ramp, y = -ramp (zero sum across polarisations)
        n = 0.1 * (i + 1) / N * (1 - 0.5j)
        return np.array([n, -n]) if two else np.full(N, 0.1 + 0j)
    if kind == 'seeded':
        r = np.random.RandomState((seed + 7919) % (2 ** 31))
        sh = (2, N) if two else (N,)
        return 0.1 * (r.standard_normal(sh) + 1j * r.standard_normal(sh))
    raise KeyError(kind)


def drive_values(spec, Vpi, cont, N=None):
    """float array (length N) of the drive voltages of `spec`, as the container `cont` will carry them"""
    kind, what, n = spec
    N = n if N is None else N
    if kind == 'lvl':
        q = np.full(N, float(what))
    else:
        w = WAVES[what]
        q = np.array([w[i % len(w)] for i in range(N)], float)
    u = q / 4.0 * float(Vpi)
    if cont in INT_CONT:
        u = np.rint(u)
    if cont == 'ndarray_f32':
        u = u.astype(np.float32).astype(float)      # the voltages the float32 container really carries
    return u


def realise(u, cont):
    """wrap the voltages u (float array) in the container type; ints fall back to the float
    counterpart when the values are not integers (used only for the derived on/off and +2Vpi calls)"""
    from opticomlib.typing import electrical_signal
    integral = bool(np.all(u == np.rint(u)))
    if cont == 'int' and not integral:
        cont = 'float'
    if cont == 'ndarray_int' and not integral:
        cont = 'ndarray'
    if cont == 'electrical_signal_int' and not integral:
        cont = 'electrical_signal'
    if cont == 'float':
        return float(u[0])
    if cont == 'int':
        return int(u[0])
    if cont == 'npfloat':
        return np.float64(u[0])
    if cont == 'ndarray':
        return np.array(u, float)
    if cont == 'ndarray_int':
        return np.array(u).astype(np.int64)
    if cont == 'ndarray_f32':
        return np.array(u, np.float32)
    if cont == 'electrical_signal':
        return electrical_signal(np.array(u, float))
    if cont == 'electrical_signal_int':        # electrical_signal keeps the integer dtype of its argument
        return electrical_signal(np.array(u).astype(np.int64))
    if cont == 'electrical_signal_cplx':       # what electrical_signal('1 2 3') / a complex baseband waveform stores: x + 0j
        return electrical_signal(np.array(u, complex))
    if cont == 'electrical_signal_noisy':      # a drive that carries its own (electrical) noise component
        uu = np.array(u, float)
        return electrical_signal(uu, 0.3 * (1 - 2 * (np.arange(uu.size) % 2)) + 0.05 * np.arange(uu.size))
    if cont == 'list':
        return [float(v) for v in u]
    raise KeyError(cont)


def make_input(layout, noise, N, seed):
    from opticomlib.typing import optical_signal
    s = build_field(layout, N, seed)
    n = build_noise(noise, layout, N, seed)
    x = optical_signal(s, n)
    # the reference works on the STORED values, converted exactly to complex128 (every stored dtype embeds exactly)
    s_in = np.array(x.signal).astype(complex)
    n_in = None if x.noise is None else np.array(x.noise).astype(complex)
    return x, s_in, n_in


def lib_call(fn, *a, **k):
    """call a library function; returns (result, None) or (None, exception)"""
    try:
        with scripted_rng(ScriptedRNG()):
            return fn(*a, **k), None
    except Horizon:
        raise
    except Exception as e:  # noqa - every exception type is data here
        return None, e


def _bytes(a):
    if a is None:
        return b'None'
    a = np.asarray(a)
    return a.dtype.str.encode() + repr(a.shape).encode() + a.tobytes()


def _excess(out, ref, scale, units):
    """max over samples of |out-ref| / (units*eps*scale) (0/0 := 0, x/0 := inf)"""
    d = np.abs(np.asarray(out) - ref)
    lim = units * EPS * scale
    bad = d > lim
    if not bad.any():
        return None
    i = int(np.argmax(np.where(lim > 0, d / np.where(lim > 0, lim, 1), np.where(d > 0, np.inf, 0))))
    idx = np.unravel_index(i, d.shape)
    return idx, np.asarray(out)[idx], ref[idx], float(d[idx]), float(lim[idx])


def _nz(a):
    return a is not None and bool(np.any(a != 0))


# ----------------------------------------------------------------------------- tolerances
def _mzm_units(theta_max):
    """|out - ref| <= units*eps*sqrt(loss)*|in|.
    theta = pi/2/Vpi*(u+bias): 4 roundings (u+bias, pi/2, /Vpi, *) -> |d theta| <= 2 eps |theta|; cos/sin 1 ulp each,
    eta and sqrt(loss) (pow, sqrt) 3 eps, eta/2*sin and the complex sum 2 eps, complex product in*h 3 eps:
    (2|theta| + 9) eps per evaluation path; library and reference each take one path -> x2; safety factor 2."""
    return 4.0 * (2.0 * theta_max + 9.0)


def _pm_units(phis, phi_tot):
    """|out - ref| <= units*eps*|in|.
    phi = u*pi/Vpi: 3 roundings -> |d phi| <= 1.5 eps |phi|; exp 1 ulp per component (1.5 eps), complex product 3 eps:
    (1.5|phi_i| + 4.5) eps per library operation; the reference with the summed drive costs (1.5|phi_tot| + 4.5) eps plus
    the n roundings of the sum of n drives (each <= 0.5 eps |phi_tot|); safety factor 2."""
    n = len(phis)
    return 2.0 * (sum(1.5 * p + 4.5 for p in phis) + 1.5 * phi_tot + 4.5 + 0.5 * n * phi_tot)


# ----------------------------------------------------------------------------- MZM
def mzm_case(case):
    from opticomlib.devices import MZM
    gv_reset()
    layout, noise, cont, spec = case['layout'], case['noise'], case['cont'], case['drive']
    N, seed = case['N'], case['seed']
    Vpi, loss_dB, ER_dB, pol = case['Vpi'], case['loss'], case['ER'], case['pol']
    bias = case['bias'] * float(Vpi)
    x, s_in, n_in = make_input(layout, noise, N, seed)
    u = drive_values(spec, Vpi, cont, N)
    viol, stats = [], {'mzm_calls': 0, f'mzm_field_dtype_{x.signal.dtype.name}': 1}
    tag = f'{cont}-drive'
    prec = prec_of([cont])

    def fail(key, msg):
        viol.append((key, f'MZM(layout={layout}, noise={noise}, N={N}, drive={cont}:{spec[:2]} u={_short(u)}, bias={bias}, '
                          f'Vpi={Vpi!r}, loss_dB={loss_dB}, ER_dB={ER_dB}, pol={pol}): {msg}'))

    def run(uu, c=cont):
        stats['mzm_calls'] += 1
        return lib_call(MZM, x, realise(uu, c), bias=bias, Vpi=Vpi, loss_dB=loss_dB, ER_dB=ER_dB, pol=pol)

    out, exc = run(u)
    if exc is not None:
        fail(f'MZM:{tag}:{type(exc).__name__}', f'raised {type(exc).__name__}: {exc}')
        return res(viol=viol, obs=('EXC', type(exc).__name__), nontrivial=True, stats=stats)

    two = s_in.ndim == 2
    sel = 0 if pol == 'x' else 1
    rl = 10.0 ** (-loss_dB / 20.0)
    r = 10.0 ** (-ER_dB / 20.0)
    theta = np.pi * (u + bias) / (2.0 * float(Vpi))
    h = rl * (np.cos(theta) + 1j * r * np.sin(theta))
    units = prec * _mzm_units(float(np.max(np.abs(theta))) + np.pi)     # +pi: the shifted drive of the periodicity clause

    osig = np.asarray(out.signal)
    onoise = None if out.noise is None else np.asarray(out.noise)
    obs = (_bytes(osig), _bytes(onoise))
    if osig.shape != s_in.shape or (onoise is not None and onoise.shape != s_in.shape):
        fail('MZM:shape', f'output shape {osig.shape}/{None if onoise is None else onoise.shape} != input shape {s_in.shape}')
        return res(viol=viol, obs=obs, nontrivial=True, stats=stats)

    pick = (lambda a: a[sel]) if two else (lambda a: a)      # the modulated polarisation
    ref_s = s_in * h
    scale_s = rl * np.abs(s_in)

    # --- transfer function on the signal (selected polarisation) ---
    e = _excess(pick(osig), pick(ref_s), pick(scale_s), units)
    if e:
        fail('MZM:transfer:signal', f'sample {e[0]}: out={e[1]} expected in*h={e[2]} |diff|={e[3]:.3g} > {units:.0f} eps*sqrt(loss)*|in|={e[4]:.3g}')
    # --- passivity ---
    if np.any(np.abs(osig) > scale_s * (1 + 16 * EPS * prec)):
        i = np.unravel_index(int(np.argmax(np.abs(osig) - scale_s)), osig.shape)
        fail('MZM:passivity', f'sample {i}: |out|={abs(osig[i])!r} > sqrt(loss)*|in|={scale_s[i]!r}')
    # --- unselected polarisation extinguished ---
    if two and np.any(osig[1 - sel] != 0):
        fail('MZM:pol-not-extinguished:signal', f'pol={pol}: unselected polarisation of the signal is {_short(osig[1 - sel])}')
    # --- noise modulated exactly like the signal ---
    if _nz(n_in):
        zs = 'zero-sum-noise' if np.sum(n_in) == 0 else 'nonzero-sum-noise'
        if onoise is None:
            fail(f'MZM:noise-dropped:{zs}', 'input noise is non-zero but output.noise is None')
        else:
            ref_n = n_in * h
            scale_n = rl * np.abs(n_in)
            e = _excess(pick(onoise), pick(ref_n), pick(scale_n), units)
            if e:
                fail('MZM:transfer:noise', f'noise sample {e[0]}: out={e[1]} expected noise*h={e[2]} |diff|={e[3]:.3g} > tol {e[4]:.3g} '
                                           f'(accompanying noise must be modulated exactly like the signal)')
            if np.any(np.abs(onoise) > scale_n * (1 + 16 * EPS * prec)):
                fail('MZM:passivity:noise', 'noise component amplified: |noise_out| > sqrt(loss)*|noise_in|')
            if two and np.any(onoise[1 - sel] != 0):
                fail('MZM:pol-not-extinguished:noise', f'pol={pol}: unselected polarisation of the noise is {_short(onoise[1 - sel])}')
    elif onoise is not None and np.any(onoise != 0):
        fail('MZM:noise-created', f'input noise absent/zero but output noise is {_short(onoise)}')

    # --- containers give identical results (against the float counterpart holding the same voltages) ---
    if cont not in ('float', 'ndarray'):
        base = 'float' if is_scalar_cont(cont) else 'ndarray'
        o2, exc2 = run(u, base)
        if exc2 is None:
            d = _excess(np.asarray(o2.signal), osig, scale_s, 2 * units)
            dn = None
            if onoise is not None and o2.noise is not None:
                dn = _excess(np.asarray(o2.noise), onoise, rl * np.abs(n_in), 2 * units)
            if d or dn or ((onoise is None) != (o2.noise is None) and _nz(n_in)):
                fail(f'MZM:containers-differ:{cont}', f'result with a {cont} drive differs from the result with the same voltages as {base}')
            stats['mzm_container_bitwise_equal'] = int(_bytes(o2.signal) == _bytes(osig))
            stats['mzm_container_pairs'] = 1

    # --- output power is 2*Vpi periodic in the drive ---
    o3, exc3 = run(u + 2.0 * float(Vpi))
    if exc3 is not None:
        fail(f'MZM:{tag}:{type(exc3).__name__}', f'drive u+2Vpi raised {type(exc3).__name__}: {exc3}')
    else:
        p1, p3 = np.abs(osig) ** 2, np.abs(np.asarray(o3.signal)) ** 2
        if np.any(np.abs(p1 - p3) > 2 * units * EPS * scale_s ** 2):
            i = np.unravel_index(int(np.argmax(np.abs(p1 - p3))), p1.shape)
            fail('MZM:periodicity', f'sample {i}: power at u is {p1[i]!r}, at u+2Vpi {p3[i]!r}')
        if onoise is not None and o3.noise is not None and n_in is not None:
            q1, q3 = np.abs(onoise) ** 2, np.abs(np.asarray(o3.noise)) ** 2
            if np.any(np.abs(q1 - q3) > 2 * units * EPS * (rl * np.abs(n_in)) ** 2):
                fail('MZM:periodicity:noise', 'noise power at u and u+2Vpi differ')

    # --- on/off power ratio equals ER_dB ---
    on, e_on = run(np.full(N, -bias))
    off, e_off = run(np.full(N, float(Vpi) - bias))
    if e_on is not None or e_off is not None:
        ee = e_on or e_off
        fail(f'MZM:{tag}:{type(ee).__name__}', f'constant on/off drive raised {type(ee).__name__}: {ee}')
    else:
        p_on, p_off = np.abs(np.asarray(on.signal)) ** 2, np.abs(np.asarray(off.signal)) ** 2
        er_lin = 10.0 ** (ER_dB / 10.0)
        lim = 64 * EPS * prec * scale_s ** 2   # P_on = loss |in|^2 (1 +- few eps); cos(pi/2)^2 * ER_lin <= 1e-24 is far below
        if np.any(np.abs(p_on - er_lin * p_off) > lim):
            i = np.unravel_index(int(np.argmax(np.abs(p_on - er_lin * p_off) - lim)), p_on.shape)
            ratio = p_on[i] / p_off[i] if p_off[i] else float('inf')
            fail('MZM:onoff-ratio', f'sample {i}: P(theta=0)/P(theta=pi/2) = {ratio!r} ({10 * np.log10(ratio):.6f} dB), ER_dB = {ER_dB}')

    # --- mismatched lengths raise ValueError (every length of wrong_lengths(N), whatever the field length) ---
    if not is_scalar_cont(cont):
        for Nbad in wrong_lengths(N, cont):
            ubad = drive_values(spec, Vpi, cont, Nbad)
            ob, ex = run(ubad)
            stats['mzm_wrong_length_calls'] = stats.get('mzm_wrong_length_calls', 0) + 1
            if ex is None:
                fail(f'MZM:wrong-length-accepted:{cont}', f'{cont} drive of length {Nbad} for a field of length {N} was accepted '
                                                          f'(output shape {np.shape(ob.signal)}, input shape {s_in.shape})')
            elif not isinstance(ex, ValueError):
                fail(f'MZM:{tag}:{type(ex).__name__}', f'drive of length {Nbad} raised {type(ex).__name__} instead of ValueError: {ex}')
        # --- a length-1 array against N > 1 samples: the statement leaves open whether that is a "scalar" drive or a
        #     "mismatched length"; it is either rejected with ValueError or applied as the constant drive, nothing else ---
        if N > 1:
            u1 = drive_values(spec, Vpi, cont, 1)
            o1, ex = run(u1)
            if ex is not None:
                stats['mzm_len1_drive_rejected'] = 1
                if not isinstance(ex, ValueError):
                    fail(f'MZM:len1-drive:{type(ex).__name__}', f'{cont} drive of length 1 for a field of length {N} raised {type(ex).__name__}: {ex}')
            else:
                stats['mzm_len1_drive_accepted'] = 1
                th1 = np.pi * (u1[0] + bias) / (2.0 * float(Vpi))
                ref1 = s_in * (rl * (np.cos(th1) + 1j * r * np.sin(th1)))
                if two:
                    ref1[1 - sel] = 0
                o1s = np.asarray(o1.signal)
                if o1s.shape != s_in.shape or _excess(o1s, ref1, scale_s, units):
                    fail('MZM:len1-drive:not-the-constant-drive', f'{cont} drive of length 1 ({u1[0]!r}) for a field of length {N} was accepted '
                                                                  f'but the output (shape {o1s.shape}) is not in*h(u) sample by sample')

    nt = _nz(n_in) or two or not is_scalar_cont(cont) or cont != 'float'
    return res(viol=viol, obs=obs, nontrivial=bool(nt), stats=stats)


def _short(a):
    a = np.asarray(a).ravel()
    return np.array2string(a[:6], precision=4, separator=',') + ('...' if a.size > 6 else '')


# ----------------------------------------------------------------------------- PM (single op and sequences)
def pm_case(case):
    """case['ops'] = [(container, spec), ...] applied in order: y = PM(...PM(PM(x,u1),u2)...)"""
    from opticomlib.devices import PM
    gv_reset()
    layout, noise, N, seed, Vpi = case['layout'], case['noise'], case['N'], case['seed'], case['Vpi']
    ops = case['ops']
    x, s_in, n_in = make_input(layout, noise, N, seed)
    viol, stats = [], {'pm_calls': 0, f'pm_field_dtype_{x.signal.dtype.name}': 1}
    prec = prec_of([c for c, _ in ops])
    us = [drive_values(spec, Vpi, cont, N) for cont, spec in ops]
    utot = np.sum(us, axis=0)
    desc = ' -> '.join(f'{c}:{_short(u) if not is_scalar_cont(c) else u[0]!r}' for (c, _), u in zip(ops, us))

    def fail(key, msg):
        viol.append((key, f'PM chain [{desc}] on (layout={layout}, noise={noise}, N={N}, Vpi={Vpi!r}): {msg}'))

    y = x
    for k, ((cont, spec), u) in enumerate(zip(ops, us)):
        n_before = None if y.noise is None else np.array(y.noise)
        stats['pm_calls'] += 1
        y2, exc = lib_call(PM, y, realise(u, cont), Vpi)
        if exc is not None:
            fail(f'PM:{cont}-drive:{type(exc).__name__}', f'op {k + 1} ({cont} drive of matching length {N}) raised {type(exc).__name__}: {exc}')
            return res(viol=viol, obs=('EXC', k, type(exc).__name__), nontrivial=True, stats=stats)
        if _nz(n_before) and (y2.noise is None or not np.any(np.asarray(y2.noise) != 0)):
            zs = 'zero-sum-noise' if np.sum(n_before) == 0 else 'nonzero-sum-noise'
            tot_in = np.abs(np.asarray(y.signal) + n_before) ** 2
            tot_out = np.abs(np.asarray(y2.signal)) ** 2
            fail(f'PM:noise-dropped:{zs}', f'op {k + 1}: input noise {_short(n_before)} (np.sum = {np.sum(n_before)!r}) is non-zero but '
                                           f'output.noise is {None if y2.noise is None else "all zero"}; total-field power |S+N|^2 changed from '
                                           f'{_short(tot_in)} to {_short(tot_out)}')
            return res(viol=viol, obs=('DROP', k, _bytes(y2.signal)), nontrivial=True, stats=stats)
        y = y2

    osig = np.asarray(y.signal)
    onoise = None if y.noise is None else np.asarray(y.noise)
    obs = (_bytes(osig), _bytes(onoise))
    if osig.shape != s_in.shape or (onoise is not None and onoise.shape != s_in.shape):
        fail('PM:shape', f'output shape {osig.shape} != input shape {s_in.shape}')
        return res(viol=viol, obs=obs, nontrivial=True, stats=stats)

    noisy_drive = any(c == 'electrical_signal_noisy' for c, _ in ops)
    if noisy_drive:
        # The statement does not say whether the noise component of a drive takes part in the phase shift; what it does say
        # is that PM is a pure rotation of the TOTAL field: signal and noise must be rotated by the same angle per sample.
        tin = s_in if n_in is None else s_in + n_in
        tout = osig if onoise is None else osig + onoise
        pin, pout = np.abs(tin) ** 2, np.abs(tout) ** 2
        mag = (np.abs(s_in) + (0 if n_in is None else np.abs(n_in))) ** 2
        if np.any(np.abs(pin - pout) > 64 * EPS * prec * (mag + 1e-300)):
            i = np.unravel_index(int(np.argmax(np.abs(pin - pout))), pin.shape)
            fail('PM:total-power-changed:noisy-drive', f'drive with an electrical noise component: sample {i}: |S+N|^2 in = {pin[i]!r}, out = {pout[i]!r} '
                                                       f'(signal and noise rotated by different angles)')
        return res(viol=viol, obs=obs, nontrivial=True, stats=stats)

    phis = [float(np.max(np.abs(u))) * np.pi / float(Vpi) for u in us]
    phi_tot = float(np.max(np.abs(utot))) * np.pi / float(Vpi)
    units = prec * _pm_units(phis, phi_tot)
    rot = np.exp(1j * np.pi * utot / float(Vpi))
    what = 'pi*u/Vpi' if len(ops) == 1 else 'pi*(sum of drives)/Vpi'

    e = _excess(osig, s_in * rot, np.abs(s_in), units)
    if e:
        fail('PM:phase-shift:signal' if len(ops) == 1 else 'PM:additivity:signal',
             f'sample {e[0]}: out={e[1]} expected in*exp(j {what})={e[2]} |diff|={e[3]:.3g} > {units:.0f} eps*|in|={e[4]:.3g}')
    if _nz(n_in):
        e = _excess(onoise, n_in * rot, np.abs(n_in), units)
        if e:
            fail('PM:phase-shift:noise' if len(ops) == 1 else 'PM:additivity:noise',
                 f'noise sample {e[0]}: out={e[1]} expected noise*exp(j {what})={e[2]} |diff|={e[3]:.3g} > tol {e[4]:.3g}')
    elif onoise is not None and np.any(onoise != 0):
        fail('PM:noise-created', f'input noise absent/zero but output noise is {_short(onoise)}')

    # instantaneous power of the total field (signal plus noise) unchanged
    tin = s_in if n_in is None else s_in + n_in
    tout = osig if onoise is None else osig + onoise
    pin, pout = np.abs(tin) ** 2, np.abs(tout) ** 2
    mag = (np.abs(s_in) + (0 if n_in is None else np.abs(n_in))) ** 2
    if np.any(np.abs(pin - pout) > 2 * units * EPS * mag):
        i = np.unravel_index(int(np.argmax(np.abs(pin - pout))), pin.shape)
        fail('PM:total-power-changed', f'sample {i}: |S+N|^2 in = {pin[i]!r}, out = {pout[i]!r}')

    # composition: the chain equals ONE library call with the summed drive
    if len(ops) > 1:
        allscalar = all(is_scalar_cont(c) for c, _ in ops)
        stats['pm_calls'] += 1
        z, exc = lib_call(PM, x, realise(utot, 'float' if allscalar else 'ndarray'), Vpi)
        if exc is not None:
            fail(f'PM:{"float" if allscalar else "ndarray"}-drive:{type(exc).__name__}', f'PM(x, a+b) raised {type(exc).__name__}: {exc}')
        else:
            e = _excess(np.asarray(z.signal), osig, np.abs(s_in), 2 * units)
            en = None
            if _nz(n_in) and z.noise is not None:
                en = _excess(np.asarray(z.noise), onoise, np.abs(n_in), 2 * units)
            if e or en or (_nz(n_in) and z.noise is None):
                fail('PM:additivity:vs-single-call', f'chain result differs from PM(x, sum of drives): {e or en or "noise missing in the single call"}')
        stats['pm_chains'] = 1

    # mismatched lengths raise ValueError (single-op cases only)
    if len(ops) == 1 and not is_scalar_cont(ops[0][0]):
        cont, spec = ops[0]
        for Nbad in wrong_lengths(N, cont):
            ubad = drive_values(spec, Vpi, cont, Nbad)
            ob, ex = lib_call(PM, x, realise(ubad, cont), Vpi)
            stats['pm_wrong_length_calls'] = stats.get('pm_wrong_length_calls', 0) + 1
            if ex is None:
                fail(f'PM:wrong-length-accepted:{cont}', f'{cont} drive of length {Nbad} for a field of length {N} was accepted '
                                                         f'(output shape {np.shape(ob.signal)}, input shape {s_in.shape})')
            elif not isinstance(ex, ValueError):
                fail(f'PM:{cont}-drive:{type(ex).__name__}', f'{cont} drive of length {Nbad} (field {N}) raised {type(ex).__name__} instead of ValueError: {ex}')
        # a length-1 array against N > 1 samples: rejected with ValueError or applied as the constant drive (statement is silent which)
        if N > 1:
            u1 = drive_values(spec, Vpi, cont, 1)
            o1, ex = lib_call(PM, x, realise(u1, cont), Vpi)
            if ex is not None:
                stats['pm_len1_drive_rejected'] = 1
                if not isinstance(ex, ValueError):
                    fail(f'PM:len1-drive:{type(ex).__name__}', f'{cont} drive of length 1 for a field of length {N} raised {type(ex).__name__}: {ex}')
            else:
                stats['pm_len1_drive_accepted'] = 1
                o1s = np.asarray(o1.signal)
                if o1s.shape != s_in.shape or _excess(o1s, s_in * np.exp(1j * np.pi * u1[0] / float(Vpi)), np.abs(s_in), units):
                    fail('PM:len1-drive:not-the-constant-drive', f'{cont} drive of length 1 ({u1[0]!r}) for a field of length {N} was accepted '
                                                                 f'but the output (shape {o1s.shape}) is not in*exp(j pi u/Vpi) sample by sample')

    nt = (_nz(n_in) or s_in.ndim == 2 or any(not is_scalar_cont(c) or c != 'float' for c, _ in ops)
          or (len(ops) > 1 and bool(np.any(utot != 0))))
    return res(viol=viol, obs=obs, nontrivial=bool(nt), stats=stats)


# ----------------------------------------------------------------------------- LASER
GRIDS = [{}, {'sps': 8, 'R': 1e9}]
LASER_N = [16, 64]
LASER_N_SHORT = [1, 2]               # degenerate records: only the level clause (and the trivial peak) applies
LASER_T0 = [0, 3]
# dtype / unit of the time vector: seconds on the gv grid as float64 / float32, or integer sample indices (1 s steps)
# as int64 / int32 / uint8  (LASER derives the envelope from `t`, so the dtype of t must not leak into the amplitude)
LASER_TK = ['f64', 'i64', 'i32', 'f32', 'u8']
T_DTYPE = {'f64': float, 'f32': np.float32, 'i64': np.int64, 'i32': np.int32, 'u8': np.uint8}
LASER_P = [0.0, 10.0, -30.0, 23.5]
LASER_LW = [None, 0.0, 1e5, 1e7, 1e9]
LASER_ANS = ['zero', 'ramp', 'altpi', 'seeded', 'big']
NYQ_OUT = [0.5 + 2.0 ** -20, -(0.5 + 2.0 ** -20), 0.75, -0.75, 1.0, -1.0, 10.0, -10.0]


def _answer(kind, seed):
    def f(fn, info):
        n = info['size']
        n = int(np.prod(n)) if n is not None else 1
        sc = info.get('scale', 1.0)
        sc = sc if isinstance(sc, float) else 1.0
        if fn != 'normal' or kind == 'zero' or not sc:
            return None
        if kind == 'ramp':
            return np.arange(n) / n
        if kind == 'altpi':                       # increments of +-pi radians
            return np.where(np.arange(n) % 2 == 0, 1.0, -1.0) * (np.pi / sc)
        if kind == 'big':
            return np.full(n, 1e3)
        if kind == 'seeded':
            return np.random.RandomState((seed + 104729) % (2 ** 31)).standard_normal(n)
        raise KeyError(kind)
    return f


def laser_case(case):
    from opticomlib.devices import LASER
    gv = gv_reset(**case['grid'])
    fs, dt = float(gv.fs), float(gv.dt)
    N, t0, p, lw, ans, m, seed = case['N'], case['t0'], case['p'], case['lw'], case['ans'], case['m'], case['seed']
    tk = case.get('tk', 'f64')
    if tk in ('f64', 'f32'):
        t = ((np.arange(N) + t0) * dt).astype(T_DTYPE[tk])
        step = dt
        df = None if m is None else fs * (m / N)      # m/N is dyadic -> exact; |df| <= fs/2 exactly
        tdesc = f'((arange({N})+{t0})*dt).astype({tk})'
    else:
        # integer sample indices: the grid of t is 1 s, bin m of the N-point FFT is m/N Hz (far inside gv.fs/2)
        t = (np.arange(N) + t0).astype(T_DTYPE[tk])
        step = 1.0
        df = None if m is None else m / N
        tdesc = f'(arange({N})+{t0}).astype({tk})'
    # float32 time vector: numpy evaluates the envelope / the offset phasor in single precision
    prec = EPS32 / EPS if tk == 'f32' else 1.0
    viol, stats = [], {'laser_calls': 0, f'laser_t_{tk}': 1}

    def fail(key, msg):
        viol.append((key, f'LASER(t={tdesc}, p={p}, lw={lw}, rin=None, df={df!r}) fs={fs:g} phase-noise answers={ans}: {msg}'))

    def run(dfv):
        script = ScriptedRNG(_answer(ans, seed))
        stats['laser_calls'] += 1
        try:
            with scripted_rng(script):
                return LASER(t, p, lw=lw, rin=None, df=dfv), None, script
        except Horizon:
            raise
        except Exception as e:  # noqa
            return None, e, script

    out, exc, script = run(df)
    if exc is not None:
        fail(f'LASER:within-nyquist:{type(exc).__name__}', f'raised {type(exc).__name__}: {exc}')
        return res(viol=viol, obs=('EXC', type(exc).__name__), nontrivial=True, stats=stats)
    E = np.asarray(out.signal)
    obs = (_bytes(E), _bytes(out.noise))
    if E.shape != t.shape:
        fail('LASER:shape', f'field shape {E.shape} != t.shape {t.shape}')
        return res(viol=viol, obs=obs, nontrivial=True, stats=stats)
    P = 1e-3 * 10.0 ** (p / 10.0)
    tot = E if out.noise is None else E + np.asarray(out.noise)
    pw = np.abs(tot) ** 2
    # level: idbm exponent rounding (2.3*6 eps) + pow ulp on both sides, sqrt+square, two unit phasors, two products: < 32 eps; x2
    if np.any(np.abs(pw - P) > 64 * EPS * prec * P):
        i = int(np.argmax(np.abs(pw - P)))
        fail('LASER:power-not-constant', f'sample {i}: |E|^2 = {pw[i]!r}, P = {P!r} (rel. dev. {abs(pw[i] - P) / P:.3g})')
    phase_free = lw is None or ans == 'zero' or lw == 0.0
    kb = None if m is None else m % N
    if phase_free:
        k = int(np.argmax(np.abs(np.fft.fft(E))))
        want = 0 if kb is None else kb
        if k != want:
            fail('LASER:spectral-peak-not-at-df', f'no phase noise: FFT peak at bin {k} (f = {np.fft.fftfreq(N, step)[k]:g} Hz), df = {df!r} is bin {want}')
    if m is not None:
        # the frequency-offset term alone: same scripted phase noise with and without df
        base, exc0, script0 = run(None)
        if exc0 is not None:
            fail(f'LASER:within-nyquist:{type(exc0).__name__}', f'df=None raised {type(exc0).__name__}: {exc0}')
        else:
            ratio = E * np.conj(np.asarray(base.signal)) / P
            if np.any(np.abs(np.abs(ratio) - 1) > 64 * EPS * prec):
                fail('LASER:offset-term-not-a-rotation', f'|E(df)/E(df=None)| deviates from 1 by {np.max(np.abs(np.abs(ratio) - 1)):.3g}')
            k = int(np.argmax(np.abs(np.fft.fft(ratio))))
            if k != kb:
                fail('LASER:spectral-peak-not-at-df', f'offset term E(df)/E(df=None): FFT peak at bin {k} '
                                                      f'(f = {np.fft.fftfreq(N, step)[k]:g} Hz), df = {df!r} is bin {kb}')
    # conformance of the documented Wiener model (statistic only, not part of the statement)
    if lw is not None and script.requests:
        stats['laser_normal_requests'] = len(script.requests)
    nt = (lw is not None and not phase_free) or (m not in (None, 0))
    return res(viol=viol, obs=obs, nontrivial=bool(nt), stats=stats)


def laser_nyquist_case(case):
    from opticomlib.devices import LASER
    gv = gv_reset(**case['grid'])
    fs, dt = float(gv.fs), float(gv.dt)
    t = np.arange(case['N']) * dt
    df = fs * case['f']
    out, exc = None, None
    try:
        with scripted_rng(ScriptedRNG(_answer(case['ans'], 0))):
            out = LASER(t, case['p'], lw=case['lw'], rin=None, df=df)
    except Horizon:
        raise
    except Exception as e:  # noqa
        exc = e
    viol = []
    if exc is None:
        viol.append(('LASER:beyond-nyquist-accepted', f'LASER(df={df!r}) with fs={fs:g} (|df| > fs/2) returned instead of raising'))
    elif not isinstance(exc, ValueError):
        viol.append((f'LASER:beyond-nyquist:{type(exc).__name__}', f'LASER(df={df!r}) with fs={fs:g} raised {type(exc).__name__} instead of ValueError: {exc}'))
    return res(viol=viol, obs=('raised', type(exc).__name__ if exc else None, case['f']), nontrivial=True, stats={'laser_calls': 1})


# ----------------------------------------------------------------------------- spaces
def deviations(axes, k):
    """all points differing from the baseline (first value of every axis) in at most k axes; fewest deviations first"""
    names = [n for n, _ in axes]
    out = []
    for r in range(min(k, len(axes)) + 1):
        for idxs in itertools.combinations(range(len(axes)), r):
            for combo in itertools.product(*[axes[i][1][1:] for i in idxs]):
                p = {n: v[0] for n, v in axes}
                for i, c in zip(idxs, combo):
                    p[names[i]] = c
                out.append((r, p))
    return out


def mzm_cases(k, seed, layouts=None):
    layouts = LAYOUTS if layouts is None else layouts
    cases = []
    sizes = {}
    for kindname, conts, specs in (('scalar', SCALAR_CONT, LVL_SPECS), ('waveform', WAVE_CONT_MZM, WAVE_SPECS)):
        axes = [('drive', specs), ('bias', BIAS), ('Vpi', VPI), ('loss', LOSS), ('ER', ER), ('pol', POL)]
        lat = deviations(axes, k)
        sizes[kindname] = len(lat)
        for pi_, (r, p) in enumerate(lat):
            for li, layout in enumerate(layouts):
                for ni, noise in enumerate(NOISES):
                    for ci, cont in enumerate(conts):
                        c = dict(p)
                        c.update(layout=layout, noise=noise, cont=cont, N=p['drive'][2], seed=seed)
                        cases.append(((r, li, ni, 0 if kindname == 'scalar' else 1, ci, pi_), c))
    cases.sort(key=lambda t: t[0])
    return [c for _, c in cases], sizes


def pm_product_cases(seed):
    cases = []
    for Vpi in VPI:
        for layout in LAYOUTS + LAYOUTS_X:
            for noise in NOISES:
                for conts, specs in ((SCALAR_CONT, LVL_SPECS), (WAVE_CONT_PM, WAVE_SPECS)):
                    for cont in conts:
                        for spec in specs:
                            cases.append({'layout': layout, 'noise': noise, 'N': spec[2], 'seed': seed, 'Vpi': Vpi, 'ops': [(cont, spec)]})
    return cases


def seq_alphabet(full):
    lv = LEVELS if full else [1, 4, -4, 8]
    a = [('float', ('lvl', k, 6)) for k in lv]
    a += [('int', ('lvl', 4, 6))]
    if full:
        a += [('int', ('lvl', -8, 6))]
    a += [('ndarray', ('wave', 'ramp6', 6)), ('ndarray', ('wave', 'alt01', 6))]
    if full:
        a += [('ndarray_int', ('wave', 'ramp6', 6))]
    a += [('electrical_signal', ('wave', 'ramp6', 6))]
    return a


def pm_seq_cases(depth, full, seed, layouts, noises, vpis):
    A = seq_alphabet(full)
    cases = []
    for ops in itertools.product(A, repeat=depth):
        for Vpi in vpis:
            for layout in layouts:
                for noise in noises:
                    cases.append({'layout': layout, 'noise': noise, 'N': 6, 'seed': seed, 'Vpi': Vpi, 'ops': list(ops)})
    return cases, len(A)


def laser_cases(seed):
    cases = []
    for tk in LASER_TK:
        for grid in GRIDS:
            for N in LASER_N + LASER_N_SHORT:
                ms = [None, 0, 1, -1, 3, -3, N // 8, -(N // 8), N // 2, -(N // 2)] if N >= 16 else [None, 0]
                for t0 in LASER_T0:
                    for p in LASER_P:
                        for lw in LASER_LW:
                            for ans in (['zero'] if lw is None else LASER_ANS):
                                for m in ms:
                                    cases.append({'grid': grid, 'N': N, 't0': t0, 'p': p, 'lw': lw, 'ans': ans, 'm': m,
                                                  'seed': seed, 'tk': tk})
    return cases


def laser_nyquist_cases():
    return [{'grid': g, 'N': 64, 'p': 0.0, 'lw': lw, 'ans': 'ramp', 'f': f}
            for g in GRIDS for lw in (None, 1e7) for f in NYQ_OUT]


# minimal inputs of the two PM defects (DESIGN 8 #3, #4); replayed first so that a returning defect shows in seconds
REGRESS = [
    ('pm', {'layout': '1pol', 'noise': 'alt', 'N': 2, 'seed': 0, 'Vpi': 5.0, 'ops': [('float', ('lvl', 0, 2))]}),
    ('pm', {'layout': '1pol', 'noise': 'none', 'N': 2, 'seed': 0, 'Vpi': 5.0, 'ops': [('electrical_signal', ('lvl', 0, 2))]}),
]


def run(ctx):
    quick = ctx.quick
    k = 2 if quick else 3
    seed = int(ctx.seed)
    ctx.assume('cos/sin/exp/pow of numpy are faithful to ~1 ulp; tolerances are k*eps rounding bounds relative to sqrt(loss)*|in| '
               '(MZM) or |in| (PM), k derived from the operation count and the largest phase argument (see _mzm_units/_pm_units); '
               'with a float32 drive array / float32 time vector numpy works in single precision and eps is the float32 eps')
    ctx.assume('the scripted RNG stands for numpy.random.normal: LASER draws its phase-noise increments only through that entry point '
               '(any other numpy.random call fails loudly as unscripted randomness)')
    ctx.assume('continuum quantifiers (all complex fields, all drive voltages) are covered at the per-sample alphabet points only: '
               'fields {0,1,-1,j,.5-.5j,2} + real + seeded, 17 drive levels in steps of Vpi/4; BW (band-pass stage of MZM) is left None')
    for kind, case in REGRESS:
        ctx.run_case('regress', pm_case, case)

    mz, sizes = mzm_cases(k, seed)
    ctx.space('mzm.lattice.points.scalar-drive', sizes['scalar'])
    ctx.space('mzm.lattice.points.waveform-drive', sizes['waveform'])
    ctx.rule(f'MZM: deviation lattice k<={k} over (drive values[{len(LVL_SPECS)} level records | {len(WAVE_SPECS)} waveform records, field lengths '
             f'1, 2, 3, 6, 102], bias{BIAS}*Vpi, Vpi{VPI}, '
             f'loss{LOSS}, ER{ER}, pol{POL}) around (u=Vpi/4 | ramp6, 0, 5, 0, 26, x); at EVERY lattice point the full product '
             f'layouts{LAYOUTS} x noise{NOISES} x containers{SCALAR_CONT + WAVE_CONT_MZM}; per case: transfer identity on signal and noise, '
             f'passivity, pol extinction, container equivalence, +2Vpi periodicity, on/off ratio, every wrong drive length of '
             f'{{0, 2, 3, N-1, N+1, N+6, 2N}} for the field length N (N = 1 included) must raise ValueError, a length-1 drive array against '
             f'N > 1 is either rejected with ValueError or applied as the constant drive')
    ctx.pmap('mzm.lattice', mzm_case, mz, horizon=20)

    mzx, sizes_x = mzm_cases(k - 1, seed, LAYOUTS_X)
    ctx.space('mzm.dtypes.points.scalar-drive', sizes_x['scalar'])
    ctx.space('mzm.dtypes.points.waveform-drive', sizes_x['waveform'])
    ctx.rule(f'MZM stored-dtype layouts {LAYOUTS_X} (real / int64 / int32 / float32 / complex64 fields whose noise has the same dtype): '
             f'the same lattice with k<={k - 1}, full product x noise x containers at every point, same oracles')
    ctx.pmap('mzm.dtypes', mzm_case, mzx, horizon=20)

    ctx.rule(f'PM: full product Vpi{VPI} x layouts{LAYOUTS + LAYOUTS_X} x noise x (3 scalar containers x {len(LVL_SPECS)} level records + '
             f'{len(WAVE_CONT_PM)} waveform containers{WAVE_CONT_PM} x {len(WAVE_SPECS)} waveform records, field lengths 1, 2, 3, 6, 102); '
             f'phase shift pi*u/Vpi on signal AND noise, |S+N|^2 unchanged, wrong lengths {{0, 2, 3, N-1, N+1, N+6, 2N}}, length-1 drive array against N > 1')
    ctx.pmap('pm.product', pm_case, pm_product_cases(seed), horizon=20)

    s2, n2 = pm_seq_cases(2, True, seed, ['1pol', '2pol'], NOISES if not quick else ['none', 'alt', 'ramp', 'zero'], VPI[:2])
    ctx.rule(f'PM sequences: ALL ordered sequences of depth 2 over a {n2}-element drive alphabet (17 float levels, ints, ndarray/int-ndarray/'
             f'electrical_signal waveforms) x layouts x noise x Vpi: chain == reference with the summed drive == one library call with the summed drive')
    ctx.pmap('pm.seq2', pm_case, s2, horizon=20)
    s3, n3 = pm_seq_cases(3, not quick, seed, ['1pol', '2pol'], ['none', 'ramp', 'alt'] if quick else NOISES, VPI[:2] if not quick else VPI[:1])
    ctx.rule(f'depth 3 over a {n3}-element alphabet ({n3 ** 3} ordered sequences)')
    ctx.pmap('pm.seq3', pm_case, s3, horizon=20)

    lc = laser_cases(seed)
    ctx.rule(f'LASER (scripted RNG): full product time-vector kinds{LASER_TK} (seconds as float64/float32, integer sample indices as '
             f'int64/int32/uint8 with df in cycles per index) x grids{GRIDS} x N{LASER_N} (+ degenerate N{LASER_N_SHORT} with df in (None, 0)) x '
             f't-offset{LASER_T0} x p_dBm{LASER_P} x lw{LASER_LW} x '
             f'phase-noise answer vectors{LASER_ANS} x df on bins {{None,0,+-1,+-3,+-N/8,+-N/2}}: |E|^2 == P at every sample, FFT peak at df '
             f'(of E when the phase noise is nil, of E(df)/E(df=None) under the same answers otherwise); |df| > fs/2 raises ValueError')
    ctx.pmap('laser.product', laser_case, lc, horizon=20)
    ctx.pmap('laser.nyquist', laser_nyquist_case, laser_nyquist_cases(), horizon=20)
    ctx.extra['bounds'] = {'mzm_deviation_k': k, 'pm_seq_depth': 3, 'pm_seq_alphabet': {'depth2': n2, 'depth3': n3},
                           'record_lengths': [1, 2, 3, 6, 102], 'mzm_dtype_layout_k': k - 1,
                           'laser_time_vector_kinds': LASER_TK}
