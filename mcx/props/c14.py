"""C14 - global grid consistency over call histories (part A: BFS to a fixed point on the real
`gv` singleton) and purity / determinism / no aliasing of the public functions over call orders
(part B, see c14b.py)."""
from __future__ import annotations
import itertools
import math
import warnings
import numpy as np
from scipy.constants import c as C0, pi

from mcx.core.kernel import res

ID = 'C14'
LEVEL = 'model_checking'
NONTRIVIAL = 'states where a slot count N is in force, or custom attributes exist, or rates differ from the defaults'

DEFAULT_KEYS = ['sps', 'R', 'fs', 'dt', 'wavelength', 'f0', 'N', 't', 'dw', 'w']


# ------------------------------------------------------------------ alphabet
def alphabet(tier):
    sps = [None, 4, 8]
    # rates built from periods: mathematically commensurate (fs = 5 R) but the float quotient fs/R is 4.999999999999999
    R = [None, 1e9, 2e9, 1 / 100e-12]
    fs = [None, 8e9, 16e9, 1 / (100e-12 / 5)]
    wl = [None, 1310e-9]
    N = [None, 1, 3]
    custom = [None, {'alpha': 0.5}]
    if tier == 'thorough':
        sps.append(16)
        N.append(8)
        custom += [{'beta': 'x'}, {'alpha': 0.25}, {'alpha': 0.5, 'beta': 'x'}]
    acts = []
    for s, r, f, w, n, cu in itertools.product(sps, R, fs, wl, N, custom):
        if s and r and f and abs(f - r * s) > 1e-6 * f:
            continue  # not commensurate: the statement only speaks of commensurate rates
        if r and f and not s and (abs(f / r - round(f / r)) > 1e-9 or round(f / r) < 1):
            continue
        kw = {}
        if s is not None: kw['sps'] = s
        if r is not None: kw['R'] = r
        if f is not None: kw['fs'] = f
        if w is not None: kw['wavelength'] = w
        if n is not None: kw['N'] = n
        if cu: kw.update(cu)
        acts.append(('call', kw))
    acts.sort(key=lambda a: (len(a[1]), repr(a[1])))
    return [('clean', {})] + acts


def apply(gv, act):
    kind, kw = act
    if kind == 'clean':
        gv.clean()
    else:
        with warnings.catch_warnings():
            warnings.simplefilter('ignore')
            gv(**kw)


def enabled(gv, act):
    """the statement speaks of commensurate rates: an action that gives fs without R (and without sps) is only taken when fs
    is an integer multiple of the slot rate in force"""
    kind, kw = act
    if kind == 'call' and 'fs' in kw and 'R' not in kw and 'sps' not in kw:
        q = kw['fs'] / gv.R
        return round(q) >= 1 and abs(q - round(q)) <= 1e-9
    return True


def replay(hist):
    from opticomlib.typing import gv
    gv.clean()
    for a in hist:
        apply(gv, a)
    return gv


# ------------------------------------------------------------------ reference model
class Model:
    """what the statement says is in force after a history"""

    def __init__(self):
        self.clean()

    def clean(self):
        self.N = None
        self.custom = {}
        self.given = {}      # last explicitly given sps/R/fs since clean (must be in force if given in the LAST call)

    def step(self, act):
        kind, kw = act
        if kind == 'clean':
            self.clean()
            return {}
        if 'N' in kw:
            self.N = kw['N']
        for k, v in kw.items():
            if k not in ('sps', 'R', 'fs', 'wavelength', 'N'):
                self.custom[k] = v
        return {k: kw[k] for k in ('sps', 'R', 'fs') if k in kw}


def close(a, b, rt=1e-12):
    return abs(a - b) <= rt * max(abs(a), abs(b), 1e-300)


def invariant(gv, model: Model, last_given):
    """returns list of (key, msg)"""
    v = []
    d = gv.__dict__
    for k in DEFAULT_KEYS:
        if k not in d:
            v.append((f'gv:missing:{k}', f'attribute {k} missing'))
            return v
    sps, R, fs, dt = d['sps'], d['R'], d['fs'], d['dt']
    if not isinstance(sps, (int, np.integer)) or isinstance(sps, bool) or sps < 1:
        v.append(('gv:sps-not-int', f'sps={sps!r}'))
        return v
    if not close(fs, R * sps):
        v.append(('gv:fs!=R*sps', f'fs={fs} R={R} sps={sps}'))
    if not close(dt, 1 / fs):
        v.append(('gv:dt!=1/fs', f'dt={dt} fs={fs}'))
    if not close(d['f0'], C0 / d['wavelength']):
        v.append(('gv:f0!=c/wavelength', f'f0={d["f0"]} wl={d["wavelength"]}'))
    for k, val in last_given.items():
        if not close(d[k], val):
            v.append((f'gv:given-{k}-not-in-force', f'{k} given {val}, in force {d[k]}'))
    # N
    if d['N'] != model.N:
        v.append(('gv:N-not-in-force', f'N={d["N"]} expected {model.N}'))
    if d['N'] is not None:
        n = d['N'] * sps
        t, w, dw = d['t'], d['w'], d['dw']
        if t is None or w is None or dw is None:
            v.append(('gv:grid-missing', 'N in force but t/w/dw is None'))
        else:
            if len(t) != n or len(w) != n:
                v.append(('gv:grid-stale:len', f'N*sps={n} len(t)={len(t)} len(w)={len(w)}'))
            elif not close(dw, 2 * pi * fs / n, 1e-9):
                v.append(('gv:grid-stale:dw', f'dw={dw} expected {2*pi*fs/n}'))
            else:
                if t[0] != 0 or not (close(t[-1], n * dt, 1e-9) or close(t[-1], (n - 1) * dt, 1e-9)):
                    v.append(('gv:grid-stale:t', f't[0]={t[0]} t[-1]={t[-1]} n*dt={n*dt}'))
                if n > 1:
                    ws = np.sort(w)
                    if not np.allclose(np.diff(ws), dw, rtol=1e-9, atol=0):
                        v.append(('gv:grid-stale:w', 'w spacing differs from dw'))
                    if not close(ws[0], -(n // 2) * dw, 1e-9):
                        v.append(('gv:grid-stale:w', f'min(w)={ws[0]} expected {-(n//2)*dw}'))
                    if not np.allclose(np.diff(t), t[1] - t[0], rtol=1e-9, atol=0):
                        v.append(('gv:grid-stale:t', 't not uniform'))
    else:
        for k in ('t', 'w', 'dw'):
            if d[k] is not None:
                v.append(('gv:grid-without-N', f'{k} set while N is None'))
    # custom attributes
    extra = {k: d[k] for k in d if k not in DEFAULT_KEYS}
    if extra != model.custom:
        v.append(('gv:custom-attrs', f'custom attrs {extra} expected {model.custom}'))
    return v


def canon(gv):
    out = []
    for k in sorted(gv.__dict__):
        x = gv.__dict__[k]
        if isinstance(x, np.ndarray):
            out.append((k, x.size, float(x[0]), float(x[-1]), float(x[1] - x[0]) if x.size > 1 else 0.0))
        else:
            out.append((k, repr(x)))
    return repr(out)


INITIAL = None


def initial_canon():
    from opticomlib.typing import global_variables
    return canon(global_variables())


# ------------------------------------------------------------------ case function: expand one state
def expand(case):
    """case = (tier, history).  Executes every action of the alphabet from the state reached by
    `history` on the real singleton; checks invariant + model on each successor."""
    tier, hist = case
    acts = alphabet(tier)
    viol = []
    succ = []
    init = initial_canon()
    for ai, act in enumerate(acts):
        gv = replay(hist)
        if not enabled(gv, act):
            succ.append(None)
            continue
        m = Model()
        for a in hist:
            m.step(a)
        given = m.step(act)
        apply(gv, act)
        bad = invariant(gv, m, given)
        ck = canon(gv)
        if act[0] == 'clean' and ck != init:
            bad.append(('gv:clean-not-initial', f'after clean(): {ck} != initial {init}'))
        for k, msg in bad:
            viol.append((k, f'history={hist + [act]}: {msg}'))
        succ.append(ck)
    from opticomlib.typing import gv
    gv.clean()
    return res(viol=viol, obs=tuple(succ), payload=succ)


def replay_history(case):
    """replay one full history (used for replay files / regression cases): case=(history,)"""
    hist = list(case[0])
    viol = []
    m = Model()
    from opticomlib.typing import gv
    gv.clean()
    for i, act in enumerate(hist):
        given = m.step(act)
        apply(gv, act)
        for k, msg in invariant(gv, m, given):
            viol.append((k, f'after step {i} of {hist}: {msg}'))
    o = canon(gv)
    gv.clean()
    return res(viol=viol, obs=o)


# ------------------------------------------------------------------ driver
def run_part_a(ctx):
    tier = ctx.tier
    acts = alphabet(tier)
    ctx.space('gv.actions', len(acts))
    ctx.rule(f'C14-A: BFS to a fixed point over histories of gv(**kw)/clean(); alphabet = every commensurate subset of '
             f'sps/R/fs/wavelength/N/custom values ({len(acts)} actions); every transition executed on the real singleton '
             f'and on the reference model; invariant checked in every successor state')
    init = initial_canon()
    seen = {init: []}
    frontier = [[]]
    depth = 0
    transitions = 0
    nontriv = 0
    first_viol_hist = None
    while frontier:
        payloads = ctx.pmap(f'gvbfs.depth{depth}', expand, [(tier, h) for h in frontier], horizon=120, quiet=True, recheck=2,
                            sample_every=max(1, len(frontier) // 2))
        nxt = []
        for h, succ in zip(frontier, payloads):
            if succ is None:
                continue
            for act, ck in zip(acts, succ):
                if ck is None:
                    continue        # action not enabled in this state (non-commensurate)
                transitions += 1
                if ck not in seen:
                    seen[ck] = h + [act]
                    nxt.append(h + [act])
        frontier = nxt
        depth += 1
        print(f'[C14] gv BFS depth {depth}: states={len(seen)} frontier={len(frontier)} transitions={transitions}', flush=True)
        if depth > 12:
            ctx.cap('gv BFS depth cap 12 hit before the frontier emptied')
            break
    for ck in seen:
        if "'N', 'None'" not in ck or len(ck.split("), (")) > 10:
            ctx.nt_tags.add(('gvstate', ck))
    ctx.graph(states=len(seen), transitions=transitions)
    ctx.extra['gv_bfs'] = {'states': len(seen), 'transitions': transitions, 'depth': depth, 'closed': not frontier}
    ctx.sample({'part': 'gvbfs', 'deepest_history': [repr(a) for a in max(seen.values(), key=len)]})
    # violations found by `expand` carry the (tier, hist) case; re-express the first of each key as a replayable history
    for v in ctx.viol:
        if v['fn'].endswith(':expand'):
            msg = v['msg']
            try:
                hist = eval(msg[len('history='):msg.index(']: ') + 1], {'inf': math.inf, 'nan': math.nan})
                v['case'] = (hist,)
                v['fn'] = 'mcx.props.c14:replay_history'
            except Exception:
                pass


REGRESS = [
    # minimal history of the stale-grid defect (DESIGN 8 #13)
    ([('call', {'N': 1}), ('call', {'fs': 8e9})],),
    ([('call', {'N': 3, 'sps': 8, 'R': 1e9}), ('call', {'sps': 4})],),
]


def run(ctx):
    import os
    part = os.environ.get('MCX_PART', 'AB')      # development aid only; registered commands run both parts
    for h in REGRESS:
        ctx.run_case('regress', replay_history, h)
    if 'A' in part:
        run_part_a(ctx)
    if 'B' not in part:
        return
    try:
        from mcx.props import c14b
    except ImportError:
        c14b = None
    if c14b is not None:
        c14b.run_part_b(ctx)
