"""C14 - global grid consistency over call histories (part A: BFS to a fixed point on the real
`gv` singleton) and purity / determinism / no aliasing of the public functions over call orders
(part B, see c14b.py)."""
from __future__ import annotations
import itertools
import math
import warnings
import numpy as np
from scipy.constants import c as C0, pi

from mcx.core.kernel import res

ID = 'C14'
LEVEL = 'model_checking'
NONTRIVIAL = 'states where a slot count N is in force, or custom attributes exist, or rates differ from the defaults'

DEFAULT_KEYS = ['sps', 'R', 'fs', 'dt', 'wavelength', 'f0', 'N', 't', 'dw', 'w']


# ------------------------------------------------------------------ alphabet
# An action is  ('clean', {})                 gv.clean()
#               ('call', kw)                  gv(**kw)
#               ('pos', args, kw)             gv(*args, **kw)   (documented order: sps, R, fs, wavelength, N)
#               ('failclean', kw)             gv(**kw) that raises half-way (or is odd), followed by gv.clean()
# Values are plain data; a pair ('@kind', x) stands for a typed scalar / special value that is built at call time (`real`),
# so that histories stay picklable, printable and re-evaluable from a violation message.
T3 = 3.75e-10                 # slot period of R3
R3 = 1e9 * 8 / 3              # 2666666666.6666665
R4 = 1 / (1e-9 / 3)           # 2999999999.9999995
ARG_ORDER = ('sps', 'R', 'fs', 'wavelength', 'N')
_TOKENS = {'@i64': np.int64, '@i32': np.int32, '@u8': np.uint8, '@f64': np.float64, '@f32': np.float32, '@0d': np.array,
           '@array': lambda n: np.arange(n) * 0.5, '@callable': lambda name: getattr(math, name),
           '@lambda': lambda k: (lambda z: k * z), '@class': lambda name: getattr(np, name)}


def real(v):
    """value of an alphabet member at call time"""
    if isinstance(v, tuple) and len(v) == 2 and isinstance(v[0], str) and v[0] in _TOKENS:
        return _TOKENS[v[0]](v[1])
    return v


def kw_of(act):
    """keyword form of a call action (positional arguments named in the documented order), typed values built"""
    if act[0] == 'pos':
        kw = {k: v for k, v in zip(ARG_ORDER, act[1]) if v is not None}
        kw.update(act[2])
    else:
        kw = act[1]
    return {k: real(v) for k, v in kw.items()}


def commensurate(kw):
    """the statement only speaks of commensurate rates: fs = sps*R when all three are given, fs/R a positive integer (up to the
    rounding of the float quotient, NOT up to .5: fs/R = 4.5 is not commensurate) when R and fs are given"""
    s, r, f = (real(kw.get(k)) for k in ('sps', 'R', 'fs'))
    if s and r and f and abs(f - r * s) > 1e-6 * f:
        return False
    if r and f and not s and (abs(f / r - round(f / r)) > 1e-9 or round(f / r) < 1):
        return False
    return True


def _mk(s=None, r=None, f=None, w=None, n=None, cu=None):
    kw = {}
    if s is not None: kw['sps'] = s
    if r is not None: kw['R'] = r
    if f is not None: kw['fs'] = f
    if w is not None: kw['wavelength'] = w
    if n is not None: kw['N'] = n
    if cu: kw.update(cu)
    return kw


def core_alphabet(tier):
    """full product of the core values of every argument"""
    sps = [None, 4, 8]
    # rates built from periods: mathematically commensurate (fs = 5 R) but the float quotient fs/R is 4.999999999999999
    R = [None, 1e9, 2e9, 1 / 100e-12]
    fs = [None, 8e9, 16e9, 1 / (100e-12 / 5)]
    wl = [None, 1310e-9]
    N = [None, 1, 3]
    custom = [None, {'alpha': 0.5}]
    if tier == 'thorough':
        sps.append(16)
        N.append(8)
        custom += [{'beta': 'x'}, {'alpha': 0.25}, {'alpha': 0.5, 'beta': 'x'}]
    acts = [_mk(*c) for c in itertools.product(sps, R, fs, wl, N, custom)]
    acts = [('call', kw) for kw in acts if commensurate(kw)]
    acts.sort(key=lambda a: (len(a[1]), repr(a[1])))
    return acts


def extension(tier):
    """members added by the hardening pass: every new value of one argument (or one new spelling of a call) is combined with a
    small set of partner settings of the OTHER arguments instead of the full product"""
    th = tier == 'thorough'
    out = []

    def cross(members, partners, kind='call'):
        for m in members:
            for p in partners:
                if set(m) & set(p):
                    continue
                kw = dict(m); kw.update(p)
                kw = {k: kw[k] for k in list(ARG_ORDER) + sorted(k for k in kw if k not in ARG_ORDER) if k in kw}
                if commensurate(kw):
                    out.append((kind, kw))

    rates = [{'sps': 8, 'R': 1e9}, {'sps': 4, 'fs': 8e9}, {'R': 2e9, 'fs': 16e9}, {'fs': 8e9}, {'sps': 4}, {'R': 2e9}]
    # 1. scalar kinds wherever a scalar is accepted: float-valued sps, numpy ints/floats, Python ints, 0-d arrays, float32
    typed = [{'sps': 8.0, 'R': 1e9}, {'sps': ('@i64', 8), 'R': ('@f64', 1e9)}, {'sps': ('@i32', 4), 'fs': ('@f64', 8e9)},
             {'R': 10 ** 9, 'fs': 8 * 10 ** 9}, {'sps': ('@0d', 8), 'R': ('@0d', 2e9)}, {'sps': ('@u8', 4), 'fs': ('@f32', 8e9)},
             {'sps': 4.0}, {'R': 10 ** 9}, {'fs': 8 * 10 ** 9}, {'sps': 16.0, 'R': 10 ** 9, 'fs': 16e9}]
    if th:
        typed += [{'R': 2 * 10 ** 9, 'fs': ('@i64', 16 * 10 ** 9)}, {'R': ('@f32', 1e9), 'fs': ('@f32', 8e9)}, {'sps': ('@i64', 8)},
                  {'R': ('@f64', 2e9)}, {'fs': ('@f64', 16e9)}]
    cross(typed, [{}, {'N': 3}, {'N': ('@i64', 1), 'wavelength': ('@f64', 1310e-9)}] + ([{'N': ('@i32', 3), 'alpha': 0.5}] if th else []))
    # 2. slot counts: numpy ints, N = 2 (N = 0 and non-integer N are outside the statement: dw = 2*pi*fs/(N*sps) is undefined)
    cross([{'N': ('@i64', 3)}] + ([{'N': 2}, {'N': ('@u8', 8)}] if th else []), [{}] + rates + [{'wavelength': 1310e-9}])
    # 3. wavelengths: the default given explicitly, a third value, a numpy float
    cross([{'wavelength': 1550e-9}] + ([{'wavelength': 850e-9}, {'wavelength': ('@f64', 1310e-9)}] if th else []),
          [{}, {'N': 3}, {'sps': 8, 'R': 1e9}, {'alpha': 0.5}, {'fs': 8e9}])
    # 4. commensurate rates whose float quotient / product is inexact in more ways (quotient one ulp BELOW and ABOVE the
    #    integer, quotient exact but R*sps != fs, R = fs/sps inexact)
    inexact = [{'R': R3, 'fs': 7 * R3}, {'R': R3, 'fs': 7 / T3}, {'R': R3, 'fs': 1 / (T3 / 3)}, {'sps': 3, 'fs': 8e9},
               {'sps': 7, 'R': R3, 'fs': 7 / T3}, {'fs': 7 * R3}]
    if th:
        inexact += [{'R': R4, 'fs': 9e9}, {'R': 1 / 100e-12, 'fs': 1 / (100e-12 / 10)}]
        inexact += [{'R': R3}, {'sps': 7, 'R': R3}, {'sps': 7, 'fs': 7 * R3}, {'fs': 7 / T3}, {'sps': 5, 'fs': 1 / (100e-12 / 5)}]
        inexact += [{'R': 1 / 100e-12, 'fs': 1 / (100e-12 / 11)}, {'R': R4, 'fs': 1 / (1e-9 / 3 / 7)}, {'R': R3, 'fs': 1 / (T3 / 10)}]
    cross(inexact, [{}, {'N': 3}, {'N': 1, 'alpha': 0.5}])
    # 5. custom attributes set in several separate calls (all must disappear with clean()); the thorough core product has them already, plus an updated alpha
    cust = [{'beta': 'x'}, {'alpha': 0.5, 'beta': 'x'}]
    cross(cust, [{}, {'N': 3}, {'sps': 8, 'R': 1e9}, {'wavelength': 1310e-9}, {'fs': 16e9}])
    # 6. positional spellings
    pos = [(8, 1e9), (8.0, 1e9), (4, None, 8e9), (None, 2e9, 16e9), (None, None, 8e9), (8, 2e9, None, 1310e-9), (8, 1e9, None, 1550e-9, 3),
           (None, None, None, 1310e-9, 1), (None, None, None, 1550e-9, None), 
           (None, R3, 7 * R3), (7, R3, 7 / T3, 850e-9, 2)]
    for a in pos:
        out.append(('pos', a, {}))
    out += [('pos', (('@i64', 4), ('@f64', 2e9)), {'N': ('@i64', 3)}), ('pos', (8,), {'R': 2e9, 'alpha': 0.5}), ('pos', (4, 2e9), {'N': 3, 'beta': 'x'}), ('pos', (None, 1e9), {'fs': 8e9, 'wavelength': 1310e-9})]
    # 7. calls that fail half-way / odd calls, then clean(): clean() must restore EVERY default whatever was left behind
    bad = [{'N': 2.5}, {'sps': 8, 'R': 1e9, 'N': 0}, {'sps': 4, 'R': 2e9, 'N': -1}, {'sps': 8, 'R': 'fast'}, {'sps': 4, 'fs': 8e9, 'wavelength': 0},
           {'R': 1e9, 'fs': 0.2e9, 'N': 3, 'alpha': 0.5}, {'fs': 'x'}, {'sps': 8, 'R': 1e9, 'wavelength': '1550', 'beta': 'x'}, {'sps': -4, 'R': 1e9, 'N': 3},
           {'R': 1e9, 'fs': 4.5e9, 'N': 2, 'gamma': (1, 2)}]
    for kw in bad:
        out.append(('failclean', kw))
    seen, uniq = set(), []
    for a in out:
        if repr(a) not in seen:
            seen.add(repr(a))
            uniq.append(a)
    return uniq


def alphabet(tier):
    core = core_alphabet(tier)
    have = {repr(a) for a in core}
    return [('clean', {})] + core + [a for a in extension(tier) if repr(a) not in have]


def apply(gv, act):
    kind = act[0]
    with warnings.catch_warnings():
        warnings.simplefilter('ignore')
        if kind == 'clean':
            gv.clean()
        elif kind == 'call':
            gv(**{k: real(v) for k, v in act[1].items()})
        elif kind == 'pos':
            gv(*[real(v) for v in act[1]], **{k: real(v) for k, v in act[2].items()})
        elif kind == 'failclean':
            try:
                with np.errstate(all='ignore'):
                    gv(**{k: real(v) for k, v in act[1].items()})
            except Exception:
                pass
            gv.clean()
        else:
            raise KeyError(kind)


def enabled(gv, act):
    """the statement speaks of commensurate rates: an action that gives fs without R (and without sps) is only taken when fs
    is an integer multiple of the slot rate in force"""
    if act[0] in ('call', 'pos'):
        kw = kw_of(act)
        if 'fs' in kw and 'R' not in kw and 'sps' not in kw:
            q = float(kw['fs']) / float(gv.R)
            return round(q) >= 1 and abs(q - round(q)) <= 1e-9
    return True


def hard_reset():
    """harness-side return to the initial state (does not rely on the clean() under test): every case starts from a singleton
    whose attributes are exactly those of a newly constructed global_variables()"""
    from opticomlib.typing import gv, global_variables
    gv.__dict__.clear()
    gv.__dict__.update(global_variables().__dict__)
    return gv


def replay(hist):
    gv = hard_reset()
    for a in hist:
        apply(gv, a)
    return gv


# ------------------------------------------------------------------ reference model
class Model:
    """what the statement says is in force after a history"""

    def __init__(self):
        self.clean()

    def clean(self):
        self.N = None
        self.custom = {}

    def step(self, act):
        """returns the values explicitly given in this call (they must be in force right after it)"""
        if act[0] in ('clean', 'failclean'):
            self.clean()
            return {}
        kw = kw_of(act)
        if 'N' in kw:
            self.N = kw['N']
        for k, v in kw.items():
            if k not in ARG_ORDER:
                self.custom[k] = v
        return {k: kw[k] for k in ('sps', 'R', 'fs', 'wavelength') if k in kw}


def close(a, b, rt=1e-12):
    a, b = float(a), float(b)
    return abs(a - b) <= rt * max(abs(a), abs(b), 1e-300)


def same_value(a, b):
    if isinstance(a, np.ndarray) or isinstance(b, np.ndarray):
        return isinstance(a, np.ndarray) and isinstance(b, np.ndarray) and a.dtype == b.dtype and np.array_equal(a, b)
    if callable(a) or callable(b):
        return type(a) is type(b) and (a is b or getattr(a, '__code__', 0) is getattr(b, '__code__', 1))
    return type(a) is type(b) and a == b


def is_real_scalar(x):
    if isinstance(x, np.ndarray):
        return x.ndim == 0 and x.dtype.kind in 'iuf'
    return isinstance(x, (int, float, np.integer, np.floating)) and not isinstance(x, (bool, np.bool_))


def invariant(gv, model: Model, last_given, after_clean=False):
    """returns list of (key, msg)"""
    v = []
    d = gv.__dict__
    for k in DEFAULT_KEYS:
        if k not in d:
            v.append((f'gv:missing:{k}', f'attribute {k} missing'))
            return v
    sps, R, fs, dt = d['sps'], d['R'], d['fs'], d['dt']
    if not isinstance(sps, (int, np.integer)) or isinstance(sps, bool) or sps < 1:
        v.append(('gv:sps-not-int', f'sps={sps!r}'))
        return v
    for k in ('R', 'fs', 'dt', 'wavelength', 'f0'):
        if not is_real_scalar(d[k]) or not float(d[k]) > 0:
            v.append((f'gv:{k}-not-a-positive-number', f'{k}={d[k]!r}'))
            return v
    if not close(fs, R * sps):
        v.append(('gv:fs!=R*sps', f'fs={fs} R={R} sps={sps}'))
    if not close(dt, 1 / float(fs)):
        v.append(('gv:dt!=1/fs', f'dt={dt} fs={fs}'))
    if not close(d['f0'], C0 / float(d['wavelength'])):
        v.append(('gv:f0!=c/wavelength', f'f0={d["f0"]} wl={d["wavelength"]}'))
    for k, val in last_given.items():
        if not close(d[k], val, 1e-7 if isinstance(val, np.float32) else 1e-12):
            v.append((f'gv:given-{k}-not-in-force', f'{k} given {val}, in force {d[k]}'))
    # N
    if d['N'] != model.N:
        v.append(('gv:N-not-in-force', f'N={d["N"]} expected {model.N}'))
    if d['N'] is not None:
        n = int(d['N']) * int(sps)
        t, w, dw = d['t'], d['w'], d['dw']
        if t is None or w is None or dw is None:
            v.append(('gv:grid-missing', 'N in force but t/w/dw is None'))
        else:
            if len(t) != n or len(w) != n:
                v.append(('gv:grid-stale:len', f'N*sps={n} len(t)={len(t)} len(w)={len(w)}'))
            elif not close(dw, 2 * pi * float(fs) / n, 1e-9):
                v.append(('gv:grid-stale:dw', f'dw={dw} expected {2*pi*float(fs)/n}'))
            else:
                if t[0] != 0 or not (close(t[-1], n * dt, 1e-9) or close(t[-1], (n - 1) * dt, 1e-9)):
                    v.append(('gv:grid-stale:t', f't[0]={t[0]} t[-1]={t[-1]} n*dt={n*dt}'))
                if n > 1:
                    ws = np.sort(w)
                    if not np.allclose(np.diff(ws), dw, rtol=1e-9, atol=0):
                        v.append(('gv:grid-stale:w', 'w spacing differs from dw'))
                    if not close(ws[0], -(n // 2) * dw, 1e-9):
                        v.append(('gv:grid-stale:w', f'min(w)={ws[0]} expected {-(n//2)*dw}'))
                    if not np.allclose(np.diff(t), t[1] - t[0], rtol=1e-9, atol=0):
                        v.append(('gv:grid-stale:t', 't not uniform'))
    else:
        for k in ('t', 'w', 'dw'):
            if d[k] is not None:
                v.append(('gv:grid-without-N', f'{k} set while N is None'))
    # custom attributes: exactly those given since the last clean(), with the values given last
    extra = {k: d[k] for k in d if k not in DEFAULT_KEYS}
    if set(extra) != set(model.custom) or not all(same_value(extra[k], model.custom[k]) for k in extra):
        left = [k for k in extra if k not in model.custom]
        rest_ok = all(k in extra and same_value(extra[k], model.custom[k]) for k in model.custom)
        if left and rest_ok and all(callable(extra[k]) for k in left):      # can only be the survivor of an earlier clean()
            v.append(('gv:custom-attrs:callable-survives-clean', f'custom attrs { {k: _r(x) for k, x in extra.items()} } are still there after clean()'))
        else:
            v.append(('gv:custom-attrs', f'custom attrs { {k: _r(x) for k, x in extra.items()} } expected { {k: _r(x) for k, x in model.custom.items()} }'))
    return v


_FLOAT_KEYS = ('R', 'fs', 'dt', 'wavelength', 'f0', 'dw')


def _r(x):
    """repr without memory addresses"""
    if callable(x):
        return f'<callable {getattr(x, "__qualname__", type(x).__name__)}>'
    return repr(x)


def canon(gv, strict=False):
    """canonical form of the singleton.  strict=False (state identity of the search): scalars by VALUE (R = 10**9, 1e9,
    np.float64(1e9) and array(1e9) are one state); strict=True (comparison of clean() with a new instance): types included."""
    out = []
    for k in sorted(gv.__dict__):
        x = gv.__dict__[k]
        if isinstance(x, np.ndarray) and x.ndim and x.size:
            out.append((k, x.size, float(x[0]), float(x[-1]), float(x[1] - x[0]) if x.size > 1 else 0.0))
        elif strict:
            out.append((k, type(x).__name__, _r(x)))
        elif k in _FLOAT_KEYS and is_real_scalar(x):
            out.append((k, repr(float(x))))
        elif k in ('sps', 'N') and is_real_scalar(x) and float(x) == int(x):
            out.append((k, repr(int(x))))
        else:
            out.append((k, _r(x)))
    return repr(out)


def initial_canon(strict=False):
    from opticomlib.typing import global_variables
    return canon(global_variables(), strict)


# ------------------------------------------------------------------ case function: expand one state
def check_step(gv, m, act, hist_txt, viol, init_strict):
    """one action on the real singleton and on the model; invariant afterwards; a clean() must give the state of a new instance"""
    given = m.step(act)
    try:
        apply(gv, act)
    except Exception as e:       # every action of the alphabet is a legal call (the failing half of 'failclean' is caught in apply)
        viol.append((f'gv:call-raises:{type(e).__name__}', f'history={hist_txt}: {type(e).__name__}: {e}'))
        return
    cleaning = act[0] in ('clean', 'failclean')
    bad = invariant(gv, m, given, after_clean=cleaning)
    if cleaning and not bad:
        ck = canon(gv, strict=True)
        if ck != init_strict:
            bad.append(('gv:clean-not-initial', f'after clean(): {ck} != initial {init_strict}'))
    for k, msg in bad:
        viol.append((k, f'history={hist_txt}: {msg}'))


def expand(case):
    """case = (tier, history).  Executes every action of the alphabet from the state reached by
    `history` on the real singleton; checks invariant + model on each successor."""
    tier, hist = case
    acts = alphabet(tier)
    viol = []
    succ = []
    init = initial_canon(strict=True)
    gv = replay(hist)                     # the state under expansion: reached by the real calls of `hist` ...
    state = {k: (x.copy() if isinstance(x, np.ndarray) else x) for k, x in gv.__dict__.items()}
    m0 = Model()
    for a in hist:
        m0.step(a)
    for ai, act in enumerate(acts):
        gv.__dict__.clear()               # ... and rewound to exactly that state before every action
        gv.__dict__.update({k: (x.copy() if isinstance(x, np.ndarray) else x) for k, x in state.items()})
        if not enabled(gv, act):
            succ.append(None)
            continue
        m = Model()
        m.N, m.custom = m0.N, dict(m0.custom)
        check_step(gv, m, act, hist + [act], viol, init)
        succ.append(canon(gv))
    hard_reset()
    return res(viol=viol, obs=tuple(succ), payload=succ)


def replay_history(case):
    """replay one full history (used for replay files / regression cases / the custom-value part): case=(history,)"""
    hist = list(case[0])
    viol = []
    m = Model()
    gv = hard_reset()
    init = initial_canon(strict=True)
    for i, act in enumerate(hist):
        check_step(gv, m, act, hist[:i + 1], viol, init)
    o = canon(gv)
    hard_reset()
    return res(viol=viol, obs=o, nontrivial=('gvhist', repr(hist)))


# ------------------------------------------------------------------ custom attributes of every kind of value
def custom_histories(tier):
    """a custom keyword `kappa` of every kind of value: set in one call / together with a grid and kept over a later call / in one of
    three separate custom-carrying calls / overwritten - then clean(): nothing may be left"""
    kinds = [0.5, 0, False, None, '', 'x', (1, 2), [1, 2], {'a': 1}, 1j, b'\x00', ('@array', 3), ('@0d', 2.0), ('@f64', 0.1), ('@i64', 7),
             ('@callable', 'sqrt'), ('@lambda', 2.0), ('@class', 'float64')]
    # names: ordinary, leading underscore, dunder-like, single underscore (a name filter in clean() must not let any survive)
    names = ['kappa', 'Vpi', '_hidden', '__tmp', '_'] if tier == 'thorough' else ['kappa', '_hidden', '__tmp', '_']
    H = []
    for nm in names:
        for v in kinds:
            H.append([('call', {nm: v}), ('clean', {})])
            H.append([('call', {'sps': 8, 'R': 1e9, 'N': 3, nm: v}), ('call', {'R': 2e9}), ('clean', {})])
            H.append([('call', {'alpha': 0.5}), ('call', {nm: v}), ('call', {'beta': 'x'}), ('clean', {}), ('clean', {})])
            H.append([('call', {nm: v}), ('call', {nm: 'other'}), ('call', {'sps': 4, 'fs': 8e9, nm: v}), ('clean', {}), ('call', {'N': 1})])
    return H


# ------------------------------------------------------------------ driver
def run_part_a(ctx):
    tier = ctx.tier
    acts = alphabet(tier)
    ctx.space('gv.actions', len(acts))
    kinds = {k: sum(a[0] == k for a in acts) for k in ('call', 'pos', 'failclean')}
    ctx.rule(f'C14-A: BFS to a fixed point over histories of gv(...)/clean(); alphabet ({len(acts)} actions) = clean() + every commensurate '
             f'subset of the core sps/R/fs/wavelength/N/custom values + hardening extension (each new member crossed with a few partner '
             f'settings: scalar kinds float/numpy/0-d/Python-int, numpy slot counts, explicit default wavelength, rates with inexact '
             f'quotients on both sides of the integer, customs from separate calls): {kinds["call"]} keyword calls, {kinds["pos"]} positional '
             f'spellings, {kinds["failclean"]} failing/odd calls each followed by clean(); every transition executed on the real singleton '
             f'(state reached by replaying its shortest history, rewound before each action) and on the reference model; invariant '
             f'checked in every successor state; the search stops after the first depth with violations')
    ctx.assume('C14-A: two states of the singleton are identified when all attributes are equal BY VALUE (R = 10**9, 1e9, np.float64(1e9) '
               'and a 0-d array are one state); clean() is compared with a new instance including the types')
    init = initial_canon()
    seen = {init: []}
    frontier = [[]]
    depth = 0
    transitions = 0
    nontriv = 0
    first_viol_hist = None
    while frontier:
        payloads = ctx.pmap(f'gvbfs.depth{depth}', expand, [(tier, h) for h in frontier], horizon=120, quiet=True, recheck=2,
                            sample_every=max(1, len(frontier) // 2))
        nxt = []
        for h, succ in zip(frontier, payloads):
            if succ is None:
                continue
            for act, ck in zip(acts, succ):
                if ck is None:
                    continue        # action not enabled in this state (non-commensurate)
                transitions += 1
                if ck not in seen:
                    seen[ck] = h + [act]
                    nxt.append(h + [act])
        frontier = nxt
        depth += 1
        print(f'[C14] gv BFS depth {depth}: states={len(seen)} frontier={len(frontier)} transitions={transitions}', flush=True)
        if depth > 12:
            ctx.cap('gv BFS depth cap 12 hit before the frontier emptied')
            break
        if frontier and any(v['part'].startswith('gvbfs') for v in ctx.viol):
            # a singleton that breaks the invariant usually has an unbounded / exploding state space (stale arrays of every
            # earlier grid ...): the shortest counterexamples are those of this depth, the search stops here
            ctx.cap(f'gv BFS stopped after depth {depth}: violations found, the state space of a broken singleton is not explored further')
            break
    for ck in seen:
        if "'N', 'None'" not in ck or len(ck.split("), (")) > 10:
            ctx.nt_tags.add(('gvstate', ck))
    ctx.graph(states=len(seen), transitions=transitions)
    ctx.extra['gv_bfs'] = {'states': len(seen), 'transitions': transitions, 'depth': depth, 'closed': not frontier}
    ctx.sample({'part': 'gvbfs', 'deepest_history': [repr(a) for a in max(seen.values(), key=len)]})
    # violations found by `expand` carry the (tier, hist) case; re-express the first of each key as a replayable history
    for v in ctx.viol:
        if v['fn'].endswith(':expand'):
            msg = v['msg']
            try:
                hist = eval(msg[len('history='):msg.index(']: ') + 1], {'inf': math.inf, 'nan': math.nan})
                assert repr(hist) == msg[len('history='):msg.index(']: ') + 1]
                v['case'] = (hist,)
                v['fn'] = 'mcx.props.c14:replay_history'
            except Exception:
                pass


REGRESS = [
    # minimal history of the stale-grid defect (DESIGN 8 #13)
    ([('call', {'N': 1}), ('call', {'fs': 8e9})],),
    ([('call', {'N': 3, 'sps': 8, 'R': 1e9}), ('call', {'sps': 4})],),
]


def run(ctx):
    import os
    part = os.environ.get('MCX_PART', 'AB')      # development aid only; registered commands run both parts
    for h in REGRESS:
        ctx.run_case('regress', replay_history, h)
    if 'A' in part:
        H = custom_histories(ctx.tier)
        ctx.rule(f'C14-A custom values: {len(H)} histories that set a custom keyword of every kind of value (numbers, None, str, containers, '
                 f'arrays, callables) alone / with a grid / in three separate calls / overwritten, followed by clean()')
        ctx.pmap('gvcustom', replay_history, [(h,) for h in H], horizon=60, quiet=True)
        run_part_a(ctx)
    if 'B' not in part:
        return
    try:
        from mcx.props import c14b
    except ImportError:
        c14b = None
    if c14b is not None:
        c14b.run_part_b(ctx)
