"""C16 - FBG is a passive reflector matching the coupled-mode closed forms.

Bounded-exhaustive exploration of `opticomlib.devices.FBG`:

* part `lattice`  : deviation lattice (k <= 2, both tiers) around one
                    baseline design over 18 axes: sampling rate, input length (powers of two, odd, prime, non-smooth,
                    even non-power-of-two), layout (1/2 polarisations, second one zero, n_pol=2, noise forms),
                    input field (content, sample dtype, scale), filtfilt, call form (retH / no retH / print / positional),
                    kL, kL form (whole number of periods | the exact number), vdneff, F, apodisation (names, callable
                    twins in several callable forms, seeded smooth positive callables, three profiles that are not even
                    in z), specification route {fc, landa_D} x {kL, L, N}, scalar type of the design numbers,
                    grid history (how gv was configured, wavelength, slot count, reconfiguration), offset of the
                    Bragg frequency from gv.f0, effective index neff (default | clearly non-default), fringe visibility
                    v, design through vdneff | through dneff (= vdneff / v).
* part `index`    : the design constants that have a default, crossed with EVERY way of specifying the grating:
                    neff {1.45, 1.0, 2.2, 3.4} x v {1, 0.5, 0.1} x (design through vdneff: {fc, landa_D} x {kL, L, N};
                    design through dneff: the same six + landa_D with (kL, L) and (kL, N), no index change given) x
                    {uniform, an asymmetric callable}; thorough: x kL x vdneff x one more apodisation.
* part `lattice3` : (thorough) the designs with exactly 3 deviations over the 10 design axes of the first release and
                    neff {1.45, 2.2} (so: non-default neff x route x one more axis).
* part `limits`   : the box kL {0.1, 0.1+ulp, 8-ulp, 8} x vdneff {1e-5, +ulp, 1e-3-ulp, 1e-3} x F {-20, -20+ulp, 0,
                    20-ulp, 20} with the EXACT numbers (no rounding to whole periods) x apodisations (weak gratings
                    with a peak reflectivity below 1 % included: they must compute).
* part `corners`  : the 16 corners of (fs, n, vdneff, kL) (4 deviations - not reached by the lattice), exact kL,
                    uniform/F=0 (quick) and x {uniform, gaussian} x {F=0, F=20} (thorough).  Contains the grating that
                    is narrower than one bin (kL 8, vdneff 1e-5, 2^8 samples at 400 GS/s) for the closed-form clause.
* part `product`  : (thorough) the full product kL x vdneff x apodisation x F at a sampling rate that
                    resolves the stop band.
* part `seq`      : call sequences in ONE process on ONE shared input object: every ordered pair (a, b) of a menu of
                    calls is run as b, a, b' (b' takes the output of a as its input when the lengths agree); the grid
                    is reconfigured (not cleaned) between the calls.  Every call is checked on its own and H(b') must
                    equal H(b): the response must not depend on what was computed before (two different callables with
                    the same __name__, a sweep of one parameter on one object, chained calls).
* part `spec`     : all 2^7 presence/absence patterns of {landa_D, fc, kL, L, N, dneff, vdneff} (two spellings of one
                    consistent value set quick, four thorough): under-determined gratings must raise
                    ValueError, the combinations the docstring lists must compute.
* part `docode`   : NON-DECIDING diagnostic: complex H (filtfilt=False) against an independent high-accuracy
                    integration (Riccati form, DOP853) of the coupled-mode equations the docstring documents.
                    Only the measured deviation is recorded (see notes: the statement of C16 does not
                    constrain the sign of the chirp, |H| is invariant under F -> -F for symmetric profiles).

Every case calls the REAL FBG and compares with closed forms that are
computed here from the design numbers only (scipy.quad of the reference profile, tanh^2, sinh^2/cosh^2).
"""
from __future__ import annotations

import contextlib
import functools
import hashlib
import io
import itertools
import math
import warnings

import numpy as np
from scipy.constants import c as C0, pi
from scipy.integrate import quad, solve_ivp

from mcx.core.kernel import res
from mcx.core.env import gv_reset

ID = 'C16'
LEVEL = 'exploration'
NONTRIVIAL = ('designs whose computed spectrum is neither ~0 nor flat (max|H| > 1e-2 and max|H|-min|H| > 1e-3), '
              'counted per distinct design vector; for the specification patterns: every pattern that reached a '
              'decision (ValueError or a computed H); for the sequences: every ordered pair')

NEFF = 1.45          # library default of `neff` (the baseline of the axis `neff`)
VIS = 1.0            # library default of `v`
EPS = np.finfo(float).eps

# ---------------------------------------------------------------------------- tolerances (see notes/C16.md)
TOL_PASSIVE = 5e-3   # |H| <= 1 + 5e-3 : 5 x RK45 rtol (1e-3) - band stated in DESIGN 5/C16
TOL_ENERGY = 1e-2    # energy_out <= energy_in (1 + 1e-2)  (= (1+5e-3)^2 - 1 rounded)
TOL_BRAGG = 2e-3     # | |H(f_B)|^2 - tanh^2(kL int p) |   : 2 x RK45 rtol
TOL_UNIFORM = 1e-2   # | |H|^2 - closed form | on every bin: 10 x RK45 rtol (accumulated over the steps)
TOL_SAME = 1e-9      # name vs equal callable, equivalent routes: >= 1e3 x the propagated rounding of the
#                      dimensionless coefficients (<= 8 eps * max|delta L| ~ 4e-12), << any real difference
#                      (one grating period more or less changes delta L by >= 2e-3 at the band edge)


# ---------------------------------------------------------------------------- alphabets (simplest first)
def seeded_profiles(seed):
    """two smooth positive profiles 1 + a cos(2 pi z) + b z^2; VERIF_SEED only picks (a, b)"""
    rng = np.random.default_rng([int(seed), 16])
    out = []
    for _ in range(2):
        a = round(float(rng.uniform(-0.6, 0.6)), 3)
        b = round(float(rng.uniform(0.0, 2.0)), 3)
        out.append(('seed', a, b))
    return out


# the axes of the first release and how many of their (leading) members it had: the 3-deviation part uses these
CORE = {'fs': 3, 'n': 5, 'layout': 2, 'inp': 3, 'filtfilt': 2, 'kL': 6, 'vd': 3, 'F': 5, 'apod': 11, 'route': 6, 'neff': 2}


def axes(seed):
    """(name, members); the first member of every axis is the baseline (both tiers use the same alphabets: the whole
    2-deviation lattice costs about one CPU minute)"""
    return [
        # GS/s; 33.3 is a non-integer rate (set as sps=10, R=fs/10)
        ('fs', [100, 20, 400, 33.3]),
        # 2^8, 2^10, 2^12; 257 odd prime; 1001 = 7.11.13 odd, non-smooth; 3000 even, not a power of two;
        # 4093 the largest prime below 2^12; 509 prime, 4095 = 2^12 - 1, 2^9 + 2
        ('n', [256, 1024, 4096, 257, 1001, 3000, 4093, 509, 4095, 514]),
        ('layout', ['1pol', '2pol', '2pol-zero2', '2pol-dup', '1pol-noise', '2pol-noise1',
                    '2pol-noise', '1pol-noise0', '1pol-noisef32', '1x-2d']),
        ('inp', ['impulse', 'random', 'gauss', 'int64', 'uint8', 'bool', 'float32', 'complex64',
                 'random@1e-12', 'random@1e6', 'dc',
                 'int8', 'int16', 'int32', 'float16', 'intfloat', 'random@1e-9', 'random@1e-6']),
        ('filtfilt', [True, False]),
        ('call', ['retH', 'noretH', 'print', 'positional']),
        ('kL', [1.0, 0.5, 2.0, 0.1, 4.0, 8.0]),
        ('kLform', ['periods', 'exact']),
        ('vd', [1e-4, 1e-3, 1e-5]),
        ('F', [0.0, 5.0, -5.0, 20.0, -20.0, 0.37, -12.5]),
        ('apod', [('name', 'uniform'), ('name', 'rcos'), ('name', 'gaussian'), ('name', 'parabolic'),
                  ('fn', 'uniform'), ('fn', 'rcos'), ('fn', 'gaussian'), ('fn', 'parabolic')]
         + seeded_profiles(seed) + [('tilt', 0.8), ('skew', 0.2), ('obj', 'gaussian'), ('partial', 'parabolic'),
                                    ('strict', 'parabolic'), ('expt', 1.5), ('tilt', -0.8), ('npfn', 'rcos'),
                                    ('obj', 'uniform'), ('npstr', 'rcos')]),
        ('route', [('fc', 'kL'), ('landa_D', 'kL'), ('fc', 'L'), ('fc', 'N'), ('landa_D', 'L'), ('landa_D', 'N')]),
        ('ptype', ['float', 'np64', 'int', 'npint', '0d', 'f32']),
        ('gv', ['sps,R', 'fs', 'R,fs', 'wl1310', 'N', 'reconf', 'sps,fs', 'wl1625']),
        ('off', [0, 5, -7]),                                      # Bragg frequency = gv.f0 + off bins
        # the design constants that have a default.  neff: 2.2 (LiNbO3-like waveguide), 1.0 (hollow core); the part
        # `index` adds 3.4 (silicon).  v: fringe visibility in (0, 1]; `index` adds 0.1.
        ('neff', [NEFF, 2.2, 1.0]),
        ('v', [VIS, 0.5]),
        # how the index change is given: vdneff (sigma -> 0) | dneff = vdneff / v (self-coupling sigma = 2 kL / v present)
        ('design', ['vdneff', 'dneff']),
    ]


def _legal(p):
    d = dict(p)
    # the exact kL is not a whole number of periods: only the kL and L spellings describe that grating
    if d['kLform'] == 'exact' and d['route'][1] in ('N', 'kL+N'):
        return False
    # landa_D + kL + (L | N) (no index change given) is a way of specifying a dneff design only
    return not (d['route'][1] in ('kL+L', 'kL+N') and (d['design'] != 'dneff' or d['route'][0] != 'landa_D'))


def deviations(ax, k, exactly=None, only=None):
    """all points that differ from the baseline (first value of every axis) in at most k axes (`only`: {axis: number of
    leading members} restricts the deviating axes and their members), ordered by number of deviations, then by axis
    order, then by value order"""
    names = [a for a, _ in ax]
    base = [v[0] for _, v in ax]
    free = [i for i, a in enumerate(names) if only is None or a in only]
    member = [v if only is None or a not in only else v[:only[a]] for a, v in ax]
    out = []
    for r in ([exactly] if exactly is not None else range(k + 1)):
        for idxs in itertools.combinations(free, r):
            for vals in itertools.product(*[member[i][1:] for i in idxs]):
                p = list(base)
                for i, v in zip(idxs, vals):
                    p[i] = v
                p = tuple(zip(names, p))
                if _legal(p):
                    out.append(p)
    return out


def point(ax, **dev):
    """the baseline with the named axes replaced (values need not be alphabet members)"""
    return tuple((a, dev.get(a, v[0])) for a, v in ax)


# ---------------------------------------------------------------------------- reference profiles
def ref_profile(apod):
    kind = apod[0]
    if kind in ('name', 'npstr', 'fn', 'obj', 'partial', 'npfn', 'named', 'strict'):
        n = apod[1]
        if n == 'uniform':
            return lambda z: 1.0
        if n == 'rcos':        # raised cosine of C19 with alpha=1, T=2 on |z| <= 1/2 (tapers to zero).  Zero beyond the
            # grating like the built-in: scipy's choice of the first step may probe the profile at |z| > 1/2, and an
            # "equal callable" has to be equal there too for the two solver runs to take the same steps
            return lambda z: 0.5 * (1.0 + math.cos(2.0 * math.pi * z)) if abs(z) <= 0.5 else 0.0
        if n == 'gaussian':
            return lambda z: math.exp(-4.0 * math.log(2.0) * (3.0 * z) ** 2)
        if n == 'parabolic':
            return lambda z: 1.0 - (2.0 * z) ** 2
        raise KeyError(n)
    if kind == 'seed':
        a, b = apod[1], apod[2]
        return lambda z: 1.0 + a * math.cos(2.0 * math.pi * z) + b * z * z
    if kind == 'tilt':         # not even in z
        t = apod[1]
        return lambda z: 1.0 + t * z
    if kind == 'skew':         # not even in z: off-centre bump on a pedestal
        s = apod[1]
        return lambda z: 0.3 + math.exp(-8.0 * (z - s) ** 2)
    if kind == 'expt':         # not even in z
        t = apod[1]
        return lambda z: math.exp(t * z)
    raise KeyError(kind)


class DomainError(Exception):
    """raised by the 'strict' callables when they are evaluated outside the documented domain -1/2 <= z <= 1/2"""


class _Profile:
    """a callable OBJECT (no __name__, no __qualname__ of its own)"""

    def __init__(self, f):
        self.f = f

    def __call__(self, z):
        return self.f(z)


def _scaled(f, z, gain=1.0):
    return gain * f(z)


def lib_apod(apod):
    """what is handed to FBG: the name, or a python callable of a scalar z in one of several callable forms"""
    kind = apod[0]
    if kind == 'name':
        return apod[1]
    if kind == 'npstr':                        # the built-in name as a numpy string scalar
        return np.str_(apod[1])
    f = ref_profile(apod)
    if kind == 'obj':
        return _Profile(f)
    if kind == 'partial':                      # functools.partial has no __name__
        return functools.partial(_scaled, f, gain=1.0)
    if kind == 'npfn':                         # numpy arithmetic, returns numpy scalars
        return lambda z: np.where(np.abs(z) <= 0.5, np.float64(0.5) * (1.0 + np.cos(2.0 * np.pi * np.asarray(z))), 0.0)
    if kind == 'strict':                       # defined on the documented domain only ("must be defined in -0.5 <= z <= 0.5")

        def on_the_grating_only(z):
            if not (-0.5 <= z <= 0.5):
                raise DomainError(f'apodisation called with z = {z!r}; the docstring asks for a definition on -0.5 <= z <= 0.5 only')
            return f(z)
        return on_the_grating_only
    if kind == 'named':                        # different functions that share __name__ AND __qualname__

        def apo(z):
            return f(z)
        return apo
    return f                                   # lambdas: all share the name '<lambda>'


def twin(apod):
    if apod[0] in ('name', 'npstr'):
        return ('fn', apod[1])
    if apod[0] in ('fn', 'obj', 'partial', 'npfn', 'named', 'strict'):
        return ('name', apod[1])
    return None


def profile_integral(apod):
    val, err = quad(ref_profile(apod), -0.5, 0.5, epsabs=1e-12, epsrel=1e-12)
    return val


def apod_label(apod):
    return apod[1] if apod[0] in ('name', 'npstr', 'fn', 'obj', 'partial', 'npfn', 'named', 'strict') else apod[0]


# ---------------------------------------------------------------------------- grid histories
def set_grid(mode, fs_g, clean=True):
    """configure gv so that gv.fs = fs_g GS/s by the given history; returns gv"""
    from opticomlib.typing import gv
    fs = fs_g * 1e9
    if float(fs_g).is_integer():
        sr = dict(sps=int(fs_g), R=1e9)
    else:
        sr = dict(sps=10, R=fs / 10)
    with warnings.catch_warnings():
        warnings.simplefilter('ignore')
        if clean:
            gv.clean()
        if mode == 'sps,R':
            gv(**sr)
        elif mode == 'sps,fs':
            gv(sps=16, fs=fs)
        elif mode == 'R,fs':                   # fs/R = 12.5: not an integer
            gv(R=fs / 12.5, fs=fs)
        elif mode == 'fs':
            gv(fs=fs)
        elif mode == 'wl1310':
            gv(wavelength=1310e-9, **sr)
        elif mode == 'wl1625':
            gv(wavelength=1625e-9, **sr)
        elif mode == 'N':
            gv(N=8, **sr)
        elif mode == 'reconf':                 # another grid first (other rate, wavelength, slot count), then the wanted one
            gv(sps=8, R=5e9, wavelength=1300e-9, N=4)
            gv(**sr)
        else:
            raise KeyError(mode)
    if not abs(float(gv.fs) - fs) < 1.0:
        raise AssertionError(('gv.fs', float(gv.fs), fs, mode))
    return gv


# ---------------------------------------------------------------------------- design -> call
def grating(kL, vd, f_b, exact=False, neff=NEFF, dn=0.0):
    """the grating of the design (vd = v * dneff, the "ac" index change; dn = the "dc" index change: 0 for a design
    through vdneff, vd / v for a design through dneff).  f_b is the frequency of peak reflection; the design wavelength
    lambda_D = 2 neff Lambda is lambda_b / (1 + dn / neff) (docstring Notes: sigma^ = delta + sigma vanishes there).
    exact=False: a whole number of periods so that kL, L and N say the same thing (L = N lambda_D / (2 neff),
    kL = pi vd L / lambda_D); exact=True: kL is used as it is (L = kL lambda_D / (pi vd); N is not a way to describe it)"""
    lam = C0 / f_b
    if dn:
        lam = lam / (1.0 + dn / neff)
    if exact:
        return dict(lam=lam, n_per=None, kL=kL, L=kL * lam / (pi * vd), neff=neff, dn=dn, vd=vd)
    n_per = max(1, int(round(kL * 2.0 * neff / (pi * vd))))
    kL_eff = pi * vd * n_per / (2.0 * neff)
    L = n_per * lam / (2.0 * neff)
    return dict(lam=lam, n_per=n_per, kL=kL_eff, L=L, neff=neff, dn=dn, vd=vd)


def design_grating(d, f_b):
    """the grating of a design point (axes kL, kLform, vd, neff, v, design)"""
    dn = d['vd'] / d['v'] if d['design'] == 'dneff' else 0.0
    return grating(d['kL'], d['vd'], f_b, exact=(d['kLform'] == 'exact'), neff=d['neff'], dn=dn)


def tol_centre(g):
    """same-H tolerance when the centre of a dneff design is spelled differently in the two calls (fc | landa_D):
    lambda_D = (c / fc) / (1 + dneff / neff) is rounded independently by the library and by this module (<= 4 eps
    relative), which moves the dimensionless detuning delta L = 2 pi neff L (1/lambda - 1/lambda_D) by <= 4 eps pi N
    (N = 2 neff L / lambda_D periods); |d rho / d(delta L)| of the uniform grating is <= 1 + kL^2 / 8 (7.2 at kL = 8).
    64 (1 + kL^2) eps pi N bounds that with a factor >= 100 for the group-delay correction that is derived from H.
    (2e-9 for the baseline, 3e-6 for 10^6 periods at kL = 8; a first-order approximation of the conversion is off by
    (dneff/neff)^2 pi N >= 1e-4 for the same gratings.)"""
    n_per = 2.0 * g['neff'] * g['L'] / g['lam']
    return TOL_SAME + 64.0 * EPS * pi * n_per * (1.0 + g['kL'] ** 2)


def _f32_exact(v):
    with np.errstate(all='ignore'):
        return float(np.float32(v)) == float(v)


def wrap(ptype, name, v):
    """the scalar type a design number is handed over in (the VALUE never changes)"""
    integral = name == 'N' or (name in ('kL', 'F') and float(v).is_integer())
    if ptype == 'float':
        return int(v) if name == 'N' else float(v)
    if ptype == 'np64':
        return np.int64(v) if name == 'N' else np.float64(v)
    if ptype == 'int':
        return int(v) if integral else float(v)
    if ptype == 'npint':
        return np.int64(v) if integral else np.float64(v)
    if ptype == '0d':
        return np.array(int(v)) if name == 'N' else np.array(float(v))
    if ptype == 'f32':                          # only where float32 holds the same number
        if name == 'N':
            return np.int32(v)
        return np.float32(v) if _f32_exact(v) else float(v)
    raise KeyError(ptype)


def route_kwargs(route, g, f_b, vd, F=0.0, ptype='float', v=VIS):
    """the keyword arguments that describe the grating g by the given route.  neff and v are handed over only when
    they are not the defaults.  A design through dneff (g['dn'] != 0) gets dneff = vd / v and, as landa_D, its design
    wavelength; the lengths 'kL+L' / 'kL+N' are the documented combination 3 (landa_D, kL, L | N: no index change given)"""
    centre, length = route
    kw = {'F': F}
    if g['neff'] != NEFF:
        kw['neff'] = g['neff']
    if v != VIS:
        kw['v'] = v
    if length in ('kL+L', 'kL+N'):
        if not (g['dn'] and centre == 'landa_D'):
            raise AssertionError(('route', route, 'describes a dneff design by landa_D only'))
    elif g['dn']:
        kw['dneff'] = g['dn']
    else:
        kw['vdneff'] = vd
    if centre == 'fc':
        kw['fc'] = f_b
    else:
        kw['landa_D'] = g['lam']
    if 'kL' in length:
        kw['kL'] = g['kL']
    if length.endswith('L') and length != 'kL':
        kw['L'] = g['L']
    if length.endswith('N'):
        kw['N'] = g['n_per']
    return {k: wrap(ptype, k, val) for k, val in kw.items()}


_INT_RANGE = {'int8': (-2 ** 7, 2 ** 8), 'uint8': (0, 2 ** 8), 'int16': (-2 ** 15, 2 ** 16), 'int32': (-2 ** 31, 2 ** 32),
              'int64': (-2 ** 61, 2 ** 62)}


def make_rows(kind, rows, n, seed):
    """the sample values of the input field, one array per polarisation (content AND sample dtype)"""
    out = []
    for r in range(rows):
        if kind == 'impulse':           # flat spectrum: the output spectrum IS H
            x = np.zeros(n, dtype=complex)
            x[3 + 5 * r] = 1.0 + 0.5j * r
        elif kind == 'random' or kind.startswith('random@') or kind in ('complex64', 'dc'):
            rng = np.random.default_rng([int(seed), 1600 + r, n])
            x = rng.standard_normal(n) + 1j * rng.standard_normal(n)
            if kind.startswith('random@'):          # the same field at another scale
                x = x * float(kind.split('@')[1])
            elif kind == 'complex64':
                x = x.astype(np.complex64)
            elif kind == 'dc':                      # large offset, small variation
                x = 1e3 + 1e-3 * x
        elif kind in ('gauss', 'float32', 'float16'):   # real dtype pulse
            t = (np.arange(n) - n / 2 - 7 * r) / (n / 16.0)
            x = np.exp(-t * t) * (1.0 + r)
            if kind != 'gauss':
                x = x.astype(kind)
        elif kind in _INT_RANGE or kind == 'intfloat':  # integer dtypes over their whole range (python ints: no wrap here)
            lo, span = _INT_RANGE['int8' if kind == 'intfloat' else kind]
            step = span // 7 + 1 + 2 * r
            x = np.array([lo + (i * step + 11 * r) % span for i in range(n)], dtype=float if kind == 'intfloat' else kind)
        elif kind == 'bool':
            x = np.array([(i * (3 + r)) % 7 in (0, 2, 3) for i in range(n)], dtype=bool)
        else:
            raise KeyError(kind)
        out.append(x)
    return out


def build_input(kind, layout, n, seed):
    """the optical_signal handed to FBG"""
    from opticomlib.typing import optical_signal
    base = layout.split('-')[0]
    if layout == '2pol-dup':                        # one row, duplicated by the constructor
        return optical_signal(make_rows(kind, 1, n, seed)[0], n_pol=2)
    if layout == '1x-2d':                           # (1, n) array -> 1 polarisation
        return optical_signal(np.array(make_rows(kind, 1, n, seed)), n_pol=1)
    rows = make_rows(kind, 1 if base == '1pol' else 2, n, seed)
    if layout == '2pol-zero2':
        rows[1] = np.zeros_like(rows[1])
    sig = rows[0] if base == '1pol' else np.array(rows)
    noise = None
    if 'noise' in layout:
        rng = np.random.default_rng([int(seed), 1699, n])
        scale = 0.1 * float(np.abs(np.asarray(sig, dtype=complex)).max())
        noise = scale * (rng.standard_normal(np.shape(sig)) + 1j * rng.standard_normal(np.shape(sig)))
        if layout.endswith('noise0'):               # present but all-zero
            noise = np.zeros(np.shape(sig))
        elif layout.endswith('noise1'):             # only in the first polarisation
            noise[1] = 0.0
        elif layout.endswith('noisef32'):           # real, of another dtype than the signal
            noise = noise.real.astype(np.float32)
    return optical_signal(sig, noise)


def freq_axis(n, fs):
    """offset from gv.f0 of the bins of H, in the order H is returned (fftshift order)"""
    return np.fft.fftshift(np.fft.fftfreq(n, d=1.0 / fs))


def uniform_closed_form(n, fs, f0, g, vd, f_b=None):
    """|H|^2 = sinh^2 g / (cosh^2 g - d^2/k^2), g = sqrt(k^2 - d^2) (complex beyond the band edge);
    d = 2 pi neff (1/lambda - 1/lambda_D) L [+ 2 pi dneff L / lambda for a design through dneff: d is the general
    "dc" self-coupling coefficient sigma^ = delta + sigma of the docstring Notes], k = pi vdneff L / lambda
    (Erdogan 1997, eq. 12-13; docstring Notes)"""
    f = f0 + freq_axis(n, fs)
    f_d = C0 / g['lam']                  # design frequency; == f_b (bit for bit: lam = C0 / f_b) when dn == 0
    if not g['dn']:
        f_d = f0 if f_b is None else f_b
    d = 2.0 * pi * g['neff'] * (f - f_d) / C0 * g['L']
    if g['dn']:
        d = d + 2.0 * pi * g['dn'] * f / C0 * g['L']
    k = pi * vd * g['L'] * f / C0
    gg = np.sqrt((k * k - d * d).astype(complex))
    with np.errstate(all='ignore'):
        r = (np.sinh(gg) ** 2 / (np.cosh(gg) ** 2 - d * d / (k * k))).real
    bad = ~np.isfinite(r)
    if bad.any():                        # d == k exactly: limit k^2/(1+k^2)
        r[bad] = (k[bad] ** 2) / (1.0 + k[bad] ** 2)
    return r


def _sha(*arrs):
    h = hashlib.sha256()
    for a in arrs:
        a = np.ascontiguousarray(a)
        h.update(str(a.shape).encode())
        h.update(a.tobytes())
    return h.hexdigest()[:24]


# ---------------------------------------------------------------------------- generic oracles on one call
def snapshot(x):
    """the field as it is handed over (copied immediately before the call)"""
    return np.array(x.signal, copy=True), (None if x.noise is None else np.array(x.noise, copy=True))


def check_call(snap, y, H, tag):
    """passivity at every bin, exact filtering per row, energy.  returns (viol, info).
    `snap` = (signal, noise) of the input object immediately before the call."""
    from opticomlib.typing import optical_signal
    sig0, noi0 = snap
    n = sig0.shape[-1]
    viol = []
    info = {}
    if not isinstance(y, optical_signal):
        viol.append(('shape:output-type', f'{tag}: output is {type(y).__name__}, not optical_signal'))
        return viol, info
    H = np.asarray(H)
    if H.shape != (n,):
        viol.append(('shape:H', f'{tag}: H.shape={H.shape}, expected ({n},)'))
        return viol, info
    if np.asarray(y.signal).shape != sig0.shape:
        viol.append(('shape:output', f'{tag}: output shape {np.asarray(y.signal).shape} != input shape {sig0.shape}'))
        return viol, info
    aH = np.abs(H)
    if not np.isfinite(aH).all():
        viol.append(('passive:H-not-finite', f'{tag}: H has {int((~np.isfinite(aH)).sum())} non-finite bin(s)'))
        return viol, info
    mx = float(aH.max())
    info['maxH'] = mx
    info['minH'] = float(aH.min())
    if mx > 1.0 + TOL_PASSIVE:
        i = int(aH.argmax())
        viol.append(('passive:|H|>1', f'{tag}: max|H| = {mx:.6g} at bin {i} of {n} (> 1 + {TOL_PASSIVE})'))
    # exact filtering, per row
    xin = np.atleast_2d(sig0)
    yout = np.atleast_2d(np.asarray(y.signal))
    Hs = np.fft.ifftshift(H)
    par = 'odd' if n % 2 else 'even'
    dt = 'complex' if np.iscomplexobj(sig0) else ('real' if sig0.dtype.kind == 'f' else 'int')
    worst = 0.0

    def filt(v):
        return np.fft.ifft(np.fft.fft(v) * Hs)
    if noi0 is None:
        for r in range(xin.shape[0]):
            ref = filt(xin[r])
            nrm = float(np.linalg.norm(xin[r].astype(complex)))
            tol = 64.0 * EPS * (math.log2(n) + 1.0) * nrm * max(1.0, mx) + 1e-300
            err = float(np.abs(yout[r] - ref).max())
            worst = max(worst, err / (nrm + 1e-300))
            if not (err <= tol):
                viol.append((f'filter:output!=ifft(fft(in)*ifftshift(H)):{xin.shape[0]}pol-row{r}:{par}:{dt}',
                             f'{tag}: row {r} ({sig0.dtype}): max|out - ifft(fft(in)*ifftshift(H))| = {err:.3g} > {tol:.3g}'))
            e_in = float(np.sum(np.abs(xin[r].astype(complex)) ** 2))
            e_out = float(np.sum(np.abs(yout[r]) ** 2))
            if not (e_out <= e_in * (1.0 + TOL_ENERGY)):
                viol.append(('energy:out>in', f'{tag}: row {r}: energy out {e_out:.6g} > energy in {e_in:.6g} (1+{TOL_ENERGY})'))
    else:
        # a noise component is present.  What becomes of it is outside the statement; the signal component of the
        # output must still be "the input filtered by H" under one of the three readings of "the input":
        # out.signal = filt(in.signal) | out.signal = filt(in.signal + in.noise) | out.signal + out.noise = filt(in.signal + in.noise)
        nin = np.atleast_2d(noi0)
        nout = None if y.noise is None else np.atleast_2d(np.asarray(y.noise))
        for r in range(xin.shape[0]):
            tot = xin[r].astype(complex) + nin[r]
            nrm = float(np.linalg.norm(xin[r].astype(complex)) + np.linalg.norm(nin[r].astype(complex)))
            tol = 64.0 * EPS * (math.log2(n) + 1.0) * nrm * max(1.0, mx) + 1e-300
            errs = [float(np.abs(yout[r] - filt(xin[r])).max()), float(np.abs(yout[r] - filt(tot)).max())]
            if nout is not None and nout.shape == yout.shape:
                errs.append(float(np.abs(yout[r] + nout[r] - filt(tot)).max()))
            err = min(errs)
            worst = max(worst, err / (nrm + 1e-300))
            if not (err <= tol):
                viol.append((f'filter:output!=ifft(fft(in)*ifftshift(H)):{xin.shape[0]}pol-row{r}:{par}:with-noise',
                             f'{tag}: row {r}: the signal of the output is neither the filtered signal nor the filtered '
                             f'signal+noise (smallest max deviation {err:.3g} > {tol:.3g})'))
    info['filt_err'] = worst
    return viol, info


def call_fbg(x, kw, apod, filtfilt, form='retH'):
    """one real call in the given call form; returns (output, H, number of FBG calls)"""
    from opticomlib.devices import FBG
    ap = lib_apod(apod)
    if form == 'retH':
        y, H = FBG(x, apodization=ap, filtfilt=filtfilt, print_params=False, retH=True, **kw)
        return y, H, 1
    if form == 'print':                         # the report is printed (captured here)
        with contextlib.redirect_stdout(io.StringIO()):
            y, H = FBG(x, apodization=ap, filtfilt=filtfilt, print_params=True, retH=True, **kw)
        return y, H, 1
    if form == 'positional':                    # every argument by position, in the documented order
        y, H = FBG(x, kw.get('neff', NEFF), kw.get('v', VIS), kw.get('landa_D'), kw.get('fc'), kw.get('kL'), kw.get('L'),
                   kw.get('N'), kw.get('dneff'), kw.get('vdneff'), ap, kw.get('F', 0), False, filtfilt, True)
        return y, H, 1
    if form == 'noretH':                        # the output of the call WITHOUT retH, H from a second call
        y = FBG(x, apodization=ap, filtfilt=filtfilt, print_params=False, **kw)
        _, H = FBG(x, apodization=ap, filtfilt=filtfilt, print_params=False, retH=True, **kw)
        if isinstance(y, tuple):
            raise AssertionError('FBG(..., retH=False) returned a tuple')
        return y, H, 2
    raise KeyError(form)


# ---------------------------------------------------------------------------- the clauses about one design
def design_oracles(d, g, gvs, H, tag):
    """Bragg peak and (uniform) whole-spectrum closed forms for an unchirped grating; returns (viol, dev)"""
    fs, f0, f_b = gvs
    apod, F, vd = d['apod'], d['F'], d['vd']
    n = np.asarray(H).shape[0]
    viol, dev = [], {}
    if F != 0:
        return viol, dev
    ic = n // 2 + d.get('off', 0)                # bin of the Bragg frequency of the design
    R = np.abs(H) ** 2
    if g['dn']:
        # design through dneff.  The profile multiplies sigma too, so only the uniform grating has a closed form: the
        # formula of the statement with d = sigma^ = delta + sigma (docstring Notes, Erdogan eq. 12-13), peak
        # tanh^2(k(f_b)) at the frequency where sigma^ = 0, k(f) = pi v dneff L f / c = kL lambda_D / lambda_b there
        if apod_label(apod) != 'uniform':
            return viol, dev
        want = math.tanh(pi * vd * g['L'] * f_b / C0) ** 2
        got = float(R[ic])
        dev['bragg_dneff'] = abs(got - want)
        if not (abs(got - want) <= TOL_BRAGG):
            viol.append((f'bragg:dneff-design:|H|^2!=tanh^2(k(f_B)):{apod[0]}:uniform',
                         f'{tag}: |H(f_B)|^2 = {got:.6f}, tanh^2(pi v dneff L / lambda_B) = {want:.6f}'))
        cf = uniform_closed_form(n, fs, f0, g, vd, f_b)
        e = np.abs(R - cf)
        dev['uniform_dneff'] = float(e.max())
        if not (e.max() <= TOL_UNIFORM):
            i = int(e.argmax())
            viol.append(('uniform:dneff-design:|H|^2!=sinh^2/(cosh^2-d^2/k^2),d=delta+sigma',
                         f'{tag}: bin {i}: |H|^2 = {R[i]:.6f}, closed form {cf[i]:.6f} (max dev {e.max():.3g})'))
        return viol, dev
    integ = profile_integral(apod)
    want = math.tanh(g['kL'] * integ) ** 2
    got = float(R[ic])
    dev['bragg'] = abs(got - want)
    if not (abs(got - want) <= TOL_BRAGG):
        viol.append((f'bragg:|H|^2!=tanh^2(kL*int):{apod[0]}:{apod_label(apod)}',
                     f'{tag}: |H(f_B)|^2 = {got:.6f}, tanh^2({g["kL"]:.5g} * {integ:.6f}) = {want:.6f}'))
    if apod_label(apod) == 'uniform':
        cf = uniform_closed_form(n, fs, f0, g, vd, f_b)
        e = np.abs(R - cf)
        dev['uniform'] = float(e.max())
        if not (e.max() <= TOL_UNIFORM):
            i = int(e.argmax())
            viol.append(('uniform:|H|^2!=sinh^2/(cosh^2-d^2/k^2)',
                         f'{tag}: bin {i}: |H|^2 = {R[i]:.6f}, closed form {cf[i]:.6f} (max dev {e.max():.3g})'))
    return viol, dev


def design_tag(d, g):
    return (f"fs={d['fs']}G n={d['n']} {d['layout']} {d['inp']} filtfilt={d['filtfilt']} call={d['call']} kL={g['kL']:.6g}"
            f"({d['kLform']}) vd={d['vd']:g} F={d['F']:g} apod={d['apod']} route={d['route']} ptype={d['ptype']} "
            f"gv={d['gv']} off={d['off']} neff={d['neff']:g} v={d['v']:g} design={d['design']}")


# ---------------------------------------------------------------------------- case: one design
def design_case(case):
    try:
        return _design_case(case)
    except DomainError as e:
        # a user callable that is defined exactly where the docstring demands it is a valid apodisation; the design is
        # valid, so the response has to be computed
        d = dict(case[1])
        key = 'domain:user-apodisation-evaluated-outside-[-1/2,1/2]'
        return res(viol=[(key, f"fs={d['fs']}G n={d['n']} kL={d['kL']}({d['kLform']}) vd={d['vd']:g} F={d['F']:g} apod={d['apod']}: "
                               f'FBG failed for a callable that is defined on the documented domain only: {e}')],
                   obs='DOMAIN', nontrivial=False, stats={'fbg_calls': 1}, payload={})


def _design_case(case):
    seed, pt = case
    d = dict(pt)
    n, F, apod, route, vd = d['n'], d['F'], d['apod'], d['route'], d['vd']
    gv = set_grid(d['gv'], d['fs'])
    fs, f0 = float(gv.fs), float(gv.f0)
    f_b = f0 + d['off'] * fs / n
    g = design_grating(d, f_b)
    x = build_input(d['inp'], d['layout'], n, seed)
    tag = design_tag(d, g)
    viol = []
    snap = snapshot(x)
    y, H, calls = call_fbg(x, route_kwargs(route, g, f_b, vd, F, d['ptype'], d['v']), apod, d['filtfilt'], d['call'])
    v, info = check_call(snap, y, H, tag)
    viol += v
    # diagnostic only (the statement does not say that the operand stays untouched): was the input object written to?
    touched = not (np.array_equal(snap[0], x.signal) and (snap[1] is None or np.array_equal(snap[1], x.noise)))
    dev = {}
    ok_shape = 'maxH' in info
    if ok_shape:
        v, dev = design_oracles(d, g, (fs, f0, f_b), H, tag)
        viol += v
        tw = twin(apod)
        if tw is not None:
            snap2 = snapshot(x)                     # the same object is handed over again
            y2, H2, c2 = call_fbg(x, route_kwargs(route, g, f_b, vd, F, d['ptype'], d['v']), tw, d['filtfilt'])
            calls += c2
            H2 = np.asarray(H2)
            e = float(np.abs(H2 - H).max()) if H2.shape == np.shape(H) else float('inf')
            dev['twin'] = e
            if not (e <= TOL_SAME):
                viol.append((f'twin:name!=callable:{apod[1]}',
                             f'{tag}: max|H(name) - H(equal callable)| = {e:.3g} > {TOL_SAME}'))
            else:
                viol += check_call(snap2, y2, H2, tag + ' [twin call, same input object]')[0]
        if route != ('fc', 'kL'):
            # the same grating (same neff, v, index change) specified by fc and kL
            y3, H3, c3 = call_fbg(x, route_kwargs(('fc', 'kL'), g, f_b, vd, F, v=d['v']), apod, d['filtfilt'])
            calls += c3
            H3 = np.asarray(H3)
            e = float(np.abs(H3 - H).max()) if H3.shape == np.shape(H) else float('inf')
            # a dneff design whose centre is spelled landa_D: the conversion of the centre is rounded (tol_centre)
            tol = tol_centre(g) if (g['dn'] and route[0] != 'fc') else TOL_SAME
            dev['route_dneff' if g['dn'] else 'route'] = e
            if not (e <= tol):
                viol.append((f'route:{"dneff-design:" if g["dn"] else ""}{route[0]},{route[1]}!=fc,kL',
                             f'{tag}: max|H({route}) - H(fc,kL)| = {e:.3g} > {tol:.3g} (N={g["n_per"]} periods, L={g["L"]:.6g} m)'))
    nt = False
    if ok_shape and info['maxH'] > 1e-2 and info['maxH'] - info['minH'] > 1e-3:
        nt = ('design',) + tuple(v_ for k, v_ in pt if k not in ('inp', 'layout', 'filtfilt', 'call', 'ptype', 'gv'))
    dev['maxH'] = info.get('maxH', float('nan'))
    dev['filt'] = info.get('filt_err', float('nan'))
    obs = _sha(np.asarray(H), np.asarray(y.signal)) if ok_shape else 'BAD-SHAPE'
    weak = bool(ok_shape and F == 0 and math.tanh(g['kL'] * profile_integral(apod)) ** 2 < 0.01)
    index_dev = int(d['neff'] != NEFF or d['v'] != VIS)
    routed = 'route' in dev or 'route_dneff' in dev
    return res(viol=viol, obs=obs, nontrivial=nt, stats={'fbg_calls': calls, 'F0_peak_checks': int('bragg' in dev or 'bragg_dneff' in dev),
                                                         'uniform_spectrum_checks': int('uniform' in dev or 'uniform_dneff' in dev),
                                                         'twin_checks': int('twin' in dev), 'route_checks': int(routed),
                                                         'nondefault_neff_or_v_cases': index_dev,
                                                         'nondefault_neff_or_v_route_checks': int(index_dev and routed),
                                                         'dneff_design_cases': int(bool(g['dn'])),
                                                         'odd_length_cases': int(n % 2),
                                                         'weak_gratings_peak_below_1pct': int(weak),
                                                         'non_complex_input_cases': int(not np.iscomplexobj(snap[0])),
                                                         'noisy_input_cases': int(snap[1] is not None),
                                                         'diagnostic_input_object_modified': int(touched)},
               payload=dev)


# ---------------------------------------------------------------------------- case: call sequence in one process
def seq_menu(seed):
    """calls that differ from the baseline design in one respect"""
    return [
        ('base', {}),
        ('kL2', {'kL': 2.0}),
        ('vd1e-3', {'vd': 1e-3}),
        ('F5', {'F': 5.0}),
        ('filtfilt-off', {'filtfilt': False}),
        ('gaussian', {'apod': ('name', 'gaussian')}),
        ('def-apo:gaussian', {'apod': ('named', 'gaussian')}),       # two different `def apo(z)` ...
        ('def-apo:parabolic', {'apod': ('named', 'parabolic')}),
        ('lambda:tilt', {'apod': ('tilt', 0.8)}),                    # ... and two different lambdas
        ('lambda:seeded', {'apod': seeded_profiles(seed)[0]}),
        ('landa_D,N', {'route': ('landa_D', 'N')}),
        ('n257', {'n': 257}),
        ('fs20', {'fs': 20}),
        ('wl1310', {'gv': 'wl1310'}),
        ('2pol-int', {'layout': '2pol', 'inp': 'int64'}),
        ('neff2.2', {'neff': 2.2}),                                  # a sweep of the effective index on one object
        ('dneff,v0.5', {'design': 'dneff', 'v': 0.5, 'route': ('landa_D', 'N')}),
    ]


def seq_case(case):
    seed, ia, ib = case
    menu = seq_menu(seed)
    ax = axes(seed)
    (na, da), (nb, db) = menu[ia], menu[ib]
    pa, pb = dict(point(ax, **da)), dict(point(ax, **db))
    from opticomlib.typing import gv
    gv.clean()
    inputs = {}

    def one(d, x=None, first=False):
        g_ = set_grid(d['gv'], d['fs'], clean=False)          # reconfigured, never cleaned, between the calls
        fs, f0 = float(g_.fs), float(g_.f0)
        f_b = f0
        g = design_grating(d, f_b)
        if x is None:
            key = (d['inp'], d['layout'], d['n'])
            if key not in inputs:
                inputs[key] = build_input(d['inp'], d['layout'], d['n'], seed)
            x = inputs[key]                                    # ONE object per (field, layout, length), shared by the calls
        snap = snapshot(x)
        y, H, calls = call_fbg(x, route_kwargs(d['route'], g, f_b, d['vd'], d['F'], v=d['v']), d['apod'], d['filtfilt'])
        return dict(d=d, g=g, gvs=(fs, f0, f_b), snap=snap, y=y, H=np.asarray(H))

    viol = []
    r1 = one(pb)
    r2 = one(pa)
    chained = pa['n'] == pb['n']
    r3 = one(pb, x=r2['y'] if chained else None)               # the output of a is the input of b'
    shas = []
    for pos, nm, r in ((1, nb, r1), (2, na, r2), (3, nb, r3)):
        tag = f'seq [{nb} ; {na} ; {nb}{" on the output of " + na if chained else ""}] call {pos} ({nm})'
        v, info = check_call(r['snap'], r['y'], r['H'], tag)
        if 'maxH' in info:
            v2, _ = design_oracles(r['d'], r['g'], r['gvs'], r['H'], tag)
            v += v2
            shas.append(_sha(r['H'], np.asarray(r['y'].signal)))
        else:
            shas.append('BAD-SHAPE')
        viol += [(f'seq:{k}', m) for k, m in v]
    if r3['H'].shape == r1['H'].shape:
        e = float(np.abs(r3['H'] - r1['H']).max())
        if not (e <= TOL_SAME):
            viol.append((f'seq:H-depends-on-the-call-before:{na}',
                         f'seq [{nb} ; {na} ; {nb}]: max|H(third call) - H(first call)| = {e:.3g} > {TOL_SAME} for the same design'))
    return res(viol=viol, obs=tuple(shas), nontrivial=('seq', ia, ib),
               stats={'fbg_calls': 3, 'seq_cases': 1, 'chained_calls': int(chained)}, payload=None)


# ---------------------------------------------------------------------------- case: presence pattern
SPEC_NAMES = ['landa_D', 'fc', 'kL', 'L', 'N', 'dneff', 'vdneff']
SPEC_SETS = [
    dict(fs=100, kL=1.0, vd=1e-4, ptype='float'),       # quick + thorough
    dict(fs=100, kL=1.0, vd=1e-4, ptype='np64'),        # quick + thorough: numpy scalars
    dict(fs=100, kL=1.0, vd=1e-4, ptype='float', neff=2.2, v=0.5),   # quick + thorough: neff and v given, not the defaults
    dict(fs=400, kL=4.0, vd=1e-3, ptype='float'),       # thorough
    dict(fs=400, kL=4.0, vd=1e-3, ptype='0d'),          # thorough: 0-d arrays
    dict(fs=400, kL=4.0, vd=1e-3, ptype='np64', neff=3.4, v=0.1),    # thorough
]
SPEC_QUICK = 3
DOCUMENTED = set()
for _c in ('fc', 'landa_D'):
    for _i in ('dneff', 'vdneff'):
        for _l in ('N', 'kL', 'L'):
            DOCUMENTED.add(frozenset((_c, _i, _l)))
for _l in ('N', 'L'):
    DOCUMENTED.add(frozenset(('landa_D', 'kL', _l)))


def spec_class(present):
    """'raise'   : the grating is under-determined (no centre, or fewer than two of {index change, kL, length})
       'compute' : exactly one of the combinations the docstring lists
       'either'  : determined but not listed (over-specified, or fc+kL+length): statement silent"""
    p = set(present)
    centre = bool(p & {'fc', 'landa_D'})
    groups = int(bool(p & {'dneff', 'vdneff'})) + int('kL' in p) + int(bool(p & {'L', 'N'}))
    if not centre:
        return 'raise', 'no-centre'
    if groups < 2:
        if not (p & {'dneff', 'vdneff', 'kL'}):
            return 'raise', 'no-index-change-or-kL'
        if not (p & {'kL', 'L', 'N'}):
            return 'raise', 'no-length'
        return 'raise', 'kL-alone'
    if frozenset(p) in DOCUMENTED:
        return 'compute', 'documented'
    return 'either', 'undocumented-complete'


def spec_case(case):
    from opticomlib.devices import FBG
    si, mask = case
    vs = SPEC_SETS[si]
    gv = gv_reset(sps=int(vs['fs']), R=1e9)
    fs, f0 = float(gv.fs), float(gv.f0)
    neff, vis = vs.get('neff', NEFF), vs.get('v', VIS)
    g = grating(vs['kL'], vs['vd'], f0, neff=neff)
    # one consistent value set: vdneff = v * dneff, N periods of lambda_D / (2 neff) = L, kL = pi vdneff L / lambda_D
    vals = dict(landa_D=C0 / f0, fc=f0, kL=g['kL'], L=g['L'], N=g['n_per'], dneff=vs['vd'] / vis, vdneff=vs['vd'])
    present = [nm for i, nm in enumerate(SPEC_NAMES) if (mask >> i) & 1]
    kw = {nm: wrap(vs['ptype'], nm, vals[nm]) for nm in present}
    if neff != NEFF:
        kw['neff'] = wrap(vs['ptype'], 'neff', neff)
    if vis != VIS:
        kw['v'] = wrap(vs['ptype'], 'v', vis)
    cls, why = spec_class(present)
    n = 256
    x = build_input('impulse', '2pol', n, 0)
    snap = snapshot(x)
    tag = f'set{si} present={present}'
    viol = []
    outcome = None
    try:
        y, H = FBG(x, print_params=False, retH=True, **kw)
        outcome = 'computed'
    except ValueError as e:
        outcome = 'ValueError'
    except Exception as e:                      # noqa - classified below, re-raised where the statement demands a result
        if cls != 'raise':
            raise
        outcome = type(e).__name__
    if cls == 'raise' and outcome != 'ValueError':
        viol.append((f'spec:incomplete-did-not-raise-ValueError:{why}',
                     f'{tag}: grating under-determined ({why}) but FBG -> {outcome}'))
    if cls == 'compute' and outcome != 'computed':
        viol.append(('spec:documented-combination-raised', f'{tag}: the docstring lists this combination, FBG raised ValueError'))
    obs = (mask, outcome)
    if outcome == 'computed':
        v, info = check_call(snap, y, H, tag)
        viol += v
        if 'maxH' in info:
            obs = (mask, outcome, _sha(np.asarray(H)))
            if 'vdneff' in present and 'dneff' not in present:
                want = math.tanh(g['kL']) ** 2
                got = float(abs(H[n // 2]) ** 2)
                if not (abs(got - want) <= TOL_BRAGG):
                    viol.append(('spec:bragg:|H|^2!=tanh^2(kL)', f'{tag}: |H(f_B)|^2 = {got:.6f}, tanh^2(kL) = {want:.6f}'))
    return res(viol=viol, obs=obs, nontrivial=('spec', si, mask), stats={'spec_' + cls: 1, 'spec_' + outcome: 1},
               payload=(cls, outcome))


# ---------------------------------------------------------------------------- diagnostic: documented ODE
def riccati_reference(n, fs, f0, g, vd, apod, F):
    """rho = S/R obeys rho' = -j (2 s^ rho + k p + k p rho^2), s^ = delta - F z (vdneff route: sigma = 0),
    rho(1/2) = 0, integrated to z = -1/2 (docstring Notes / Erdogan eq. 14) with DOP853, rtol 1e-10"""
    f = f0 + freq_axis(n, fs)
    d = 2.0 * pi * NEFF * (f - f0) / C0 * g['L']
    k = pi * vd * g['L'] * f / C0
    p = ref_profile(apod)

    def rhs(z, rho):
        pz = p(z)
        return -1j * (2.0 * (d - F * z) * rho + k * pz + k * pz * rho * rho)
    sol = solve_ivp(rhs, [0.5, -0.5], np.zeros(n, dtype=complex), method='DOP853', rtol=1e-10, atol=1e-12)
    return sol.y[:, -1]


def docode_case(case):
    seed, pt = case
    d = dict(pt)
    gv = gv_reset(sps=int(d['fs']), R=1e9)
    fs, f0 = float(gv.fs), float(gv.f0)
    g = grating(d['kL'], d['vd'], f0)
    n = d['n']
    x = build_input('impulse', '1pol', n, seed)
    y, H, _ = call_fbg(x, route_kwargs(('fc', 'kL'), g, f0, d['vd'], d['F']), d['apod'], False)
    ref = riccati_reference(n, fs, f0, g, d['vd'], d['apod'], d['F'])
    e = float(np.abs(np.asarray(H) - ref).max())
    em = float(np.abs(np.abs(H) ** 2 - np.abs(ref) ** 2).max())
    return res(viol=[], obs=_sha(np.asarray(H)), nontrivial=('docode',) + tuple(v for _, v in pt),
               stats={'fbg_calls': 1, 'docode_cases': 1, 'docode_dev_gt_1e-2': int(e > 1e-2)}, payload=(e, em, pt))


# ---------------------------------------------------------------------------- driver
def run(ctx):
    seed = ctx.seed
    ax = axes(seed)
    pts = deviations(ax, 2)
    ctx.rule(f'C16 lattice: every design that differs from the baseline {dict((a, v[0]) for a, v in ax)} in at most 2 of the '
             f'{len(ax)} axes {[(a, len(v)) for a, v in ax]} ({len(pts)} designs, ordered by number of deviations; the exact kL '
             f'is not combined with the N spelling); each design is one real FBG call (+1 with the name/callable twin of the '
             f'apodisation, +1 with the (fc,kL) route when another route is used, +1 when the output is taken from a call without '
             f'retH); kLform=periods: the grating has an integer number of periods so kL, L and N describe the same grating; '
             f'the grating is centred `off` bins from gv.f0')
    ctx.assume('numpy.fft is trusted as the definition of the DFT (output compared with ifft(fft(in)*ifftshift(H)) up to '
               '64 eps (log2 n + 1) |in|_2 max(1,max|H|), `in` = the arrays of the input object copied immediately before the call); '
               'scipy.integrate.quad is trusted for the integral of the reference profile; '
               'the closed forms are Erdogan 1997 eq. 12-13 with k = pi vdneff L / lambda as in the docstring Notes; '
               'tolerances: passivity 5e-3, Bragg peak 2e-3, uniform spectrum 1e-2 (RK45 rtol = 1e-3), same-H 1e-9')
    ctx.assume('neff and v are design parameters ("every valid design parameter combination"): the closed forms are evaluated '
               'with the neff of the design (d = 2 pi neff (1/lambda - 1/lambda_D) L, N periods of lambda_D / (2 neff)); a design '
               'through vdneff does not involve v.  A design through dneff has the given vdneff = v dneff and, per the docstring '
               'Notes, sigma = 2 pi dneff / lambda, centre (1 + dneff/neff) lambda_D: its equivalent specifications (fc | the '
               'corresponding landa_D; kL | L | N; landa_D with kL and L | N) must give the same response (1e-9; when the centre '
               'is spelled differently: + 64 (1 + kL^2) eps pi N for the independently rounded conversion of the centre); for '
               'the uniform profile the closed form of the statement is applied with d = sigma^ = delta + sigma (Erdogan eq. '
               '12-13, the source of the formula), under keys of their own (`...:dneff-design:...`); apodised dneff designs have '
               'no closed form and are checked for passivity / filtering / energy / equivalence only')
    ctx.assume("the reference profile of 'rcos' is 1/2 (1 + cos 2 pi z) (utils.rcos(z, alpha=1, T=2), tapers to zero at the ends); "
               "the docstring's cos(pi z) is treated as a documentation slip (DESIGN 5/C16)")
    ctx.assume('a noise component of the input: what becomes of it is outside the statement (no value of it is asserted); the '
               'signal of the output must be the filtered signal or the filtered signal+noise (or output signal+noise = filtered '
               'signal+noise); the energy clause is not evaluated for noisy inputs')
    agg = {}

    def absorb(pl, cases):
        for dv, cs in zip(pl, cases):
            if not dv:
                continue
            for kk, vv in dv.items():
                if vv != vv:
                    continue
                if kk == 'maxH':
                    kk, vv = 'max|H|-1', vv - 1.0
                else:
                    kk = 'maxdev_' + kk
                if kk not in agg or vv > agg[kk][0]:
                    base = dict(point(ax))
                    agg[kk] = (vv, repr({k_: v_ for k_, v_ in cs[1] if base.get(k_) != v_}))
    cases = [(seed, p) for p in pts]
    absorb(ctx.pmap('lattice', design_case, cases, horizon=180.0, chunk=1), cases)

    if not ctx.quick:
        p3 = deviations(ax, 3, exactly=3, only=CORE)
        ctx.rule(f'C16 lattice3: the designs with exactly 3 deviations over the design axes and leading members {CORE}: {len(p3)}')
        cases = [(seed, p) for p in p3]
        absorb(ctx.pmap('lattice3', design_case, cases, horizon=180.0, chunk=1), cases)

        by = dict(ax)
        prod = []
        match_fs = {1e-4: 100, 1e-3: 400, 1e-5: 20}
        for kL, vd, apod, F in itertools.product(by['kL'], by['vd'], by['apod'], by['F']):
            prod.append(point(ax, fs=match_fs[vd], kL=kL, vd=vd, F=F, apod=apod))
        ctx.rule(f'C16 product: full product kL x vdneff x apodisation x F = {len(prod)} designs at n=256 and the sampling rate '
                 f'that resolves the stop band (vdneff 1e-5/1e-4/1e-3 -> 20/100/400 GS/s)')
        cases = [(seed, p) for p in prod]
        absorb(ctx.pmap('product', design_case, cases, horizon=180.0, chunk=1), cases)

    # the limits of the quantifier, exactly and one ulp inside
    up, dn = (lambda v: float(np.nextafter(v, np.inf))), (lambda v: float(np.nextafter(v, -np.inf)))
    kLs = [0.1, up(0.1), dn(8.0), 8.0]
    vds = [1e-5, up(1e-5), dn(1e-3), 1e-3]
    Fs = [-20.0, up(-20.0), 0.0, dn(20.0), 20.0]
    lim_ap = ([('name', 'uniform'), ('name', 'gaussian'), ('tilt', 0.8), ('strict', 'parabolic')]
              + ([] if ctx.quick else [('fn', 'rcos'), ('skew', 0.2)]))
    lim_fs = [100, 20] if ctx.quick else [100, 20, 400]
    lim = [point(ax, fs=fs_, kL=kL, vd=vd, F=F, apod=ap, kLform='exact')
           for ap, fs_, kL, vd, F in itertools.product(lim_ap, lim_fs, kLs, vds, Fs)]
    ctx.rule(f'C16 limits: kL {kLs} x vdneff {vds} x F {Fs} (the documented limits exactly and one ulp inside, exact kL) x '
             f'apodisation {lim_ap} x fs {lim_fs} GS/s = {len(lim)} designs at n=256 (gratings with a peak reflectivity below 1 % '
             f'included)')
    cases = [(seed, p) for p in lim]
    absorb(ctx.pmap('limits', design_case, cases, horizon=240.0, chunk=1), cases)

    # the corners of (fs, n, vdneff, kL), which the lattice (<= 3 deviations) does not reach
    cor = []
    for apod, F in ([(('name', 'uniform'), 0.0), (('strict', 'parabolic'), 0.0)] if ctx.quick else
                    [(('name', 'uniform'), 0.0), (('strict', 'parabolic'), 0.0), (('name', 'gaussian'), 0.0),
                     (('name', 'uniform'), 20.0), (('name', 'gaussian'), 20.0)]):
        for fs_, n_, vd_, kL_ in itertools.product([20, 400], [256, 4096], [1e-3, 1e-5], [0.1, 8.0]):
            cor.append(point(ax, fs=fs_, n=n_, kL=kL_, vd=vd_, F=F, apod=apod, kLform='exact'))
    ctx.rule(f'C16 corners: the 16 corners of (fs, n, vdneff, kL) (exact kL) x {len(cor) // 16} (apodisation, F) pairs = {len(cor)} designs')
    cases = [(seed, p) for p in cor]
    absorb(ctx.pmap('corners', design_case, cases, horizon=240.0, chunk=1), cases)

    # the design constants with a default, crossed with every way of specifying the grating
    six = [r for _, v_ in ax if _ == 'route' for r in v_]
    ways = [('vdneff', r) for r in six] + [('dneff', r) for r in six + [('landa_D', 'kL+L'), ('landa_D', 'kL+N')]]
    idx_neff, idx_v = [NEFF, 1.0, 2.2, 3.4], [VIS, 0.5, 0.1]
    idx_ap = [('name', 'uniform'), ('tilt', 0.8)] + ([] if ctx.quick else [('name', 'gaussian')])
    idx_kv = [(1.0, 1e-4, 100)] + ([] if ctx.quick else [(4.0, 1e-4, 100), (1.0, 1e-3, 400), (4.0, 1e-3, 400)])
    idx = [point(ax, fs=fs_, kL=kL, vd=vd, apod=ap, neff=ne, v=vi, design=de, route=ro)
           for (kL, vd, fs_), ap, ne, vi, (de, ro) in itertools.product(idx_kv, idx_ap, idx_neff, idx_v, ways)]
    ctx.rule(f'C16 index: neff {idx_neff} x v {idx_v} x the {len(ways)} ways of specifying the grating (design through vdneff: '
             f'{{fc, landa_D}} x {{kL, L, N}}; design through dneff = vdneff / v: the same six and landa_D with (kL, L) | (kL, N), '
             f'no index change given) x apodisation {idx_ap} x (kL, vdneff, fs) {idx_kv} = {len(idx)} designs at n=256, a whole '
             f'number of periods; every design is compared with the closed forms computed with ITS neff and with the same '
             f'grating specified by (fc, kL)')
    cases = [(seed, p) for p in idx]
    absorb(ctx.pmap('index', design_case, cases, horizon=180.0, chunk=1), cases)

    m = len(seq_menu(seed))
    sq = [(seed, ia, ib) for ib in range(m) for ia in range(m) if ia != ib]
    ctx.rule(f'C16 seq: every ordered pair (a, b) of the {m} calls {[nm for nm, _ in seq_menu(seed)]} run in one process as '
             f'b, a, b\' on shared input objects (b\' takes the output of a when the lengths agree), gv reconfigured but not '
             f'cleaned in between: {len(sq)} sequences, 3 calls each; every call checked on its own, H(b\') == H(b)')
    ctx.pmap('seq', seq_case, sq, horizon=120.0)

    nsets = SPEC_QUICK if ctx.quick else len(SPEC_SETS)
    spec = [(si, m_) for si in range(nsets) for m_ in sorted(range(128), key=lambda m_: (bin(m_).count('1'), m_))]
    ctx.rule(f'C16 spec: all 2^7 presence/absence patterns of {SPEC_NAMES} for {nsets} value set(s) {SPEC_SETS[:nsets]}; under-determined '
             f'(no centre, or fewer than two of index-change / kL / length) must raise ValueError; the 14 combinations listed in '
             f'the docstring must compute; determined-but-unlisted patterns may do either; whatever computes is checked for '
             f'passivity / exact filtering / energy')
    sp = ctx.pmap('spec', spec_case, spec, horizon=60.0)
    cnt = {}
    for c_o in sp:
        if c_o:
            cnt[f'{c_o[0]}->{c_o[1]}'] = cnt.get(f'{c_o[0]}->{c_o[1]}', 0) + 1
    ctx.extra['spec_outcomes'] = cnt

    # non-deciding diagnostic against the documented coupled-mode ODE
    dpts = []
    for kL, F, apod in itertools.product([1.0, 4.0], [0.0, 5.0, -5.0, 20.0], [('name', 'uniform'), ('name', 'gaussian'),
                                                                               seeded_profiles(seed)[0], ('tilt', 0.8)]):
        dpts.append((('fs', 100), ('n', 256), ('kL', kL), ('vd', 1e-4), ('F', F), ('apod', apod)))
    ctx.rule(f'C16 docode (diagnostic, never a violation): {len(dpts)} designs, complex H (filtfilt=False) vs DOP853 integration of '
             f'the Riccati form of the documented coupled-mode equations; only the deviation is recorded')
    dd = ctx.pmap('docode', docode_case, [(seed, p) for p in dpts], horizon=120.0, chunk=1)
    dd = [x for x in dd if x]
    if dd:
        ctx.extra['docode'] = {'max|H-Href|': max(x[0] for x in dd), 'max||H|^2-|Href|^2|': max(x[1] for x in dd),
                               'cases_above_1e-2': sum(1 for x in dd if x[0] > 1e-2),
                               'first_above_1e-2': next((repr(x[2]) for x in dd if x[0] > 1e-2), None)}
    ctx.extra['measured'] = {kk: {'value': float(f'{vv[0]:.4g}'), 'at': vv[1]} for kk, vv in sorted(agg.items())}
    for kk, vv in ctx.extra['measured'].items():
        print(f'[C16] measured {kk} = {vv["value"]:.4g} at baseline + {vv["at"]}', flush=True)
    print(f'[C16] spec outcomes: {cnt}', flush=True)
    print(f'[C16] docode diagnostic: {ctx.extra.get("docode")}', flush=True)
