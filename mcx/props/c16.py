"""C16 - FBG is a passive reflector matching the coupled-mode closed forms.

Bounded-exhaustive exploration of `opticomlib.devices.FBG`:

* part `lattice`  : deviation lattice (k <= 2 quick, k <= 3 thorough) around one baseline design over
                    (fs, input length incl. two odd lengths, layout, input field, filtfilt, kL, vdneff, F,
                    apodisation (4 names, their 4 callable twins, 2 seeded smooth positive callables and one
                    asymmetric tilt), specification route {fc, landa_D} x {kL, L, N}).
* part `corners`  : the 16 corners of (fs, n, vdneff, kL) (4 deviations - not reached by the lattice), uniform/F=0
                    (quick) and x {uniform, gaussian} x {F=0, F=20} (thorough).
* part `product`  : (thorough) the full product kL x vdneff x apodisation x F at a sampling rate that
                    resolves the stop band.
* part `spec`     : all 2^7 presence/absence patterns of {landa_D, fc, kL, L, N, dneff, vdneff} (one
                    consistent value set quick, two thorough): under-determined gratings must raise
                    ValueError, the combinations the docstring lists must compute.
* part `docode`   : NON-DECIDING diagnostic: complex H (filtfilt=False) against an independent high-accuracy
                    integration (Riccati form, DOP853) of the coupled-mode equations the docstring documents.
                    Only the measured deviation is recorded (see notes: the statement of C16 does not
                    constrain the sign of the chirp, |H| is invariant under F -> -F for symmetric profiles).

Every case calls the REAL FBG (print_params=False, retH=True) and compares with closed forms that are
computed here from the design numbers only (scipy.quad of the reference profile, tanh^2, sinh^2/cosh^2).
"""
from __future__ import annotations

import hashlib
import itertools
import math

import numpy as np
from scipy.constants import c as C0, pi
from scipy.integrate import quad, solve_ivp

from mcx.core.kernel import res
from mcx.core.env import gv_reset

ID = 'C16'
LEVEL = 'exploration'
NONTRIVIAL = ('designs whose computed spectrum is neither ~0 nor flat (max|H| > 1e-2 and max|H|-min|H| > 1e-3), '
              'counted per distinct design vector; for the specification patterns: every pattern that reached a '
              'decision (ValueError or a computed H)')

NEFF = 1.45          # library default, never overridden
EPS = np.finfo(float).eps

# ---------------------------------------------------------------------------- tolerances (see notes/C16.md)
TOL_PASSIVE = 5e-3   # |H| <= 1 + 5e-3 : 5 x RK45 rtol (1e-3) - band stated in DESIGN 5/C16
TOL_ENERGY = 1e-2    # energy_out <= energy_in (1 + 1e-2)  (= (1+5e-3)^2 - 1 rounded)
TOL_BRAGG = 2e-3     # | |H(f_B)|^2 - tanh^2(kL int p) |   : 2 x RK45 rtol
TOL_UNIFORM = 1e-2   # | |H|^2 - closed form | on every bin: 10 x RK45 rtol (accumulated over the steps)
TOL_SAME = 1e-9      # name vs equal callable, equivalent routes: >= 1e3 x the propagated rounding of the
#                      dimensionless coefficients (<= 8 eps * max|delta L| ~ 4e-12), << any real difference
#                      (one grating period more or less changes delta L by >= 2e-3 at the band edge)


# ---------------------------------------------------------------------------- alphabets (simplest first)
def seeded_profiles(seed):
    """two smooth positive profiles 1 + a cos(2 pi z) + b z^2; VERIF_SEED only picks (a, b)"""
    rng = np.random.default_rng([int(seed), 16])
    out = []
    for _ in range(2):
        a = round(float(rng.uniform(-0.6, 0.6)), 3)
        b = round(float(rng.uniform(0.0, 2.0)), 3)
        out.append(('seed', a, b))
    return out


def axes(seed):
    return [
        ('fs', [100, 20, 400]),                                   # GS/s  (gv: sps=fs, R=1e9)
        ('n', [256, 1024, 4096, 257, 1001]),                      # input length (two odd lengths)
        ('layout', ['1pol', '2pol']),
        ('inp', ['impulse', 'random', 'gauss']),
        ('filtfilt', [True, False]),
        ('kL', [1.0, 0.5, 2.0, 0.1, 4.0, 8.0]),
        ('vd', [1e-4, 1e-3, 1e-5]),
        ('F', [0.0, 5.0, -5.0, 20.0, -20.0]),
        ('apod', [('name', 'uniform'), ('name', 'rcos'), ('name', 'gaussian'), ('name', 'parabolic'),
                  ('fn', 'uniform'), ('fn', 'rcos'), ('fn', 'gaussian'), ('fn', 'parabolic')]
         + seeded_profiles(seed) + [('tilt', 0.8)]),
        ('route', [('fc', 'kL'), ('landa_D', 'kL'), ('fc', 'L'), ('fc', 'N'), ('landa_D', 'L'), ('landa_D', 'N')]),
    ]


def deviations(ax, k):
    """all points that differ from the baseline (first value of every axis) in at most k axes,
    ordered by number of deviations, then by axis order, then by value order"""
    names = [a for a, _ in ax]
    base = [v[0] for _, v in ax]
    out = []
    for r in range(k + 1):
        for idxs in itertools.combinations(range(len(ax)), r):
            for vals in itertools.product(*[ax[i][1][1:] for i in idxs]):
                p = list(base)
                for i, v in zip(idxs, vals):
                    p[i] = v
                out.append(tuple(zip(names, p)))
    return out


# ---------------------------------------------------------------------------- reference profiles
def ref_profile(apod):
    kind = apod[0]
    if kind in ('name', 'fn'):
        n = apod[1]
        if n == 'uniform':
            return lambda z: 1.0
        if n == 'rcos':        # raised cosine of C19 with alpha=1, T=2 on |z| <= 1/2 (tapers to zero)
            return lambda z: 0.5 * (1.0 + math.cos(2.0 * math.pi * z))
        if n == 'gaussian':
            return lambda z: math.exp(-4.0 * math.log(2.0) * (3.0 * z) ** 2)
        if n == 'parabolic':
            return lambda z: 1.0 - (2.0 * z) ** 2
        raise KeyError(n)
    if kind == 'seed':
        a, b = apod[1], apod[2]
        return lambda z: 1.0 + a * math.cos(2.0 * math.pi * z) + b * z * z
    if kind == 'tilt':
        t = apod[1]
        return lambda z: 1.0 + t * z
    raise KeyError(kind)


def lib_apod(apod):
    """what is handed to FBG: the name, or a plain python callable of a scalar z"""
    if apod[0] == 'name':
        return apod[1]
    return ref_profile(apod)


def twin(apod):
    if apod[0] == 'name':
        return ('fn', apod[1])
    if apod[0] == 'fn':
        return ('name', apod[1])
    return None


def profile_integral(apod):
    val, err = quad(ref_profile(apod), -0.5, 0.5, epsabs=1e-12, epsrel=1e-12)
    return val


def apod_label(apod):
    return apod[1] if apod[0] in ('name', 'fn') else apod[0]


# ---------------------------------------------------------------------------- design -> call
def grating(kL, vd, f0):
    """the grating of the design, with an integer number of periods so that kL, L and N say the same thing"""
    lam = C0 / f0
    n_per = max(1, int(round(kL * 2.0 * NEFF / (pi * vd))))
    kL_eff = pi * vd * n_per / (2.0 * NEFF)
    L = n_per * lam / (2.0 * NEFF)
    return dict(lam=lam, n_per=n_per, kL=kL_eff, L=L)


def route_kwargs(route, g, f0, vd):
    centre, length = route
    kw = {'vdneff': vd}
    if centre == 'fc':
        kw['fc'] = f0
    else:
        kw['landa_D'] = C0 / f0
    if length == 'kL':
        kw['kL'] = g['kL']
    elif length == 'L':
        kw['L'] = g['L']
    else:
        kw['N'] = g['n_per']
    return kw


def make_input(kind, layout, n, seed):
    rows = 1 if layout == '1pol' else 2
    out = []
    for r in range(rows):
        if kind == 'impulse':           # flat spectrum: the output spectrum IS H
            x = np.zeros(n, dtype=complex)
            x[3 + 5 * r] = 1.0 + 0.5j * r
        elif kind == 'random':          # seeded random field (content only)
            rng = np.random.default_rng([int(seed), 1600 + r, n])
            x = rng.standard_normal(n) + 1j * rng.standard_normal(n)
        elif kind == 'gauss':           # real dtype pulse
            t = (np.arange(n) - n / 2 - 7 * r) / (n / 16.0)
            x = np.exp(-t * t) * (1.0 + r)
        else:
            raise KeyError(kind)
        out.append(x)
    return out[0] if rows == 1 else np.array(out)


def freq_axis(n, fs):
    """offset from gv.f0 of the bins of H, in the order H is returned (fftshift order)"""
    return np.fft.fftshift(np.fft.fftfreq(n, d=1.0 / fs))


def uniform_closed_form(n, fs, f0, g, vd):
    """|H|^2 = sinh^2 g / (cosh^2 g - d^2/k^2), g = sqrt(k^2 - d^2) (complex beyond the band edge);
    d = 2 pi neff (1/lambda - 1/lambda_D) L, k = pi vdneff L / lambda  (Erdogan 1997, eq. 12-13; docstring Notes)"""
    f = f0 + freq_axis(n, fs)
    d = 2.0 * pi * NEFF * (f - f0) / C0 * g['L']
    k = pi * vd * g['L'] * f / C0
    gg = np.sqrt((k * k - d * d).astype(complex))
    with np.errstate(all='ignore'):
        r = (np.sinh(gg) ** 2 / (np.cosh(gg) ** 2 - d * d / (k * k))).real
    bad = ~np.isfinite(r)
    if bad.any():                        # d == k exactly: limit k^2/(1+k^2)
        r[bad] = (k[bad] ** 2) / (1.0 + k[bad] ** 2)
    return r


def _sha(*arrs):
    h = hashlib.sha256()
    for a in arrs:
        a = np.ascontiguousarray(a)
        h.update(str(a.shape).encode())
        h.update(a.tobytes())
    return h.hexdigest()[:24]


# ---------------------------------------------------------------------------- generic oracles on one call
def check_call(x_arr, y, H, n, tag):
    """passivity at every bin, exact filtering per row, energy.  returns (viol, info)"""
    from opticomlib.typing import optical_signal
    viol = []
    info = {}
    if not isinstance(y, optical_signal):
        viol.append(('shape:output-type', f'{tag}: output is {type(y).__name__}, not optical_signal'))
        return viol, info
    H = np.asarray(H)
    if H.shape != (n,):
        viol.append(('shape:H', f'{tag}: H.shape={H.shape}, expected ({n},)'))
        return viol, info
    if np.asarray(y.signal).shape != np.asarray(x_arr).shape:
        viol.append(('shape:output', f'{tag}: output shape {np.asarray(y.signal).shape} != input shape {np.asarray(x_arr).shape}'))
        return viol, info
    aH = np.abs(H)
    if not np.isfinite(aH).all():
        viol.append(('passive:H-not-finite', f'{tag}: H has {int((~np.isfinite(aH)).sum())} non-finite bin(s)'))
        return viol, info
    mx = float(aH.max())
    info['maxH'] = mx
    info['minH'] = float(aH.min())
    if mx > 1.0 + TOL_PASSIVE:
        i = int(aH.argmax())
        viol.append(('passive:|H|>1', f'{tag}: max|H| = {mx:.6g} at bin {i} of {n} (> 1 + {TOL_PASSIVE})'))
    # exact filtering, per row
    xin = np.atleast_2d(np.asarray(x_arr))
    yout = np.atleast_2d(np.asarray(y.signal))
    Hs = np.fft.ifftshift(H)
    par = 'odd' if n % 2 else 'even'
    worst = 0.0
    for r in range(xin.shape[0]):
        ref = np.fft.ifft(np.fft.fft(xin[r]) * Hs)
        nrm = float(np.linalg.norm(xin[r]))
        tol = 64.0 * EPS * (math.log2(n) + 1.0) * nrm * max(1.0, mx) + 1e-300
        err = float(np.abs(yout[r] - ref).max())
        worst = max(worst, err / (nrm + 1e-300))
        if not (err <= tol):
            viol.append((f'filter:output!=ifft(fft(in)*ifftshift(H)):{xin.shape[0]}pol-row{r}:{par}',
                         f'{tag}: row {r}: max|out - ifft(fft(in)*ifftshift(H))| = {err:.3g} > {tol:.3g}'))
        e_in = float(np.sum(np.abs(xin[r]) ** 2))
        e_out = float(np.sum(np.abs(yout[r]) ** 2))
        if not (e_out <= e_in * (1.0 + TOL_ENERGY)):
            viol.append(('energy:out>in', f'{tag}: row {r}: energy out {e_out:.6g} > energy in {e_in:.6g} (1+{TOL_ENERGY})'))
    info['filt_err'] = worst
    return viol, info


def call_fbg(x_arr, kw, apod, F, filtfilt):
    from opticomlib.devices import FBG
    from opticomlib.typing import optical_signal
    x = optical_signal(np.array(x_arr))
    return FBG(x, apodization=lib_apod(apod), F=F, filtfilt=filtfilt, print_params=False, retH=True, **kw)


# ---------------------------------------------------------------------------- case: one design
def design_case(case):
    seed, point = case
    d = dict(point)
    n, F, apod, route, vd = d['n'], d['F'], d['apod'], d['route'], d['vd']
    gv = gv_reset(sps=int(d['fs']), R=1e9)
    fs, f0 = float(gv.fs), float(gv.f0)
    assert abs(fs - d['fs'] * 1e9) < 1.0, fs
    g = grating(d['kL'], vd, f0)
    x_arr = make_input(d['inp'], d['layout'], n, seed)
    tag = (f"fs={d['fs']}G n={n} {d['layout']} {d['inp']} filtfilt={d['filtfilt']} kL={g['kL']:.6g} vd={vd:g} F={F:g} "
           f"apod={apod} route={route}")
    viol = []
    calls = 1
    y, H = call_fbg(x_arr, route_kwargs(route, g, f0, vd), apod, F, d['filtfilt'])
    v, info = check_call(x_arr, y, H, n, tag)
    viol += v
    dev = {}
    ok_shape = 'maxH' in info
    if ok_shape:
        ic = n // 2                                  # bin of gv.f0 = Bragg frequency of the design
        R = np.abs(H) ** 2
        if F == 0:
            integ = profile_integral(apod)
            want = math.tanh(g['kL'] * integ) ** 2
            got = float(R[ic])
            dev['bragg'] = abs(got - want)
            if not (abs(got - want) <= TOL_BRAGG):
                viol.append((f'bragg:|H|^2!=tanh^2(kL*int):{apod[0]}:{apod_label(apod)}',
                             f'{tag}: |H(f_B)|^2 = {got:.6f}, tanh^2({g["kL"]:.5g} * {integ:.6f}) = {want:.6f}'))
            if apod_label(apod) == 'uniform':
                cf = uniform_closed_form(n, fs, f0, g, vd)
                e = np.abs(R - cf)
                dev['uniform'] = float(e.max())
                if not (e.max() <= TOL_UNIFORM):
                    i = int(e.argmax())
                    viol.append(('uniform:|H|^2!=sinh^2/(cosh^2-d^2/k^2)',
                                 f'{tag}: bin {i}: |H|^2 = {R[i]:.6f}, closed form {cf[i]:.6f} (max dev {e.max():.3g})'))
        tw = twin(apod)
        if tw is not None:
            calls += 1
            y2, H2 = call_fbg(x_arr, route_kwargs(route, g, f0, vd), tw, F, d['filtfilt'])
            H2 = np.asarray(H2)
            e = float(np.abs(H2 - H).max()) if H2.shape == H.shape else float('inf')
            dev['twin'] = e
            if not (e <= TOL_SAME):
                viol.append((f'twin:name!=callable:{apod[1]}',
                             f'{tag}: max|H(name) - H(equal callable)| = {e:.3g} > {TOL_SAME}'))
        if route != ('fc', 'kL'):
            calls += 1
            y3, H3 = call_fbg(x_arr, route_kwargs(('fc', 'kL'), g, f0, vd), apod, F, d['filtfilt'])
            H3 = np.asarray(H3)
            e = float(np.abs(H3 - H).max()) if H3.shape == H.shape else float('inf')
            dev['route'] = e
            if not (e <= TOL_SAME):
                viol.append((f'route:{route[0]},{route[1]}!=fc,kL',
                             f'{tag}: max|H({route}) - H(fc,kL)| = {e:.3g} > {TOL_SAME} (N={g["n_per"]} periods, L={g["L"]:.6g} m)'))
    nt = False
    if ok_shape and info['maxH'] > 1e-2 and info['maxH'] - info['minH'] > 1e-3:
        nt = ('design',) + tuple(v for k, v in point if k not in ('inp', 'layout', 'filtfilt'))
    dev['maxH'] = info.get('maxH', float('nan'))
    dev['filt'] = info.get('filt_err', float('nan'))
    obs = _sha(np.asarray(H), np.asarray(y.signal)) if ok_shape else 'BAD-SHAPE'
    return res(viol=viol, obs=obs, nontrivial=nt, stats={'fbg_calls': calls, 'F0_peak_checks': int(F == 0 and ok_shape),
                                                         'uniform_spectrum_checks': int('uniform' in dev),
                                                         'twin_checks': int('twin' in dev), 'route_checks': int('route' in dev),
                                                         'odd_length_cases': int(n % 2)},
               payload=dev)


# ---------------------------------------------------------------------------- case: presence pattern
SPEC_NAMES = ['landa_D', 'fc', 'kL', 'L', 'N', 'dneff', 'vdneff']
SPEC_SETS = [
    dict(fs=100, kL=1.0, vd=1e-4),       # quick + thorough
    dict(fs=400, kL=4.0, vd=1e-3),       # thorough
]
DOCUMENTED = set()
for _c in ('fc', 'landa_D'):
    for _i in ('dneff', 'vdneff'):
        for _l in ('N', 'kL', 'L'):
            DOCUMENTED.add(frozenset((_c, _i, _l)))
for _l in ('N', 'L'):
    DOCUMENTED.add(frozenset(('landa_D', 'kL', _l)))


def spec_class(present):
    """'raise'   : the grating is under-determined (no centre, or fewer than two of {index change, kL, length})
       'compute' : exactly one of the combinations the docstring lists
       'either'  : determined but not listed (over-specified, or fc+kL+length): statement silent"""
    p = set(present)
    centre = bool(p & {'fc', 'landa_D'})
    groups = int(bool(p & {'dneff', 'vdneff'})) + int('kL' in p) + int(bool(p & {'L', 'N'}))
    if not centre:
        return 'raise', 'no-centre'
    if groups < 2:
        if not (p & {'dneff', 'vdneff', 'kL'}):
            return 'raise', 'no-index-change-or-kL'
        if not (p & {'kL', 'L', 'N'}):
            return 'raise', 'no-length'
        return 'raise', 'kL-alone'
    if frozenset(p) in DOCUMENTED:
        return 'compute', 'documented'
    return 'either', 'undocumented-complete'


def spec_case(case):
    from opticomlib.devices import FBG
    from opticomlib.typing import optical_signal
    si, mask = case
    vs = SPEC_SETS[si]
    gv = gv_reset(sps=int(vs['fs']), R=1e9)
    fs, f0 = float(gv.fs), float(gv.f0)
    g = grating(vs['kL'], vs['vd'], f0)
    vals = dict(landa_D=C0 / f0, fc=f0, kL=g['kL'], L=g['L'], N=g['n_per'], dneff=vs['vd'], vdneff=vs['vd'])
    present = [nm for i, nm in enumerate(SPEC_NAMES) if (mask >> i) & 1]
    kw = {nm: vals[nm] for nm in present}
    cls, why = spec_class(present)
    n = 256
    x_arr = make_input('impulse', '2pol', n, 0)
    tag = f'set{si} present={present}'
    viol = []
    outcome = None
    try:
        y, H = FBG(optical_signal(np.array(x_arr)), print_params=False, retH=True, **kw)
        outcome = 'computed'
    except ValueError as e:
        outcome = 'ValueError'
    except Exception as e:                      # noqa - classified below, re-raised where the statement demands a result
        if cls != 'raise':
            raise
        outcome = type(e).__name__
    if cls == 'raise' and outcome != 'ValueError':
        viol.append((f'spec:incomplete-did-not-raise-ValueError:{why}',
                     f'{tag}: grating under-determined ({why}) but FBG -> {outcome}'))
    if cls == 'compute' and outcome != 'computed':
        viol.append(('spec:documented-combination-raised', f'{tag}: the docstring lists this combination, FBG raised ValueError'))
    obs = (mask, outcome)
    if outcome == 'computed':
        v, info = check_call(x_arr, y, H, n, tag)
        viol += v
        if 'maxH' in info:
            obs = (mask, outcome, _sha(np.asarray(H)))
            if 'vdneff' in present and 'dneff' not in present:
                want = math.tanh(g['kL']) ** 2
                got = float(abs(H[n // 2]) ** 2)
                if not (abs(got - want) <= TOL_BRAGG):
                    viol.append(('spec:bragg:|H|^2!=tanh^2(kL)', f'{tag}: |H(f_B)|^2 = {got:.6f}, tanh^2(kL) = {want:.6f}'))
    return res(viol=viol, obs=obs, nontrivial=('spec', si, mask), stats={'spec_' + cls: 1, 'spec_' + outcome: 1},
               payload=(cls, outcome))


# ---------------------------------------------------------------------------- diagnostic: documented ODE
def riccati_reference(n, fs, f0, g, vd, apod, F):
    """rho = S/R obeys rho' = -j (2 s^ rho + k p + k p rho^2), s^ = delta - F z (vdneff route: sigma = 0),
    rho(1/2) = 0, integrated to z = -1/2 (docstring Notes / Erdogan eq. 14) with DOP853, rtol 1e-10"""
    f = f0 + freq_axis(n, fs)
    d = 2.0 * pi * NEFF * (f - f0) / C0 * g['L']
    k = pi * vd * g['L'] * f / C0
    p = ref_profile(apod)

    def rhs(z, rho):
        pz = p(z)
        return -1j * (2.0 * (d - F * z) * rho + k * pz + k * pz * rho * rho)
    sol = solve_ivp(rhs, [0.5, -0.5], np.zeros(n, dtype=complex), method='DOP853', rtol=1e-10, atol=1e-12)
    return sol.y[:, -1]


def docode_case(case):
    seed, point = case
    d = dict(point)
    gv = gv_reset(sps=int(d['fs']), R=1e9)
    fs, f0 = float(gv.fs), float(gv.f0)
    g = grating(d['kL'], d['vd'], f0)
    n = d['n']
    x_arr = make_input('impulse', '1pol', n, seed)
    y, H = call_fbg(x_arr, route_kwargs(('fc', 'kL'), g, f0, d['vd']), d['apod'], d['F'], False)
    ref = riccati_reference(n, fs, f0, g, d['vd'], d['apod'], d['F'])
    e = float(np.abs(np.asarray(H) - ref).max())
    em = float(np.abs(np.abs(H) ** 2 - np.abs(ref) ** 2).max())
    return res(viol=[], obs=_sha(np.asarray(H)), nontrivial=('docode',) + tuple(v for _, v in point),
               stats={'fbg_calls': 1, 'docode_cases': 1, 'docode_dev_gt_1e-2': int(e > 1e-2)}, payload=(e, em, point))


# ---------------------------------------------------------------------------- driver
def run(ctx):
    seed = ctx.seed
    ax = axes(seed)
    k = 2 if ctx.quick else 3
    pts = deviations(ax, k)
    ctx.rule(f'C16 lattice: every design that differs from the baseline {dict((a, v[0]) for a, v in ax)} in at most {k} of the '
             f'{len(ax)} axes {[(a, len(v)) for a, v in ax]} ({len(pts)} designs, ordered by number of deviations); each design '
             f'is one real FBG call (+1 with the name/callable twin of the apodisation, +1 with the (fc,kL) route when another '
             f'route is used); gratings have an integer number of periods so kL, L and N describe the same grating; the '
             f'grating is centred at gv.f0')
    ctx.assume('numpy.fft is trusted as the definition of the DFT (output compared with ifft(fft(in)*ifftshift(H)) up to '
               '64 eps (log2 n + 1) |in|_2 max(1,max|H|)); scipy.integrate.quad is trusted for the integral of the reference profile; '
               'the closed forms are Erdogan 1997 eq. 12-13 with k = pi vdneff L / lambda as in the docstring Notes; '
               'tolerances: passivity 5e-3, Bragg peak 2e-3, uniform spectrum 1e-2 (RK45 rtol = 1e-3), same-H 1e-9')
    ctx.assume("the reference profile of 'rcos' is 1/2 (1 + cos 2 pi z) (utils.rcos(z, alpha=1, T=2), tapers to zero at the ends); "
               "the docstring's cos(pi z) is treated as a documentation slip (DESIGN 5/C16)")
    agg = {}

    def absorb(pl, cases):
        for dv, cs in zip(pl, cases):
            if not dv:
                continue
            for kk, vv in dv.items():
                if vv != vv:
                    continue
                if kk == 'maxH':
                    kk, vv = 'max|H|-1', vv - 1.0
                else:
                    kk = 'maxdev_' + kk
                if kk not in agg or vv > agg[kk][0]:
                    agg[kk] = (vv, repr(dict(cs[1])))
    cases = [(seed, p) for p in pts]
    absorb(ctx.pmap('lattice', design_case, cases, horizon=180.0, chunk=1), cases)

    if not ctx.quick:
        by = dict(ax)
        prod = []
        match_fs = {1e-4: 100, 1e-3: 400, 1e-5: 20}
        for kL, vd, apod, F in itertools.product(by['kL'], by['vd'], by['apod'], by['F']):
            prod.append((('fs', match_fs[vd]), ('n', 256), ('layout', '1pol'), ('inp', 'impulse'), ('filtfilt', True),
                         ('kL', kL), ('vd', vd), ('F', F), ('apod', apod), ('route', ('fc', 'kL'))))
        ctx.rule(f'C16 product: full product kL x vdneff x apodisation x F = {len(prod)} designs at n=256 and the sampling rate '
                 f'that resolves the stop band (vdneff 1e-5/1e-4/1e-3 -> 20/100/400 GS/s)')
        cases = [(seed, p) for p in prod]
        absorb(ctx.pmap('product', design_case, cases, horizon=180.0, chunk=1), cases)

    # the corners of (fs, n, vdneff, kL), which the lattice (<= 3 deviations) does not reach
    cor = []
    for apod, F in ([(('name', 'uniform'), 0.0)] if ctx.quick else
                    [(('name', 'uniform'), 0.0), (('name', 'gaussian'), 0.0), (('name', 'uniform'), 20.0), (('name', 'gaussian'), 20.0)]):
        for fs_, n_, vd_, kL_ in itertools.product([20, 400], [256, 4096], [1e-3, 1e-5], [0.1, 8.0]):
            cor.append((('fs', fs_), ('n', n_), ('layout', '1pol'), ('inp', 'impulse'), ('filtfilt', True),
                        ('kL', kL_), ('vd', vd_), ('F', F), ('apod', apod), ('route', ('fc', 'kL'))))
    ctx.rule(f'C16 corners: the 16 corners of (fs, n, vdneff, kL) x {len(cor) // 16} (apodisation, F) pairs = {len(cor)} designs')
    cases = [(seed, p) for p in cor]
    absorb(ctx.pmap('corners', design_case, cases, horizon=240.0, chunk=1), cases)

    nsets = 1 if ctx.quick else len(SPEC_SETS)
    spec = [(si, m) for si in range(nsets) for m in sorted(range(128), key=lambda m: (bin(m).count('1'), m))]
    ctx.rule(f'C16 spec: all 2^7 presence/absence patterns of {SPEC_NAMES} for {nsets} consistent value set(s); under-determined '
             f'(no centre, or fewer than two of index-change / kL / length) must raise ValueError; the 14 combinations listed in '
             f'the docstring must compute; determined-but-unlisted patterns may do either; whatever computes is checked for '
             f'passivity / exact filtering / energy')
    sp = ctx.pmap('spec', spec_case, spec, horizon=60.0)
    cnt = {}
    for c_o in sp:
        if c_o:
            cnt[f'{c_o[0]}->{c_o[1]}'] = cnt.get(f'{c_o[0]}->{c_o[1]}', 0) + 1
    ctx.extra['spec_outcomes'] = cnt

    # non-deciding diagnostic against the documented coupled-mode ODE
    dpts = []
    for kL, F, apod in itertools.product([1.0, 4.0], [0.0, 5.0, -5.0, 20.0], [('name', 'uniform'), ('name', 'gaussian'),
                                                                               ax[8][1][8], ('tilt', 0.8)]):
        dpts.append((('fs', 100), ('n', 256), ('kL', kL), ('vd', 1e-4), ('F', F), ('apod', apod)))
    ctx.rule(f'C16 docode (diagnostic, never a violation): {len(dpts)} designs, complex H (filtfilt=False) vs DOP853 integration of '
             f'the Riccati form of the documented coupled-mode equations; only the deviation is recorded')
    dd = ctx.pmap('docode', docode_case, [(seed, p) for p in dpts], horizon=120.0, chunk=1)
    dd = [x for x in dd if x]
    if dd:
        ctx.extra['docode'] = {'max|H-Href|': max(x[0] for x in dd), 'max||H|^2-|Href|^2|': max(x[1] for x in dd),
                               'cases_above_1e-2': sum(1 for x in dd if x[0] > 1e-2),
                               'first_above_1e-2': next((repr(x[2]) for x in dd if x[0] > 1e-2), None)}
    ctx.extra['measured'] = {kk: {'value': float(f'{vv[0]:.4g}'), 'at': vv[1]} for kk, vv in sorted(agg.items())}
    for kk, vv in ctx.extra['measured'].items():
        print(f'[C16] measured {kk} = {vv["value"]:.4g} at {vv["at"]}', flush=True)
    print(f'[C16] spec outcomes: {cnt}', flush=True)
    print(f'[C16] docode diagnostic: {ctx.extra.get("docode")}', flush=True)
