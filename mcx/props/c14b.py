"""C14 part B - no public device / codec / DSP function modifies gv or the sample data of its
arguments; results depend only on (arguments, gv, numpy's global random state); outputs never
alias input buffers.  Exhaustive enumeration of ORDERED call sequences over a menu of public
calls on SHARED canned inputs with a differential oracle (output inside a sequence == solo output).
Parts `heap` / `oddgrid`: grids with an odd number of samples per slot, entries whose waveforms are built on
the ambient grid, and a deliberately dirtied heap (freed buffers of every small size filled with nan, then
with 1e300) before the calls: a result that depends on the fill pattern reads uninitialised memory."""
from __future__ import annotations
import hashlib
import itertools
import time
import numpy as np

from mcx.core.kernel import res
from mcx.core.env import gv_reset, gv_snapshot

GV = dict(sps=8, R=1e9)
# ambient grid configurations the call sequences switch between (same argument buffers under each of them)
GVS = [GV, dict(sps=8, R=2e9), dict(sps=16, R=1e9, wavelength=1310e-9),
       dict(sps=8, R=1e9, N=64)]     # a slot count in force: gv.t / gv.w exist (only C14 itself runs this one, see NG_HISTORY)
NG_HISTORY = 3                       # the call-history parts of the other properties switch between the first three grids
NG_MAIN = len(GVS)                   # the sequence products of part B switch between these four
# grids with an ODD number of samples per slot (every grid above has an even one): templates of sps samples that are built in
# two halves, centre samples, sps//2 instants.  Only the `heap` and `oddgrid` parts of C14 itself run them (indices >= NG_MAIN).
GVS_ODD = [dict(sps=3, R=1e9), dict(sps=5, R=1e9), dict(sps=7, R=2e9), dict(sps=9, R=1e9, wavelength=1310e-9), dict(sps=15, R=1e9)]
GVS = GVS + GVS_ODD
_CACHE = {}


# ------------------------------------------------------------------ canonical forms
def arrays_of(o, out=None, depth=0):
    """all ndarray buffers reachable from a returned object"""
    if out is None:
        out = []
    if isinstance(o, np.ndarray):
        out.append(o)
    elif isinstance(o, (tuple, list)) and depth < 3:
        for x in o:
            arrays_of(x, out, depth + 1)
    elif hasattr(o, '__dict__') and depth < 3:
        for k, v in vars(o).items():
            if k != 'execution_time':
                arrays_of(v, out, depth + 1)
    return out


def canon(o, depth=0):
    if isinstance(o, np.ndarray):
        return ('nd', o.shape, o.dtype.str, hashlib.sha1(np.ascontiguousarray(o).tobytes()).hexdigest())
    if isinstance(o, (tuple, list)):
        return tuple(canon(x, depth + 1) for x in o)
    if isinstance(o, (np.generic,)):
        return ('np', repr(o.item()))
    if hasattr(o, '__dict__') and depth < 3:
        return (type(o).__name__,) + tuple((k, canon(v, depth + 1)) for k, v in sorted(vars(o).items()) if k != 'execution_time')
    return repr(o)


def dig(o):
    return hashlib.sha1(repr(canon(o)).encode()).hexdigest()


# ------------------------------------------------------------------ shared inputs
def inputs():
    from opticomlib.typing import binary_sequence, electrical_signal, optical_signal, eye
    from opticomlib.devices import PRBS
    gv = gv_reset(**GV)
    I = {}
    bits = PRBS(7, 64, seed=1).data.copy()
    I['bits'] = bits
    I['bseq'] = binary_sequence(bits)
    n = bits.size * gv.sps
    k = np.arange(n)
    wave = np.kron(bits, np.ones(gv.sps)) * 1.0
    pn = 0.02 * np.sin(0.7 * k) + 0.01 * np.cos(2.3 * k)
    I['v'] = electrical_signal(2.0 * wave, 0.05 * np.cos(1.3 * k))
    I['vnd'] = (2.0 * wave).copy()
    I['cw'] = optical_signal(np.full(n, np.sqrt(1e-3)) * np.exp(0.1j * np.sin(0.2 * k)), 1e-3 * np.exp(1j * 0.9 * k))
    mod = (0.1 + wave) * np.sqrt(1e-3) * np.exp(0.2j * np.cos(0.05 * k))
    I['mod'] = optical_signal(mod, 2e-3 * np.exp(1j * 1.7 * k))
    I['opt2'] = optical_signal(np.array([mod, 0.5j * mod[::-1]]), np.array([1e-3 * np.exp(1j * 0.3 * k), 2e-3 * np.exp(-1j * 1.1 * k)]))
    I['rx'] = electrical_signal(0.2 + wave + pn)
    I['rx_lp'] = electrical_signal(np.convolve(0.2 + wave, np.ones(3) / 3, mode='same'), pn)
    ppm = np.zeros(64 * 4 // 2, dtype=np.uint8)
    I['ppm_bits'] = bits[:64]
    I['t'] = np.arange(n) / gv.fs
    rep = np.tile(np.kron(bits[:32], np.ones(gv.sps)), 3)
    I['rx3'] = electrical_signal(np.roll(rep, 37) + 0.05 * np.sin(0.37 * np.arange(rep.size)))
    I['tx32'] = binary_sequence(bits[:32])
    I['eye'] = eye(mu0=0.2, mu1=1.2, s0=0.03, s1=0.05, execution_time=0)
    hd = bits[:32].copy().reshape(-1, 4)
    hd[0] = [0, 0, 0, 0]; hd[1] = [1, 1, 0, 1]; hd[2] = [0, 1, 0, 0]
    I['hdd_in'] = hd.ravel().copy()
    I['hdd_bseq'] = binary_sequence(hd.ravel().copy())
    harden_inputs(I, gv, bits, wave, k)
    return I


def harden_inputs(I, gv, bits, wave, k):
    """input kinds added by the generic hardening pass (all built without random numbers)"""
    from opticomlib.typing import binary_sequence, electrical_signal, optical_signal
    n = k.size
    lev = (3 * bits + 1).astype(np.int64)                       # slot levels 1 / 4
    iw = np.kron(lev, np.ones(gv.sps, dtype=np.int64))          # integer-valued waveform, int64
    # integer-dtype and real-dtype optical fields, single precision; integer noise; noise in one polarisation only
    I['oint'] = optical_signal(iw.copy())                                                         # int64, no noise
    I['oint2n'] = optical_signal(np.array([iw, iw[::-1]], dtype=np.int32), np.array([(k % 3) - 1, (k % 2)], dtype=np.int32))
    I['oreal'] = optical_signal(0.03 * (0.1 + wave), 1e-3 * np.cos(0.9 * k))                      # float64 field + float64 noise
    I['oc64'] = optical_signal((0.03 * (0.1 + wave) * np.exp(0.3j * np.sin(0.1 * k))).astype(np.complex64))
    I['opt2_n1'] = optical_signal(np.array([0.03 * (0.1 + wave), 0.02j * wave[::-1]]), np.array([np.zeros(n), 1e-3 * np.exp(1j * 0.4 * k)]))
    I['opt2_e'] = optical_signal(np.array([0.03 * (0.1 + wave) + 0j, np.zeros(n)]))                # second polarisation empty
    # integer / single precision electrical signals and arrays
    I['eint'] = electrical_signal(2 * iw)                                                         # int64, no noise
    I['eintn'] = electrical_signal((2 * iw).astype(np.int16), ((k % 5) - 2).astype(np.int16))      # int16 signal + int16 noise
    I['ef32'] = electrical_signal((0.2 + wave + 0.05 * np.sin(0.37 * k)).astype(np.float32))
    I['vint_nd'] = (2 * iw).astype(np.int32)
    I['e_zn'] = electrical_signal(0.2 + wave, np.zeros(n))                                        # all-zero noise
    # bit containers: bool / uint8 arrays, str, list, tuple; PPM symbols as shared binary_sequence / ndarray
    I['bits_bool'] = bits[:32].astype(bool)
    I['bits_u8'] = bits[:32].astype(np.uint8)
    I['bits_list'] = [int(b) for b in bits[:32]]
    I['bits_tuple'] = tuple(int(b) for b in bits[:32])
    I['bits_str'] = ''.join(str(int(b)) for b in bits[:32])
    I['bits_str2'] = ', '.join(str(int(b)) for b in bits[:32])
    sym = np.zeros(16 * 4, dtype=np.uint8)
    sym[np.arange(16) * 4 + (2 * bits[0:32:2] + bits[1:32:2])] = 1
    I['ppm_sym'] = binary_sequence(sym.copy())
    I['ppm_sym_nd'] = sym.astype(np.int64)
    I['ppm_sym_str'] = ''.join(str(int(b)) for b in sym)
    # length-1 records: two polarisations (shape (2, 1)) with noise, one polarisation, electrical
    I['o21'] = optical_signal(np.array([[0.03 + 0.01j], [0.02j]]), np.array([[1e-3 + 0j], [-2e-3j]]))
    I['o1'] = optical_signal(np.array([0.03 + 0.01j]))
    I['e1'] = electrical_signal(np.array([1.5]), np.array([0.25]))
    # long records (> 10^4 samples): continuous-valued, practically unique sample values
    m = np.arange(16384)
    chirp = np.sin(2e-3 * m + 3e-7 * m ** 2) * (1 + 0.3 * np.cos(1.1e-3 * m)) + 1e-3 * np.sin(0.777 * m)
    I['long'] = chirp.copy()
    I['long_es'] = electrical_signal(chirp.copy())
    I['long_esn'] = electrical_signal(chirp.copy(), 0.01 * np.cos(0.313 * m))
    # record lengths that are prime / not smooth (97, 127 samples), one polarisation with noise
    q = np.arange(97)
    I['o97'] = optical_signal(0.03 * (1 + 0.5 * np.sin(0.3 * q)) * np.exp(0.4j * np.cos(0.11 * q)), 1e-3 * np.exp(1j * 0.7 * q))
    I['e127'] = electrical_signal(0.5 + np.sin(0.21 * np.arange(127)), 0.02 * np.cos(1.9 * np.arange(127)))
    # scale and offset: all-zero field, a field of 1e-9 of the usual amplitude, a large offset with a small variation
    I['ozero'] = optical_signal(np.zeros(n, dtype=complex), np.zeros(n, dtype=complex))
    I['otiny'] = optical_signal(1e-9 * (0.1 + wave) * np.exp(0.2j * np.cos(0.05 * k)), 1e-12 * np.exp(1j * 1.7 * k))
    I['ebig'] = electrical_signal(1e6 + 1e-3 * wave, 1e-4 * np.cos(1.3 * k))
    # a frequency response
    I['H'] = np.exp(-1j * 0.5 * np.linspace(-3, 3, 257) ** 2) / (1 + 0.2j * np.linspace(-3, 3, 257))


class Aliased(Exception):
    """raised by the harness inside a chained call: a stage returned a buffer of the (write-protected) result it was given"""


def pipe(x, *stages):
    """x -> f1 -> f2 -> ...: the result of one call is the argument of the next.  Every intermediate result is write-protected before
    it is handed on (an in-place write of the next stage raises), must be byte-identical afterwards and must not share memory
    with what the next stage returns.  Returns all results."""
    outs = []
    for f in stages:
        bufs = arrays_of(x)
        for a in bufs:
            a.flags.writeable = False
        before = [a.tobytes() for a in bufs]
        y = f(x)
        if [a.tobytes() for a in bufs] != before:
            raise Aliased('a stage modified the sample data of its argument')
        if any(np.shares_memory(a, b) for a in bufs for b in arrays_of(y)):
            raise Aliased('a stage returned memory of its argument')
        outs.append(y)
        x = y
    return tuple(outs)


def menu():
    """(name, callable(I) -> output, deterministic?, heavy?)"""
    from opticomlib import devices as d, ppm, ook, utils, lab
    from opticomlib.typing import gv
    M = [
        ('PRBS', lambda I: d.PRBS(7, 50, seed=5), True),
        ('DAC.nrz', lambda I: d.DAC(I['bseq']), True),
        ('DAC.rz', lambda I: d.DAC(I['bits'], bias=-1.0, Vout=2.0, pulse_shape='rz'), True),
        ('DAC.gauss', lambda I: d.DAC(I['bseq'], Vout=1.5, pulse_shape='gaussian', T=6, m=2), True),
        ('LASER', lambda I: d.LASER(I['t'], 0.0, lw=1e6, rin=-150, df=1e9), False),
        ('PM.wave', lambda I: d.PM(I['cw'], I['vnd']), True),
        ('PM.scalar', lambda I: d.PM(I['opt2'], 1.5, Vpi=3.0), True),
        ('MZM.wave', lambda I: d.MZM(I['cw'], I['v'], bias=-1.0, Vpi=2.0), True),
        ('MZM.scalar.y', lambda I: d.MZM(I['opt2'], 0.7, loss_dB=3.0, pol='y'), True),
        ('BPF.1', lambda I: d.BPF(I['mod'], 3e9), True),
        ('BPF.2', lambda I: d.BPF(I['opt2'], 1e9, n=2), True),
        ('EDFA.1', lambda I: d.EDFA(I['mod'], 20.0, 5.0), False),
        ('EDFA.2bw', lambda I: d.EDFA(I['opt2'], 10.0, 4.0, BW=3e9), False),
        ('DM.a', lambda I: d.DM(I['mod'], 200.0), True),
        ('DM.b', lambda I: d.DM(I['mod'], -50.0, retH=True), True),
        ('DM.2pol', lambda I: d.DM(I['opt2'], 120.0), True),
        ('FIBER.lin', lambda I: d.FIBER(I['opt2'], 10.0, alpha=0.2, beta_2=-20.0), True),
        ('FIBER.lin2', lambda I: d.FIBER(I['opt2'], 3.0, alpha=0.1, beta_2=5.0, beta_3=0.1), True),
        ('FIBER.nl', lambda I: d.FIBER(I['opt2'], 40.0, alpha=0.2, beta_2=-20.0, gamma=5.0, phi_max=0.05), True),
        ('LPF.a', lambda I: d.LPF(I['v'], 2e9), True),
        ('LPF.b', lambda I: d.LPF(I['vnd'], 1e9, n=2, fs=16e9, retH=True), True),
        ('PD.all', lambda I: d.PD(I['mod'], 3e9), False),
        ('PD.ase', lambda I: d.PD(I['opt2'], 2e9, r=0.5, R_load=100.0, include_noise='ase-only'), True),
        ('ADC.v', lambda I: d.ADC(I['rx'], n=4), True),
        ('ADC.n', lambda I: d.ADC(I['vnd'], n=3, otype='n'), True),
        ('ADC.noisy', lambda I: d.ADC(I['v'], n=5), True),
        ('SAMPLER', lambda I: d.SAMPLER(I['v'], 4), True),
        ('PPM_ENC', lambda I: ppm.PPM_ENCODER(I['ppm_bits'], 4), True),
        ('PPM_DEC', lambda I: ppm.PPM_DECODER(ppm.PPM_ENCODER(I['bseq'], 8), 8), True),
        ('HDD', lambda I: ppm.HDD(I['hdd_in'], 4), False),
        ('HDD.bseq', lambda I: ppm.HDD(I['hdd_bseq'], 4), False),
        ('PPM_DEC.bseq', lambda I: ppm.PPM_DECODER(ppm.HDD(I['hdd_bseq'], 4), 4), False),
        ('SDD', lambda I: ppm.SDD(I['rx'], 4), True),
        ('ook.TH', lambda I: ook.THRESHOLD_EST(I['eye']), True),
        ('ppm.TH', lambda I: ppm.THRESHOLD_EST(I['eye'], 4), True),
        ('ppm.DSP.soft', lambda I: ppm.DSP(I['rx'], 4, 'soft'), True),
        ('ppm.DSP.hard.th', lambda I: ppm.DSP(I['rx'], 4, 'hard', threshold=0.7), False),
        ('ook.BER.cnt', lambda I: ook.BER_analizer('counter', Tx=I['bseq'], Rx=I['bseq'][::-1]), True),
        ('ppm.BER.cnt', lambda I: ppm.BER_analizer('counter', Tx=I['bits'], Rx=I['bits'][::-1].copy()), True),
        ('ook.BER.est', lambda I: ook.BER_analizer('estimator', eye_obj=I['eye']), True),
        ('ppm.BER.est', lambda I: ppm.BER_analizer('estimator', eye_obj=I['eye'], M=4, decision='hard'), True),
        ('ook.tBER', lambda I: ook.theory_BER(np.array([1.0, 2.0]), 0.1, 0.2), True),
        ('ppm.tBER', lambda I: ppm.theory_BER(np.array([1.0, 2.0]), 0.2, 0.3, 4, 'hard'), True),
        ('utils.tBER', lambda I: utils.theory_BER(np.array([-30.0, -25.0]), 'ook', f0=gv.f0), True),
        ('SYNC', lambda I: lab.SYNC(I['rx3'], I['tx32']), True),
        ('utils.p_ase', lambda I: utils.p_ase(True, G=20.0, NF=5.0, BW_opt=20e9), True),
        ('utils.avgV', lambda I: utils.average_voltages(-25.0, 'ook', G=20.0, NF=5.0, BW_opt=20e9), True),
        ('utils.nvar', lambda I: utils.noise_variances(-25.0, 'ppm', M=4, G=20.0, NF=5.0, BW_opt=20e9), True),
        ('utils.str2array', lambda I: utils.str2array('3 -2 17 5'), True),
        ('utils.str2array.c', lambda I: utils.str2array('1+2j, 0.5j; 3, -1', complex), True),
        ('utils.dec2bin', lambda I: utils.dec2bin(5, 4), True),
        ('utils.rcos', lambda I: utils.rcos(np.linspace(-1, 1, 9), 0.5, 1.0), True),
        ('bseq.add', lambda I: I['bseq'] + '0110', True),
        ('bseq.inv', lambda I: (~I['bseq'], (~I['bseq']).ones(), I['bseq'].zeros(), I['bseq'][::2]), True),
        ('esig.gt', lambda I: ((I['v'] > 1.0), (I['rx'] < 0.7)), True),
        ('esig.w', lambda I: (I['v'].w(), I['v'].w(True), I['v'].t(), I['v'].power()), True),
        ('osig.w', lambda I: (I['opt2'].w(True), I['opt2'].power(), I['opt2']('w', True)), True),
        ('utils.shortest_int', lambda I: utils.shortest_int(I['vnd'] + 0.1 * np.sin(np.arange(I['vnd'].size)), 50), True),
        ('utils.si', lambda I: (utils.si(2.5e-7, 's'), utils.si(1e3, 'Hz', 0), utils.si(gv.fs, 'Hz')), True),
        ('utils.db', lambda I: (utils.db([1.0, 2.0, 10.0]), utils.idbm(3.0), utils.Q(np.array([0.0, 1.0])), utils.gaus(np.array([0.0, 1.0]), 0.5, 2.0)), True),
        ('LASER.df', lambda I: d.LASER(I['t'], 3.0, lw=0.0, df=1e9), False),
        ('MZM.bw', lambda I: d.MZM(I['cw'], I['v'], bias=-1.0, Vpi=2.0, BW=3e9), True),
        ('PD.th', lambda I: d.PD(I['mod'], 3e9, include_noise='thermal-only', T=77.0), False),
        ('LPF.c', lambda I: d.LPF(I['v'], 3e9), True),
        ('DAC.bw', lambda I: d.DAC(I['bseq'], Vout=2.0, BW=3e9), True),
        ('FIBER.b3', lambda I: d.FIBER(I['mod'], 10.0, alpha=0.2, beta_2=0.0, beta_3=0.2), True),
        ('FIBER.nl1', lambda I: d.FIBER(I['mod'], 40.0, alpha=0.2, beta_2=-20.0, gamma=5.0, phi_max=0.05), True),
        ('FBG.apo', lambda I: d.FBG(I['opt2'], fc=gv.f0, vdneff=1e-4, kL=1.0, apodization=lambda z: np.exp(-8 * z ** 2), print_params=False, retH=True), True),
        ('FBG.apo2', lambda I: d.FBG(I['opt2'], fc=gv.f0, vdneff=1e-4, kL=1.0, apodization=lambda z: 0.6 + 0.8 * z, print_params=False, retH=True), True),
        ('SDD.nd', lambda I: ppm.SDD(I['vnd'], 2), True),
        ('PRBS.resume', lambda I: d.PRBS(9, 40, seed=77, return_seed=True), True),
        ('esig.ops', lambda I: (I['v'] * 2 - I['v'][::-1])('w'), True),
        ('osig.ops', lambda I: (I['opt2'] + I['opt2'][::-1])('t', True), True),
    ] + harden_menu() + [
        # heavy entries (only at depth <= 2)
        ('GET_EYE', lambda I: d.GET_EYE(I['rx_lp'], sps_resamp=32), False),
        ('ook.DSP', lambda I: ook.DSP(I['rx_lp']), False),
        ('ppm.DSP.hard', lambda I: ppm.DSP(I['rx_lp'], 4, 'hard'), False),
        ('FBG', lambda I: d.FBG(I['mod'], fc=gv.f0, vdneff=1e-4, kL=2.0, print_params=False, retH=True), True),
    ]
    heavy = {'GET_EYE', 'ook.DSP', 'ppm.DSP.hard', 'FBG', 'FBG.apo', 'FBG.apo2'} | HARDEN_HEAVY
    assert len({n for n, f, det in M}) == len(M)
    return [(n, f, det, n in heavy) for n, f, det in M]


# entries of the hardening pass that stay out of the cross-grid / depth-3 products (long records, chains, slow filters)
HARDEN_HEAVY = {'len:BPF.97', 'len:LPF.127', 'scale:zero.rnd', 'scale:tiny', 'scale:tiny.rnd', 'scale:offset', 'long:ADC.nd', 'long:ADC.es', 'long:ADC.esn', 'long:LPF', 'long:shortest_int', 'chain:EDFA-FIBER-PD',
                'chain:DAC-MZM-DM-PD-LPF-ADC', 'chain:LASER-PM-EDFA-BPF-PD', 'chain:PPM', 'dt:FBG.int', 'opt:FBG.single',
                'dt:PD.int', 'dt:PD.real', 'dt:LPF.int', 'dt:LPF.intnd', 'dt:BPF.int', 'dt:BPF.real', 'opt:GET_EYE.nslots', 'lay:PD.n1',
                'opt:LPF.retH.es', 'opt:PD.shot', 'lay:BPF.empty'}


def harden_menu():
    """entries added by the generic hardening pass.  Their names carry a class prefix ('dt:' sample dtypes, 'cont:' containers,
    'len1:' length-1 records, 'long:' records of more than 10^4 samples, 'lay:' layouts, 'opt:' rarely used arguments,
    'chain:' results fed to the next call, 'api:' public functions that were not in the menu) so that they do not fall into the
    name-prefix groups of HISTORY_GROUPS."""
    from opticomlib import devices as d, ppm, ook, utils, lab
    from opticomlib.typing import gv
    return [
        # --- sample dtypes: integer, real, single precision fields and drives
        ('dt:PM.int', lambda I: d.PM(I['oint'], I['vint_nd']), True),
        ('dt:PM.real', lambda I: d.PM(I['oreal'], I['eint'], Vpi=3.0), True),
        ('dt:MZM.int', lambda I: d.MZM(I['oint'], I['eint'], bias=1.0, Vpi=4.0), True),
        ('dt:MZM.int2', lambda I: d.MZM(I['oint2n'], I['eintn'], Vpi=4.0, pol='y'), True),
        ('dt:BPF.int', lambda I: d.BPF(I['oint'], 3e9), True),
        ('dt:BPF.real', lambda I: d.BPF(I['oreal'], 3e9, n=2), True),
        ('dt:EDFA.int', lambda I: d.EDFA(I['oint2n'], 10.0, 4.0), False),
        ('dt:EDFA.real', lambda I: d.EDFA(I['oreal'], 20.0, 5.0), False),
        ('dt:DM.int', lambda I: d.DM(I['oint'], 100.0), True),
        ('dt:DM.real', lambda I: d.DM(I['oreal'], -80.0, retH=True), True),
        ('dt:DM.c64', lambda I: d.DM(I['oc64'], 150.0), True),
        ('dt:FIBER.int', lambda I: d.FIBER(I['oint2n'], 5.0, alpha=0.2, beta_2=-20.0), True),
        ('dt:FIBER.real', lambda I: d.FIBER(I['oreal'], 5.0, alpha=0.2, beta_2=-20.0, gamma=2.0), True),
        ('dt:FIBER.c64', lambda I: d.FIBER(I['oc64'], 8.0, beta_2=10.0), True),
        ('dt:PD.int', lambda I: d.PD(I['oint'], 3e9, include_noise='ase-only'), True),
        ('dt:PD.real', lambda I: d.PD(I['oreal'], 3e9), False),
        ('dt:FBG.int', lambda I: d.FBG(I['oint'], fc=gv.f0, vdneff=1e-4, kL=1.5, print_params=False), True),
        ('dt:LPF.int', lambda I: d.LPF(I['eint'], 2e9), True),
        ('dt:LPF.intnd', lambda I: d.LPF(I['vint_nd'], 2e9, n=2, retH=True), True),
        ('dt:ADC.int', lambda I: d.ADC(I['eint'], n=3), True),
        ('dt:ADC.intn', lambda I: d.ADC(I['eintn'], n=4, otype='n'), True),
        ('dt:ADC.intnd', lambda I: d.ADC(I['vint_nd'], n=2), True),
        ('dt:ADC.f32', lambda I: d.ADC(I['ef32'], n=6), True),
        ('dt:SAMPLER.int', lambda I: d.SAMPLER(I['eintn'], 3), True),
        ('dt:SAMPLER.f32', lambda I: d.SAMPLER(I['ef32'], 0), True),
        ('dt:SDD.int', lambda I: ppm.SDD(I['eint'], 4), True),
        ('dt:SDD.intn', lambda I: ppm.SDD(I['eintn'], 2), True),
        ('dt:ppm.DSP.int', lambda I: ppm.DSP(I['eintn'], 4, 'soft'), True),
        ('dt:ppm.DSP.hard.int', lambda I: ppm.DSP(I['eint'], 4, 'hard', threshold=4), False),
        ('dt:DAC.bool', lambda I: d.DAC(I['bits_bool'], Vout=2.0), True),
        ('dt:DAC.u8', lambda I: d.DAC(I['bits_u8'], bias=-0.5, pulse_shape='rz'), True),
        ('dt:PPM_ENC.bool', lambda I: ppm.PPM_ENCODER(I['bits_bool'], 4), True),
        ('dt:PPM_ENC.u8', lambda I: ppm.PPM_ENCODER(I['bits_u8'], 2), True),
        ('dt:HDD.i64', lambda I: ppm.HDD(I['ppm_sym_nd'], 4), False),
        ('dt:shortest_int.int', lambda I: utils.shortest_int(I['vint_nd'], 50), True),
        ('dt:esig.ops.int', lambda I: ((I['eint'] * 2 - I['eint'][::-1])('w'), (I['eintn'] + I['eintn']).power(), I['eint'] > 3), True),
        ('dt:osig.ops.int', lambda I: ((I['oint2n'] + I['oint2n'][::-1])('t', True), I['oint'].power(), (I['oint'] * I['oint']).abs()), True),
        ('dt:SYNC.int', lambda I: lab.SYNC(I['rx3'], I['bits_u8']), True),
        # --- containers: every codec / counter with str, list, tuple, ndarray and binary_sequence arguments
        ('cont:PPM_ENC.bseq', lambda I: ppm.PPM_ENCODER(I['bseq'], 4), True),
        ('cont:PPM_ENC.str', lambda I: (ppm.PPM_ENCODER(I['bits_str'], 4), ppm.PPM_ENCODER(I['bits_str2'], 8)), True),
        ('cont:PPM_ENC.list', lambda I: (ppm.PPM_ENCODER(I['bits_list'], 8), ppm.PPM_ENCODER(I['bits_tuple'], 16), ppm.PPM_ENCODER(I['bits_list'], 2)), True),   # 32 bits: ragged for M = 8
        ('cont:PPM_DEC.bseq', lambda I: ppm.PPM_DECODER(I['ppm_sym'], 4), True),
        ('cont:PPM_DEC.nd', lambda I: (ppm.PPM_DECODER(I['ppm_sym_nd'], 4), ppm.PPM_DECODER(I['ppm_sym_str'], 4)), True),
        ('cont:HDD.shared', lambda I: ppm.HDD(I['ppm_sym'], 4), False),
        ('cont:HDD.str', lambda I: (ppm.HDD(I['bits_str'], 4), ppm.HDD(I['bits_list'], 8), ppm.HDD(I['bits_tuple'], 2)), False),
        ('cont:DAC.str', lambda I: (d.DAC(I['bits_str']), d.DAC(I['bits_list'], Vout=3.0), d.DAC(I['bits_tuple'], pulse_shape='rz')), True),
        ('cont:BER.cnt', lambda I: (ook.BER_analizer('counter', Tx=I['bits_str'], Rx=I['bits_list']),
                                    ppm.BER_analizer('counter', Tx=I['bits_tuple'], Rx=I['bits_u8']),
                                    ook.BER_analizer('counter', Tx=I['bits_bool'], Rx=I['bits_u8'][::-1])), True),
        ('cont:bseq.ops', lambda I: (I['bseq'] + I['bits_list'], I['bits_str'] + I['tx32'], I['tx32'] + I['bits_u8'], I['bits_tuple'] + I['tx32'],
                                     I['tx32'] == I['bits_u8'], ~I['tx32'], I['bits_bool'] + I['tx32']), True),
        # --- length-1 records, two polarisations
        ('len1:PM', lambda I: (d.PM(I['o21'], 1.5, Vpi=3.0), d.PM(I['o1'], I['e1'])), True),
        ('len1:MZM', lambda I: (d.MZM(I['o21'], I['e1'], bias=-1.0, Vpi=2.0, pol='y'), d.MZM(I['o1'], 0.5)), True),
        ('len1:EDFA', lambda I: d.EDFA(I['o21'], 10.0, 4.0), False),
        ('len1:DM', lambda I: (d.DM(I['o21'], 100.0), d.DM(I['o1'], 100.0, retH=True)), True),
        ('len1:FIBER', lambda I: d.FIBER(I['o21'], 5.0, alpha=0.2, beta_2=-20.0, gamma=1.5), True),
        ('len1:ADC', lambda I: (d.ADC(I['e1'], n=4), d.SAMPLER(I['e1'], 0)), True),
        ('len1:osig.ops', lambda I: ((I['o21'] * 2 + I['o21'])('w'), I['o21'].power(), I['e1'] - I['e1'], (I['o21'] + I['o1']).abs()), True),
        # --- layouts: noise in one polarisation only, second polarisation empty, all-zero noise
        ('lay:EDFA.n1', lambda I: d.EDFA(I['opt2_n1'], 15.0, 5.0), False),
        ('lay:FIBER.n1', lambda I: d.FIBER(I['opt2_n1'], 10.0, alpha=0.2, beta_2=-20.0, gamma=2.0), True),
        ('lay:DM.empty', lambda I: d.DM(I['opt2_e'], 120.0), True),
        ('lay:PD.n1', lambda I: d.PD(I['opt2_n1'], 3e9, include_noise='ase-only'), True),
        ('lay:BPF.empty', lambda I: d.BPF(I['opt2_e'], 3e9), True),
        ('lay:MZM.n1', lambda I: d.MZM(I['opt2_n1'], I['e_zn'], Vpi=2.0), True),
        ('lay:ADC.zn', lambda I: (d.ADC(I['e_zn'], n=4), d.SAMPLER(I['e_zn'], 7), ppm.SDD(I['e_zn'], 4)), True),
        # --- long records: more than 10^4 (practically unique) samples
        ('long:ADC.nd', lambda I: d.ADC(I['long'], n=8), True),
        ('long:ADC.es', lambda I: d.ADC(I['long_es'], n=4, otype='n'), True),
        ('long:ADC.esn', lambda I: d.ADC(I['long_esn'], n=6), True),
        ('long:LPF', lambda I: d.LPF(I['long_es'], 2e9), True),
        ('long:shortest_int', lambda I: (utils.shortest_int(I['long'], 99.99), utils.shortest_int(I['long'], 0.5)), True),
        # --- rarely used arguments
        ('opt:LPF.retH.es', lambda I: d.LPF(I['v'], 2e9, n=3, retH=True), True),
        ('opt:DM.retH.2pol', lambda I: d.DM(I['opt2'], 60.0, retH=True), True),
        ('opt:PRBS.retseed', lambda I: d.PRBS(7, 30, return_seed=True), False),
        ('opt:PRBS.chain', lambda I: d.PRBS(7, 20, seed=d.PRBS(7, 20, seed=3, return_seed=True)[1], return_seed=True), True),
        ('opt:ADC.fs', lambda I: d.ADC(I['v'], fs=4e9, n=4), True),
        ('opt:PD.shot', lambda I: d.PD(I['mod'], 3e9, include_noise='shot-only', i_dark=1e-7, Fn=3), False),
        ('opt:MZM.er', lambda I: d.MZM(I['cw'], I['vnd'], Vpi=2.0, ER_dB=10.0, loss_dB=2.0), True),
        ('opt:DAC.rect', lambda I: d.DAC(I['bseq'], pulse_shape='rect', T=5), True),
        ('opt:SYNC.sps', lambda I: lab.SYNC(I['rx3'].signal.real, I['tx32'].data, sps=8), True),
        ('opt:EDFA.bw.1pol', lambda I: d.EDFA(I['mod'], 0.0, 3.0, BW=4e9), False),
        ('opt:GET_EYE.nslots', lambda I: d.GET_EYE(I['rx_lp'].signal.real, nslots=32), False),
        ('opt:FBG.single', lambda I: d.FBG(I['mod'], fc=gv.f0, vdneff=1e-4, kL=1.0, filtfilt=False, print_params=False), True),
        ('opt:ppm.BER.est.soft', lambda I: ppm.BER_analizer('estimator', eye_obj=I['eye'], M=8, decision='soft'), True),
        ('opt:utils.tBER.ppm', lambda I: utils.theory_BER(np.array([-32.0, -27.0]), 'ppm', M=4, decision='soft', amplify=True, G=20.0, NF=5.0, BW_opt=20e9), True),
        # --- record lengths: prime / non-smooth
        ('len:DM.97', lambda I: (d.DM(I['o97'], 150.0), d.FIBER(I['o97'], 5.0, alpha=0.2, beta_2=-20.0, gamma=2.0)), True),
        ('len:EDFA.97', lambda I: (d.EDFA(I['o97'], 12.0, 4.5), d.PM(I['o97'], 0.7), d.MZM(I['o97'], 0.3, Vpi=2.0)), False),
        ('len:BPF.97', lambda I: (d.BPF(I['o97'], 3e9), d.PD(I['o97'], 3e9, include_noise='ase-only')), True),
        ('len:LPF.127', lambda I: (d.LPF(I['e127'], 2e9), d.ADC(I['e127'], n=5), d.SAMPLER(I['e127'][:120], 5), utils.shortest_int(I['e127'].signal, 90)), True),
        # --- scale, offset and boundary values of the parameters
        ('scale:zero', lambda I: (d.DM(I['ozero'], 100.0), d.FIBER(I['ozero'], 5.0, alpha=0.2, beta_2=-20.0, gamma=2.0), d.PM(I['ozero'], 1.0),
                                  d.MZM(I['ozero'], I['v'], Vpi=2.0)), True),
        ('scale:zero.rnd', lambda I: (d.EDFA(I['ozero'], 20.0, 5.0), d.PD(I['ozero'], 3e9)), False),
        ('scale:tiny', lambda I: (d.DM(I['otiny'], 100.0), d.FIBER(I['otiny'], 5.0, alpha=0.2, beta_2=-20.0, gamma=2.0), d.PM(I['otiny'], I['vnd']),
                                  d.BPF(I['otiny'], 3e9)), True),
        ('scale:tiny.rnd', lambda I: (d.EDFA(I['otiny'], 30.0, 5.0), d.PD(I['otiny'], 3e9)), False),
        ('scale:offset', lambda I: (d.ADC(I['ebig'], n=8), d.LPF(I['ebig'], 2e9), d.SAMPLER(I['ebig'], 2), I['ebig'] > 1e6, I['ebig'].power()), True),
        ('bnd:identity', lambda I: (d.FIBER(I['mod'], 0.0), d.DM(I['mod'], 0.0), d.PM(I['mod'], 0.0), d.FIBER(I['opt2'], 1e-9, alpha=0.0),
                                    d.MZM(I['cw'], 0.0, bias=0.0, loss_dB=0.0, ER_dB=np.inf), I['v'] * 1, I['opt2'] + 0, I['mod'] - 0.0), True),
        ('bnd:identity.rnd', lambda I: (d.EDFA(I['mod'], 0.0, 0.0), d.EDFA(I['opt2'], 0.0, 3.0)), False),
        ('bnd:params', lambda I: (d.SAMPLER(I['v'], 0), d.SAMPLER(I['v'], gv.sps - 1), d.ADC(I['v'], n=1), d.ADC(I['rx'], n=16, otype='n'),
                                  d.DAC(I['bseq'], Vout=0.0), d.DAC(I['bits'][:1]), ppm.PPM_ENCODER(I['bits'][:2], 4), d.PRBS(7, 1, seed=1),
                                  utils.shortest_int(I['vnd'], 99), utils.shortest_int(I['vnd'], 1)), True),
        # --- the same object passed twice; the arrays of the global grid passed as arguments
        ('same:twice', lambda I: (ook.BER_analizer('counter', Tx=I['bseq'], Rx=I['bseq']), ppm.BER_analizer('counter', Tx=I['bits'], Rx=I['bits']),
                                  I['opt2'] + I['opt2'], I['v'] * I['v'], I['v'] - I['v'], I['bseq'] + I['bseq'], I['bseq'] == I['bseq'],
                                  d.PM(I['cw'], I['cw'].signal.real), d.MZM(I['mod'], I['mod'].signal.imag, Vpi=2.0)), True),
        ('gvt:LASER', lambda I: (d.LASER(gv.t if gv.t is not None else I['t'], 0.0, lw=0.0), utils.rcos(gv.t if gv.t is not None else I['t'], 0.5, 1e-9),
                                 utils.nearest(gv.w if gv.w is not None else I['t'], 0.0)), False),
        # --- the result of one call fed to the next
        ('chain:EDFA-FIBER-PD', lambda I: pipe(I['mod'], lambda x: d.EDFA(x, 15.0, 5.0), lambda x: d.FIBER(x, 10.0, alpha=0.2, beta_2=-20.0),
                                               lambda x: d.DM(x, 200.0), lambda x: d.PD(x, 3e9)), False),
        ('chain:DAC-MZM-DM-PD-LPF-ADC', lambda I: pipe(I['tx32'], lambda x: d.DAC(x, Vout=2.0), lambda x: d.MZM(I['cw'][:x.len()], x, bias=-1.0, Vpi=2.0),
                                                       lambda x: d.BPF(x, 4e9), lambda x: d.PD(x, 3e9, include_noise='ase-only'),
                                                       lambda x: d.LPF(x, 2e9), lambda x: d.SAMPLER(x, 4), lambda x: d.ADC(x, n=4)), True),
        ('chain:LASER-PM-EDFA-BPF-PD', lambda I: pipe(I['t'], lambda x: d.LASER(x, 0.0, lw=1e6, rin=-150), lambda x: d.PM(x, I['v'], Vpi=2.0),
                                                      lambda x: d.EDFA(x, 10.0, 4.0, BW=5e9), lambda x: d.BPF(x, 3e9), lambda x: d.PD(x, 2e9)), False),
        ('chain:PPM', lambda I: pipe(I['tx32'], lambda x: ppm.PPM_ENCODER(x, 4), lambda x: d.DAC(x, Vout=1.0), lambda x: ppm.SDD(x, 4),
                                     lambda x: ppm.HDD(x, 4), lambda x: ppm.PPM_DECODER(x, 4), lambda x: ppm.BER_analizer('counter', Tx=I['tx32'], Rx=x)), False),
        # --- public functions that were not in the menu
        ('api:utils.dbm', lambda I: (utils.dbm(np.array([1e-3, 2e-3])), utils.idb(np.array([3.0, -3.0])), utils.dbm(1e-3), utils.idb(10)), True),
        ('api:utils.phase', lambda I: (utils.phase(I['H']), utils.tau_g(I['H'], gv.fs), utils.dispersion(I['H'], gv.fs, gv.f0)), True),
        ('api:utils.norm', lambda I: (utils.norm(I['vnd']), utils.norm(I['vint_nd']), utils.nearest(I['long'], 0.3), utils.nearest(I['vint_nd'], 5)), True),
        ('api:utils.opt_th', lambda I: (utils.optimum_threshold(0.2, 1.2, 0.03, 0.05, 'ook'), utils.optimum_threshold(0.2, 1.2, 0.03, 0.05, 'ppm', M=4)), True),
        ('api:esig.methods', lambda I: (I['v'].copy(), I['v'].copy(10), I['v'].abs(), I['v'].abs('noise'), I['rx'].abs('noise'), I['v'].phase(),
                                        I['v'].apply(np.cumsum), I['v'].len(), I['v'].type(), I['v'].fs(), I['v'].sps(), I['v'].dt(), I['eint'].copy()), True),
        ('api:osig.methods', lambda I: (I['opt2'].copy(), I['opt2'].abs('signal'), I['opt2'].phase(), I['opt2'].apply(np.conj), I['opt2'].len(),
                                        I['oint'].copy(5), I['opt2'].signal.shape, I['mod'].power('noise'), I['oint2n'].abs('all')), True),
        ('api:bseq.methods', lambda I: (I['bseq'].len(), I['bseq'].type(), I['bseq'].ones(), I['bseq'].zeros(), I['bseq'][3:9], I['bseq'] == I['bseq'],
                                        binary_seq_roundtrip(I)), True),
        # (str()/repr()/print()/sizeof() are display helpers, not device/codec/DSP functions: they report the interpreter's memory
        #  size of the object and set numpy's print options - outside the statement, not in the menu)
    ]


def _gridwave(I, nb=32, ripple=0.05):
    """NRZ waveform of the first nb shared bits ON THE GRID NOW IN FORCE (harness-side numpy only): nb*gv.sps samples, so that
    the slot-structured functions (SAMPLER, SDD, DSP, SYNC, GET_EYE) get a whole number of slots whatever sps is"""
    from opticomlib.typing import gv
    w = np.kron(I['bits'][:nb], np.ones(gv.sps))
    return 0.2 + w + ripple * np.sin(0.37 * np.arange(w.size))


def grid_menu():
    """entries whose waveforms are built on the ambient grid (prefix 'grid:'): every pulse shape of DAC and the other functions
    that work slot by slot with templates / instants derived from gv.sps.  They are meaningful under ANY samples-per-slot value,
    in particular the odd ones of GVS_ODD (sps//2 != sps/2: centre samples, two-halves templates).  They are not part of the
    sequence products of the main menu (run_part_b uses the first C['nmain'] entries there); the `heap` and `oddgrid` parts run them."""
    from opticomlib import devices as d, ppm, ook, lab
    from opticomlib.typing import gv, electrical_signal
    es = lambda I, nb=32: electrical_signal(_gridwave(I, nb))
    return [
        ('grid:DAC.nrz', lambda I: d.DAC(I['tx32'], Vout=2.0, bias=0.5), True),
        ('grid:DAC.rz', lambda I: d.DAC(I['tx32'], Vout=2.0, bias=0.5, pulse_shape='rz'), True),
        ('grid:DAC.RZ.nd', lambda I: d.DAC(I['bits'], pulse_shape='RZ'), True),
        ('grid:DAC.rect', lambda I: d.DAC(I['bits_list'], Vout=3.0, pulse_shape='rect'), True),
        ('grid:DAC.gauss', lambda I: d.DAC(I['tx32'], pulse_shape='gaussian'), True),                         # T = sps, m = 1
        ('grid:DAC.gauss.T', lambda I: d.DAC(I['tx32'], Vout=1.5, pulse_shape='gaussian', T=gv.sps // 2 + 1, m=3, c=0.5), True),
        ('grid:DAC.gauss.2T', lambda I: d.DAC(I['bits_str'], pulse_shape='GAUSSIAN', T=2 * gv.sps, m=2), True),
        ('grid:DAC.bw', lambda I: d.DAC(I['tx32'], Vout=1.0, BW=0.75 * gv.R), True),
        ('grid:DAC.rz.bw', lambda I: d.DAC(I['tx32'], pulse_shape='rz', BW=gv.R), True),
        ('grid:SAMPLER', lambda I: (d.SAMPLER(es(I), 0), d.SAMPLER(es(I), gv.sps // 2), d.SAMPLER(es(I), gv.sps - 1)), True),
        ('grid:SDD', lambda I: (ppm.SDD(es(I), 4), ppm.SDD(_gridwave(I, 64), 8)), True),
        ('grid:ppm.DSP.soft', lambda I: ppm.DSP(es(I), 4, 'soft'), True),
        ('grid:ppm.DSP.hard.th', lambda I: ppm.DSP(es(I), 4, 'hard', threshold=0.7), False),
        ('grid:SYNC', lambda I: lab.SYNC(electrical_signal(np.roll(np.tile(_gridwave(I, 32), 3), 3 * gv.sps + 2)), I['tx32']), True),
        ('grid:esig.grid', lambda I: (es(I).sps(), es(I).fs(), es(I).dt(), es(I).t(), es(I).w(), es(I)('w').power()), True),
        ('grid:LPF.ADC', lambda I: (d.LPF(es(I), 0.7 * gv.R), d.ADC(es(I), n=4), d.ADC(es(I), fs=gv.R, n=3)), True),
        ('grid:chain:DAC.rz-LPF-SAMPLER-ADC', lambda I: pipe(I['tx32'], lambda x: d.DAC(x, Vout=2.0, pulse_shape='rz'), lambda x: d.LPF(x, 0.8 * gv.R),
                                                             lambda x: d.SAMPLER(x, gv.sps // 2), lambda x: d.ADC(x, n=4)), True),
        ('grid:chain:PPM.rz', lambda I: pipe(I['tx32'], lambda x: ppm.PPM_ENCODER(x, 4), lambda x: d.DAC(x, Vout=1.0, pulse_shape='rz'), lambda x: ppm.SDD(x, 4),
                                             lambda x: ppm.HDD(x, 4), lambda x: ppm.PPM_DECODER(x, 4), lambda x: ppm.BER_analizer('counter', Tx=I['tx32'], Rx=x)), False),
        ('grid:chain:DAC.gauss-MZM-PD', lambda I: pipe(I['tx32'], lambda x: d.DAC(x, Vout=2.0, pulse_shape='gaussian', m=2),
                                                       lambda x: d.MZM(I['cw'][:x.len()], x, bias=-1.0, Vpi=2.0), lambda x: d.PD(x, 0.75 * gv.R, include_noise='ase-only'),
                                                       lambda x: d.SAMPLER(x, gv.sps // 2)), True),
        ('grid:GET_EYE', lambda I: d.GET_EYE(electrical_signal(np.convolve(_gridwave(I, 64), np.ones(3) / 3, mode='same')), sps_resamp=32), False),
    ]


GRID_HEAVY = {'grid:GET_EYE'}


def binary_seq_roundtrip(I):
    from opticomlib.typing import binary_sequence, electrical_signal, optical_signal
    return (binary_sequence(I['bits']), binary_sequence(I['bits_str2']), binary_sequence(I['bits_list']), electrical_signal(I['vnd']), optical_signal(I['vnd'], n_pol=2),
            electrical_signal(I['v'].signal, I['v'].noise), binary_sequence(I['bits_bool']))


def input_state(I):
    """the bytes of every argument buffer plus the text of every other attribute of the argument objects and of the list / tuple /
    str arguments.  Compared for equality after every call (a byte-for-byte comparison instead of a digest keeps the per-call
    overhead small with the long records in the set); rebinding an attribute of an argument object (x.noise = None) shows up too."""
    out = []
    for k in sorted(I):
        o = I[k]
        if isinstance(o, np.ndarray):
            out.append(o.tobytes())
        elif isinstance(o, (list, tuple, str)):
            out.append(repr(o))
        else:                                   # library objects: signal / noise / data arrays and scalar attributes
            for name, v in sorted(vars(o).items()):
                if isinstance(v, np.ndarray):
                    out.append(v.tobytes())
                elif name != 'execution_time':
                    out.append((name, repr(v)))
    return tuple(out)


def protect(I):
    for k in I:
        for a in arrays_of(I[k]):
            a.flags.writeable = False


def setup():
    if 'I' not in _CACHE:
        I = inputs()
        protect(I)
        _CACHE['I'] = I
        _CACHE['menu'] = menu()
        _CACHE['nmain'] = len(_CACHE['menu'])          # the sequence products of part B run over these; the 'grid:' entries appended below match no HISTORY_GROUPS prefix
        gm = grid_menu()
        assert all(nm.startswith('grid:') for nm, f, det in gm) and len({nm for nm, f, det in gm}) == len(gm)
        _CACHE['menu'] = _CACHE['menu'] + [(nm, f, det, nm in GRID_HEAVY) for nm, f, det in gm]
        _CACHE['gv0'] = {}
        for g in range(len(GVS)):
            gv_reset(**GVS[g])
            _CACHE['gv0'][g] = gv_snapshot()
        gv_reset(**GV)
        _CACHE['in0'] = input_state(I)
        _CACHE['ins'] = [a for k in I for a in arrays_of(I[k])]
        _CACHE['solo'] = {}
    return _CACHE


class Raised:
    """a call that raised: the exception type is the (comparable) outcome"""
    aliased = None

    def __init__(self, e):
        self.kind = type(e).__name__
        # the argument buffers are write-protected: numpy refuses an in-place write with this message
        self.write_to_argument = isinstance(e, ValueError) and 'read-only' in str(e)


def call(i, seed, g=0):
    """menu entry i under ambient grid GVS[g] and numpy seed `seed`"""
    C = _CACHE
    name, f, det, heavy = C['menu'][i]
    gv_reset(**GVS[g])
    np.random.seed(seed)
    try:
        out = f(C['I'])
    except Aliased as e:
        out = Raised(e)
        out.aliased = str(e)
    except Exception as e:
        import traceback
        if not any('/opticomlib/' in fr.filename for fr in traceback.extract_tb(e.__traceback__)):
            raise
        out = Raised(e)
    return out


def poison(out):
    """the caller owns what a function returns: overwrite every returned buffer. A library that keeps a reference to a
    returned array (memoised results, module-level scratch) hands the scribbled data to a later caller."""
    for a in arrays_of(out):
        try:
            if a.flags.writeable and a.size:
                a[...] = (np.arange(a.size).reshape(a.shape) % 3 + 7).astype(a.dtype)
        except Exception:
            pass


# ------------------------------------------------------------------ deliberately dirty heap
# "Its result depends only on its arguments, the current gv and numpy's global random state": a result must not depend on what the
# allocator hands out.  np.empty / malloc return memory that earlier (freed) buffers of the same size left behind - numpy keeps up
# to 7 freed data blocks per byte size below 1 KiB in its own free lists and gives the most recently freed one to the next
# request of that size, glibc does the same for its bins.  A function that reads a sample it never wrote (a template built in
# two halves that do not meet, a work array allocated one element too long, a padding tail) therefore returns "whatever was
# computed before".  dirty_heap() makes that history explicit and deterministic: it allocates, fills and frees buffers of every
# small size, so that every small block the library obtains afterwards is filled with a known pattern.  Only freed memory is
# written: nothing a function may legitimately read is touched, so a library that initialises what it reads computes exactly
# the same bytes with and without the dirtying and under either pattern.
HEAP_PATTERNS = (('nan', float('nan'), 0xFF), ('1e300', 1e300, 0x5A))     # (name, float64 fill, byte fill); 8 bytes 0xFF are a nan too
_HEAP_BYTES = [b for b in range(1, 129) if b % 8]                          # sizes that are no multiple of 8: bool / uint8 / int16 / float32 templates
_HEAP_KEEP = 8                                                             # numpy caches 7 blocks per size; the 8th goes back to malloc's own list


def dirty_heap(pat, sps=8):
    """allocate - fill - free: float64 buffers of k = 1..128 elements (every multiple of 8 bytes up to numpy's small-block limit of
    1 KiB, i.e. also complex128 templates up to 64 and float32 / int32 ones of even length), byte buffers of every other size up
    to 128 bytes, and a ladder of record-sized buffers (whole numbers of slots of `sps` samples, real and complex) that go
    through malloc's bins.  _HEAP_KEEP buffers per small size are alive at the same time and released together."""
    name, fv, bv = HEAP_PATTERNS[pat]
    empty = np.empty
    for k in range(1, 129):
        bufs = [empty(k) for _ in range(_HEAP_KEEP)]
        for a in bufs:
            a.fill(fv)
        del bufs, a
    for b in _HEAP_BYTES:
        bufs = [empty(b, np.uint8) for _ in range(_HEAP_KEEP)]
        for a in bufs:
            a.fill(bv)
        del bufs, a
    big = [np.full(m * c, fv) for m in sorted({sps * nb for nb in (16, 32, 50, 64)} | {192, 256, 512}) for c in (1, 2) for _ in range(2)]
    del big


def heap_case(case):
    """case = (menu index, grid index, seed, table): the call is made once after each dirtying pattern of HEAP_PATTERNS (same
    grid, same numpy seed, same arguments).  The two outputs must be identical (`uninitialised-memory:<entry>` otherwise: the
    only thing that differs between the two calls is the content of freed memory) and equal to the output of the same call made
    first in a fresh process (`order-dependence:<entry>`); purity / aliasing as after every call of part B."""
    i, g, seed, table = case
    C = setup()
    name = C['menu'][i][0]
    sps = GVS[g]['sps']
    viol = []
    got = []
    for pat in range(len(HEAP_PATTERNS)):
        dirty_heap(pat, sps)
        out = call(i, seed, g)
        got.append(dig(out))
        check_after(name, out, viol, f'heap {name}@gv{g} after freed buffers filled with {HEAP_PATTERNS[pat][0]}', g)
        poison(out)
        del out
    where = f'{name}@gv{g} {GVS[g]} (seed {seed})'
    if len(set(got)) > 1:
        viol.append((f'uninitialised-memory:{name}', f'{where}: the output depends on what freed heap buffers contain (filled with '
                     f'{HEAP_PATTERNS[0][0]} before one call, with {HEAP_PATTERNS[1][0]} before the other; same arguments, grid and numpy seed): the function reads memory it did not initialise'))
    elif got[0] != table[(i, g, seed)]:
        viol.append((f'order-dependence:{name}', f'{where}: output on a dirtied heap differs from the output of the same call made first in a fresh interpreter'))
    gv_reset(**GV)
    return res(viol=viol, obs=tuple(got), nontrivial=(name, g), stats={'calls': len(got), 'heap_dirtyings': len(got)})


def _fresh_one(req):
    """runs in a process forked from the pristine template (see fresh_table): its first library call after the
    common set-up is menu entry i under grid g"""
    i, g, seeds = req
    import warnings
    warnings.simplefilter('ignore')
    out = {}
    with np.errstate(all='ignore'):
        for s in seeds:
            out[s] = dig(call(i, int(s), g))
    return (i, g, out)


def fresh_solo_main(argv):
    """`python -m mcx.props.c14b '<json list of [i, g, seeds]>'`: template process of the fresh-state oracle.  It imports the
    library, builds the shared inputs and then NEVER calls the library itself; every request is executed in a child forked
    from it that serves exactly one request (maxtasksperchild=1), i.e. in the state 'interpreter started, library
    imported, inputs built, nothing else called'."""
    import json, os, sys, warnings
    import multiprocessing as mp
    repo = os.environ.get('MCX_REPO', '/repo')
    if repo not in sys.path:
        sys.path.insert(0, repo)
    warnings.simplefilter('ignore')
    reqs = [(i, g, tuple(seeds)) for i, g, seeds in json.loads(argv[0])]
    setup()
    with mp.get_context('fork').Pool(16, maxtasksperchild=1) as pool:
        res_ = pool.map(_fresh_one, reqs, chunksize=1)
    print('TABLE ' + json.dumps([[i, g, out] for i, g, out in res_]))


def fresh_table(n, seeds, G=None, pairs=None):
    """digests of every menu entry (n = count, or an explicit list of menu indices) under every grid (the first G of GVS; or an
    explicit list `pairs` of (menu index, grid index)), each computed in a process whose first library call it is (children
    forked one-per-request from a pristine template process)"""
    import json, os, subprocess, sys
    env = dict(os.environ, OMP_NUM_THREADS='1', OPENBLAS_NUM_THREADS='1', MPLBACKEND='Agg', PYTHONHASHSEED='0')
    if pairs is None:
        idx = list(range(n)) if isinstance(n, int) else list(n)
        G = NG_MAIN if G is None else G
        pairs = [(i, g) for i in idx for g in range(G)]
    reqs = [[i, g, list(seeds)] for i, g in pairs]
    p = subprocess.run([sys.executable, '-m', 'mcx.props.c14b', json.dumps(reqs)], capture_output=True, text=True, env=env,
                       cwd=os.path.dirname(os.path.dirname(os.path.dirname(os.path.abspath(__file__)))), timeout=3600)
    tab = {}
    for line in p.stdout.splitlines():
        if line.startswith('TABLE '):
            for i, g, out in json.loads(line[6:]):
                for k, v in out.items():
                    tab[(i, g, int(k))] = v
    for i, g in pairs:
        for s_ in seeds:
            tab.setdefault((i, g, s_), 'FRESH-PROCESS-FAILED:' + p.stderr[-400:])
    return tab


def check_after(name, out, viol, where, g=0):
    C = _CACHE
    if isinstance(out, Raised) and out.write_to_argument:
        viol.append((f'purity:writes-to-argument:{name}', f'{where}: {name} tried to write in place into (write-protected) sample data of an argument'))
    if isinstance(out, Raised) and out.aliased:
        viol.append((f'alias:chained:{name}', f'{where}: inside {name} {out.aliased}'))
    if gv_snapshot() != C['gv0'][g]:
        viol.append((f'purity:gv-modified:{name}', f'{where}: gv changed by {name}'))
        gv_reset(**GVS[g])
    if input_state(C['I']) != C['in0']:
        viol.append((f'purity:input-modified:{name}', f'{where}: argument sample data changed by {name}'))
        _CACHE.clear()
        setup()
        return
    ins = C['ins']
    from opticomlib.typing import gv
    grid = [a for a in vars(gv).values() if isinstance(a, np.ndarray)]
    for b in arrays_of(out):
        if any(np.shares_memory(a, b) for a in ins):
            viol.append((f'alias:output-input:{name}', f'{where}: output of {name} shares memory with an input buffer'))
            break
        if any(np.shares_memory(a, b) for a in grid):
            viol.append((f'alias:output-gv:{name}', f'{where}: output of {name} shares memory with an array of the global grid (gv.t / gv.w)'))
            break


def seq_case(case):
    """case = (prefix, seed, tail, table): prefix and tail are sequences of steps (menu index, gv index).  The prefix steps
    run first, then every step of `tail`, all in ONE process on the SAME argument buffers.  Every call's output must equal
    the output of the same call made first in a fresh interpreter under the same grid and numpy seed; gv and the argument
    bytes must be unchanged after every call; earlier outputs must stay intact.  After an output has been examined it is
    overwritten (the caller owns it), so a library that hands out memoised or shared buffers is exposed by a later call."""
    prefix, seed, tail, table = case[:4]
    dirty = len(case) > 4 and case[4]          # part `oddgrid` of C14: freed heap buffers are filled before every call (patterns alternate)
    C = setup()
    viol = []
    kept = []
    obs = []
    ncalls = 0
    steps = list(prefix) + list(tail)
    names = lambda st: [f'{C["menu"][j][0]}@gv{g}' for j, g in st]
    for pos, (i, g) in enumerate(steps):
        name = C['menu'][i][0]
        want = table[(i, g, seed)]
        if dirty:
            dirty_heap(pos % len(HEAP_PATTERNS), GVS[g]['sps'])
        out = call(i, seed, g)
        ncalls += 1
        got = dig(out)
        where = f'seq={names(prefix)} then {name}@gv{g} (seed {seed}, step {pos})'
        if got != want:
            viol.append((f'order-dependence:{name}', f'{where}: output differs from the output of the same call made first in a fresh interpreter'))
        check_after(name, out, viol, where, g)
        intact = []
        for (j, o, dg) in kept:
            if dig(o) != dg:
                viol.append((f'alias:output-clobbered:{C["menu"][j][0]}', f'{where}: an earlier output of {C["menu"][j][0]} changed after calling {name}'))
            else:
                intact.append((j, o, dg))
        kept = intact
        poison(out)
        if len(kept) < 6:
            kept.append((i, out, dig(out)))
        obs.append(got)
    gv_reset(**GV)
    return res(viol=viol, obs=tuple(obs), nontrivial=True, stats={'calls': ncalls})


def single_case(case):
    """one menu entry under every grid: repeat with the same seed -> identical; deterministic blocks -> identical for another seed"""
    i, seeds, table = case
    C = setup()
    name, f, det, heavy = C['menu'][i]
    viol = []
    obs = []
    t0 = time.time()
    grids = sorted({g for (j, g, s_) in table if j == i})
    for g in grids:
        og = []
        for s in seeds:
            a = call(i, s, g)
            check_after(name, a, viol, f'solo {name}@gv{g}', g)
            ca = dig(a)
            b = call(i, s, g)
            cb = dig(b)
            check_after(name, b, viol, f'solo {name}@gv{g} (second call)', g)
            if ca != cb:
                viol.append((f'nondeterminism:{name}', f'{name}@gv{g}: two calls after np.random.seed({s}) differ'))
            if ca != table[(i, g, s)]:
                viol.append((f'order-dependence:{name}', f'{name}@gv{g} (seed {s}) in a long-lived worker differs from the same call made first in a fresh interpreter: {str(table[(i, g, s)])[:200]}'))
            og.append(ca)
        if det and len(set(og)) > 1:
            viol.append((f'seed-dependence:{name}', f'deterministic block {name} gives different results for different numpy seeds'))
        obs.append(tuple(og))
    gv_reset(**GV)
    return res(viol=viol, obs=tuple(obs), nontrivial=(name,), stats={'calls': 2 * len(seeds) * len(grids)},
               payload={'name': name, 'cost_ms': round((time.time() - t0) * 1000 / (2 * len(seeds) * len(grids)), 2),
                        'seed_sensitive': any(len(set(o)) > 1 for o in obs), 'gv_sensitive': len({o[0] for o in obs}) > 1})


# the 36 entries of the depth-3 product of the quick tier (the cheapest ones of the original menu, in order of cost; a fixed list,
# so that the enumerated space does not depend on the timing of the run)
D3_QUICK = ['utils.p_ase', 'utils.dec2bin', 'utils.si', 'ppm.BER.cnt', 'utils.avgV', 'utils.nvar', 'SAMPLER', 'ook.BER.cnt', 'utils.str2array.c',
            'bseq.add', 'SDD', 'utils.rcos', 'SDD.nd', 'PRBS.resume', 'PPM_ENC', 'utils.shortest_int', 'PM.wave', 'ADC.v', 'ppm.BER.est',
            'ppm.TH', 'utils.str2array', 'utils.db', 'HDD.bseq', 'esig.w', 'esig.ops', 'PM.scalar', 'PPM_DEC', 'ook.TH', 'ADC.n', 'FIBER.b3',
            'DAC.rz', 'LASER', 'osig.w', 'PRBS', 'ppm.DSP.soft', 'FIBER.lin']


# main-menu entries of the `oddgrid` sequences: built from bit containers (their length fits any sps) or taking instants / templates from gv.sps
ODD_SEQ = ['DAC.nrz', 'DAC.rz', 'DAC.gauss', 'DAC.bw', 'dt:DAC.bool', 'dt:DAC.u8', 'cont:DAC.str', 'opt:DAC.rect', 'bnd:params', 'PPM_ENC', 'PRBS',
           'esig.w', 'osig.w', 'utils.si', 'SAMPLER', 'LASER']


def run_part_b(ctx):
    C = setup()
    M = C['menu']
    n = C['nmain']                   # the main menu; M[n:] are the grid-adaptive entries (grid_menu)
    nt = len(M)
    G = NG_MAIN
    GO = list(range(NG_MAIN, len(GVS)))     # the odd-sps grids
    cheap = [i for i in range(n) if not M[i][3]]
    seeds = sorted({ctx.seed, 0, 12345})
    s0 = ctx.seed
    ctx.rule(f'C14-B: menu of {n} public calls on shared write-protected inputs under {G} ambient grids (one with a slot count N in force); oracle for every call = the '
             f'same call made as the FIRST library call of a fresh process (one child forked per entry and grid from a template that has only imported the library); executed: every entry twice per seed '
             f'and grid; every ordered pair of entries on the base grid (the seed of the run; cheap second entries under 2 more seeds); every entry under every ordered grid switch '
             f'g1,g2,g1; every ordered pair of cheap entries across a grid switch; every ordered triple of 36 cheap entries (quick, list D3_QUICK) / of the cheap original + dtype + length-1 + layout entries plus every quadruple of 16 '
             f'cheapest (thorough); after every call: gv snapshot and argument bytes unchanged, no output shares '
             f'memory with an argument, earlier outputs intact; examined outputs are overwritten to expose shared/memoised buffers; '
             f'HEAP part: {nt - n} more entries whose waveforms are built on the ambient grid (every DAC pulse shape, SAMPLER, SDD, DSP, SYNC, GET_EYE, chains) and {len(GO)} more grids with an ODD '
             f'number of samples per slot (sps 3, 5, 7, 9, 15); every entry under every main grid, every cheap entry and every grid entry under every odd grid, is called after freed heap buffers '
             f'of every small size (8*k bytes, k = 1..128; 1..128 bytes; record-sized ones) were filled with nan and again after they were filled with 1e300: both outputs identical and equal to the '
             f'fresh-process output; ODDGRID part: every ordered pair of the DAC / slot-structured entries under every odd grid and every switch even grid -> odd grid -> even grid, '
             f'heap dirtied before every call')
    pairs = ([(i, g) for i in range(n) for g in range(G)] + [(i, g) for i in cheap if i < n for g in GO]
             + [(i, g) for i in range(n, nt) for g in range(len(GVS))])
    table = fresh_table(None, seeds, pairs=pairs)
    failed = [k for k, v in table.items() if str(v).startswith('FRESH-PROCESS-FAILED')]
    if failed:
        raise RuntimeError(f'fresh-process oracle failed for {failed[:3]}: {table[failed[0]]}')
    ctx.extra['fresh_process_oracle'] = {'entries': nt, 'grids': GVS, 'seeds': seeds, 'processes': len(pairs),
                                         'distinct_digests': len(set(table.values()))}
    pay = ctx.pmap('purity.single', single_case, [(i, seeds, table) for i in range(nt)], horizon=300, chunk=1, recheck=0)
    # dirty heap: every (entry, grid) of the table after each fill pattern of the freed buffers
    ctx.pmap('purity.heap', heap_case, [(i, g, s0, table) for (i, g) in pairs], horizon=300, chunk=4, recheck=0)
    # odd grids: ordered pairs of the DAC / slot-structured entries under every odd grid; even -> odd -> even switches; heap dirtied before every call
    idx_ = {M[i][0]: i for i in range(nt)}
    osel = [idx_[nm] for nm in ODD_SEQ] + [i for i in range(n, nt) if not M[i][3]]
    og = [(((a, g),), s0, tuple((b, g) for b in osel), table, True) for g in GO for a in osel]
    og += [((), s0, ((a, ge), (a, g), (a, ge)), table, True) for a in osel for ge in (0, 2) for g in GO]
    og += [((), s0, ((a, g1), (a, g2), (a, g1)), table, True) for a in osel for g1 in GO for g2 in GO if g1 != g2]
    ctx.pmap('purity.oddgrid', seq_case, og, horizon=600, chunk=2, recheck=0)
    ctx.extra['heap_part'] = {'patterns': [p_[0] for p_ in HEAP_PATTERNS], 'cases': len(pairs), 'odd_grids': GVS_ODD, 'grid_entries': [M[i][0] for i in range(n, nt)],
                              'oddgrid_entries': [M[i][0] for i in osel], 'oddgrid_sequences': len(GO) * len(osel) ** 2 + len(osel) * (2 * len(GO) + len(GO) * (len(GO) - 1))}
    costs = {p['name']: p['cost_ms'] for p in pay if p}
    ctx.extra['menu_cost_ms'] = costs
    ctx.extra['menu_seed_sensitive'] = sorted(p['name'] for p in pay if p and p['seed_sensitive'])
    ctx.extra['menu_gv_sensitive'] = sorted(p['name'] for p in pay if p and p['gv_sensitive'])
    # depth 2 over the whole menu on the base grid, 3 seeds: prefix (a), tail = every entry
    cases = [(((a, 0),), s, tuple((b, 0) for b in (range(n) if s == s0 else cheap)), table) for a in range(n) for s in seeds]
    ctx.pmap('purity.depth2', seq_case, cases, horizon=600, chunk=1, recheck=0)
    # grid switches: every entry under g1, g2, g1 for every ordered pair of grids
    sw = [((), s0, ((a, g1), (a, g2), (a, g1)), table) for a in range(n) for g1 in range(G) for g2 in range(G) if g1 != g2]
    ctx.pmap('purity.gvswitch', seq_case, sw, horizon=600, chunk=2, recheck=0)
    # cross-entry across a grid switch (cheap entries): a@g1 then every b@g2
    cx = [(((a, g1),), s0, tuple((b, g2) for b in cheap), table) for a in cheap for (g1, g2) in ((0, 1), (1, 0), (0, 2), (2, 0), (3, 1))]
    ctx.pmap('purity.gvcross', seq_case, cx, horizon=600, chunk=2, recheck=0)
    # depth 3 over cheap entries: prefix (a,b), tail = cheap
    idx = {M[i][0]: i for i in range(n)}
    # thorough: the cheap entries of the original menu and the dtype / length-1 / layout classes of the hardening pass
    d3 = [i for i in cheap if ':' not in M[i][0] or M[i][0].split(':')[0] in ('dt', 'len1', 'lay')] if not ctx.quick else [idx[nm] for nm in D3_QUICK]
    cases = [(((a, 0), (b, 0)), s0, tuple((c, 0) for c in d3), table) for a in d3 for b in d3]
    nseq = len(cases) * len(d3)
    ctx.extra['depth3_entries'] = [M[i][0] for i in d3]
    if not ctx.quick:
        c16 = [idx[nm] for nm in D3_QUICK[:16]]
        cases += [(((a, 0), (b, 0), (c, 0)), s0, tuple((d, 0) for d in c16), table) for a in c16 for b in c16 for c in c16]
        nseq += 16 ** 4
    ctx.pmap('purity.depth3+', seq_case, cases, horizon=600, chunk=4, recheck=0)
    ctx.extra['call_sequences'] = {'depth2': n * n * len(seeds), 'gvswitch': len(sw), 'gvcross': len(cx) * len(cheap), 'depth3plus': nseq}
    # as a state graph: one canonical state per grid (gv snapshot, input digests) with a self-loop per executed call
    ctx.graph(states=len(GVS), transitions=ctx.stats.get('calls', 0))


# ------------------------------------------------------------------ reuse by the other properties
# Every property whose functions read the global grid gets a "call-history" part: the menu entries that concern it are run
# under grid switches and in every order; an output that differs from the same call made first in a fresh interpreter shows
# that the function's result depends on what was called before (memoised designs keyed without the sampling rate, scratch
# buffers, cached results handed out twice) - which contradicts the functional statement of the property itself.
HISTORY_GROUPS = {
    'C01': ['esig.ops', 'osig.ops'],
    'C02': ['esig.ops', 'osig.ops', 'esig.w', 'osig.w'],
    'C03': ['DAC.', 'MZM.', 'PD.', 'SAMPLER', 'ook.DSP', 'ppm.DSP', 'ook.BER.cnt', 'ppm.BER.cnt', 'DM.a', 'FIBER.lin'],
    'C04': ['PRBS'],
    'C05': ['DAC.', 'SAMPLER'],
    'C06': ['LASER', 'PM.', 'MZM.'],
    'C07': ['DM.', 'FIBER.lin', 'FIBER.b3'],
    'C08': ['FIBER.'],
    'C09': ['PD.', 'LPF.'],
    'C10': ['EDFA.', 'BPF.'],
    'C11': ['LPF.', 'BPF.', 'DAC.bw', 'MZM.bw'],
    'C12': ['PPM_', 'HDD', 'SDD'],
    'C13': ['ook.tBER', 'ppm.tBER', 'utils.tBER', 'utils.p_ase', 'utils.avgV', 'utils.nvar', 'ook.TH', 'ppm.TH', 'ook.BER.est', 'ppm.BER.est'],
    'C15': ['bseq.', 'esig.gt'],
    'C16': ['FBG'],
    'C17': ['GET_EYE', 'ook.TH'],
    'C18': ['ADC.', 'utils.shortest_int'],
    'C19': ['utils.str2array', 'utils.dec2bin', 'utils.rcos', 'utils.si', 'utils.db'],
    'C20': ['SYNC'],
}


def run_history_part(ctx, prefixes):
    C = setup()
    M = C['menu']
    sel = [i for i in range(len(M)) if any(M[i][0].startswith(p) for p in prefixes)]
    if not sel:
        return
    G = NG_HISTORY
    seeds = sorted({ctx.seed, 0})
    s0 = ctx.seed
    table = fresh_table(sel, seeds, G)
    failed = [k for k, v in table.items() if str(v).startswith('FRESH-PROCESS-FAILED')]
    if failed:
        raise RuntimeError(f'fresh-process oracle failed for {failed[:3]}: {table[failed[0]]}')
    ctx.rule(f'call-history part: the {len(sel)} menu calls of mcx.props.c14b that concern this property '
             f'({[M[i][0] for i in sel]}) under {G} ambient grids; oracle = the same call made first in a fresh interpreter '
             f'({len(sel) * G} subprocesses); every call twice per seed and grid, every grid switch g1,g2,g1, every ordered pair '
             f'and every ordered pair across a grid switch; examined outputs are overwritten')
    ctx.pmap('history.single', single_case, [(i, seeds, table) for i in sel], horizon=600, chunk=1, recheck=0, quiet=True)
    sw = [((), s0, ((a, g1), (a, g2), (a, g1)), table) for a in sel for g1 in range(G) for g2 in range(G) if g1 != g2]
    ctx.pmap('history.gvswitch', seq_case, sw, horizon=600, chunk=1, recheck=0, quiet=True)
    pairs = [(((a, g1),), s0, tuple((b, g2) for b in sel), table) for a in sel for (g1, g2) in ((0, 0), (0, 1), (1, 0), (2, 0))]
    ctx.pmap('history.pairs', seq_case, pairs, horizon=900, chunk=1, recheck=0, quiet=True)
    ctx.extra['call_history_part'] = {'entries': [M[i][0] for i in sel], 'grids': GVS[:G], 'fresh_processes': len(sel) * G,
                                      'sequences': len(sw) + len(pairs) * len(sel)}


if __name__ == '__main__':
    import sys
    fresh_solo_main(sys.argv[1:])
