"""C14 part B - no public device / codec / DSP function modifies gv or the sample data of its
arguments; results depend only on (arguments, gv, numpy's global random state); outputs never
alias input buffers.  Exhaustive enumeration of ORDERED call sequences over a menu of public
calls on SHARED canned inputs with a differential oracle (output inside a sequence == solo output)."""
from __future__ import annotations
import hashlib
import itertools
import time
import numpy as np

from mcx.core.kernel import res
from mcx.core.env import gv_reset, gv_snapshot

GV = dict(sps=8, R=1e9)
_CACHE = {}


# ------------------------------------------------------------------ canonical forms
def arrays_of(o, out=None, depth=0):
    """all ndarray buffers reachable from a returned object"""
    if out is None:
        out = []
    if isinstance(o, np.ndarray):
        out.append(o)
    elif isinstance(o, (tuple, list)) and depth < 3:
        for x in o:
            arrays_of(x, out, depth + 1)
    elif hasattr(o, '__dict__') and depth < 3:
        for k, v in vars(o).items():
            if k != 'execution_time':
                arrays_of(v, out, depth + 1)
    return out


def canon(o, depth=0):
    if isinstance(o, np.ndarray):
        return ('nd', o.shape, o.dtype.str, hashlib.sha1(np.ascontiguousarray(o).tobytes()).hexdigest())
    if isinstance(o, (tuple, list)):
        return tuple(canon(x, depth + 1) for x in o)
    if isinstance(o, (np.generic,)):
        return ('np', repr(o.item()))
    if hasattr(o, '__dict__') and depth < 3:
        return (type(o).__name__,) + tuple((k, canon(v, depth + 1)) for k, v in sorted(vars(o).items()) if k != 'execution_time')
    return repr(o)


def dig(o):
    return hashlib.sha1(repr(canon(o)).encode()).hexdigest()


# ------------------------------------------------------------------ shared inputs
def inputs():
    from opticomlib.typing import binary_sequence, electrical_signal, optical_signal, eye
    from opticomlib.devices import PRBS
    gv = gv_reset(**GV)
    I = {}
    bits = PRBS(7, 64, seed=1).data.copy()
    I['bits'] = bits
    I['bseq'] = binary_sequence(bits)
    n = bits.size * gv.sps
    k = np.arange(n)
    wave = np.kron(bits, np.ones(gv.sps)) * 1.0
    pn = 0.02 * np.sin(0.7 * k) + 0.01 * np.cos(2.3 * k)
    I['v'] = electrical_signal(2.0 * wave, 0.05 * np.cos(1.3 * k))
    I['vnd'] = (2.0 * wave).copy()
    I['cw'] = optical_signal(np.full(n, np.sqrt(1e-3)) * np.exp(0.1j * np.sin(0.2 * k)), 1e-3 * np.exp(1j * 0.9 * k))
    mod = (0.1 + wave) * np.sqrt(1e-3) * np.exp(0.2j * np.cos(0.05 * k))
    I['mod'] = optical_signal(mod, 2e-3 * np.exp(1j * 1.7 * k))
    I['opt2'] = optical_signal(np.array([mod, 0.5j * mod[::-1]]), np.array([1e-3 * np.exp(1j * 0.3 * k), 2e-3 * np.exp(-1j * 1.1 * k)]))
    I['rx'] = electrical_signal(0.2 + wave + pn)
    I['rx_lp'] = electrical_signal(np.convolve(0.2 + wave, np.ones(3) / 3, mode='same'), pn)
    ppm = np.zeros(64 * 4 // 2, dtype=np.uint8)
    I['ppm_bits'] = bits[:64]
    I['t'] = np.arange(n) / gv.fs
    rep = np.tile(np.kron(bits[:32], np.ones(gv.sps)), 3)
    I['rx3'] = electrical_signal(np.roll(rep, 37) + 0.05 * np.sin(0.37 * np.arange(rep.size)))
    I['tx32'] = binary_sequence(bits[:32])
    I['eye'] = eye(mu0=0.2, mu1=1.2, s0=0.03, s1=0.05, execution_time=0)
    hd = bits[:32].copy().reshape(-1, 4)
    hd[0] = [0, 0, 0, 0]; hd[1] = [1, 1, 0, 1]; hd[2] = [0, 1, 0, 0]
    I['hdd_in'] = hd.ravel().copy()
    return I


def menu():
    """(name, callable(I) -> output, deterministic?, heavy?)"""
    from opticomlib import devices as d, ppm, ook, utils, lab
    from opticomlib.typing import gv
    M = [
        ('PRBS', lambda I: d.PRBS(7, 50, seed=5), True),
        ('DAC.nrz', lambda I: d.DAC(I['bseq']), True),
        ('DAC.rz', lambda I: d.DAC(I['bits'], bias=-1.0, Vout=2.0, pulse_shape='rz'), True),
        ('DAC.gauss', lambda I: d.DAC(I['bseq'], Vout=1.5, pulse_shape='gaussian', T=6, m=2), True),
        ('LASER', lambda I: d.LASER(I['t'], 0.0, lw=1e6, rin=-150, df=1e9), False),
        ('PM.wave', lambda I: d.PM(I['cw'], I['vnd']), True),
        ('PM.scalar', lambda I: d.PM(I['opt2'], 1.5, Vpi=3.0), True),
        ('MZM.wave', lambda I: d.MZM(I['cw'], I['v'], bias=-1.0, Vpi=2.0), True),
        ('MZM.scalar.y', lambda I: d.MZM(I['opt2'], 0.7, loss_dB=3.0, pol='y'), True),
        ('BPF.1', lambda I: d.BPF(I['mod'], 3e9), True),
        ('BPF.2', lambda I: d.BPF(I['opt2'], 1e9, n=2), True),
        ('EDFA.1', lambda I: d.EDFA(I['mod'], 20.0, 5.0), False),
        ('EDFA.2bw', lambda I: d.EDFA(I['opt2'], 10.0, 4.0, BW=3e9), False),
        ('DM.a', lambda I: d.DM(I['mod'], 200.0), True),
        ('DM.b', lambda I: d.DM(I['mod'], -50.0, retH=True), True),
        ('DM.2pol', lambda I: d.DM(I['opt2'], 120.0), True),
        ('FIBER.lin', lambda I: d.FIBER(I['opt2'], 10.0, alpha=0.2, beta_2=-20.0), True),
        ('FIBER.lin2', lambda I: d.FIBER(I['opt2'], 3.0, alpha=0.1, beta_2=5.0, beta_3=0.1), True),
        ('FIBER.nl', lambda I: d.FIBER(I['opt2'], 40.0, alpha=0.2, beta_2=-20.0, gamma=5.0, phi_max=0.05), True),
        ('LPF.a', lambda I: d.LPF(I['v'], 2e9), True),
        ('LPF.b', lambda I: d.LPF(I['vnd'], 1e9, n=2, fs=16e9, retH=True), True),
        ('PD.all', lambda I: d.PD(I['mod'], 3e9), False),
        ('PD.ase', lambda I: d.PD(I['opt2'], 2e9, r=0.5, R_load=100.0, include_noise='ase-only'), True),
        ('ADC.v', lambda I: d.ADC(I['rx'], n=4), True),
        ('ADC.n', lambda I: d.ADC(I['vnd'], n=3, otype='n'), True),
        ('SAMPLER', lambda I: d.SAMPLER(I['v'], 4), True),
        ('PPM_ENC', lambda I: ppm.PPM_ENCODER(I['ppm_bits'], 4), True),
        ('PPM_DEC', lambda I: ppm.PPM_DECODER(ppm.PPM_ENCODER(I['bseq'], 8), 8), True),
        ('HDD', lambda I: ppm.HDD(I['hdd_in'], 4), False),
        ('SDD', lambda I: ppm.SDD(I['rx'], 4), True),
        ('ook.TH', lambda I: ook.THRESHOLD_EST(I['eye']), True),
        ('ppm.TH', lambda I: ppm.THRESHOLD_EST(I['eye'], 4), True),
        ('ppm.DSP.soft', lambda I: ppm.DSP(I['rx'], 4, 'soft'), True),
        ('ppm.DSP.hard.th', lambda I: ppm.DSP(I['rx'], 4, 'hard', threshold=0.7), False),
        ('ook.BER.cnt', lambda I: ook.BER_analizer('counter', Tx=I['bseq'], Rx=I['bseq'][::-1]), True),
        ('ppm.BER.cnt', lambda I: ppm.BER_analizer('counter', Tx=I['bits'], Rx=I['bits'][::-1].copy()), True),
        ('ook.BER.est', lambda I: ook.BER_analizer('estimator', eye_obj=I['eye']), True),
        ('ppm.BER.est', lambda I: ppm.BER_analizer('estimator', eye_obj=I['eye'], M=4, decision='hard'), True),
        ('ook.tBER', lambda I: ook.theory_BER(np.array([1.0, 2.0]), 0.1, 0.2), True),
        ('ppm.tBER', lambda I: ppm.theory_BER(np.array([1.0, 2.0]), 0.2, 0.3, 4, 'hard'), True),
        ('utils.tBER', lambda I: utils.theory_BER(np.array([-30.0, -25.0]), 'ook', f0=gv.f0), True),
        ('SYNC', lambda I: lab.SYNC(I['rx3'], I['tx32']), True),
        # heavy entries (only at depth <= 2)
        ('GET_EYE', lambda I: d.GET_EYE(I['rx_lp'], sps_resamp=32), False),
        ('ook.DSP', lambda I: ook.DSP(I['rx_lp']), False),
        ('ppm.DSP.hard', lambda I: ppm.DSP(I['rx_lp'], 4, 'hard'), False),
        ('FBG', lambda I: d.FBG(I['mod'], fc=gv.f0, vdneff=1e-4, kL=2.0, print_params=False, retH=True), True),
    ]
    heavy = {'GET_EYE', 'ook.DSP', 'ppm.DSP.hard', 'FBG'}
    return [(n, f, det, n in heavy) for n, f, det in M]


def input_state(I):
    h = hashlib.sha1()
    for k in sorted(I):
        for a in arrays_of(I[k]):
            h.update(np.ascontiguousarray(a).tobytes())
    return h.hexdigest()


def protect(I):
    for k in I:
        for a in arrays_of(I[k]):
            a.flags.writeable = False


def setup():
    if 'I' not in _CACHE:
        I = inputs()
        protect(I)
        _CACHE['I'] = I
        _CACHE['menu'] = menu()
        _CACHE['gv0'] = gv_snapshot()
        _CACHE['in0'] = input_state(I)
        _CACHE['solo'] = {}
    return _CACHE


def call(i, seed):
    C = _CACHE
    name, f, det, heavy = C['menu'][i]
    np.random.seed(seed)
    out = f(C['I'])
    return out


def fresh_solo_main(argv):
    """entry point of the fresh-process oracle: `python -m mcx.props.c14b <i> <seed> [<seed> ...]` prints the digests of
    menu entry i executed as the FIRST library call of a new interpreter (the state reached from the initial state)"""
    import json, os, sys, warnings
    repo = os.environ.get('MCX_REPO', '/repo')
    if repo not in sys.path:
        sys.path.insert(0, repo)
    warnings.simplefilter('ignore')
    i = int(argv[0])
    out = {}
    C = setup()
    with np.errstate(all='ignore'):
        for s in argv[1:]:
            gv_reset(**GV)
            out[s] = dig(call(i, int(s)))
    print('SOLO ' + json.dumps(out))


def fresh_table(n, seeds):
    """digests of every menu entry from a fresh interpreter (one subprocess per entry, 16 at a time)"""
    import json, os, subprocess, sys
    from concurrent.futures import ThreadPoolExecutor
    env = dict(os.environ, OMP_NUM_THREADS='1', OPENBLAS_NUM_THREADS='1', MPLBACKEND='Agg', PYTHONHASHSEED='0')

    def one(i):
        p = subprocess.run([sys.executable, '-m', 'mcx.props.c14b', str(i)] + [str(s) for s in seeds], capture_output=True, text=True,
                           env=env, cwd=os.path.dirname(os.path.dirname(os.path.dirname(os.path.abspath(__file__)))), timeout=900)
        for line in p.stdout.splitlines():
            if line.startswith('SOLO '):
                return {(i, int(k)): v for k, v in json.loads(line[5:]).items()}
        return {(i, s): 'FRESH-PROCESS-FAILED:' + p.stderr[-300:] for s in seeds}
    tab = {}
    with ThreadPoolExecutor(16) as ex:
        for d in ex.map(one, range(n)):
            tab.update(d)
    return tab


def check_after(name, out, viol, where):
    C = _CACHE
    if gv_snapshot() != C['gv0']:
        viol.append((f'purity:gv-modified:{name}', f'{where}: gv changed by {name}'))
        gv_reset(**GV)
    if input_state(C['I']) != C['in0']:
        viol.append((f'purity:input-modified:{name}', f'{where}: argument sample data changed by {name}'))
        _CACHE.clear()
        setup()
        return
    ins = [a for k in C['I'] for a in arrays_of(C['I'][k])]
    for b in arrays_of(out):
        if any(np.shares_memory(a, b) for a in ins):
            viol.append((f'alias:output-input:{name}', f'{where}: output of {name} shares memory with an input buffer'))
            break


def seq_case(case):
    """case = (prefix of menu indices, seed, tail): run prefix calls, then every entry of `tail` (indices) once;
    every call's output must equal its solo output; earlier outputs must stay intact (no aliasing between outputs)."""
    prefix, seed, tail, table = case
    C = setup()
    gv_reset(**GV)
    viol = []
    kept = []
    obs = []
    ncalls = 0
    for pos, i in enumerate(list(prefix) + list(tail)):
        name = C['menu'][i][0]
        want = table[(i, seed)]
        out = call(i, seed)
        ncalls += 1
        got = dig(out)
        where = f'seq={[C["menu"][j][0] for j in prefix]} then {name} (seed {seed})'
        if got != want:
            viol.append((f'order-dependence:{name}', f'{where}: output differs from the output of the same call made first in a fresh interpreter'))
        check_after(name, out, viol, where)
        for (j, o, dg) in kept:
            if dig(o) != dg:
                viol.append((f'alias:output-clobbered:{C["menu"][j][0]}', f'{where}: an earlier output of {C["menu"][j][0]} changed after calling {name}'))
        kept = [(j, o, dg) for (j, o, dg) in kept if dig(o) == dg]
        if len(kept) < 6:
            kept.append((i, out, got))
        obs.append(got)
    return res(viol=viol, obs=tuple(obs), nontrivial=True, stats={'calls': ncalls})


def single_case(case):
    """one menu entry: repeat with the same seed -> identical; deterministic blocks -> identical for another seed"""
    i, seeds, table = case
    C = setup()
    name, f, det, heavy = C['menu'][i]
    viol = []
    obs = []
    t0 = time.time()
    for s in seeds:
        gv_reset(**GV)
        a = call(i, s)
        check_after(name, a, viol, f'solo {name}')
        ca = dig(a)
        cb = dig(call(i, s))
        if ca != cb:
            viol.append((f'nondeterminism:{name}', f'{name}: two calls after np.random.seed({s}) differ'))
        if ca != table[(i, s)]:
            viol.append((f'order-dependence:{name}', f'{name} (seed {s}) in a long-lived worker differs from the same call made first in a fresh interpreter: {str(table[(i, s)])[:200]}'))
        obs.append(ca)
    if det and len(set(obs)) > 1:
        viol.append((f'seed-dependence:{name}', f'deterministic block {name} gives different results for different numpy seeds'))
    return res(viol=viol, obs=tuple(obs), nontrivial=(name,), stats={'calls': 2 * len(seeds)},
               payload={'name': name, 'cost_ms': round((time.time() - t0) * 1000 / (2 * len(seeds)), 2), 'seed_sensitive': len(set(obs)) > 1})


def run_part_b(ctx):
    C = setup()
    M = C['menu']
    n = len(M)
    cheap = [i for i in range(n) if not M[i][3]]
    seeds = sorted({ctx.seed, 0, 12345})
    ctx.rule(f'C14-B: menu of {n} public calls on shared write-protected inputs; every ordered call sequence of depth <= 2 over the '
             f'whole menu and depth <= 3 (quick) / 4 on the cheapest entries (thorough) executed; oracle: each output == solo output '
             f'under the same numpy seed, gv snapshot and input bytes unchanged after every call, no output shares memory with an '
             f'input, earlier outputs never change (no output-output aliasing)')
    table = fresh_table(n, seeds)
    ctx.extra['fresh_process_oracle'] = {'entries': n, 'seeds': seeds, 'distinct_digests': len(set(table.values()))}
    pay = ctx.pmap('purity.single', single_case, [(i, seeds, table) for i in range(n)], horizon=120, chunk=1, recheck=0)
    costs = {p['name']: p['cost_ms'] for p in pay if p}
    ctx.extra['menu_cost_ms'] = costs
    ctx.extra['menu_seed_sensitive'] = sorted(p['name'] for p in pay if p and p['seed_sensitive'])
    # depth 2 over the whole menu: case = (a,), tail = all
    s0 = ctx.seed
    cases = [((a,), s, tuple(range(n)), table) for a in range(n) for s in seeds]
    ctx.pmap('purity.depth2', seq_case, cases, horizon=300, chunk=1, recheck=0)
    # depth 3 over cheap entries: case = (a,b), tail = cheap
    cases = [((a, b), s0, tuple(cheap), table) for a in cheap for b in cheap]
    nseq = len(cases) * len(cheap)
    if not ctx.quick:
        c16 = sorted(cheap, key=lambda i: costs.get(M[i][0], 1e9))[:16]
        cases += [((a, b, c), s0, tuple(c16), table) for a in c16 for b in c16 for c in c16]
        nseq += 16 ** 4
    ctx.pmap('purity.depth3+', seq_case, cases, horizon=300, chunk=4, recheck=0)
    ctx.extra['call_sequences'] = {'depth2': n * n * len(seeds), 'depth3plus': nseq}
    # as a state graph: one canonical state (gv snapshot, input digests) with a self-loop per executed call
    ctx.graph(states=1, transitions=ctx.stats.get('calls', 0))


if __name__ == '__main__':
    import sys
    fresh_solo_main(sys.argv[1:])
