"""C01 - signal containers keep their shape/noise contract; operands are never touched.

Explicit-state search over operator programs executed on the REAL electrical_signal /
optical_signal objects in lock-step with a plain (S, N) array-pair model (N=None <=> no noise).
"""
from __future__ import annotations
import itertools
import numpy as np

from mcx.core.kernel import res

ID = 'C01'
LEVEL = 'model_checking'
NONTRIVIAL = 'distinct canonical states (class, n_pol, dtype, signal bytes, noise bytes) reached by a program that has noise, two polarisations or broadcasting'

EPS = np.finfo(float).eps
CLS = ('E', 'O1', 'O2')
LENGTHS = (1, 2, 3, 5, 7, 64)
DTYPES = ('int', 'float', 'complex')


def lib():
    from opticomlib.typing import electrical_signal, optical_signal
    return electrical_signal, optical_signal


# ------------------------------------------------------------------ model
class M:
    """reference model: class tag, signal array, noise array or None"""
    __slots__ = ('cls', 'S', 'N')

    def __init__(self, cls, S, N=None):
        self.cls, self.S, self.N = cls, np.array(S), (None if N is None else np.array(N))

    @property
    def L(self):
        return self.S.shape[-1]

    def total(self):
        return self.S if self.N is None else self.S + self.N


def ramp(L, dtype, k=0):
    v = np.arange(1, L + 1) + k
    if dtype == 'int':
        return v.astype(int)
    if dtype == 'float':
        return v * 0.5 - 1.0
    return v * (1 + 0.5j)


def alt(L, dtype, amp=0.25):
    v = amp * (1 - 2 * (np.arange(L) % 2))
    if dtype == 'int':
        return (4 * v).astype(int)      # +-1, sums to 0 or 1
    if dtype == 'complex':
        return v * (1 - 1j)
    return v


def leaf_arrays(cls, L, dtype, noise):
    S = ramp(L, dtype)
    N = alt(L, dtype) if noise else None
    if cls == 'O2':
        S = np.array([S, ramp(L, dtype, 3) * (-1)])
        if noise:
            N = np.array([N, -2 * N])
    return S, N


def build(cls, S, N):
    E, O = lib()
    if cls == 'E':
        return E(S, N)
    return O(S, N)


def canon_obj(x):
    return (type(x).__name__, getattr(x, 'n_pol', None), x.signal.dtype.str, x.signal.shape, x.signal.tobytes(),
            None if x.noise is None else x.noise.tobytes())


# ------------------------------------------------------------------ contract
def contract(x, cls, L, tag):
    """shape/noise contract of one object; returns list of violation tuples"""
    E, O = lib()
    v = []
    want = E if cls == 'E' else O
    if type(x) is not want:
        v.append((f'contract:class:{tag}', f'result is {type(x).__name__}, expected {want.__name__}'))
        return v
    s = x.signal
    if not isinstance(s, np.ndarray):
        return [(f'contract:signal-not-ndarray:{tag}', repr(type(s)))]
    if cls == 'E' or cls == 'O1':
        ok = s.ndim == 1 and s.size >= 1
        if cls == 'O1' and x.n_pol != 1:
            v.append((f'contract:n_pol:{tag}', f'n_pol={x.n_pol} expected 1'))
    else:
        ok = s.ndim == 2 and s.shape[0] == 2 and s.shape[1] >= 1
        if x.n_pol != 2:
            v.append((f'contract:n_pol:{tag}', f'n_pol={x.n_pol} expected 2'))
    if not ok:
        v.append((f'contract:shape:{tag}', f'signal shape {s.shape} for {cls}'))
        return v
    if x.noise is not None and (not isinstance(x.noise, np.ndarray) or x.noise.shape != s.shape):
        v.append((f'contract:noise-shape:{tag}', f'noise shape {getattr(x.noise, "shape", None)} signal shape {s.shape}'))
    if x.len() != L or len(x) != L:
        v.append((f'contract:length:{tag}', f'len()={x.len()} expected {L}'))
    return v


def fresh(r, operands, tag):
    v = []
    for o in operands:
        for a in (getattr(o, 'signal', o), getattr(o, 'noise', None)):
            if not isinstance(a, np.ndarray):
                continue
            for b in (r.signal, r.noise):
                if isinstance(b, np.ndarray) and np.shares_memory(a, b):
                    v.append((f'alias:{tag}', 'result shares memory with an operand'))
    if any(o is r for o in operands):
        v.append((f'alias:same-object:{tag}', 'operation returned one of its operands'))
    return v


def snap(o):
    out = []
    for a in (getattr(o, 'signal', o), getattr(o, 'noise', None)):
        if isinstance(a, np.ndarray):
            a.flags.writeable = False
            out.append((a.shape, a.dtype.str, a.tobytes()))
        else:
            out.append(repr(a))
    return out


def same(o, s):
    out = []
    for a in (getattr(o, 'signal', o), getattr(o, 'noise', None)):
        out.append((a.shape, a.dtype.str, a.tobytes()) if isinstance(a, np.ndarray) else repr(a))
    return out == s


def close(a, b):
    a, b = np.asarray(a), np.asarray(b)
    if a.shape != b.shape:
        return False
    scale = max(1.0, float(np.max(np.abs(b))) if b.size else 1.0)
    return bool(np.all(np.abs(a - b) <= 16 * EPS * scale))


# ------------------------------------------------------------------ operations
SLICES = [('int0', 0), ('int-1', -1), ('1:', slice(1, None)), (':-1', slice(None, -1)), ('::2', slice(None, None, 2)),
          ('::-1', slice(None, None, -1)), ('1:2', slice(1, 2)), (':', slice(None)), ('-2:', slice(-2, None)), ('1::3', slice(1, None, 3))]

OPERAND_KINDS = ['obj', 'objn', 'obj1', 'obj1n', 'int', 'float', 'complex', 'list', 'tuple', 'ndarray', 'npfloat',
                 'str-int', 'str-float', 'str-complex', 'str-bits']
LEFT_KINDS = ['int', 'float', 'complex', 'list', 'tuple', 'str-int', 'str-float', 'str-bits', 'obj1', 'obj1n']


def full_ops():
    ops = []
    for o in '+-*':
        for k in OPERAND_KINDS:
            ops.append(('bin', o, k))
        for k in LEFT_KINDS:
            ops.append(('rbin', o, k))
        ops.append(('err', o, 'obj+1'))
        ops.append(('err', o, 'list-1'))
    for name, _ in SLICES:
        ops.append(('slice', name))
    ops += [('copy', None), ('copy', 1), ('copy', 2), ('tf', 'w'), ('tf', 't'), ('tfs', 'w'), ('grow', 'list3')]
    return ops


def deep_ops():
    return [('bin', '+', 'objn'), ('bin', '-', 'obj1n'), ('bin', '*', 'float'), ('rbin', '-', 'list'), ('bin', '+', 'obj'),
            ('rbin', '+', 'obj1n'), ('slice', '1:'), ('slice', '::2'), ('slice', '::-1'), ('copy', None)]


def operand(kind, m: M):
    """returns (python operand to hand to the library, model arrays (S, N) of the operand, 1-D/2-D as it will be seen)"""
    L = m.L
    two = m.cls == 'O2'
    if kind in ('obj', 'objn'):
        S = np.arange(L) * 0.5 - 1.0
        N = (0.125 * (1 - 2 * (np.arange(L) % 2))) if kind == 'objn' else None
        if two:
            S = np.array([S, 3 - S])
            N = None if N is None else np.array([N, 3 * N])
        return build(m.cls, S, N), S, N
    if kind in ('obj1', 'obj1n'):
        S = np.array([3.0])
        N = np.array([0.25]) if kind == 'obj1n' else None
        if two:
            S = np.array([[3.0], [-1.5]])
            N = None if N is None else np.array([[0.25], [-0.5]])
        return build(m.cls, S, N), S, N
    if kind == 'int':
        return 2, np.array([2]), None
    if kind == 'float':
        return 0.5, np.array([0.5]), None
    if kind == 'complex':
        return (1 + 2j), np.array([1 + 2j]), None
    if kind == 'npfloat':
        return np.float64(1.5), np.array([1.5]), None
    vals = np.arange(L) * 0.25 + 2.0
    if kind == 'list':
        return [float(x) for x in vals], vals, None
    if kind == 'tuple':
        return tuple(float(x) for x in vals), vals, None
    if kind == 'ndarray':
        return vals.copy(), vals, None
    if kind == 'str-int':
        iv = (np.arange(L) % 7) + 2
        return ' '.join(str(int(x)) for x in iv), iv, None
    if kind == 'str-float':
        fv = np.array([[1.5, -2.0, 0.25][i % 3] for i in range(L)])
        return ', '.join(repr(float(x)) for x in fv), fv, None
    if kind == 'str-complex':
        cv = np.array([[1 + 2j, 0.5j, 3][i % 3] for i in range(L)])
        txt = ' '.join(['1+2j', '0.5j', '3'][i % 3] for i in range(L))
        return txt, cv, None
    if kind == 'str-bits':
        bv = np.array([[1, 0, 1, 1, 0][i % 5] for i in range(L)])
        return ''.join(str(int(b)) for b in bv), bv, None
    raise KeyError(kind)


def arith(o, a, b):
    return a + b if o == '+' else a - b if o == '-' else a * b


def apply_op(x, m: M, op):
    """execute `op` on the real object x (whose model is m).
    returns (result object or None, model or None, violations, tag)"""
    E, O = lib()
    kind = op[0]
    viol = []
    tag = ':'.join(str(t) for t in op)
    sx = snap(x)
    try:
        if kind in ('bin', 'rbin'):
            o = op[1]
            w, wS, wN = operand(op[2], m)
            sw = snap(w) if isinstance(w, (np.ndarray, E)) else None
            if kind == 'bin':
                r = x + w if o == '+' else x - w if o == '-' else x * w
                aS, aN, bS, bN = m.S, m.N, wS, wN
            else:
                r = w + x if o == '+' else w - x if o == '-' else w * x
                aS, aN, bS, bN = wS, wN, m.S, m.N
            L = max(m.L, np.shape(wS)[-1])
            viol += contract(r, m.cls, L, tag)
            viol += fresh(r, [x, w], tag)
            if sw is not None and not same(w, sw):
                viol.append((f'operand-modified:{tag}', 'right/left operand changed'))
            if viol:
                return None, None, viol, tag
            noisy = (aN is not None) or (bN is not None)
            if (r.noise is not None) != noisy:
                viol.append((f'noise-iff:{tag}', f'result noise present={r.noise is not None}, operands noisy={noisy}'))
            if o in '+-':
                ta = aS if aN is None else aS + aN
                tb = bS if bN is None else bS + bN
                want = arith(o, ta, tb)
                got = r.signal if r.noise is None else r.signal + r.noise
                want = np.broadcast_to(want, got.shape) if np.broadcast_shapes(want.shape, got.shape) == got.shape else want
                if not close(got, want):
                    viol.append((f'total-field:{tag}', f'signal+noise of result != {"sum" if o == "+" else "difference"} of total fields'))
            nm = M(m.cls, r.signal, r.noise)     # resynchronise (for * only the contract is stated)
        elif kind == 'err':
            o = op[1]
            L = m.L
            if L < 2:
                return None, None, [], tag + ':n/a'
            if op[2] == 'obj+1':
                S = np.ones(L + 1)
                w = build(m.cls, np.array([S, S]) if m.cls == 'O2' else S, None)
            else:
                if L - 1 < 2:
                    return None, None, [], tag + ':n/a'
                w = [1.0] * (L - 1)
            try:
                r = x + w if o == '+' else x - w if o == '-' else x * w
                viol.append((f'length-mismatch-accepted:{tag}', f'operands of lengths {L} and {L+1 if op[2]=="obj+1" else L-1} did not raise ValueError'))
            except ValueError:
                pass
            return None, None, viol, tag
        elif kind == 'grow':
            # a length-1 object combined with a longer plain operand broadcasts to the longer length
            if m.L != 1:
                return None, None, [], tag + ':n/a'
            w = [1.0, 2.0, 4.0]
            r = x + w
            viol += contract(r, m.cls, 3, tag)
            viol += fresh(r, [x], tag)
            if viol:
                return None, None, viol, tag
            got = r.signal if r.noise is None else r.signal + r.noise
            if not close(got, m.total() + np.array(w)):
                viol.append((f'total-field:{tag}', 'length-1 object + list: wrong total field'))
            if (r.noise is not None) != (m.N is not None):
                viol.append((f'noise-iff:{tag}', 'noise presence wrong'))
            nm = M(m.cls, r.signal, r.noise)
        elif kind == 'slice':
            sl = dict(SLICES)[op[1]]
            if isinstance(sl, int):
                wantS = m.S[..., sl:sl + 1] if sl >= 0 else m.S[..., m.L + sl:m.L + sl + 1]
                wantN = None if m.N is None else (m.N[..., sl:sl + 1] if sl >= 0 else m.N[..., m.L + sl:m.L + sl + 1])
            else:
                wantS = m.S[..., sl]
                wantN = None if m.N is None else m.N[..., sl]
            if wantS.shape[-1] == 0:
                try:
                    r = x[sl]
                except (ValueError, IndexError):
                    return None, None, [], tag + ':empty'
                viol += contract(r, m.cls, 0, tag)   # an empty object violates the contract
                return None, None, viol, tag
            r = x[sl]
            viol += contract(r, m.cls, wantS.shape[-1], tag)
            viol += fresh(r, [x], tag)
            if viol:
                return None, None, viol, tag
            if not (np.array_equal(r.signal, wantS) and r.signal.shape == wantS.shape):
                viol.append((f'slice-signal:{tag}', 'slice does not return exactly the selected signal samples'))
            if (r.noise is None) != (wantN is None) or (wantN is not None and not np.array_equal(r.noise, wantN)):
                viol.append((f'slice-noise:{tag}', 'slice does not return exactly the selected noise samples'))
            nm = M(m.cls, wantS, wantN)
        elif kind == 'copy':
            n = op[1]
            if n is not None and n > m.L:
                return None, None, [], tag + ':n/a'
            r = x.copy() if n is None else x.copy(n)
            k = m.L if n is None else n
            viol += contract(r, m.cls, k, tag)
            viol += fresh(r, [x], tag)
            if viol:
                return None, None, viol, tag
            if not np.array_equal(r.signal, m.S[..., :k]) or (m.N is None) != (r.noise is None) or \
                    (m.N is not None and not np.array_equal(r.noise, m.N[..., :k])):
                viol.append((f'copy-values:{tag}', 'copy differs from the original samples'))
            nm = M(m.cls, m.S[..., :k], None if m.N is None else m.N[..., :k])
        elif kind in ('tf', 'tfs'):
            r = x(op[1], shift=(kind == 'tfs'))
            viol += contract(r, m.cls, m.L, tag)
            viol += fresh(r, [x], tag)
            if viol:
                return None, None, viol, tag
            if (r.noise is not None) != (m.N is not None):
                viol.append((f'noise-iff:{tag}', 'transform changed noise presence'))
            nm = M(m.cls, r.signal, r.noise)    # values are C02's business
        else:
            raise KeyError(op)
    except Exception as e:  # library raised where the statement requires a result
        import traceback
        fr = [f for f in traceback.extract_tb(e.__traceback__) if '/opticomlib/' in f.filename]
        if not fr:
            raise
        cls_in = m.cls
        return None, None, [(f'raises:{type(e).__name__}:{tag}', f'{cls_in} len={m.L} noise={m.N is not None}: {type(e).__name__}: {str(e)[:150]}')], tag
    if not same(x, sx):
        viol.append((f'operand-modified:{tag}', 'left operand changed'))
    return r, nm, viol, tag


# ------------------------------------------------------------------ case functions
def leaf(spec):
    cls, L, dtype, noise = spec
    S, N = leaf_arrays(cls, L, dtype, noise)
    x = build(cls, S, N)
    return x, M(cls, x.signal, x.noise)


def h64(t):
    import hashlib
    return int.from_bytes(hashlib.blake2b(repr(t).encode(), digest_size=8).digest(), 'little')


def wide(case):
    """case = (leaf spec, prefix of op indices); applies the prefix, then EVERY op of the full alphabet"""
    spec, prefix = case
    ops = full_ops()
    x, m = leaf(spec)
    viol = []
    for i in prefix:
        x, m, v, tag = apply_op(x, m, ops[i])
        if x is None:
            return res(viol=[], obs=('dead', tag))
    states = []
    obs = []
    nt = 0
    for op in ops:
        r, nm, v, tag = apply_op(x, m, op)
        for k, msg in v:
            viol.append((k, f'leaf={spec} prefix={[ops[i] for i in prefix]} op={op}: {msg}'))
        if r is not None:
            c = canon_obj(r)
            states.append(h64(c))
            obs.append(h64(c))
        else:
            obs.append(tag)
    return res(viol=viol, obs=tuple(obs), nontrivial=(spec[0] == 'O2' or spec[3] or spec[1] == 1),
               stats={'transitions': len(ops)}, payload=np.array(states, dtype=np.uint64))


def deep(case):
    """DFS of all programs of depth <= D over the reduced alphabet from one leaf"""
    spec, D = case
    ops = deep_ops()
    x0, m0 = leaf(spec)
    viol = []
    states = set()
    trans = 0
    maxd = 0

    def rec(x, m, d, path):
        nonlocal trans, maxd
        maxd = max(maxd, d)
        if d == D:
            return
        for op in ops:
            r, nm, v, tag = apply_op(x, m, op)
            trans += 1
            for k, msg in v:
                if len(viol) < 50:
                    viol.append((k, f'leaf={spec} path={path + [op]}: {msg}'))
            if r is None:
                continue
            c = h64(canon_obj(r))
            if c in states:
                continue
            states.add(c)
            rec(r, nm, d + 1, path + [op])

    rec(x0, m0, 0, [])
    return res(viol=viol, obs=tuple(sorted(states)), nontrivial=True, stats={'transitions': trans, 'deep_max_depth': maxd},
               payload=np.array(sorted(states), dtype=np.uint64))


# ------------------------------------------------------------------ constructors
def ctor(case):
    """every constructor form: container form x noise form x dtype= x (n_pol x input rank)"""
    E, O = lib()
    cls, form, nform, dt, npol, rank = case
    viol = []
    L = 3
    base = np.array([1.0, -2.0, 0.5])
    nb = np.array([0.25, -0.25, 0.5])
    dtmap = {None: None, 'int': int, 'float': float, 'complex': complex}

    def shape(a):
        if rank == '0d':
            return np.array(a[0])
        if rank == '1d':
            return a
        if rank == '1xN':
            return a[np.newaxis]
        return np.array([a, -a])

    def contain(a, f):
        if f == 'ndarray':
            return np.array(a)
        if f in ('list', 'tuple') and a.ndim == 0:
            return None      # a 0-d value has no list/tuple spelling
        if f == 'list':
            return a.tolist()
        if f == 'tuple':
            return tuple(a.tolist()) if a.ndim <= 1 else tuple(tuple(r) for r in a.tolist())
        if f == 'scalar':
            return float(a) if a.ndim == 0 else None
        if f == 'str':
            if a.ndim == 2 and a.shape[0] == 1:
                return None      # a 1xN matrix has no textual spelling distinct from the 1-D one
            if a.ndim == 0:
                return repr(float(a))
            if a.ndim == 1:
                return ' '.join(repr(float(v)) for v in a)
            return '; '.join(' '.join(repr(float(v)) for v in r) for r in a)
    if cls == 'E' and rank in ('1xN', '2xN'):
        # 2-D input is invalid for electrical_signal: must raise ValueError
        arg = contain(shape(base), form if form != 'scalar' else 'list')
        if arg is None:
            return res(obs='n/a')
        try:
            E(arg)
            return res(viol=[('ctor:E-accepts-2D', f'{case}')], obs='accepted')
        except ValueError:
            return res(obs='ValueError', nontrivial=('ctor', 'E2D'))
    s_in = contain(shape(base), form)
    if s_in is None:
        return res(obs='n/a')
    n_in = None if nform is None else contain(shape(nb), nform)
    if nform is not None and n_in is None:
        return res(obs='n/a')
    keep = [a for a in (s_in, n_in) if isinstance(a, np.ndarray)]
    snaps = [snap(a) for a in keep]
    kw = {}
    if dt is not None:
        kw['dtype'] = dtmap[dt]
    if cls != 'E' and npol is not None:
        kw['n_pol'] = npol
    try:
        x = E(s_in, n_in, **kw) if cls == 'E' else O(s_in, n_in, **kw)
    except (ValueError, TypeError) as e:
        # a constructor may reject a form; what it must never do is return an object violating the contract.
        return res(obs=('rejected', type(e).__name__), stats={'ctor_rejected': 1})
    # expected layout
    if cls == 'E':
        want_cls, Lw = 'E', (1 if rank == '0d' else L)
    else:
        np_eff = npol if npol is not None else (1 if rank in ('0d', '1d') else 2)
        want_cls, Lw = ('O1' if np_eff == 1 else 'O2'), (1 if rank == '0d' else L)
    viol += contract(x, want_cls, Lw, 'ctor')
    viol += fresh(x, keep, 'ctor')
    for a, s in zip(keep, snaps):
        if not same(a, s):
            viol.append(('operand-modified:ctor', 'constructor modified its argument'))
    if (x.noise is not None) != (n_in is not None):
        viol.append(('ctor:noise-presence', f'noise given={n_in is not None} stored={x.noise is not None}'))
    if not viol:
        # values: row 0 must be the given samples (cast to dtype)
        ref = shape(base)
        if dt == 'int':
            ref = ref.astype(int)
        row = x.signal if x.signal.ndim == 1 else x.signal[0]
        ref0 = ref if ref.ndim <= 1 else ref[0]
        if not close(row, np.atleast_1d(ref0)):
            viol.append(('ctor:values', 'stored signal differs from the given samples'))
        if x.noise is not None and x.noise.dtype != x.signal.dtype:
            viol.append(('ctor:dtype-unification', f'{x.signal.dtype} vs {x.noise.dtype}'))
    viol = [(k, f'{case}: {m}') for k, m in viol]
    return res(viol=viol, obs=canon_obj(x), nontrivial=('ctor', cls, rank, npol, nform is not None))


# ------------------------------------------------------------------ driver
REGRESS_WIDE = [
    (('E', 3, 'float', False), []),      # noise-free x + noisy length-1 y (DESIGN 8 #1), length-1 object on the left (#2)
    (('O2', 2, 'complex', False), []),
    (('E', 1, 'float', True), []),
]


def run(ctx):
    ops = full_ops()
    leaves = [(c, L, d, n) for c in CLS for L in LENGTHS for d in DTYPES for n in (False, True)]
    ctx.space('leaves', len(leaves))
    ctx.space('ops.full', len(ops))
    ctx.space('ops.deep', len(deep_ops()))
    ctx.rule('explicit-state search over operator programs on the real objects in lock-step with an (S,N) array-pair model: '
             'wide-shallow = every program of depth <= D_w over the full alphabet (3 binary operators x 15 right-operand kinds '
             '+ 10 reflected kinds + length-mismatch operands, 10 slice forms, copy()/copy(n), transforms) from every leaf '
             '(3 layouts x 6 lengths x 3 dtypes x noise absent/present); narrow-deep = every program of depth <= D_d over a '
             '10-op alphabet; constructor forms enumerated as a full product')
    for c in REGRESS_WIDE:
        ctx.run_case('regress', wide, c)

    # constructor forms
    cc = []
    for cls in CLS[:2]:
        for form, nform, dt in itertools.product(['ndarray', 'list', 'tuple', 'str', 'scalar'], [None, 'ndarray', 'list', 'str', 'scalar'],
                                                 [None, 'int', 'float', 'complex']):
            for rank in ['0d', '1d', '1xN', '2xN']:
                for npol in ([None] if cls == 'E' else [None, 1, 2]):
                    cc.append(('E' if cls == 'E' else 'O', form, nform, dt, npol, rank))
    ctx.pmap('ctor', ctor, cc)

    Dw = 2 if ctx.quick else 3
    allstates = []
    trans = 0
    # depth 1 and 2 from every leaf
    cases = [(lf, []) for lf in leaves] + [(lf, [i]) for lf in leaves for i in range(len(ops))]
    if Dw == 3:
        l3 = [lf for lf in leaves if lf[1] in (1, 3, 64) and lf[2] != 'int']
        cases += [(lf, [i, j]) for lf in l3 for i in range(len(ops)) for j in range(len(ops))]
    pl = ctx.pmap('wide', wide, cases, horizon=60)
    allstates += [p for p in pl if p is not None]
    Dd = 4 if ctx.quick else 6
    dleaves = leaves if ctx.quick else [lf for lf in leaves if lf[1] in (1, 2, 5) and lf[2] in ('float', 'complex')]
    pl = ctx.pmap('deep', deep, [(lf, Dd) for lf in dleaves], horizon=900, chunk=1, recheck=1)
    allstates += [p for p in pl if p is not None]
    st = np.unique(np.concatenate(allstates)) if allstates else np.array([])
    trans = ctx.stats.get('transitions', 0)
    ctx.graph(states=int(st.size) + len(leaves), transitions=int(trans))
    ctx.extra['bounds'] = {'wide_depth': Dw, 'deep_depth': Dd, 'leaves': len(leaves), 'deep_leaves': len(dleaves)}
    for s in st[:200000:1]:
        pass
    # distinct non-trivial = distinct canonical states reached (beyond the per-case tags)
    ctx.nt_tags.update(('state', int(s)) for s in st[:50000])
