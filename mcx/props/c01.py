"""C01 - signal containers keep their shape/noise contract; operands are never touched.

Explicit-state search over operator programs executed on the REAL electrical_signal /
optical_signal objects in lock-step with a plain (S, N) array-pair model (N=None <=> no noise).

Axes (see notes/C01.md, "Hardening pass"):
  leaves    = layout x length x sample dtype/scale x noise kind
  operands  = second objects (same length / length 1 / same dtype / fixed narrow dtypes / all-zero noise / the object
              itself), Python and numpy scalars, 0-d arrays, ndarrays of every sample dtype, lists, tuples, strings
  programs  = wide-shallow (every op of the full alphabet after every prefix) + narrow-deep (DFS over small alphabets)
"""
from __future__ import annotations
import itertools
import re
import warnings
import numpy as np

from mcx.core.kernel import res

ID = 'C01'
LEVEL = 'model_checking'
NONTRIVIAL = 'distinct canonical states (class, n_pol, dtype, signal bytes, noise bytes) reached by a program that has noise, two polarisations or broadcasting'

EPS = np.finfo(float).eps
CLS = ('E', 'O1', 'O2')
LENGTHS = (1, 2, 3, 5, 7, 64)
LENGTHS_X = (13, 127)                 # prime / non-smooth / 2^7-1; depth <= 1 only
DTYPES = ('int', 'float', 'complex')  # int64 / float64 / complex128 (the base leaves)
NARROW_DT = ('bool', 'int8', 'uint8', 'int16', 'int32', 'float16', 'float32', 'complex64')
SCALED_DT = ('float*1e-12', 'float*1e-6', 'float*1e6', 'complex*1e-9', 'float+dc', 'float=0')
NOISE_X = ('zero', 'xdt', 'row0')     # all-zero noise / noise of another dtype than the signal / noise in row 0 only (2-pol)


def lib():
    from opticomlib.typing import electrical_signal, optical_signal
    return electrical_signal, optical_signal


# ------------------------------------------------------------------ model
class M:
    """reference model: class tag, signal array, noise array or None"""
    __slots__ = ('cls', 'S', 'N')

    def __init__(self, cls, S, N=None):
        self.cls, self.S, self.N = cls, np.array(S), (None if N is None else np.array(N))

    @property
    def L(self):
        return self.S.shape[-1]

    def total(self):
        return self.S if self.N is None else self.S + self.N


def dt_of(label):
    """numpy dtype of a leaf dtype label ('int', 'uint8', 'float*1e-12', 'float+dc', 'float=0', 'float~<seed>')"""
    base = re.split(r'[*+=~]', label)[0]
    return np.dtype({'int': np.int64, 'float': np.float64, 'complex': np.complex128}.get(base, base))


def ramp(L, label, k=0):
    dt = dt_of(label)
    v = np.arange(1, L + 1) + k
    if '~' in label:      # seeded random field: VERIF_SEED selects the CONTENT only
        rng = np.random.RandomState([int(label.split('~')[1]) % 2**32, L, k])
        r = rng.uniform(-1, 1, L)
        return (r + 1j * rng.uniform(-1, 1, L)).astype(dt) if dt.kind == 'c' else r.astype(dt)
    if dt.kind == 'b':
        return v % 2 == 1
    if dt.kind in 'iu':
        return v.astype(dt)
    base = v * (1 + 0.5j) if dt.kind == 'c' else v * 0.5 - 1.0
    if '*' in label:
        base = base * float(label.split('*')[1])
    elif label.endswith('+dc'):
        base = base * 2.0**-10 + 2.0**30       # large DC offset, small variation (all values exact)
    elif label.endswith('=0'):
        base = base * 0.0
    return base.astype(dt)


def alt(L, label):
    dt = dt_of(label)
    s = 1 - 2 * (np.arange(L) % 2)              # +1, -1, +1, ...: sums to 0 or 1
    if dt.kind == 'b':
        return s > 0
    if dt.kind == 'u':
        return (s > 0).astype(dt)               # 1, 0, 1, ...: representable, no wrap-around in the leaf itself
    if dt.kind == 'i':
        return s.astype(dt)
    v = 0.25 * s * ((1 - 1j) if dt.kind == 'c' else 1.0)
    if '*' in label:
        v = v * float(label.split('*')[1])
    elif label.endswith('+dc'):
        v = v * 2.0**-10
    return v.astype(dt)


def leaf_arrays(cls, L, dtype, noise):
    kind = dt_of(dtype).kind
    S = ramp(L, dtype)
    s = 1 - 2 * (np.arange(L) % 2)
    if noise is False:
        N = None
    elif noise == 'xdt':      # noise of a different dtype than the signal (the constructor has to unify)
        N = 0.25 * s if kind in 'biu' else (0.25 * s * (1 - 1j) if kind == 'f' else s.astype(int))
    else:
        N = alt(L, dtype)
    if cls == 'O2':
        S = np.array([S, ramp(L, dtype, 3) if kind in 'bu' else ramp(L, dtype, 3) * (-1)])
        if N is not None:
            N2 = ~N if N.dtype.kind == 'b' else (1 - N if N.dtype.kind == 'u' else -2 * N)
            N = np.array([N, N2 * 0 if noise == 'row0' else N2])
    if noise == 'zero':
        N = np.zeros_like(N)
    return S, N


def build(cls, S, N):
    E, O = lib()
    if cls == 'E':
        return E(S, N)
    return O(S, N)


def canon_obj(x):
    return (type(x).__name__, getattr(x, 'n_pol', None), x.signal.dtype.str, x.signal.shape, x.signal.tobytes(),
            None if x.noise is None else x.noise.tobytes())


# ------------------------------------------------------------------ contract
def contract(x, cls, L, tag):
    """shape/noise contract of one object; returns list of violation tuples (L=None: any length >= 1)"""
    E, O = lib()
    v = []
    want = E if cls == 'E' else O
    if type(x) is not want:
        v.append((f'contract:class:{tag}', f'result is {type(x).__name__}, expected {want.__name__}'))
        return v
    s = x.signal
    if not isinstance(s, np.ndarray):
        return [(f'contract:signal-not-ndarray:{tag}', repr(type(s)))]
    if cls == 'E' or cls == 'O1':
        ok = s.ndim == 1 and s.size >= 1
        if cls == 'O1' and x.n_pol != 1:
            v.append((f'contract:n_pol:{tag}', f'n_pol={x.n_pol} expected 1'))
    else:
        ok = s.ndim == 2 and s.shape[0] == 2 and s.shape[1] >= 1
        if x.n_pol != 2:
            v.append((f'contract:n_pol:{tag}', f'n_pol={x.n_pol} expected 2'))
    if not ok:
        v.append((f'contract:shape:{tag}', f'signal shape {s.shape} for {cls}'))
        return v
    if x.noise is not None and (not isinstance(x.noise, np.ndarray) or x.noise.shape != s.shape):
        v.append((f'contract:noise-shape:{tag}', f'noise shape {getattr(x.noise, "shape", None)} signal shape {s.shape}'))
    if L is not None and (x.len() != L or len(x) != L):
        v.append((f'contract:length:{tag}', f'len()={x.len()} expected {L}'))
    return v


def contract_any(x, tag):
    """contract of an object whose layout is not prescribed (constructor forms that may be accepted or rejected)"""
    E, O = lib()
    if type(x) is E:
        return contract(x, 'E', None, tag)
    if type(x) is O:
        return contract(x, 'O2' if getattr(x, 'n_pol', None) == 2 or getattr(x.signal, 'ndim', 1) == 2 else 'O1', None, tag)
    return [(f'contract:class:{tag}', f'constructor returned {type(x).__name__}')]


def fresh(r, operands, tag):
    v = []
    for o in operands:
        for a in (getattr(o, 'signal', o), getattr(o, 'noise', None)):
            if not isinstance(a, np.ndarray):
                continue
            for b in (r.signal, r.noise):
                if isinstance(b, np.ndarray) and np.shares_memory(a, b):
                    v.append((f'alias:{tag}', 'result shares memory with an operand'))
    if any(o is r for o in operands):
        v.append((f'alias:same-object:{tag}', 'operation returned one of its operands'))
    return v


def state_of(o):
    """complete observable state of an operand: arrays byte-for-byte, library objects with EVERY attribute
    (signal, noise - None must stay None -, n_pol, execution_time, no attribute added), plain containers by repr"""
    E, _ = lib()
    if isinstance(o, np.ndarray):
        return ('nd', o.shape, o.dtype.str, o.tobytes())
    if isinstance(o, E):
        return ('obj', type(o).__name__, tuple((k, state_of(v) if isinstance(v, np.ndarray) else repr(v))
                                               for k, v in sorted(vars(o).items())))
    return (type(o).__name__, repr(o))


def snap(o):
    for a in (getattr(o, 'signal', o), getattr(o, 'noise', None)):
        if isinstance(a, np.ndarray):
            a.flags.writeable = False
    return state_of(o)


def same(o, s):
    return state_of(o) == s


def exact(a, b):
    """the very same samples (NaN == NaN: deep programs on float16 may overflow legitimately)"""
    a, b = np.asarray(a), np.asarray(b)
    return a.shape == b.shape and bool(np.array_equal(a, b, equal_nan=a.dtype.kind in 'fc' and b.dtype.kind in 'fc'))


def close(a, b):
    a, b = np.asarray(a), np.asarray(b)
    if a.shape != b.shape:
        return False
    scale = max(1.0, float(np.max(np.abs(b))) if b.size else 1.0)
    return bool(np.all(np.abs(a - b) <= 16 * EPS * scale))


def total_field_ok(o, aS, aN, bS, bN, r):
    """(signal+noise) of r == total(a) o total(b), evaluated in exact/wide arithmetic.

    * integer model dtype and integer result: int64 arithmetic, compared modulo 2^bits of the dtype the array-pair
      model has (np.result_type of the operands): wrap-around that plain numpy arrays of these dtypes have is accepted,
      anything else (e.g. the negation of an unsigned operand before widening) is not;
    * otherwise complex128 arithmetic; tolerance 8 * eps(model dtype) * (|aS|+|aN|+|bS|+|bN|): the implementation adds
      signal to signal and noise to noise and the comparison adds the two results, each addition rounds by at most one
      eps of its operands' magnitudes; samples whose magnitude bound exceeds the model dtype's range (float16 chains)
      are not compared;
    * boolean model dtype: `+` is a logical or and `-` is undefined in numpy - the statement is silent."""
    parts = [np.asarray(p) for p in (aS, aN, bS, bN) if p is not None]
    mdt = np.result_type(*parts)
    if mdt.kind == 'b':
        return True
    rs, rn = r.signal, r.noise
    shape = rs.shape
    if mdt.kind in 'iu' and rs.dtype.kind in 'iu':
        w = lambda a: 0 if a is None else np.asarray(a).astype(np.int64)
        want = (w(aS) + w(aN)) + (w(bS) + w(bN)) * (1 if o == '+' else -1)
        got = w(rs) + w(rn)
        if np.broadcast_shapes(want.shape, shape) != shape:
            return False
        d = got - want
        if mdt.itemsize < 8:
            d = d % (1 << (8 * mdt.itemsize))
        return bool(np.all(d == 0))
    c = lambda a: 0 if a is None else np.asarray(a).astype(np.complex128)
    want = (c(aS) + c(aN)) + (c(bS) + c(bN)) * (1 if o == '+' else -1)
    got = c(rs) + c(rn)
    if np.broadcast_shapes(np.shape(want), shape) != shape:
        return False
    mag = sum(np.abs(c(p)) for p in parts) + np.zeros(shape)
    fdt = mdt if mdt.kind in 'fc' else np.dtype(float)
    fi = np.finfo(fdt)
    ok = mag <= fi.max / 4
    err = np.abs(got - want)
    return bool(np.all(err[ok] <= 8 * fi.eps * mag[ok]))


# ------------------------------------------------------------------ operations
# slice forms: value or function of the length L.  Names of the core forms are kept from the first version.
SLICES_CORE = [('int0', 0), ('int-1', -1), ('1:', slice(1, None)), (':-1', slice(None, -1)), ('::2', slice(None, None, 2)),
               ('::-1', slice(None, None, -1)), ('1:2', slice(1, 2)), (':', slice(None)), ('-2:', slice(-2, None)),
               ('1::3', slice(1, None, 3))]
SLICES_X = [('int1', 1), ('intL-1', lambda L: L - 1), ('int-L', lambda L: -L),           # first / last legal index
            ('intL', lambda L: L), ('int-L-1', lambda L: -L - 1),                        # one outside: no object may come back
            (':1', slice(None, 1)), ('-1:', slice(-1, None)), ('L-1:', lambda L: slice(L - 1, None)),
            ('::100', slice(None, None, 100)), ('2::-1', slice(2, None, -1)), ('-1::-2', slice(-1, None, -2)),
            ('3:0:-1', slice(3, 0, -1)), (':0', slice(None, 0)), ('3:1', slice(3, 1)),   # the last two are empty
            (':1000000', slice(None, 10**6)), ('-1000000:', slice(-10**6, None))]
SLICES = SLICES_CORE + SLICES_X

OPERAND_CORE = ['obj', 'objn', 'obj1', 'obj1n', 'int', 'float', 'complex', 'list', 'tuple', 'ndarray', 'npfloat',
                'str-int', 'str-float', 'str-complex', 'str-bits']
LEFT_CORE = ['int', 'float', 'complex', 'list', 'tuple', 'str-int', 'str-float', 'str-bits', 'obj1', 'obj1n']
OPERAND_X = [
    'self',                                                             # the same object on both sides
    'objz', 'obj1z',                                                    # all-zero noise IS noise
    'obj@same', 'obj@samen', 'obj1@same', 'obj1@samen',                 # second object of the left operand's dtype
    'obj@bool', 'obj@int8n', 'obj@uint8n', 'obj@int32', 'obj@float16n', 'obj@float32n', 'obj@complex64n',
    'obj1@uint8n', 'obj1@float32',
    'obj3', 'obj3n', 'list3', 'nd3',                                    # longer operand for a length-1 object (else n/a)
    'bool', 'np@bool', 'np@int8', 'np@uint8', 'np@int64', 'np@float16', 'np@float32', 'np@complex64', 'np@complex128',
    '0d@float', '0d@int', '0d@complex', '0d@uint8',
    'nd@bool', 'nd@int8', 'nd@uint8', 'nd@int32', 'nd@int', 'nd@float16', 'nd@float32', 'nd@complex64', 'nd@complex',
    'nd-strided', 'nd1', 'nd2', 'nd2x1',
    'list-int', 'list-complex', 'list-bool', 'list-mixed', 'tuple-int', 'list1', 'list2',
    'str-comma', 'str1', 'str2']
LEFT_X = ['bool', 'str-complex', 'str-comma', 'str1', 'str2', 'list-int', 'list-complex', 'list-bool', 'list1', 'list2', 'list3',
          'tuple-int', 'objz', 'obj1z', 'obj@same', 'obj1@samen', 'obj@uint8n', 'obj1@uint8n', 'obj@float32n', 'obj3n']
# neutral-element operands (wave 6): x + 0, 0 + x, x - 0, 0 - x, x * 1, 1 * x are the operations for which "return the
# operand itself" is a tempting shortcut (sum() support, fast paths).  Values are trivially right; what is decided is the
# freshness clause (new object, no shared memory, operands untouched) and the contract.  Spellings of the neutral element:
# Python int / float / -0.0 / complex / bool, numpy scalars and 0-d arrays (right-hand side only, as the quantifier says),
# constant ndarrays, lists, tuples, strings and second objects (full length, length 1, the left operand's own dtype, with an
# all-zero noise).  Zeros go to + and -, ones to * (bool True is the old kind 'bool'), each on both sides; the int spelling
# sits in the core alphabet, so that it is a prefix and a final op of the depth-2 programs.
ZERO_PY = ['int0', 'float0', 'float-0', 'complex0', 'false']
ZERO_NP = ['np@int64=0', 'np@float64=0', 'np@bool=0', '0d@int=0', '0d@float=0']
ZERO_SEQ = ['nd=0', 'nd1=0', 'list=0', 'list1=0', 'tuple1=0', 'str=0']
ZERO_OBJ = ['obj=0', 'obj1=0', 'obj@same=0', 'obj1@same=0', 'obj1z=0']
ONE_PY = ['int1', 'float1', 'complex1']
ONE_NP = ['np@int64=1', 'np@float64=1', '0d@int=1', '0d@float=1']
ONE_SEQ = ['nd=1', 'nd1=1', 'list1=1', 'str=1']
ONE_OBJ = ['obj=1', 'obj1=1', 'obj1@same=1']
NEUTRAL_CORE = {'+': ['int0'], '-': ['int0'], '*': ['int1']}
NEUTRAL_RIGHT = {'+': ZERO_PY + ZERO_NP + ZERO_SEQ + ZERO_OBJ, '*': ONE_PY + ONE_NP + ONE_SEQ + ONE_OBJ}
NEUTRAL_LEFT = {'+': ZERO_PY + ZERO_SEQ[2:] + ZERO_OBJ, '*': ONE_PY + ONE_SEQ[2:] + ONE_OBJ}
NEUTRAL_RIGHT['-'], NEUTRAL_LEFT['-'] = NEUTRAL_RIGHT['+'], NEUTRAL_LEFT['+']
# built-in sum(): starts with 0 + first element.  'x' is the object under test, '|k' an explicit start value
SUM_CORE = ['x']
SUM_X = ['x,objn', 'obj,x', 'x,x', 'x,obj', 'x,obj1n', 'objn,x', 'x,obj@samen', 'x,obj=0', 'x|int0', 'x|float0', 'x|false', 'x,objn|complex0', 'x|obj1=0']
ERR_CORE = ['obj+1', 'list-1']
ERR_X = ['objn+1', 'list+1', 'nd-1', 'tuple+1', 'str+1', 'list-size', 'nd2+1', 'r:list-1', 'r:list+1', 'r:str+1']
COPY_CORE = [None, 1, 2]
COPY_X = ['L', 'L-1', 0]
TF_CORE = [('tf', 'w'), ('tf', 't'), ('tfs', 'w')]
TF_X = [('tf', 'f'), ('tfs', 't'), ('tfs', 'f')]


def core_ops():
    """the alphabet of the first version (used for prefixes); ('grow','list3') became ('bin','+','list3')"""
    ops = []
    for o in '+-*':
        ops += [('bin', o, k) for k in OPERAND_CORE]
        ops += [('rbin', o, k) for k in LEFT_CORE]
        ops += [('err', o, k) for k in ERR_CORE]
    ops += [('slice', name) for name, _ in SLICES_CORE]
    ops += [('copy', n) for n in COPY_CORE] + TF_CORE + [('bin', '+', 'list3')]
    for o in '+-*':         # wave 6: the neutral scalars of each operator, both operand orders, and sum()
        ops += [('bin', o, k) for k in NEUTRAL_CORE[o]] + [('rbin', o, k) for k in NEUTRAL_CORE[o]]
    ops += [('sum', k) for k in SUM_CORE]
    return ops


def full_ops():
    ops = core_ops()
    for o in '+-*':
        ops += [('bin', o, k) for k in OPERAND_X if not (k == 'list3' and o == '+')]
        ops += [('rbin', o, k) for k in LEFT_X]
        ops += [('err', o, k) for k in ERR_X]
        ops += [('bin', o, k) for k in NEUTRAL_RIGHT[o] if k not in NEUTRAL_CORE[o]]
        ops += [('rbin', o, k) for k in NEUTRAL_LEFT[o] if k not in NEUTRAL_CORE[o]]
    ops += [('sum', k) for k in SUM_X]
    ops += [('slice', name) for name, _ in SLICES_X]
    ops += [('copy', n) for n in COPY_X] + TF_X
    return ops


def keep_ops():
    """prefixes that keep the sample dtype of a narrow leaf"""
    ops = [('slice', name) for name, _ in SLICES_CORE] + [('copy', None), ('copy', 1)]
    ops += [('bin', o, k) for o in '+-*' for k in ('obj@same', 'obj@samen', 'obj1@samen', 'self')]
    ops += [('rbin', '-', 'obj@same'), ('rbin', '-', 'obj1@samen')]
    ops += [('rbin', '+', 'obj1@same=0'), ('bin', '-', 'obj@same=0'), ('rbin', '*', 'obj1@same=1')]     # neutral, dtype-preserving
    return ops


def deep_ops(which='float'):
    if which == 'same':     # stays in the dtype of the leaf
        return [('bin', '+', 'obj@samen'), ('bin', '-', 'obj1@samen'), ('bin', '*', 'obj1@same'), ('rbin', '-', 'obj@same'),
                ('bin', '-', 'self'), ('slice', '1:'), ('slice', '::2'), ('slice', '::-1'), ('slice', 'int-1'), ('copy', None),
                ('rbin', '+', 'obj1@same=0'), ('bin', '*', 'obj1@same=1')]      # neutral: must reach the state copy() reaches, as a new object
    return [('bin', '+', 'objn'), ('bin', '-', 'obj1n'), ('bin', '*', 'float'), ('rbin', '-', 'list'), ('bin', '+', 'obj'),
            ('rbin', '+', 'obj1n'), ('slice', '1:'), ('slice', '::2'), ('slice', '::-1'), ('copy', None),
            ('rbin', '+', 'int0'), ('bin', '*', 'int1')]      # neutral (same remark)


OBJ_RE = re.compile(r'^obj(1|3)?(?:@([a-z0-9]+?))?([nz]?)(?:=([01]))?$')
NP_SCALARS = {'np@bool': np.True_, 'np@int8': np.int8(-2), 'np@uint8': np.uint8(3), 'np@int64': np.int64(3),
              'np@float16': np.float16(1.5), 'np@float32': np.float32(1.5), 'np@complex64': np.complex64(1 - 2j),
              'np@complex128': np.complex128(1 - 2j), 'npfloat': np.float64(1.5),
              '0d@float': np.array(1.5), '0d@int': np.array(3), '0d@complex': np.array(0.5 + 1j), '0d@uint8': np.array(3, dtype=np.uint8),
              'np@int64=0': np.int64(0), 'np@float64=0': np.float64(0.0), 'np@bool=0': np.False_,
              '0d@int=0': np.array(0), '0d@float=0': np.array(0.0),
              'np@int64=1': np.int64(1), 'np@float64=1': np.float64(1.0), '0d@int=1': np.array(1), '0d@float=1': np.array(1.0)}
PY_SCALARS = {'int': 2, 'float': 0.5, 'complex': (1 + 2j), 'bool': True,
              'int0': 0, 'float0': 0.0, 'float-0': -0.0, 'complex0': 0j, 'false': False, 'int1': 1, 'float1': 1.0, 'complex1': (1 + 0j)}


def vals(n, dt, noise=False):
    """operand samples of numpy dtype dt (small values, exact in every dtype, no wrap-around inside the operand)"""
    i = np.arange(n)
    k = np.dtype(dt).kind
    if k == 'b':
        return (i % 2 == 1) if noise else (i % 2 == 0)
    if k == 'u':
        return ((i % 2) if noise else (i % 5) + 1).astype(dt)
    if k == 'i':
        return ((1 - 2 * (i % 2)) if noise else (i % 5) - 2).astype(dt)
    if k == 'f':
        return (0.125 * (1 - 2 * (i % 2)) if noise else i * 0.5 - 1.0).astype(dt)
    return (0.125 * (1 - 2 * (i % 2)) * (1 + 1j) if noise else (i * 0.5 - 1.0) * (1 - 0.5j)).astype(dt)


def rows2(a, noise=False):
    k = a.dtype.kind
    if k == 'b':
        return np.array([a, ~a])
    if k == 'u':
        return np.array([a, 1 - a]) if noise else np.array([a, a[::-1] + np.ones(1, a.dtype)])
    return np.array([a, 3 * a]) if noise else np.array([a, 3 - a])


def operand(kind, m: M):
    """returns (python operand to hand to the library, model arrays S, N of the operand) or None when the kind
    does not apply to this left operand (2-row forms for a 1-pol object, longer operands for a length > 1)"""
    L = m.L
    two = m.cls == 'O2'
    mo = OBJ_RE.match(kind)
    if mo:
        ln, dt, nz, cv = mo.groups()
        if ln == '3' and L != 1:
            return None
        n = {None: L, '1': 1, '3': 3}[ln]
        if cv is not None:   # constant samples 0 / 1 (the neutral element as an object), optional all-zero noise
            S = np.full((2, n) if two else (n,), int(cv), dtype=float if dt is None else (m.S.dtype if dt == 'same' else np.dtype(dt)))
            N = np.zeros_like(S) if nz else None
            return build(m.cls, S, N), S, N
        if dt is None:       # the float64 operands of the first version
            S = np.array([3.0]) if ln == '1' else np.arange(n) * 0.5 - 1.0
            N = None if not nz else (np.array([0.25]) if ln == '1' else 0.125 * (1 - 2 * (np.arange(n) % 2)))
            if two:
                S = np.array([[3.0], [-1.5]]) if ln == '1' else np.array([S, 3 - S])
                N = None if N is None else (np.array([[0.25], [-0.5]]) if ln == '1' else np.array([N, 3 * N]))
        else:
            dt = m.S.dtype if dt == 'same' else np.dtype(dt)
            S = vals(n, dt) if ln != '1' else vals(4, dt)[3:]
            N = None if not nz else (vals(n, dt, True) if ln != '1' else vals(1, dt, True))
            if two:
                S = rows2(S)
                N = None if N is None else rows2(N, True)
        if nz == 'z':
            N = np.zeros_like(N)
        return build(m.cls, S, N), S, N
    if kind in PY_SCALARS:
        return PY_SCALARS[kind], np.array([PY_SCALARS[kind]]), None
    if kind in NP_SCALARS:
        w = NP_SCALARS[kind]
        w = w.copy() if isinstance(w, np.ndarray) else w
        return w, np.array(w)[np.newaxis], None
    if kind.endswith(('=0', '=1')):     # constant sequences (neutral elements)
        c = float(kind[-1])
        base = kind[:-2]
        if base in ('nd1', 'list1', 'tuple1', 'str'):
            a = np.array([c])
            return {'nd1': a.copy(), 'list1': [c], 'tuple1': (c,), 'str': str(int(c))}[base], (a == 1 if base == 'str' else a), None   # '0' / '1' is a bit pattern
        a = np.full(L, c)
        return (a.tolist() if base == 'list' else a.copy()), a, None
    v = np.arange(L) * 0.25 + 2.0
    if kind == 'list':
        return [float(x) for x in v], v, None
    if kind == 'tuple':
        return tuple(float(x) for x in v), v, None
    if kind == 'ndarray':
        return v.copy(), v, None
    if kind.startswith('nd@'):
        a = vals(L, dt_of(kind[3:]))
        return a.copy(), a, None
    if kind == 'nd-strided':
        base = np.arange(2 * L) * 0.25
        return base[::2], base[::2].copy(), None
    if kind in ('nd1', 'list1', 'str1'):
        return {'nd1': np.array([2.5]), 'list1': [2.5], 'str1': '2.5'}[kind], np.array([2.5]), None
    if kind in ('nd3', 'list3'):
        if L != 1:
            return None
        a = np.array([1.0, 2.0, 4.0])
        return (a.copy() if kind == 'nd3' else a.tolist()), a, None
    if kind in ('nd2', 'list2', 'str2', 'nd2x1'):
        if not two:
            return None
        if kind == 'nd2x1':
            a = np.array([[2.0], [-1.0]])
            return a.copy(), a, None
        a = np.array([v, v[::-1] - 4.0])
        if kind == 'nd2':
            return a.copy(), a, None
        if kind == 'list2':
            return a.tolist(), a, None
        return '; '.join(' '.join(repr(float(x)) for x in r) for r in a), a, None
    if kind == 'list-int':
        iv = (np.arange(L) % 5) - 2
        return [int(x) for x in iv], iv, None
    if kind == 'tuple-int':
        iv = (np.arange(L) % 5) - 2
        return tuple(int(x) for x in iv), iv, None
    if kind == 'list-complex':
        cv = (np.arange(L) * 0.5 - 1.0) * (1 - 0.5j)
        return [complex(x) for x in cv], cv, None
    if kind == 'list-bool':
        bv = np.arange(L) % 2 == 0
        return [bool(x) for x in bv], bv, None
    if kind == 'list-mixed':
        pool = [1, 2.5, 3j, True]
        return [pool[i % 4] for i in range(L)], np.array([complex(pool[i % 4]) for i in range(L)]), None
    if kind == 'str-int':
        iv = (np.arange(L) % 7) + 2
        return ' '.join(str(int(x)) for x in iv), iv, None
    if kind == 'str-comma':
        iv = (np.arange(L) % 7) + 2
        return ','.join(str(int(x)) for x in iv), iv, None
    if kind == 'str-float':
        fv = np.array([[1.5, -2.0, 0.25][i % 3] for i in range(L)])
        return ', '.join(repr(float(x)) for x in fv), fv, None
    if kind == 'str-complex':
        cv = np.array([[1 + 2j, 0.5j, 3][i % 3] for i in range(L)])
        txt = ' '.join(['1+2j', '0.5j', '3'][i % 3] for i in range(L))
        return txt, cv, None
    if kind == 'str-bits':
        bv = np.array([[1, 0, 1, 1, 0][i % 5] for i in range(L)])
        return ''.join(str(int(b)) for b in bv), bv == 1, None      # a bit pattern is read as a boolean array
    raise KeyError(kind)


def err_operand(kind, m: M):
    """an operand whose length differs from m.L, both >= 2 (None = not applicable); returns (operand, its length, reflected)"""
    L = m.L
    refl = kind.startswith('r:')
    kind = kind[2:] if refl else kind
    two = m.cls == 'O2'
    if kind in ('list-size', 'nd2+1'):
        if not two:
            return None
        if kind == 'nd2+1':
            return np.ones((2, L + 1)), L + 1, refl
        return [1.0] * (2 * L), 2 * L, refl       # as many elements as the 2-pol object has samples in total
    n = L + 1 if kind.endswith('+1') else L - 1
    if n < 2:
        return None
    base = kind[:-2]
    if base in ('obj', 'objn'):
        S = np.ones(n)
        N = 0.5 * S if base == 'objn' else None
        w = build(m.cls, np.array([S, S]) if two else S, None if N is None else (np.array([N, N]) if two else N))
    else:
        w = {'list': [1.0] * n, 'tuple': (1.0,) * n, 'nd': np.ones(n), 'str': ' '.join(['1.5'] * n)}[base]
    return w, n, refl


def arith(o, a, b):
    return a + b if o == '+' else a - b if o == '-' else a * b


def pick(sl, L):
    return sl(L) if callable(sl) else sl


def apply_op(x, m: M, op):
    with np.errstate(all='ignore'):
        return _apply_op(x, m, op)


def quiet(fn):
    """case functions run with warnings off (ComplexWarning of lossy casts, overflow in float16 chains)"""
    import functools

    @functools.wraps(fn)
    def g(case):
        with warnings.catch_warnings():
            warnings.simplefilter('ignore')
            return fn(case)
    return g


def _apply_op(x, m: M, op):
    """execute `op` on the real object x (whose model is m).
    returns (result object or None, model or None, violations, tag)"""
    E, O = lib()
    kind = op[0]
    viol = []
    tag = ':'.join(str(t) for t in op)
    sx = snap(x)
    try:
        if kind in ('bin', 'rbin'):
            o = op[1]
            if op[2] == 'self':
                w, wS, wN = x, m.S, m.N
            else:
                got = operand(op[2], m)
                if got is None:
                    return None, None, [], tag + ':n/a'
                w, wS, wN = got
            sw = snap(w)
            boolish = m.S.dtype.kind == 'b' or np.asarray(wS).dtype.kind == 'b'
            try:
                if kind == 'bin':
                    r = x + w if o == '+' else x - w if o == '-' else x * w
                    aS, aN, bS, bN = m.S, m.N, wS, wN
                else:
                    r = w + x if o == '+' else w - x if o == '-' else w * x
                    aS, aN, bS, bN = wS, wN, m.S, m.N
            except TypeError as e:
                # boolean samples are outside the quantifier (int/float/complex): numpy has no `-` for them
                if boolish and 'numpy boolean' in str(e):
                    if not (same(x, sx) and same(w, sw)):
                        viol.append((f'operand-modified:{tag}', 'operand changed by a rejected operation'))
                    return None, None, viol, tag + ':bool-algebra'
                raise
            L = max(m.L, np.shape(wS)[-1])
            viol += contract(r, m.cls, L, tag)
            viol += fresh(r, [x, w], tag)
            if not same(w, sw):
                viol.append((f'operand-modified:{tag}', 'right/left operand changed'))
            if viol:
                return None, None, viol, tag
            noisy = (aN is not None) or (bN is not None)
            if (r.noise is not None) != noisy:
                viol.append((f'noise-iff:{tag}', f'result noise present={r.noise is not None}, operands noisy={noisy}'))
            if o in '+-' and not total_field_ok(o, aS, aN, bS, bN, r):
                uns = any(np.asarray(p).dtype.kind == 'u' for p in (aS, aN, bS, bN) if p is not None)
                key = f'total-field:unsigned:{kind}:{o}' if uns else f'total-field:{tag}'
                viol.append((key, f'signal+noise of result != {"sum" if o == "+" else "difference"} of total fields '
                                  f'(dtypes {np.asarray(aS).dtype} {o} {np.asarray(bS).dtype})'))
            nm = M(m.cls, r.signal, r.noise)     # resynchronise (for * only the contract is stated)
        elif kind == 'sum':
            # built-in sum(items[, start]) = ((start + items[0]) + items[1]) ...; start defaults to the int 0
            names, _, start = op[1].partition('|')
            items, mods = [], []
            for nme in names.split(','):
                if nme == 'x':
                    items.append(x); mods.append((m.S, m.N))
                else:
                    w, wS, wN = operand(nme, m)
                    items.append(w); mods.append((wS, wN))
            st = None
            if start:
                st, stS, stN = operand(start, m)
                mods.insert(0, (stS, stN))
            held = items + ([st] if st is not None else [])
            sh = [snap(w) for w in held]
            r = sum(items) if st is None else sum(items, st)
            viol += contract(r, m.cls, m.L, tag)
            viol += fresh(r, held, tag)
            if not all(same(w, s0) for w, s0 in zip(held, sh)):
                viol.append((f'operand-modified:{tag}', 'an element of the summed list (or the start value) changed'))
            if viol:
                return None, None, viol, tag
            noisy = any(N is not None for _, N in mods)
            if (r.noise is not None) != noisy:
                viol.append((f'noise-iff:{tag}', f'result noise present={r.noise is not None}, elements noisy={noisy}'))
            # total field: fold all elements but the first into one model operand (exact for the small operand values; the
            # 8-eps band of total_field_ok covers the <= 2 extra roundings of a three-term float sum)
            with np.errstate(all='ignore'):
                bS = sum(np.asarray(S) for S, _ in mods[1:]) if len(mods) > 1 else np.array([0])
                bNs = [np.asarray(N) for _, N in mods[1:] if N is not None]
                bN = sum(bNs) if bNs else None
            if not total_field_ok('+', mods[0][0], mods[0][1], bS, bN, r):
                viol.append((f'total-field:{tag}', 'signal+noise of sum(...) != sum of the total fields of its elements'))
            nm = M(m.cls, r.signal, r.noise)
        elif kind == 'err':
            o = op[1]
            got = err_operand(op[2], m) if m.L >= 2 else None
            if got is None:
                return None, None, [], tag + ':n/a'
            w, n, refl = got
            sw = snap(w)
            try:
                if refl:
                    r = w + x if o == '+' else w - x if o == '-' else w * x
                else:
                    r = x + w if o == '+' else x - w if o == '-' else x * w
                viol.append((f'length-mismatch-accepted:{tag}', f'operands of lengths {m.L} and {n} did not raise ValueError'))
            except ValueError:
                pass
            if not (same(x, sx) and same(w, sw)):
                viol.append((f'operand-modified:{tag}', 'operand changed by a rejected operation'))
            return None, None, viol, tag
        elif kind == 'slice':
            sl = pick(dict(SLICES)[op[1]], m.L)
            if isinstance(sl, int):
                if not -m.L <= sl < m.L:
                    # nothing is selected: whatever comes back cannot be "exactly the selected samples"
                    try:
                        r = x[sl]
                    except (ValueError, IndexError):
                        return None, None, [], tag + ':out-of-range'
                    return None, None, [(f'slice-out-of-range-accepted:{tag}', f'index {sl} of a length-{m.L} object returned an object')], tag
                k = sl % m.L
                wantS = m.S[..., k:k + 1]
                wantN = None if m.N is None else m.N[..., k:k + 1]
            else:
                wantS = m.S[..., sl]
                wantN = None if m.N is None else m.N[..., sl]
            if wantS.shape[-1] == 0:
                try:
                    r = x[sl]
                except (ValueError, IndexError):
                    return None, None, [], tag + ':empty'
                viol += contract(r, m.cls, 0, tag)   # an empty object violates the contract
                return None, None, viol, tag
            r = x[sl]
            viol += contract(r, m.cls, wantS.shape[-1], tag)
            viol += fresh(r, [x], tag)
            if viol:
                return None, None, viol, tag
            if not exact(r.signal, wantS):
                viol.append((f'slice-signal:{tag}', 'slice does not return exactly the selected signal samples'))
            if (r.noise is None) != (wantN is None) or (wantN is not None and not exact(r.noise, wantN)):
                viol.append((f'slice-noise:{tag}', 'slice does not return exactly the selected noise samples'))
            nm = M(m.cls, wantS, wantN)
        elif kind == 'copy':
            n = op[1]
            n = m.L if n == 'L' else m.L - 1 if n == 'L-1' else n
            if n is not None and (n > m.L or (n == 0 and op[1] != 0)):
                return None, None, [], tag + ':n/a'
            if n == 0:
                try:
                    r = x.copy(0)
                except (ValueError, IndexError):
                    return None, None, [], tag + ':empty'
                return None, None, contract(r, m.cls, 0, tag), tag
            r = x.copy() if n is None else x.copy(n)
            k = m.L if n is None else n
            viol += contract(r, m.cls, k, tag)
            viol += fresh(r, [x], tag)
            if viol:
                return None, None, viol, tag
            if not exact(r.signal, m.S[..., :k]) or (m.N is None) != (r.noise is None) or \
                    (m.N is not None and not exact(r.noise, m.N[..., :k])):
                viol.append((f'copy-values:{tag}', 'copy differs from the original samples'))
            nm = M(m.cls, m.S[..., :k], None if m.N is None else m.N[..., :k])
        elif kind in ('tf', 'tfs'):
            r = x(op[1], shift=(kind == 'tfs'))
            viol += contract(r, m.cls, m.L, tag)
            viol += fresh(r, [x], tag)
            if viol:
                return None, None, viol, tag
            if (r.noise is not None) != (m.N is not None):
                viol.append((f'noise-iff:{tag}', 'transform changed noise presence'))
            nm = M(m.cls, r.signal, r.noise)    # values are C02's business
        else:
            raise KeyError(op)
    except Exception as e:  # library raised where the statement requires a result
        import traceback
        fr = [f for f in traceback.extract_tb(e.__traceback__) if '/opticomlib/' in f.filename]
        if not fr:
            raise
        cls_in = m.cls
        return None, None, [(f'raises:{type(e).__name__}:{tag}', f'{cls_in} len={m.L} dtype={m.S.dtype} noise={m.N is not None}: {type(e).__name__}: {str(e)[:150]}')], tag
    if not same(x, sx):
        viol.append((f'operand-modified:{tag}', 'left operand changed'))
    return r, nm, viol, tag


# ------------------------------------------------------------------ case functions
def leaf(spec):
    """build the leaf; returns (object, model, violations of the constructor on this leaf)"""
    cls, L, dtype, noise = spec
    S, N = leaf_arrays(cls, L, dtype, noise)
    sS, sN = snap(S), (None if N is None else snap(N))
    x = build(cls, S, N)
    v = contract(x, cls, L, 'leaf') + fresh(x, [S] + ([] if N is None else [N]), 'leaf')
    if not v:
        if not same(S, sS) or (N is not None and not same(N, sN)):
            v.append(('operand-modified:leaf', 'constructor modified its argument'))
        if (x.noise is None) != (N is None):
            v.append(('leaf:noise-presence', f'noise given={N is not None} stored={x.noise is not None}'))
        elif not exact(x.signal.astype(complex), S.astype(complex)) or (N is not None and not exact(x.noise.astype(complex), N.astype(complex))):
            v.append(('leaf:values', 'stored samples differ from the given ones'))
    return x, M(cls, x.signal, x.noise), [(k, f'leaf={spec}: {msg}') for k, msg in v]


def h64(t):
    import hashlib
    return int.from_bytes(hashlib.blake2b(repr(t).encode(), digest_size=8).digest(), 'little')


ALPHABETS = {'full': full_ops, 'core': core_ops}


@quiet
def wide(case):
    """case = (leaf spec, prefix of ops[, final alphabet]); applies the prefix, then EVERY op of the final alphabet
    to the one object the prefix produced (a sweep on one shared, write-protected input)"""
    spec, prefix = case[0], case[1]
    ops = ALPHABETS[case[2] if len(case) > 2 else 'full']()
    x, m, viol = leaf(spec)
    if any(k.startswith(('contract', 'alias')) for k, _ in viol):
        return res(viol=viol, obs=('bad-leaf',))
    for p in prefix:
        x, m, v, tag = apply_op(x, m, tuple(p))
        if x is None:
            return res(viol=[], obs=('dead', tag))
    states = []
    obs = []
    for op in ops:
        r, nm, v, tag = apply_op(x, m, op)
        for k, msg in v:
            viol.append((k, f'leaf={spec} prefix={[tuple(p) for p in prefix]} op={op}: {msg}'))
        if r is not None:
            c = canon_obj(r)
            states.append(h64(c))
            obs.append(h64(c))
        else:
            obs.append(tag)
    return res(viol=viol, obs=tuple(obs), nontrivial=(spec[0] == 'O2' or bool(spec[3]) or spec[1] == 1),
               stats={'transitions': len(ops)}, payload=np.array(states, dtype=np.uint64))


@quiet
def deep(case):
    """DFS of all programs of depth <= D over a reduced alphabet from one leaf"""
    spec, D = case[0], case[1]
    ops = deep_ops(case[2] if len(case) > 2 else 'float')
    x0, m0, viol = leaf(spec)
    states = set()
    trans = 0
    maxd = 0

    def rec(x, m, d, path):
        nonlocal trans, maxd
        maxd = max(maxd, d)
        if d == D:
            return
        for op in ops:
            r, nm, v, tag = apply_op(x, m, op)
            trans += 1
            for k, msg in v:
                if len(viol) < 50:
                    viol.append((k, f'leaf={spec} path={path + [op]}: {msg}'))
            if r is None:
                continue
            c = h64(canon_obj(r))
            if c in states:
                continue
            states.add(c)
            rec(r, nm, d + 1, path + [op])

    rec(x0, m0, 0, [])
    return res(viol=viol, obs=tuple(sorted(states)), nontrivial=True, stats={'transitions': trans, 'deep_max_depth': maxd},
               payload=np.array(sorted(states), dtype=np.uint64))


def grid(case):
    """nothing in the statement's scope reads the global grid: the same sweep after gv was configured differently
    (integer and non-integer fs/R, another wavelength, N set) must give byte-identical results"""
    from mcx.core.env import gv_reset
    spec, kw = case
    gv_reset()
    ref = wide((spec, [], 'core'))
    gv_reset(**dict(kw))
    out = wide((spec, [], 'core'))
    gv_reset()
    viol = list(out['viol'])
    if ref['obs'] != out['obs']:
        viol.append(('grid-dependence', f'leaf={spec} gv({dict(kw)}): results differ from the default grid'))
    return res(viol=viol, obs=out['obs'], nontrivial=('grid', kw))


# ------------------------------------------------------------------ constructors
def ctor(case):
    """every constructor form: container form x noise form x dtype= x (n_pol x input rank)"""
    E, O = lib()
    cls, form, nform, dt, npol, rank = case
    viol = []
    L = 3
    base = np.array([1.0, -2.0, 0.5])
    nb = np.array([0.25, -0.25, 0.5])
    dtmap = {None: None, 'int': int, 'float': float, 'complex': complex}

    def shape(a):
        if rank == '0d':
            return np.array(a[0])
        if rank == '1d':
            return a
        if rank == '1xN':
            return a[np.newaxis]
        return np.array([a, -a])

    def contain(a, f):
        if f == 'ndarray':
            return np.array(a)
        if f in ('list', 'tuple') and a.ndim == 0:
            return None      # a 0-d value has no list/tuple spelling
        if f == 'list':
            return a.tolist()
        if f == 'tuple':
            return tuple(a.tolist()) if a.ndim <= 1 else tuple(tuple(r) for r in a.tolist())
        if f == 'scalar':
            return float(a) if a.ndim == 0 else None
        if f == 'str':
            if a.ndim == 2 and a.shape[0] == 1:
                return None      # a 1xN matrix has no textual spelling distinct from the 1-D one
            if a.ndim == 0:
                return repr(float(a))
            if a.ndim == 1:
                return ' '.join(repr(float(v)) for v in a)
            return '; '.join(' '.join(repr(float(v)) for v in r) for r in a)
    if cls == 'E' and rank in ('1xN', '2xN'):
        # 2-D input is invalid for electrical_signal: must raise ValueError
        arg = contain(shape(base), form if form != 'scalar' else 'list')
        if arg is None:
            return res(obs='n/a')
        try:
            E(arg)
            return res(viol=[('ctor:E-accepts-2D', f'{case}')], obs='accepted')
        except ValueError:
            return res(obs='ValueError', nontrivial=('ctor', 'E2D'))
    s_in = contain(shape(base), form)
    if s_in is None:
        return res(obs='n/a')
    n_in = None if nform is None else contain(shape(nb), nform)
    if nform is not None and n_in is None:
        return res(obs='n/a')
    keep = [a for a in (s_in, n_in) if isinstance(a, np.ndarray)]
    snaps = [snap(a) for a in keep]
    kw = {}
    if dt is not None:
        kw['dtype'] = dtmap[dt]
    if cls != 'E' and npol is not None:
        kw['n_pol'] = npol
    try:
        x = E(s_in, n_in, **kw) if cls == 'E' else O(s_in, n_in, **kw)
    except (ValueError, TypeError) as e:
        # a constructor may reject a form; what it must never do is return an object violating the contract.
        return res(obs=('rejected', type(e).__name__), stats={'ctor_rejected': 1})
    # expected layout
    if cls == 'E':
        want_cls, Lw = 'E', (1 if rank == '0d' else L)
    else:
        np_eff = npol if npol is not None else (1 if rank in ('0d', '1d') else 2)
        want_cls, Lw = ('O1' if np_eff == 1 else 'O2'), (1 if rank == '0d' else L)
    viol += contract(x, want_cls, Lw, 'ctor')
    viol += fresh(x, keep, 'ctor')
    for a, s in zip(keep, snaps):
        if not same(a, s):
            viol.append(('operand-modified:ctor', 'constructor modified its argument'))
    if (x.noise is not None) != (n_in is not None):
        viol.append(('ctor:noise-presence', f'noise given={n_in is not None} stored={x.noise is not None}'))
    if not viol:
        # values: row 0 must be the given samples (cast to dtype)
        ref = shape(base)
        if dt == 'int':
            ref = ref.astype(int)
        row = x.signal if x.signal.ndim == 1 else x.signal[0]
        ref0 = ref if ref.ndim <= 1 else ref[0]
        if not close(row, np.atleast_1d(ref0)):
            viol.append(('ctor:values', 'stored signal differs from the given samples'))
        if x.noise is not None and x.noise.dtype != x.signal.dtype:
            viol.append(('ctor:dtype-unification', f'{x.signal.dtype} vs {x.noise.dtype}'))
    viol = [(k, f'{case}: {m}') for k, m in viol]
    return res(viol=viol, obs=canon_obj(x), nontrivial=('ctor', cls, rank, npol, nform is not None))


ALL_DT = ('bool', 'int8', 'uint8', 'int16', 'int32', 'int64', 'float16', 'float32', 'float64', 'complex64', 'complex128')
CTOR_KW = (None, 'float32', 'complex64', 'int16')


def ctor_dt(case):
    """ndarray arguments of every sample dtype: signal dtype x noise dtype (or none) x dtype= x class x rank.
    Same-dtype pairs are the ones for which a lazy cast (`astype(copy=False)`, `asarray`) hands the caller's buffer on."""
    E, O = lib()
    cls, rank, sdt, ndt, kwdt = case

    def arr(dt, noise):
        a = np.array([1, 0, 1] if noise else [1, 2, 3])
        k = np.dtype(dt).kind
        a = (a == 1) if k == 'b' else a * (0.5 if k == 'f' else (0.5 - 0.25j) if k == 'c' else 1)
        a = a.astype(dt)
        return np.array(a[0]) if rank == '0d' else (np.array([a, a[::-1]]) if rank == '2xN' else a)

    S = arr(sdt, False)
    N = None if ndt is None else arr(ndt, True)
    keep = [S] + ([] if N is None else [N])
    snaps = [snap(a) for a in keep]
    kw = {} if kwdt is None else {'dtype': np.dtype(kwdt) if kwdt != 'complex64' else 'complex64'}
    with warnings.catch_warnings():
        warnings.simplefilter('ignore')
        try:
            x = E(S, N, **kw) if cls == 'E' else O(S, N, **kw)
        except (ValueError, TypeError) as e:
            return res(obs=('rejected', type(e).__name__), stats={'ctor_rejected': 1})
    want_cls = 'E' if cls == 'E' else ('O2' if rank == '2xN' else 'O1')
    viol = contract(x, want_cls, 1 if rank == '0d' else 3, 'ctor-dt') + fresh(x, keep, 'ctor-dt')
    for a, s in zip(keep, snaps):
        if not same(a, s):
            viol.append(('operand-modified:ctor-dt', 'constructor modified its argument'))
    if (x.noise is not None) != (N is not None):
        viol.append(('ctor:noise-presence', f'noise given={N is not None} stored={x.noise is not None}'))
    if not viol:
        if x.noise is not None and x.noise.dtype != x.signal.dtype:
            viol.append(('ctor:dtype-unification', f'{x.signal.dtype} vs {x.noise.dtype}'))
        common = np.result_type(*keep)
        if kwdt is None or np.can_cast(common, np.dtype(kwdt), 'safe'):     # a lossy dtype= is the caller's choice
            if not exact(x.signal.astype(complex), np.atleast_1d(S).astype(complex)) or \
                    (N is not None and not exact(x.noise.astype(complex), np.atleast_1d(N).astype(complex))):
                viol.append(('ctor:values', 'stored samples differ from the given ones'))
    return res(viol=[(k, f'{case}: {m}') for k, m in viol], obs=canon_obj(x), nontrivial=('ctor-dt', cls, rank, sdt, ndt, kwdt))


def forms():
    """special spellings: label -> (class, args, kwargs, expectation) with expectation
    ('ok', layout, signal, noise) | 'reject' (no object may come back) | 'either' (rejected, or an object that keeps the contract)"""
    E, O = lib()
    from opticomlib.typing import binary_sequence
    e3 = E([1.0, 2.0, 3.0])
    A = np.array
    return {
        'str-comma': ('E', ('1,2,3',), {}, ('ok', 'E', A([1, 2, 3]), None)),
        'str-comma-space': ('E', ('1, 2  3',), {}, ('ok', 'E', A([1, 2, 3]), None)),
        'str-whitespace': ('E', ('1\t2\n3',), {}, 'either'),
        'str-complex-ij': ('E', ('1+2i 3-4j',), {}, ('ok', 'E', A([1 + 2j, 3 - 4j]), None)),
        'str-bits': ('E', ('1011',), {}, ('ok', 'E', A([1, 0, 1, 1]), None)),
        'str-bits-noise': ('O', ('1011', '0.5 0 0 0.25'), {}, ('ok', 'O1', A([1, 0, 1, 1]), A([0.5, 0, 0, 0.25]))),
        'str-rows': ('O', ('1 2; 3 4',), {}, ('ok', 'O2', A([[1, 2], [3, 4]]), None)),
        'str-rows-noise': ('O', ('1.5 2;3 4', '0.5 0; 0 0.25'), {}, ('ok', 'O2', A([[1.5, 2], [3, 4]]), A([[0.5, 0], [0, 0.25]]))),
        'str-bit-rows': ('O', ('10;01',), {}, ('ok', 'O2', A([[1, 0], [0, 1]]), None)),
        'str-rows-E': ('E', ('1 2; 3 4',), {}, 'reject'),
        'str-npol2': ('O', ('1 2 3',), {'n_pol': 2}, ('ok', 'O2', A([[1, 2, 3], [1, 2, 3]]), None)),
        'str-rows-npol1': ('O', ('1 2; 3 4',), {'n_pol': 1}, ('ok', 'O1', A([1, 2]), None)),
        'str-empty': ('E', ('',), {}, 'reject'),
        'str-blank': ('E', (' ',), {}, 'reject'),
        'py-int': ('E', (2,), {}, ('ok', 'E', A([2]), None)),
        'py-bool': ('E', (True,), {}, ('ok', 'E', A([1]), None)),
        'py-complex-noise-int': ('E', (1 + 2j, 3), {}, ('ok', 'E', A([1 + 2j]), A([3]))),
        'py-float-O': ('O', (2.5, 0.5), {}, ('ok', 'O1', A([2.5]), A([0.5]))),
        'py-float-O-npol2': ('O', (2.5,), {'n_pol': 2}, ('ok', 'O2', A([[2.5], [2.5]]), None)),
        'py-float-noise-O-npol2': ('O', (2.5, 0.5), {'n_pol': 2}, 'either'),
        'np-float32': ('E', (np.float32(2), np.float32(1)), {}, ('ok', 'E', A([2]), A([1]))),
        'np-int8': ('E', (np.int8(-3),), {}, ('ok', 'E', A([-3]), None)),
        'np-int8-npol2': ('O', (np.int8(-3),), {'n_pol': 2}, ('ok', 'O2', A([[-3], [-3]]), None)),
        'np-complex64-float16': ('E', (np.complex64(1 + 1j), np.float16(0.5)), {}, ('ok', 'E', A([1 + 1j]), A([0.5]))),
        'np-0d': ('E', (np.array(2), np.array(1)), {}, ('ok', 'E', A([2]), A([1]))),
        'list-np-scalars': ('E', ([np.float32(1), np.int8(2)],), {}, ('ok', 'E', A([1, 2]), None)),
        'range': ('E', (range(3),), {}, ('ok', 'E', A([0, 1, 2]), None)),
        'kw-float32': ('E', ([1, 2], [1, 2]), {'dtype': np.float32}, ('ok', 'E', A([1, 2]), A([1, 2]))),
        'kw-str-complex64': ('O', ([[1, 2], [3, 4]],), {'dtype': 'complex64'}, ('ok', 'O2', A([[1, 2], [3, 4]]), None)),
        'empty-E': ('E', ([],), {}, 'reject'),
        'empty-O': ('O', ([],), {}, 'reject'),
        'empty-rows-O': ('O', ([[], []],), {}, 'reject'),
        'empty-noise': ('E', ([], []), {}, 'reject'),
        'ragged-E': ('E', ([[1, 2], [3]],), {}, 'reject'),
        'ragged-O': ('O', ([[1, 2], [3]],), {}, 'reject'),
        '3d-O': ('O', (np.ones((2, 2, 2)),), {}, 'reject'),
        '3rows-O': ('O', (np.ones((3, 2)),), {}, 'reject'),
        '3rows-npol1-O': ('O', (np.ones((3, 2)),), {'n_pol': 1}, 'reject'),
        'noise-shorter': ('O', ([1, 2], [1]), {}, 'reject'),
        'noise-longer': ('E', ([1, 2], [1, 2, 3]), {}, 'reject'),
        'noise-1d-signal-2d': ('O', ([[1, 2], [3, 4]], [1, 2]), {}, 'either'),
        'noise-2d-signal-1d': ('O', ([1, 2], [[.1, .2], [.3, .4]]), {}, 'either'),
        'noise-scalar-signal-1d': ('E', ([1, 2, 3], 0.5), {}, 'either'),
        'noise-2d-E': ('E', ([1, 2], [[1, 2], [3, 4]]), {}, 'reject'),
        'own-E': ('E', (e3,), {}, 'either'),
        'own-E-in-O': ('O', (e3,), {}, 'either'),
        'own-binary_sequence': ('E', (binary_sequence('1011'),), {}, 'either'),
    }


def ctor_form(label):
    E, O = lib()
    cls, args, kw, exp = forms()[label]
    keep = [a for a in args if isinstance(a, (np.ndarray, E))]
    snaps = [snap(a) for a in keep]
    with warnings.catch_warnings():
        warnings.simplefilter('ignore')
        try:
            x = (E if cls == 'E' else O)(*args, **kw)
        except Exception as e:
            if isinstance(exp, tuple):
                return res(viol=[(f'ctor-form:rejected:{label}', f'{type(e).__name__}: {str(e)[:120]}')], obs=('raised', type(e).__name__))
            return res(obs=('raised', type(e).__name__), nontrivial=('ctor-form', label))
    if exp == 'reject':
        return res(viol=[(f'ctor-form:accepted-invalid:{label}', f'returned signal shape {getattr(x.signal, "shape", None)}')], obs='accepted')
    if exp == 'either':
        viol = contract_any(x, f'ctor-form:{label}')
    else:
        _, lay, S, N = exp
        viol = contract(x, lay, S.shape[-1], f'ctor-form:{label}')
        if not viol:
            if (x.noise is None) != (N is None):
                viol.append((f'ctor:noise-presence:{label}', f'noise given={N is not None} stored={x.noise is not None}'))
            elif not exact(x.signal.astype(complex), S.astype(complex)) or (N is not None and not exact(x.noise.astype(complex), N.astype(complex))):
                viol.append((f'ctor:values:{label}', f'stored {x.signal.tolist()} / {None if x.noise is None else x.noise.tolist()}'))
    viol += fresh(x, keep, f'ctor-form:{label}')
    for a, s in zip(keep, snaps):
        if not same(a, s):
            viol.append((f'operand-modified:ctor-form:{label}', 'constructor modified its argument'))
    return res(viol=viol, obs=canon_obj(x) if isinstance(getattr(x, 'signal', None), np.ndarray) else 'odd', nontrivial=('ctor-form', label))


# ------------------------------------------------------------------ driver
REGRESS_WIDE = [
    (('E', 3, 'float', False), []),      # noise-free x + noisy length-1 y (DESIGN 8 #1), length-1 object on the left (#2)
    (('O2', 2, 'complex', False), []),
    (('E', 1, 'float', True), []),
]
GRIDS = [(('sps', 8), ('R', 1e9)), (('sps', 16), ('fs', 33.3e9), ('wavelength', 1310e-9)), (('R', 3e9), ('fs', 10e9), ('N', 7))]


def run(ctx):
    ops = full_ops()
    core = core_ops()
    keep = keep_ops()
    base = [(c, L, d, n) for c in CLS for L in LENGTHS for d in DTYPES for n in (False, True)]
    narrow = [(c, L, d, n) for c in CLS for L in LENGTHS for d in NARROW_DT for n in (False, True)]
    seeded = (f'float~{ctx.seed}', f'complex~{ctx.seed}')
    scaled = [(c, L, d, n) for c in CLS for L in (1, 3, 64) for d in SCALED_DT + seeded for n in (False, True)]
    noisex = [(c, L, d, n) for c in CLS for L in (1, 2, 5) for d in DTYPES + ('uint8', 'float32') for n in NOISE_X
              if not (n == 'row0' and c != 'O2')]
    longer = [(c, L, d, True) for c in CLS for L in LENGTHS_X for d in ('float', 'uint8', 'complex64')]
    extra = narrow + scaled + noisex + longer
    leaves = base + extra
    ctx.space('leaves', len(leaves))
    ctx.space('leaves.base', len(base))
    ctx.space('ops.full', len(ops))
    ctx.space('ops.core', len(core))
    ctx.space('ops.deep', len(deep_ops()))
    ctx.space('ops.neutral', sum(1 for op in ops if op[0] == 'sum' or (op[0] in ('bin', 'rbin') and op[2] in
                                 NEUTRAL_RIGHT[op[1]] + NEUTRAL_LEFT[op[1]])))
    ctx.rule('explicit-state search over operator programs on the real objects in lock-step with an (S,N) array-pair model: '
             'wide-shallow = every op of the full alphabet (3 binary operators x (15+56 right-operand kinds: second objects of '
             'the same length / length 1 / the same dtype / narrow dtypes / all-zero noise / the object itself, Python and numpy '
             'scalars, 0-d arrays, ndarrays of 10 dtypes, strided and 2-row arrays, lists, tuples, strings) + 30 reflected kinds '
             '+ 12 length-mismatch operands + the neutral element of each operator in every spelling on both sides (0 / 0.0 / '
             '-0.0 / 0j / False / numpy scalars / 0-d arrays / constant arrays, lists, strings / all-zero objects for + and -, '
             'the ones for *: 21+14 right and 14+8 left kinds) + 14 built-in sum() forms, 26 slice forms incl. first/last legal and first illegal index, copy()/copy(n), '
             '6 transforms) applied to one shared write-protected object after every prefix of depth <= D_w-1 over the core '
             'alphabet from every base leaf (3 layouts x 6 lengths x int64/float64/complex128 x noise absent/present), and '
             'after every dtype-preserving prefix from the extra leaves (8 narrow dtypes incl. bool/unsigned, 6 scale/offset '
             'variants, 2 seeded random fields, noise all-zero / of another dtype / in one row only, lengths 13 and 127); '
             'narrow-deep = every program of depth <= D_d over two 10-op alphabets (float64 operands; operands of the '
             'leaf\'s own dtype); constructor forms enumerated as full products (containers x noise forms x dtype= x n_pol x '
             'rank; ndarray dtype x noise dtype x dtype=) plus a list of special spellings and invalid forms')
    ctx.assume('boolean samples are outside the quantified dtypes: where numpy itself has no operation for them '
               '(boolean `-`) a TypeError is accepted, and the total-field clause is not asserted on all-boolean operands')
    for c in REGRESS_WIDE:
        ctx.run_case('regress', wide, c)

    # constructor forms
    cc = []
    for cls in CLS[:2]:
        for form, nform, dt in itertools.product(['ndarray', 'list', 'tuple', 'str', 'scalar'], [None, 'ndarray', 'list', 'str', 'scalar'],
                                                 [None, 'int', 'float', 'complex']):
            for rank in ['0d', '1d', '1xN', '2xN']:
                for npol in ([None] if cls == 'E' else [None, 1, 2]):
                    cc.append(('E' if cls == 'E' else 'O', form, nform, dt, npol, rank))
    ctx.pmap('ctor', ctor, cc)
    cd = [(cls, rank, s, n, kw) for cls in ('E', 'O') for rank in (('0d', '1d') if cls == 'E' else ('0d', '1d', '2xN'))
          for s in ALL_DT for n in (None,) + ALL_DT for kw in CTOR_KW]
    ctx.pmap('ctor-dt', ctor_dt, cd)
    ctx.pmap('ctor-form', ctor_form, sorted(forms()))
    ctx.pmap('grid', grid, [(c[0], g) for c in REGRESS_WIDE for g in GRIDS])

    Dw = 2 if ctx.quick else 3
    allstates = []
    trans = 0
    # depth 1: the full alphabet on every leaf.  depth 2 from the base leaves: core prefix + core op (quick), plus
    # core prefix + full alphabet and new-op prefix + core op (thorough); dtype-preserving prefix + full alphabet from
    # the extra leaves (quick: the noisy length-3 leaves of the narrow dtypes)
    cases = [(lf, []) for lf in leaves]
    cases += [(lf, [p], 'core') for lf in base for p in core]
    x2 = [lf for lf in narrow if lf[1] == 3 and lf[3]] if ctx.quick else extra
    cases += [(lf, [p]) for lf in x2 for p in keep]
    if not ctx.quick:
        cases += [(lf, [p]) for lf in base for p in core]
        cases += [(lf, [p], 'core') for lf in base for p in ops[len(core):]]
    if Dw == 3:
        l3 = [lf for lf in base if lf[1] in (1, 3, 64) and lf[2] != 'int']
        cases += [(lf, [p, q], 'core') for lf in l3 for p in core for q in core]
    pl = ctx.pmap('wide', wide, cases, horizon=120)
    allstates += [p for p in pl if p is not None]
    Dd = 4 if ctx.quick else 6
    dleaves = base if ctx.quick else [lf for lf in base if lf[1] in (1, 2, 5) and lf[2] in ('float', 'complex')]
    sleaves = [lf for lf in narrow if lf[1] in ((2, 3, 5) if ctx.quick else (1, 2, 3, 5, 7))]      # same-dtype alphabet: cheap
    dcases = [(lf, Dd) for lf in dleaves] + [(lf, 5 if ctx.quick else 6, 'same') for lf in sleaves]
    pl = ctx.pmap('deep', deep, dcases, horizon=900, chunk=1, recheck=1)
    allstates += [p for p in pl if p is not None]
    st = np.unique(np.concatenate(allstates)) if allstates else np.array([])
    trans = ctx.stats.get('transitions', 0)
    ctx.graph(states=int(st.size) + len(leaves), transitions=int(trans))
    ctx.extra['bounds'] = {'wide_depth': Dw, 'deep_depth': Dd, 'leaves': len(leaves), 'deep_leaves': len(dcases)}
    # distinct non-trivial = distinct canonical states reached (beyond the per-case tags)
    ctx.nt_tags.update(('state', int(s)) for s in st[:50000])
