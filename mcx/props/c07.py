"""C07 - linear propagation (DM, FIBER with gamma = 0) is an exact all-pass that is additive in length.

Three exhaustively enumerated parts, all on the REAL `opticomlib.devices.DM` / `FIBER`:

A  `basis`  for every grid (N, layout, gv configuration) and every device parameter point: the FULL basis
            e_k, j*e_k (which determines the linear operator), ones, a seeded random field, a noisy
            field, one-sided 2-pol fields and (N = 16) every superposition a*e_i + b*e_j, i < j,
            a, b in {1, -2+j}.  Oracle: out == ifft(fft(in) * H) row-wise with
            H = 10^(-alpha*L/20) * exp(-j*beta2*L*w^2/2 - j*beta3*L*w^3/6), w = 2*pi*fftfreq(N)*fs;
            the operator is recovered from the basis responses (F M F^-1 must be diagonal) and
            compared with what `retH` returns; DM energy; loss law; layout.
B  `laws`   DM(D1) o DM(D2) == DM(D1+D2) for all ordered pairs (D1 = -D2: identity),
            FIBER(L, beta2) == DM(beta2*L), FIBER(L2) o FIBER(L1) == FIBER(L1+L2) for every fibre.
C  `seq`    explicit-state search over span sequences (6-span alphabet, depth <= 2 quick / <= 3
            thorough): the model state is the exact accumulated triple (sum beta2*L, sum beta3*L,
            sum alpha*L); every transition is executed on the implementation by chaining the real
            output objects; the reached field must equal (a) the model filter of the triple applied to
            the input, (b) the field reached by the single equivalent span, (c) the field reached by
            the first (shortest) history with the same model state.

D  `forms`  deviation lattice around 5 base devices on a thin set of grids: sample dtype / container of the input
            field (bool ... complex128, list, tuple, str), every scalar spelling of D / length / alpha / beta_2 /
            beta_3 / gamma (Python int and float, numpy scalars, 0-d arrays; one argument at a time and all at
            once), positional calls, phi_max, show_progress, retH spellings (output field AND H), amplitude
            scale 1e-100 ... 1e100 and a large DC offset, noise layouts (shape only), parameter sweeps on ONE
            write-protected input object, the same argument objects used twice, and the same call repeated
            after gv was reconfigured.  Same oracle as part A.

Lengths: the operator is recovered from the FULL basis for the short lengths; the long ones (quick: 97, 127, 206 = 2*103,
4097 = 17*241, 8192; thorough adds 1023 ... 16384) run in *probe* mode: e_k, j*e_k for k in {0, 1, N/2, N-1}, ones,
random, one-sided fields; the applied response is then read off the response to e_0 (fft(out)/fft(in)).

The sampling rate of the statement is `gv.fs`.  A gv configuration is a *call history* (GVCONF): besides
gv(sps=, R=) every call form of gv() is enumerated - sps+fs, R+fs with an integer and with a non-integer
ratio (rounded down / up / half-to-even), fs alone, sps alone, a slot count N in force, and two-call
histories - so that gv.fs, gv.sps*gv.R and the grid of gv.w are pairwise different on part of the alphabet;
the oracle of every part uses gv.fs only.

Units (read from the docstrings): DM takes D in ps^2; FIBER takes length km, alpha dB/km,
beta_2 ps^2/km, beta_3 ps^3/km.  The noise component is outside the statement (both blocks pass it
unfiltered): only its shape is looked at.
"""
from __future__ import annotations

import hashlib
import itertools
import math
from fractions import Fraction

import numpy as np

from mcx.core.kernel import res
from mcx.core.env import gv_reset

ID = 'C07'
LEVEL = 'model_checking'
NONTRIVIAL = ('cases whose filter differs from the identity (accumulated beta2*L, beta3*L or alpha*L non-zero); '
              'tag = (part, grid, device parameters / span sequence)')

# --------------------------------------------------------------------------- tolerances (all justified in notes/C07.md)
EPS = float(np.finfo(float).eps)
C_FFT = 64.0      # per stage (fft, multiply, ifft), N <= 256: worst-case bound of two pocketfft passes is < 128 u = 64 eps
                  # (N > 256: grows with the number of butterfly passes ~ log2 N, see cfft())
C_PH = 16.0       # phase argument theta = beta*L*w^n/n! is computed by the code with <= 20 roundings (u = eps/2) -> <= 10 eps * |theta|
LOSS_BAND = 2e-4  # P_out/P_in vs 10^(-alpha*L/10): the code's alpha/4.343 constant (DESIGN 2, 5/C07); valid for sum alpha*L <= 60 dB
ENERGY_REL = 1e-13  # DM energy: >= 2 * 64 eps (norm preservation of the two FFTs) + summation rounding
HORIZON = 60.0



def cfft(N):
    """rounding constant of one stage for length N: 64 eps up to N = 256 = 2^8, proportional to log2(N) beyond (the
    worst-case bound of a mixed-radix / Bluestein FFT is linear in the number of passes)"""
    return C_FFT * max(1.0, math.log2(max(N, 2)) / 8.0)


LD = np.longdouble
PI_LD = LD(4) * np.arctan(LD(1))

# gv configuration = call history after gv.clean() -> the gv.fs it must leave in force.  The docstring of gv():
# "sps and R or fs given: the missing one is calculated; R and fs given: sps is calculated; only fs given: sps is
# calculated from the instance's R" - a given fs is the sampling rate in force, otherwise fs = R*sps.
# (defaults after clean(): sps = 16, R = 1e9.)  Third entry: the sps*R the documented rounding leaves behind
# (informative only - it is what makes the configuration distinguish gv.fs from gv.sps*gv.R; never asserted).
FSCONF = {
    # --- form sps+R (fs == sps*R)
    '16G': ([dict(sps=16, R=1e9)], 16e9, 16e9),
    '160G': ([dict(sps=16, R=10e9)], 160e9, 160e9),
    '320G': ([dict(sps=32, R=10e9)], 320e9, 320e9),
    '40G': ([dict(sps=4, R=10e9)], 40e9, 40e9),
    '1280G': ([dict(sps=128, R=10e9)], 1280e9, 1280e9),
    # --- the other call forms
    'sps+fs:100G': ([dict(sps=8, fs=100e9)], 100e9, 100e9),                    # R := 12.5e9
    'sps:32G': ([dict(sps=32)], 32e9, 32e9),                                   # R stays at the default 1e9
    'R+fs:80G': ([dict(R=10e9, fs=80e9)], 80e9, 80e9),                         # integer ratio
    'R+fs:25G/10G': ([dict(R=10e9, fs=25e9)], 25e9, 20e9),                     # ratio 2.5 -> sps 2 (half to even): fs > sps*R
    'R+fs:28G/10G': ([dict(R=10e9, fs=28e9)], 28e9, 30e9),                     # ratio 2.8 -> sps 3: fs < sps*R
    'R+fs:33G/2.5G': ([dict(R=2.5e9, fs=33e9)], 33e9, 32.5e9),                 # ratio 13.2 -> sps 13
    'fs:40G': ([dict(fs=40e9)], 40e9, 40e9),                                   # fs alone, integer multiple of the default R
    'fs:24.5G': ([dict(fs=24.5e9)], 24.5e9, 24e9),                             # fs alone, ratio 24.5 -> sps 24
    'N8:160G': ([dict(sps=16, R=10e9, N=8)], 160e9, 160e9),                    # gv.N/gv.t/gv.w (128 points) in force, signal lengths differ
    'wl1310:160G': ([dict(sps=16, R=10e9, wavelength=1310e-9)], 160e9, 160e9),   # another carrier: the filter is a baseband filter, unchanged
    # --- two-call histories
    'sps+R,fs:25G': ([dict(sps=16, R=10e9), dict(fs=25e9)], 25e9, 20e9),       # fs alone against the R of the first call
    'R+fs,sps+R:40G': ([dict(R=10e9, fs=25e9), dict(sps=4, R=10e9)], 40e9, 40e9),   # leaving an incommensurate state
    'R+fs,sps:40G': ([dict(R=10e9, fs=25e9), dict(sps=4)], 40e9, 40e9),        # sps alone against the R of the first call
    'N4,R+fs:28G': ([dict(sps=16, R=1e9, N=4), dict(R=10e9, fs=28e9)], 28e9, 30e9),   # N persists: gv.w has 4*3 points on 28e9
}
FS_BASE_QUICK = ['16G', '160G', '320G']
FS_BASE_THOROUGH = ['40G', '1280G']
FS_FORMS = [k for k in FSCONF if k not in FS_BASE_QUICK + FS_BASE_THOROUGH]
N_FORMS_QUICK = [2, 3, 64]           # lengths on which the call-form configurations run in the quick tier (even/odd, small/large; thorough: every N)

D_VALUES = [0, 17, -17, 300, -300, 4000, -4000]                    # ps^2
F_L = [0.5, 3, 50]                                                 # km
F_ALPHA = [0, 0.2, 0.5]                                            # dB/km
F_B2 = [0, 7, -7, 25, -25]                                         # ps^2/km
F_B3 = [0, 0.2, -0.2]                                              # ps^3/km

# extreme-but-legal parameter points (part A, every grid): very short / very long spans, tiny / huge D, alpha*L up to 50 dB
EXTREME_DEVS = [
    ('DM', 1e-3), ('DM', -1e-3), ('DM', 1e6), ('DM', -1e6),
    ('FIBER', 1e-9, 0.2, 25, 0.2),          # 1 micrometre
    ('FIBER', 1e-6, 0.2, -25, -0.2),        # 1 mm
    ('FIBER', 1e-6, 0, 0, 0.2),
    ('FIBER', 1e4, 0.005, -25, 0.2),        # 10 000 km, 50 dB
    ('FIBER', 1e4, 0.005, 0, 0),            # ... as a pure attenuator
    ('FIBER', 1e5, 0, 0, -0.2),             # 100 000 km, third order only, negative
    ('FIBER', 1e5, 0, 7, 0),
    ('FIBER', 0.5, 100, 0, 0),              # 100 dB/km: 50 dB in half a kilometre
    ('FIBER', 0.5, 100, 7, -0.2),
    ('FIBER', 50, 1e-9, 0, 0),              # alpha just above its lower limit 0
]

# lengths.  FULL: operator recovered from the full basis; PROBE: lengths with large prime factors (97, 127 = 2^7-1, 206 = 2*103),
# around the block sizes 1024 / 4096 (default nslots) and beyond.
N_FULL_QUICK = [1, 2, 3, 13, 16, 17, 64, 65]
N_PROBE_QUICK = [97, 127, 206, 4097, 8192]
N_FULL_THOROUGH = [5, 31, 32, 33, 97, 127, 128, 129, 206]               # (97, 127, 206: full basis here, probe in quick)
N_PROBE_THOROUGH = [1023, 1024, 1025, 4095, 4096, 4099, 5000, 16384]    # 4099 is prime, 5000 = 2^3*5^4
N_FORMS_THOROUGH_EXTRA = [1023]      # a long length that additionally runs on every gv call form (thorough)
N_FORMS_THOROUGH_SKIP = [97, 127, 206]   # full-basis lengths that run on the sps+R configurations only (412 basis inputs x 28 more grids buy nothing new)
N_LONG = 1000                        # lengths above run on fewer sampling rates and a thinned law list (cost: ~2 ms per library call)
FS_LONG_QUICK = ['16G', '160G']
FS_LONG_THOROUGH = ['16G', '160G', '1280G']

# span alphabet of part C (decimal strings: the model adds them exactly as rationals)
SPANS = [
    ('DM', '300'),
    ('DM', '-300'),
    ('FIBER', '0.5', '0.2', '-25', '0.2'),    # fibre A, 0.5 km
    ('FIBER', '3', '0.2', '-25', '0.2'),      # fibre A, 3 km  (A+A = one span of the summed length)
    ('FIBER', '50', '0.2', '7', '-0.2'),      # fibre B, 50 km, 10 dB
    ('FIBER', '3', '0.5', '0', '0'),          # pure loss
]


def grids(tier):
    """simplest first: by N, layout, then the sps+R configurations before the other call forms"""
    Ns = N_FULL_QUICK + N_PROBE_QUICK
    fss = list(FS_BASE_QUICK)
    if tier == 'thorough':
        Ns = sorted(set(Ns + N_FULL_THOROUGH + N_PROBE_THOROUGH))
        fss += FS_BASE_THOROUGH
    Nf = sorted((set(full_lengths(tier)) - set(N_FORMS_THOROUGH_SKIP)) | set(N_FORMS_THOROUGH_EXTRA)) if tier == 'thorough' else N_FORMS_QUICK
    flong = FS_LONG_THOROUGH if tier == 'thorough' else FS_LONG_QUICK
    out = [(N, pol, f) for N in sorted(Ns) for pol in (1, 2) for f in (fss if N <= N_LONG else flong) + (FS_FORMS if N in Nf else [])]
    return out


def full_lengths(tier):
    """lengths whose operator is recovered from the full basis in part A (the others run in probe mode)"""
    return sorted(set(N_FULL_QUICK + (N_FULL_THOROUGH if tier == 'thorough' else [])))


def devices():
    devs = [('DM', D) for D in D_VALUES]
    for a, b2, b3, L in itertools.product(F_ALPHA, F_B2, F_B3, F_L):
        devs.append(('FIBER', L, a, b2, b3))
    # simplest first: identity filters, then by number of active terms
    devs.sort(key=lambda d: (d[0] != 'DM', sum(1 for v in d[2:] if v != 0) if d[0] == 'FIBER' else int(d[1] != 0)))
    return devs + EXTREME_DEVS


# --------------------------------------------------------------------------- reference model
def fft_index(N):
    k = np.arange(N)
    return np.where(k < (N + 1) // 2, k, k - N)          # the order of numpy.fft.fftfreq


def grid_wp(N, fs):
    """angular frequency grid in rad/ps, extended precision, FFT order: w = 2*pi*fftfreq(N)*fs"""
    fsi = int(round(fs))
    assert fsi == fs
    return 2 * PI_LD * fft_index(N).astype(LD) * LD(fsi) / (LD(N) * LD(10 ** 12))


def ref_phase_filter(N, fs, b2L, b3L):
    """exp(-j*b2L*w^2/2 - j*b3L*w^3/6), b2L in ps^2, b3L in ps^3; argument reduced mod 2*pi in extended precision"""
    wp = grid_wp(N, fs)
    th = LD(b2L) * wp ** 2 / 2 + LD(b3L) * wp ** 3 / 6
    th = th - 2 * PI_LD * np.round(th / (2 * PI_LD))
    return np.exp(-1j * th.astype(float))


def theta_max(fs, b2L, b3L):
    wm = math.pi * fs * 1e-12
    return abs(float(b2L)) * wm ** 2 / 2 + abs(float(b3L)) * wm ** 3 / 6


def dev_triple(dev):
    """(beta2*L [ps^2], beta3*L [ps^3], alpha*L [dB]) as extended-precision numbers"""
    if dev[0] == 'DM':
        return LD(dev[1]), LD(0), LD(0)
    _, L, a, b2, b3 = dev
    return LD(b2) * LD(L), LD(b3) * LD(L), LD(a) * LD(L)


def dev_class(dev):
    if dev[0] == 'DM':
        return 'D=0' if dev[1] == 0 else ('D>0' if dev[1] > 0 else 'D<0')
    _, L, a, b2, b3 = dev
    parts = [n for n, v in (('alpha', a), ('b2', b2), ('b3', b3)) if v != 0]
    return '+'.join(parts) if parts else 'all-zero'


def allpass(X, Hf):
    return np.fft.ifft(np.fft.fft(X, axis=-1) * Hf, axis=-1)


# --------------------------------------------------------------------------- the implementation under test
def setup(fskey):
    """gv.clean(), then the call history of the configuration (silently); returns the gv.fs in force"""
    import warnings
    hist, fs, _ = FSCONF[fskey]
    gv = gv_reset()
    with warnings.catch_warnings():
        warnings.simplefilter('ignore')
        for kw in hist:
            gv(**kw)
    assert gv.fs == fs, (fskey, gv.fs, fs)
    return fs


def gv_facts():
    """what the configuration in force makes distinguishable (for the coverage statistics only)"""
    from opticomlib.typing import gv
    return {'fs_ne_sps*R': int(gv.sps * gv.R != gv.fs), 'gv.N_in_force': int(gv.N is not None)}


def mk(X, noise=None):
    from opticomlib.typing import optical_signal
    return optical_signal(np.array(X), None if noise is None else np.array(noise))


def apply_dev(dev, sig, explicit_gamma=False):
    from opticomlib.devices import DM, FIBER
    if dev[0] == 'DM':
        return DM(sig, dev[1])
    _, L, a, b2, b3 = dev
    if explicit_gamma:
        return FIBER(sig, length=L, alpha=a, beta_2=b2, beta_3=b3, gamma=0)
    return FIBER(sig, length=L, alpha=a, beta_2=b2, beta_3=b3)


def layout_viol(tag, out, X):
    """length and polarisation layout preserved; finite"""
    from opticomlib.typing import optical_signal
    if not isinstance(out, optical_signal):
        return [(f'layout:{tag}:type', f'returned {type(out).__name__}, expected optical_signal')]
    s = out.signal
    if not isinstance(s, np.ndarray) or s.shape != X.shape:
        return [(f'layout:{tag}:shape', f'input shape {X.shape} -> output shape {getattr(s, "shape", None)}')]
    want = 1 if X.ndim == 1 else 2
    if out.n_pol != want:
        return [(f'layout:{tag}:n_pol', f'input with {want} polarisation(s) -> output n_pol={out.n_pol}')]
    if not np.all(np.isfinite(s)):
        return [(f'nonfinite:{tag}', 'output field contains nan/inf')]
    return []


def rows3(a):
    """(n, N) or (n, 2, N) -> (n, R, N)"""
    return a if a.ndim == 3 else a[:, None, :]


def norms(Xs):
    return np.sqrt((np.abs(Xs) ** 2).sum(axis=-1))


def compare(outs, refs, nrm, tolfac):
    """row-wise  max|out-ref| <= eps*tolfac*||in_row||_2 ; returns (first bad index or None, worst err/tol, err, tol)"""
    err = np.abs(outs - refs).max(axis=-1)
    tol = EPS * tolfac * nrm
    bad = ~(err <= tol)
    with np.errstate(all='ignore'):
        ratio = np.where(tol > 0, err / np.where(tol > 0, tol, 1), 0.0)
    worst = float(np.nanmax(ratio)) if ratio.size else 0.0
    if bad.any():
        i = int(np.argwhere(bad)[0][0])
        r = int(np.argwhere(bad)[0][1])
        return (i, r), worst, float(err[i, r]), float(tol[i, r])
    return None, worst, 0.0, 0.0


def check_filter(tag, cls, labels, Xs, outs, fs, b2L, b3L, aL, nstage, thsum, viol, is_dm_only):
    """Xs, outs: (n, R, N).  The statement's oracle for one (possibly composite) propagation with
    accumulated parameters (b2L, b3L, aL).  Returns worst err/tol."""
    N = Xs.shape[-1]
    Hf = ref_phase_filter(N, fs, b2L, b3L)
    ref = allpass(Xs, Hf)
    nrm = norms(Xs)
    Ein = nrm ** 2
    Eout = (np.abs(outs) ** 2).sum(axis=-1)
    tolfac = cfft(N) * nstage + C_PH * thsum
    live = Ein > 0
    aLf = float(aL)
    if aLf == 0:
        if is_dm_only:
            etol = ENERGY_REL * nstage * cfft(N) / C_FFT
            rel = np.where(live, np.abs(Eout / np.where(live, Ein, 1) - 1), 0.0)
            if not np.all(rel <= etol):
                i, r = [int(v) for v in np.argwhere(~(rel <= etol))[0]]
                viol.append((f'DM:energy:{cls}', f'{tag} input {labels[i]} row {r}: E_out/E_in - 1 = {rel[i, r]:.3e} > {etol:.1e}'))
    else:
        expect = 10.0 ** (-aLf / 10.0)
        rel = np.where(live, np.abs(Eout / np.where(live, Ein, 1) / expect - 1), 0.0)
        if not np.all(rel <= LOSS_BAND):
            i, r = [int(v) for v in np.argwhere(~(rel <= LOSS_BAND))[0]]
            viol.append((f'FIBER:loss-law:{cls}',
                         f'{tag} input {labels[i]} row {r}: P_out/P_in = {Eout[i, r] / Ein[i, r]:.9g}, 10^(-alpha*L/10) = {expect:.9g} (alpha*L = {aLf} dB), rel. dev. {rel[i, r]:.3e} > {LOSS_BAND}'))
        # the *shape* of the filter is exact: compare with the all-pass scaled by the measured (frequency-flat) gain
        g = np.sqrt(np.where(live, Eout / np.where(live, Ein, 1), 0.0))
        ref = ref * g[..., None]
        tolfac += 4
    bad, worst, err, tol = compare(outs, ref, nrm, tolfac)
    if bad is not None:
        i, r = bad
        viol.append((f'{tag.split(" ")[0]}:filter:{cls}',
                     f'{tag} input {labels[i]} row {r}: max|out - ifft(fft(in)*H)| = {err:.3e} > tol {tol:.3e} '
                     f'(b2L={float(b2L)} ps^2, b3L={float(b3L)} ps^3, aL={aLf} dB, fs={fs:g}, N={N})'))
    return worst


# --------------------------------------------------------------------------- input alphabets
CY = -2 + 1j      # factor of the y row in 2-pol basis inputs (rows must be treated independently)


def unit(N, k, c=1.0):
    v = np.zeros(N, complex)
    v[k % N] = c
    return v


def basis_input(N, pol, k, c):
    if pol == 1:
        return unit(N, k, c)
    return np.array([unit(N, k, c), unit(N, k + 1, c * CY)])


def rand_field(N, pol, seed, salt):
    rng = np.random.default_rng([int(seed), N, pol, salt])
    shape = (N,) if pol == 1 else (2, N)
    return rng.standard_normal(shape) + 1j * rng.standard_normal(shape)


def basis_indices(N, full):
    """full: every k; probe: first, second, middle, last"""
    return list(range(N)) if full else sorted({0, 1 % N, N // 2, N - 1})


def full_inputs(N, pol, seed, K=None):
    """returns (labels, arrays): the basis first (position i -> e_K[i], len(K)+i -> j*e_K[i]; K = every index by default), then extras"""
    K = list(range(N)) if K is None else K
    labels, arrs = [], []
    for c, nm in ((1.0, 'e'), (1j, 'j*e')):
        for k in K:
            labels.append(f'{nm}{k}')
            arrs.append(basis_input(N, pol, k, c))
    labels.append('ones')
    arrs.append(np.ones((N,) if pol == 1 else (2, N), complex))
    labels.append('rand')
    arrs.append(rand_field(N, pol, seed, 0))
    if pol == 2:
        labels.append('x-only')
        arrs.append(np.array([unit(N, 1), np.zeros(N, complex)]))
        labels.append('y-only')
        arrs.append(np.array([np.zeros(N, complex), unit(N, 2, 1j)]))
    return labels, arrs


def superpos_inputs(N, pol):
    labels, arrs, meta = [], [], []
    for i in range(N):
        for j in range(i + 1, N):
            for a in (1.0, CY):
                for b in (1.0, CY):
                    x = unit(N, i, a) + unit(N, j, b)
                    if pol == 1:
                        arrs.append(x)
                    else:
                        arrs.append(np.array([x, unit(N, i, b) + unit(N, j, a)]))
                    labels.append(f'{a}*e{i}+{b}*e{j}')
                    meta.append((i, j, a, b))
    return labels, arrs, meta


def short_inputs(N, pol, seed):
    """inputs of parts B and C: the full basis for N <= 17, six fields otherwise"""
    if N <= 17:
        return full_inputs(N, pol, seed)
    labels = ['e0', 'e1', f'e{N - 1}', f'j*e{N // 2}', 'ones', 'rand']
    arrs = [basis_input(N, pol, 0, 1.0), basis_input(N, pol, 1, 1.0), basis_input(N, pol, N - 1, 1.0), basis_input(N, pol, N // 2, 1j),
            np.ones((N,) if pol == 1 else (2, N), complex), rand_field(N, pol, seed, 0)]
    return labels, arrs


def digest(arrs):
    h = hashlib.sha256()
    for a in arrs:
        h.update(np.ascontiguousarray(a).tobytes())
    return h.hexdigest()


# --------------------------------------------------------------------------- part A: basis enumeration of one device
def noisy_check(tag, cls, name, dev, Xn, Nn, fs, b2L, b3L, aL, th, viol, call=None):
    """a field that carries noise: the signal part obeys the same oracle (or the total field does); noise: shape only.
    Returns the output signal (or None)."""
    on = (call or (lambda sig: apply_dev(dev, sig)))(mk(Xn, Nn))
    lv = layout_viol(name, on, Xn)
    if lv:
        viol += [(k, f'{tag} noisy input: {m}') for k, m in lv]
        return None
    if on.noise is not None and np.shape(on.noise) != Xn.shape:
        viol.append((f'noise-shape:{name}', f'{tag}: noise of shape {Xn.shape} came back with shape {np.shape(on.noise)}'))
    Xc, Nc = np.asarray(Xn).astype(complex), np.asarray(Nn).astype(complex)
    v2 = []
    check_filter(tag, cls, ['noisy(signal part)'], rows3(Xc[None]), rows3(on.signal[None]), fs, b2L, b3L, aL, 1, th, v2, name == 'DM')
    if v2 and on.noise is not None and np.shape(on.noise) == Xn.shape:
        v3 = []
        check_filter(tag, cls, ['noisy(total field)'], rows3((Xc + Nc)[None]), rows3((on.signal + on.noise)[None]), fs, b2L, b3L, aL, 1, th, v3, name == 'DM')
        if not v3:
            v2 = []
    viol += [(k.replace(':filter:', ':filter-noisy:'), m) for k, m in v2]
    return on.signal


def response_from_delta(out_row, in_row):
    """frequency response actually applied to one row, read off the response to a (shifted, scaled) unit impulse"""
    return np.fft.fft(out_row) / np.fft.fft(in_row)


def case_basis(case):
    (N, pol, fskey), dev, seed, full = case
    fs = setup(fskey)
    facts = gv_facts()
    name = dev[0]
    cls = dev_class(dev)
    tag = f'{name} {dev[1:]}'
    b2L, b3L, aL = dev_triple(dev)
    th = theta_max(fs, b2L, b3L)
    viol = []
    K = basis_indices(N, full)
    nK = len(K)
    labels, arrs = full_inputs(N, pol, seed, K)
    meta = []
    if N == 16 and full:
        l2, a2, meta = superpos_inputs(N, pol)
        labels, arrs = labels + l2, arrs + a2
    nfull = len(labels) - len(meta)
    outs = []
    for lab, X in zip(labels, arrs):
        o = apply_dev(dev, mk(X))
        lv = layout_viol(name, o, X)
        if lv:
            return res(viol=[(k, f'{tag} input {lab}: {m}') for k, m in lv], obs=('LAYOUT', lv[0][0]), nontrivial=False)
        outs.append(o.signal)
    Xs = rows3(np.array(arrs))
    Os = rows3(np.array(outs))
    worst = check_filter(tag, cls, labels, Xs, Os, fs, b2L, b3L, aL, 1, th, viol, name == 'DM')
    tol1 = EPS * (cfft(N) + C_PH * th + 4)

    # complex-linearity on the basis: response to j*e_k == j * response to e_k
    d = np.abs(Os[nK:2 * nK] - 1j * Os[:nK]).max()
    if not d <= 2 * tol1 * abs(CY):
        viol.append((f'linearity:{name}:j*e_k', f'{tag}: response to j*e_k differs from j*response to e_k by {d:.3e}'))

    tolT = 2 * math.sqrt(N) * tol1 + EPS * cfft(N)
    Hrec = []
    if full:
        # the operator, recovered from the basis responses: M[:, k] = response to e_k (x row) ; y row: input CY*e_{k+1}
        ops = [Os[:N, 0, :].T]
        if pol == 2:
            My = np.empty((N, N), complex)
            for k in range(N):
                My[:, (k + 1) % N] = Os[k, 1, :] / CY
            ops.append(My)
        for r, M in enumerate(ops):
            T = np.fft.ifft(np.fft.fft(M, axis=0), axis=1)          # F M F^-1
            Hd = np.diag(T).copy()
            off = np.abs(T - np.diag(Hd)).max() if N > 1 else 0.0
            if not off <= tolT:
                viol.append((f'LTI:{name}:{cls}', f'{tag} row {r}: operator recovered from the basis is not diagonal in the frequency domain (max off-diagonal {off:.3e} > {tolT:.3e})'))
            Hrec.append(Hd)
    else:
        # probe mode: the response applied to each row, read off the response to e_0 (x row) / CY*e_1 (y row); time invariance
        # is probed by the other impulses through the filter oracle above
        Hrec = [response_from_delta(Os[0, r, :], Xs[0, r, :]) for r in range(Xs.shape[1])]
    if pol == 2:
        dd = np.abs(Hrec[0] - Hrec[1]).max()
        if not dd <= 2 * tolT:
            viol.append((f'rows-differ:{name}', f'{tag}: filter applied to the x row differs from the y row by {dd:.3e}'))

    # superposition from the REAL responses (N = 16): out(a e_i + b e_j) == a out(e_i) + b out(e_j)
    if meta:
        S = Os[nfull:]
        rx = Os[:N, 0, :]
        pred = np.array([a * rx[i] + b * rx[j] for i, j, a, b in meta])[:, None, :]
        if pol == 2:
            ry = np.array([Os[(m - 1) % N, 1, :] / CY for m in range(N)])
            py = np.array([b * ry[i] + a * ry[j] for i, j, a, b in meta])[:, None, :]
            pred = np.concatenate([pred, py], axis=1)
        e = np.abs(S - pred).max(axis=(1, 2))
        lim = 3 * tol1 * 2 * abs(CY)
        if not np.all(e <= lim):
            i = int(np.argwhere(~(e <= lim))[0][0])
            viol.append((f'linearity:{name}:superposition', f'{tag} input {labels[nfull + i]}: differs from the combination of the basis responses by {e[i]:.3e} > {lim:.3e}'))

    # retH (DM only): the returned response must be the filter actually applied (either grid order the library offers)
    nreth = 0
    if name == 'DM':
        from opticomlib.devices import DM
        X0 = arrs[labels.index('rand')]
        ret = DM(mk(X0), dev[1], retH=True)
        nreth = check_retH(tag, cls, ret, X0, outs[labels.index('rand')], Hrec, tol1, tolT + EPS * C_PH * th, viol)

    Xn = rand_field(N, pol, seed, 1)
    Nn = rand_field(N, pol, seed, 2)
    on = noisy_check(tag, cls, name, dev, Xn, Nn, fs, b2L, b3L, aL, th, viol)
    if on is not None:
        outs.append(on)

    nontriv = (th > 0 or float(aL) > 0) and ('A', N, pol, fskey, dev)
    return res(viol=viol, obs=digest(outs), nontrivial=nontriv,
               stats={'A.lib_calls': len(labels) + 1 + (name == 'DM'), 'A.basis_inputs': 2 * nK, 'A.superposition_inputs': len(meta),
                      'A.retH_rows_compared': nreth, 'A.operators_recovered': len(Hrec) if full else 0, 'A.responses_from_delta': 0 if full else len(Hrec),
                      'A.cases_fs_ne_sps*R': facts['fs_ne_sps*R'], 'A.cases_gv.N_in_force': facts['gv.N_in_force'],
                      'A.cases_extreme_parameters': int(dev in EXTREME_DEVS), 'A.cases_probe_mode': int(not full)},
               payload=worst)


def check_retH(tag, cls, ret, X0, out_plain, Hrec, tol1, tolH, viol):
    """retH=True: a pair (output, H); the output is the one of the plain call, H is the response actually applied (Hrec,
    recovered from real responses) in fftshift order (what the code does) or fft order (the statement does not fix the order)"""
    N = X0.shape[-1]
    n = 0
    if not (isinstance(ret, tuple) and len(ret) == 2):
        viol.append(('DM:retH:not-a-pair', f'{tag}: retH=True returned {type(ret).__name__}'))
        return n
    o2, Hret = ret
    lv = layout_viol('DM', o2, X0)
    if lv:
        viol += [(k, f'{tag} retH=True: {m}') for k, m in lv]
    elif not np.abs(o2.signal - out_plain).max() <= 2 * tol1 * float(norms(rows3(np.asarray(X0).astype(complex)[None])).max()):
        viol.append(('DM:retH:output-differs', f'{tag}: output with retH=True differs from the output with retH=False'))
    Hret = np.asarray(Hret)
    if Hret.shape not in ((N,), (2, N), (1, N)):
        viol.append(('DM:retH:shape', f'{tag}: H has shape {Hret.shape} for input length {N}'))
        return n
    for r, Hd in enumerate(Hrec):
        Hr = Hret if Hret.ndim == 1 else Hret[min(r, Hret.shape[0] - 1)]
        d_shift = np.abs(Hr - np.fft.fftshift(Hd)).max()
        d_plain = np.abs(Hr - Hd).max()
        n += 1
        if not min(d_shift, d_plain) <= tolH:
            viol.append((f'DM:retH:{cls}', f'{tag} row {r}: returned H differs from the filter recovered from the real responses: '
                                           f'{d_shift:.3e} (fftshift order) / {d_plain:.3e} (fft order) > {tolH:.3e}'))
    return n


# --------------------------------------------------------------------------- part B: algebraic laws (differential, real vs real)
def laws(long=False):
    """long: the thinned list used for lengths > N_LONG (every DM pair, every FIBER==DM, every fibre with 2 of the 9 length pairs, the extremes)"""
    out = []
    for D1 in D_VALUES:
        for D2 in D_VALUES:
            out.append(('dm-pair', D1, D2))
    for L in F_L:
        for b2 in F_B2:
            out.append(('fiber-dm', L, b2))
    for a, b2, b3 in itertools.product(F_ALPHA, F_B2, F_B3):
        for L1 in F_L:
            for L2 in F_L:
                if not long or (L1, L2) in ((F_L[0], F_L[1]), (F_L[2], F_L[2])):
                    out.append(('two-spans', a, b2, b3, L1, L2))
    return out + EXTREME_LAWS


# the same laws at extreme-but-legal parameter values (huge / tiny D, 1 micrometre ... 100 000 km; two-spans beyond 60 dB is real vs real)
EXTREME_LAWS = [
    ('dm-pair', 1e6, -1e6), ('dm-pair', -1e6, 1e6), ('dm-pair', 1e-3, -1e-3), ('dm-pair', 1e6, 1e-3), ('dm-pair', -4000, 1e6),
    ('fiber-dm', 1e-6, 25), ('fiber-dm', 1e-9, -7), ('fiber-dm', 1e4, -25), ('fiber-dm', 1e5, 7),
    ('two-spans', 0.005, -25, 0.2, 1e-6, 1e4), ('two-spans', 0.005, -25, 0.2, 1e4, 1e-6), ('two-spans', 0.005, 25, -0.2, 1e4, 1e4),
    ('two-spans', 0.2, 0, 0, 1e-9, 50), ('two-spans', 0, 0, -0.2, 1e5, 1e5), ('two-spans', 100, 0, 0, 0.5, 0.5), ('two-spans', 0, 7, 0, 1e-9, 1e-6),
]


def case_laws(case):
    (N, pol, fskey), law, seed = case
    from opticomlib.devices import DM, FIBER
    fs = setup(fskey)
    facts = gv_facts()
    labels, arrs = short_inputs(N, pol, seed)
    Xs = rows3(np.array(arrs))
    nrm = norms(Xs)
    viol = []
    lhs, rhs = [], []
    kind = law[0]
    if kind == 'dm-pair':
        _, D1, D2 = law
        th = theta_max(fs, D1, 0) + theta_max(fs, D2, 0) + theta_max(fs, D1 + D2, 0)
        key = 'DM:inverse' if D1 + D2 == 0 and D1 != 0 else 'DM:additive'
        what = f'DM(D={D1}) after DM(D={D2}) vs DM(D={D1 + D2})'
        nst = 3
        for X in arrs:
            a = DM(DM(mk(X), D2), D1)
            b = DM(mk(X), D1 + D2)
            lhs.append(a)
            rhs.append(b)
        nontriv = D1 != 0 or D2 != 0
    elif kind == 'fiber-dm':
        _, L, b2 = law
        th = 2 * theta_max(fs, b2 * L, 0)
        key = 'FIBER==DM'
        what = f'FIBER(length={L}, beta_2={b2}) vs DM(D={b2 * L})'
        nst = 2
        for X in arrs:
            lhs.append(FIBER(mk(X), length=L, beta_2=b2))
            rhs.append(DM(mk(X), b2 * L))
        nontriv = b2 != 0
    else:
        _, a_, b2, b3, L1, L2 = law
        th = 2 * theta_max(fs, b2 * (L1 + L2), b3 * (L1 + L2))
        key = 'FIBER:two-spans'
        what = f'FIBER(L={L2}) after FIBER(L={L1}) vs FIBER(L={L1 + L2}) [alpha={a_}, beta_2={b2}, beta_3={b3}]'
        nst = 3
        for X in arrs:
            s1 = FIBER(mk(X), length=L1, alpha=a_, beta_2=b2, beta_3=b3)
            lhs.append(FIBER(s1, length=L2, alpha=a_, beta_2=b2, beta_3=b3))
            rhs.append(FIBER(mk(X), length=L1 + L2, alpha=a_, beta_2=b2, beta_3=b3))
        nontriv = bool(a_ or b2 or b3)
    for lab, X, a, b in zip(labels, arrs, lhs, rhs):
        lv = layout_viol(key, a, X) + layout_viol(key, b, X)
        if lv:
            return res(viol=[(k, f'{what} input {lab}: {m}') for k, m in lv], obs=('LAYOUT', lv[0][0]))
    A = rows3(np.array([o.signal for o in lhs]))
    B = rows3(np.array([o.signal for o in rhs]))
    tolfac = cfft(N) * nst + C_PH * th + 4
    bad, worst, err, tol = compare(A, B, nrm, tolfac)
    if bad is not None:
        i, r = bad
        viol.append((key, f'{what}: input {labels[i]} row {r}, N={N}, fs={fs:g}: fields differ by {err:.3e} > tol {tol:.3e}'))
    if key == 'DM:inverse':
        bad, w2, err, tol = compare(A, Xs, nrm, cfft(N) * 2 + C_PH * th)
        worst = max(worst, w2)
        if bad is not None:
            i, r = bad
            viol.append(('DM:inverse', f'DM(D={law[1]}) after DM(D={law[2]}) is not the identity: input {labels[i]} row {r}, N={N}, fs={fs:g}: differs from the input by {err:.3e} > tol {tol:.3e}'))
    if kind == 'dm-pair':
        Ein = nrm ** 2
        Eout = (np.abs(A) ** 2).sum(axis=-1)
        live = Ein > 0
        rel = np.where(live, np.abs(Eout / np.where(live, Ein, 1) - 1), Eout)
        if not np.all(rel <= 2 * ENERGY_REL * cfft(N) / C_FFT):
            viol.append(('DM:energy:chain', f'{what}: energy of the chained output deviates by {float(np.nanmax(rel)):.3e}'))
    return res(viol=viol, obs=digest([o.signal for o in lhs] + [o.signal for o in rhs]),
               nontrivial=nontriv and ('B', N, pol, fskey, law),
               stats={'B.lib_calls': 3 * len(arrs) if kind != 'fiber-dm' else 2 * len(arrs), 'B.inputs': len(arrs),
                      'B.cases_fs_ne_sps*R': facts['fs_ne_sps*R']}, payload=worst)


# --------------------------------------------------------------------------- part C: span sequences, accumulated-parameter model
def span_dev(i):
    s = SPANS[i]
    return (s[0],) + tuple(float(v) for v in s[1:])


def span_model(i):
    """exact contribution of span i to (b2L, b3L, aL, L)"""
    s = SPANS[i]
    if s[0] == 'DM':
        return Fraction(s[1]), Fraction(0), Fraction(0), Fraction(0)
    L, a, b2, b3 = (Fraction(v) for v in s[1:])
    return b2 * L, b3 * L, a * L, L


def model_state(seq):
    b2 = b3 = a = L = Fraction(0)
    for i in seq:
        d = span_model(i)
        b2, b3, a, L = b2 + d[0], b3 + d[1], a + d[2], L + d[3]
    return (b2, b3, a), L


def run_chain(seq, X):
    sig = mk(X)
    for i in seq:
        sig = apply_dev(span_dev(i), sig, explicit_gamma=True)     # the real output object is handed to the next span
    return sig


def chain_budget(seq, fs):
    th = 0.0
    for i in seq:
        d = span_model(i)
        th += theta_max(fs, d[0], d[1])
    return len(seq), th


def case_seq(case):
    (N, pol, fskey), seq, rep, seed = case
    from opticomlib.devices import DM, FIBER
    fs = setup(fskey)
    facts = gv_facts()
    labels, arrs = short_inputs(N, pol, seed)
    Xs = rows3(np.array(arrs))
    nrm = norms(Xs)
    (b2L, b3L, aL), Ltot = model_state(seq)
    viol = []
    hist = '[' + ', '.join(f'{SPANS[i][0]}{tuple(float(v) for v in SPANS[i][1:])}' for i in seq) + ']'
    reached = []
    for lab, X in zip(labels, arrs):
        o = run_chain(seq, X)
        lv = layout_viol('seq', o, X)
        if lv:
            return res(viol=[(k, f'history {hist} input {lab}: {m}') for k, m in lv], obs=('LAYOUT', lv[0][0]))
        reached.append(o.signal)
    R = rows3(np.array(reached))
    nst, th = chain_budget(seq, fs)
    only_dm = all(SPANS[i][0] == 'DM' for i in seq)

    # (a) implementation state == model state: the filter of the accumulated triple applied to the input
    v = []
    worst = check_filter('seq ' + hist, 'model', labels, Xs, R, fs,
                         LD(b2L.numerator) / LD(b2L.denominator), LD(b3L.numerator) / LD(b3L.denominator),
                         LD(aL.numerator) / LD(aL.denominator), nst, th, v, only_dm)
    viol += [(k if not k.startswith('seq:filter') else 'seq:model', m) for k, m in v]

    # (b) differential: the single equivalent span (one FIBER call carrying the accumulated parameters; DM when only beta2 remains)
    Le = Ltot if Ltot != 0 else Fraction(1)
    pe = dict(length=float(Le), alpha=float(aL / Le), beta_2=float(b2L / Le), beta_3=float(b3L / Le))
    the = theta_max(fs, float(b2L), float(b3L))
    eq = []
    for X in arrs:
        eq.append(FIBER(mk(X), gamma=0.0, **pe).signal)
    E = rows3(np.array(eq))
    if E.shape != R.shape:
        viol.append(('layout:seq:shape', f'equivalent span FIBER({pe}) returned shape {E.shape[1:]}'))
    else:
        bad, w2, err, tol = compare(R, E, nrm, cfft(N) * (nst + 1) + C_PH * (th + the) + 4)
        worst = max(worst, w2)
        if bad is not None:
            i, r = bad
            viol.append(('seq:equiv-span', f'history {hist} vs single span FIBER({pe}): input {labels[i]} row {r}, N={N}, fs={fs:g}: fields differ by {err:.3e} > tol {tol:.3e}'))
    ncalls = len(arrs) * (len(seq) + 1)
    if b3L == 0 and aL == 0:
        eqd = [DM(mk(X), float(b2L)).signal for X in arrs]
        ncalls += len(arrs)
        Ed = rows3(np.array(eqd))
        if Ed.shape == R.shape:
            bad, w2, err, tol = compare(R, Ed, nrm, cfft(N) * (nst + 1) + C_PH * (th + the))
            worst = max(worst, w2)
            if bad is not None:
                i, r = bad
                viol.append(('seq:equiv-DM', f'history {hist} vs DM(D={float(b2L)}): input {labels[i]} row {r}, N={N}, fs={fs:g}: fields differ by {err:.3e} > tol {tol:.3e}'))

    # (c) state merging: the first (shortest) history with the same model state reaches the same field
    if tuple(rep) != tuple(seq):
        nr, thr = chain_budget(rep, fs)
        if len(rep) == 0:
            P = Xs
        else:
            P = rows3(np.array([run_chain(rep, X).signal for X in arrs]))
            ncalls += len(arrs) * len(rep)
        if P.shape == R.shape:
            bad, w2, err, tol = compare(R, P, nrm, cfft(N) * (nst + nr) + C_PH * (th + thr) + 4)
            worst = max(worst, w2)
            if bad is not None:
                i, r = bad
                viol.append(('seq:state-merge', f'histories {hist} and {list(rep)} have the same accumulated (b2L, b3L, aL) = ({float(b2L)}, {float(b3L)}, {float(aL)}) '
                                                f'but reach different fields: input {labels[i]} row {r}, N={N}, fs={fs:g}: {err:.3e} > tol {tol:.3e}'))
    nontriv = (b2L != 0 or b3L != 0 or aL != 0 or len(seq) > 1) and ('C', N, pol, fskey, tuple(seq))
    return res(viol=viol, obs=digest(reached), nontrivial=nontriv,
               stats={'C.lib_calls': ncalls, 'C.inputs': len(arrs), 'C.merged_into_earlier_state': int(tuple(rep) != tuple(seq)),
                      'C.cases_fs_ne_sps*R': facts['fs_ne_sps*R']},
               payload=worst)


# --------------------------------------------------------------------------- part D: call forms, dtypes, scales, reuse (deviation lattice)
# base devices: integer-valued parameters that fit every scalar type (int8 included), one of each filter class
FORM_DEVS = [('DM', 100), ('DM', -17), ('FIBER', 3, 1, -25, 2), ('FIBER', 3, 1, 0, 0), ('FIBER', 2, 0, 0, -2)]

SCALAR_FORMS = {
    'int': int, 'float': float, 'np.int8': np.int8, 'np.int32': np.int32, 'np.int64': np.int64,
    'np.float16': np.float16, 'np.float32': np.float32, 'np.float64': np.float64,
    '0d-float': lambda v: np.array(float(v)), '0d-int': lambda v: np.array(int(v)),
}
GAMMA_FORMS = {'int0': lambda: 0, 'float0': lambda: 0.0, '-0.0': lambda: -0.0, 'np.float64(0)': lambda: np.float64(0), 'np.int64(0)': lambda: np.int64(0),
               'False': lambda: False, '0d-float0': lambda: np.array(0.0)}
DTYPES = ['bool', 'int8', 'uint8', 'int16', 'int32', 'int64', 'float16', 'float32', 'float64', 'complex64', 'complex128']
CONTAINERS = ['list', 'tuple', 'str', 'int-valued-float64', 'int-valued-complex128']
SCALES = [1e-100, 1e-12, 1e-9, 1e-6, 1e6, 1e100]
NOISES = ['zeros', 'real-float', 'int', 'zero-sum', 'x-only', 'y-only']
FS_OTHER = {'160G': 'R+fs:25G/10G', 'R+fs:25G/10G': '160G', '16G': '320G', '320G': 'fs:24.5G', 'fs:24.5G': '16G'}     # the configuration a 'reconf' case switches to and back from


def int_field(N, pol, kind):
    """small integer-valued field that every dtype of `kind` holds exactly; never all-zero; rows differ"""
    k = np.arange(N)
    if kind == 'bool':
        x, y = (k % 3 != 1), (k % 2 == 0)
    elif kind.startswith('uint'):
        x, y = (3 * k + 1) % 5, (2 * k + 3) % 7
    else:
        x, y = (3 * k + 1) % 5 - 2 + (k == 0) * 3, (2 * k + 3) % 7 - 3
    x, y = np.asarray(x), np.asarray(y)
    if kind.startswith('complex'):
        x, y = x + 1j * ((2 * k) % 3 - 1), y - 1j * ((k + 1) % 4)
    return x if pol == 1 else np.array([x, y])


def to_str(X):
    """the library's own string spelling: values separated by ',' rows by ';' (integers / booleans)"""
    rows = [X] if X.ndim == 1 else list(X)
    return ';'.join(','.join(str(int(v)) for v in r) for r in rows)


def forms():
    """the deviation lattice of part D (simplest first); every entry is (kind, device index, ...)"""
    out = []
    nd = len(FORM_DEVS)
    for di in range(nd):
        for dt in DTYPES + CONTAINERS:
            out.append(('dtype', di, dt))
    for di, dev in enumerate(FORM_DEVS):
        if dev[0] == 'DM':
            for f in SCALAR_FORMS:
                for reth in ('plain', 'retH=True', 'retH=1 positional', 'D= keyword'):
                    out.append(('spell', di, 'D', f, reth))
        else:
            for f in SCALAR_FORMS:
                for arg in ('length', 'alpha', 'beta_2', 'beta_3', 'all'):
                    out.append(('spell', di, arg, f, 'keyword'))
                out.append(('spell', di, 'all', f, 'positional'))
            for g in GAMMA_FORMS:
                out.append(('gamma', di, g))
            for opt in ('phi_max=1e-9', 'phi_max=10', 'show_progress', 'show_progress+int', 'show_progress positional'):
                out.append(('option', di, opt))
    for di in range(nd):
        for sc in SCALES:
            out.append(('scale', di, sc))
        out.append(('scale', di, 'dc+small'))
        out.append(('scale', di, 'j*dc+small'))
    for di in range(nd):
        for nz in NOISES:
            out.append(('noise', di, nz))
    for di in range(nd):
        out.append(('twice', di))
        out.append(('reconf', di))
    out += [('sweep', 'DM:D'), ('sweep', 'FIBER:length'), ('sweep', 'FIBER:beta_3'), ('sweep', 'FIBER:alpha'), ('sweep', 'mixed')]
    return out


def form_grids(tier):
    if tier == 'thorough':
        Ns = sorted(set(N_FULL_QUICK + N_FULL_THOROUGH + N_PROBE_QUICK + N_PROBE_THOROUGH))
        return [(N, pol, f) for N in Ns for pol in (1, 2) for f in ('16G', '160G', '320G', 'R+fs:25G/10G', 'fs:24.5G') if N <= N_LONG or (pol == 2 and f in ('160G', 'R+fs:25G/10G'))]
    return [(N, pol, f) for N in (1, 2, 3, 13, 64) for pol in (1, 2) for f in ('160G', 'R+fs:25G/10G')] + [(4097, 2, '160G'), (8192, 2, 'R+fs:25G/10G')]


def quiet(f):
    """run f() with stderr captured (tqdm progress bars)"""
    import contextlib
    import io
    with contextlib.redirect_stderr(io.StringIO()):
        return f()


def clause(k):
    """'DM:filter:D>0' -> 'filter' (inside part D the device and its class are already named by the form)"""
    p = k.split(':')
    return p[1] if p[0] in ('DM', 'FIBER') and len(p) > 1 else k


def pvalue(v):
    """the number a scalar-like argument stands for (read BEFORE the call: a 0-d array may be written to by the callee)"""
    return float(np.asarray(v).real)


def case_forms(case):
    (N, pol, fskey), form, seed = case
    from opticomlib.devices import DM, FIBER
    from opticomlib.typing import optical_signal
    from mcx.core.env import freeze, unchanged
    fs = setup(fskey)
    kind = form[0]
    viol, obs, ncalls = [], [], 0
    worst = 0.0
    base = [rand_field(N, pol, seed, 0), basis_input(N, pol, 1, 1.0)] + ([np.array([unit(N, 1), np.zeros(N, complex)])] if pol == 2 else [])
    blab = ['rand', 'e1'] + (['x-only'] if pol == 2 else [])

    def judge(tagk, what, dev, labels, Xs_list, outs_list, stages=1):
        """layout + filter oracle of `dev` (numbers as given to the library) on a list of inputs; keys get the prefix form:<tagk>:"""
        nonlocal worst
        for lab, X, o in zip(labels, Xs_list, outs_list):
            lv = layout_viol(dev[0], o, np.asarray(X))
            if lv:
                viol.extend((f'form:{tagk}:{k}', f'{what} input {lab}: {m}') for k, m in lv)
                return False
            if not np.iscomplexobj(o.signal):
                viol.append((f'form:{tagk}:output-not-complex', f'{what} input {lab}: output field has dtype {o.signal.dtype}'))
                return False
        b2L, b3L, aL = dev_triple(dev)
        th = theta_max(fs, b2L, b3L)
        v = []
        Xs = rows3(np.array([np.asarray(X).astype(complex) for X in Xs_list]))
        Os = rows3(np.array([o.signal for o in outs_list]))
        w = check_filter(f'{dev[0]} {dev[1:]}', dev_class(dev), labels, Xs, Os, fs, b2L, b3L, aL, stages, th, v, dev[0] == 'DM')
        worst = max(worst, w)
        viol.extend((f'form:{tagk}:{clause(k)}', f'{what}: {m}') for k, m in v)
        obs.extend(o.signal for o in outs_list)
        return not v

    def attempt(tagk, what, f):
        """call the library; an exception on a legal spelling is reported under the form's own key"""
        nonlocal ncalls
        ncalls += 1
        try:
            return f()
        except Exception as e:                                   # noqa: BLE001 - every exception type is a finding here
            import traceback
            from mcx.core.kernel import Horizon
            if isinstance(e, Horizon):
                raise
            where = [fr for fr in traceback.extract_tb(e.__traceback__) if '/opticomlib/' in fr.filename]
            loc = f'{where[-1].filename.split("/")[-1]}:{where[-1].name}' if where else 'harness'
            if not where:
                raise
            viol.append((f'form:{tagk}:raises:{type(e).__name__}', f'{what} raised {type(e).__name__}: {str(e)[:200]} (in {loc})'))
            obs.append(('RAISES', type(e).__name__))
            return None

    if kind == 'dtype':
        _, di, dt = form
        dev = FORM_DEVS[di]
        what = f'{dev[0]}{dev[1:]} on a field given as {dt}'
        if dt in DTYPES:
            X = int_field(N, pol, dt).astype(dt)
            given = X
        elif dt == 'int-valued-float64':
            X = int_field(N, pol, 'int').astype(float)
            given = X
        elif dt == 'int-valued-complex128':
            X = int_field(N, pol, 'complex').astype(complex)
            given = X
        else:
            X = int_field(N, pol, 'int')
            given = X.tolist() if dt == 'list' else (tuple(map(tuple, X)) if X.ndim == 2 else tuple(X.tolist())) if dt == 'tuple' else to_str(X)
        sig = optical_signal(given)
        if sig.signal.shape != X.shape or not np.array_equal(sig.signal, X):
            # the constructor is not C07's subject: the oracle follows the field the library object actually holds
            X = np.array(sig.signal)
        snap = freeze(sig)
        o = attempt(f'dtype:{dt}', what, lambda: apply_dev(dev, sig))
        if o is not None:
            ok = judge(f'dtype:{dt}', what, dev, [dt], [X], [o])
            if not unchanged(sig, snap):
                viol.append((f'form:dtype:{dt}:input-changed', f'{what}: the input object was written to'))
            # the same field with noise of the same (integer) dtype and with float noise: signal part still the complex filtered field
            for nlab, Nn in (('same-dtype', np.ones_like(X)), ('float', np.full(X.shape, 0.5))):
                if ok:
                    v = []
                    b2L, b3L, aL = dev_triple(dev)
                    noisy_check(f'{dev[0]} {dev[1:]}', dev_class(dev), dev[0], dev, X, Nn, fs, b2L, b3L, aL, theta_max(fs, b2L, b3L), v)
                    ncalls += 1
                    viol.extend((f'form:dtype:{dt}:noise-{nlab}:{clause(k)}', f'{what} with {nlab} noise: {m}') for k, m in v)
            if dev[0] == 'DM':
                ret = attempt(f'dtype:{dt}:retH', what + ' retH=True', lambda: DM(optical_signal(given), dev[1], retH=True))
                if ret is not None and isinstance(ret, tuple) and len(ret) == 2:
                    judge(f'dtype:{dt}:retH', what + ' retH=True', dev, [dt], [X], [ret[0]])

    elif kind == 'spell':
        _, di, arg, fname, style = form
        dev = FORM_DEVS[di]
        F = SCALAR_FORMS[fname]
        if dev[0] == 'DM':
            what = f'DM(D={fname}({dev[1]}), {style})'
            outs = []
            for X in base:
                Dv = F(dev[1])
                if style == 'plain':
                    o = attempt(f'DM:D={fname}', what, lambda: DM(mk(X), Dv))
                elif style == 'D= keyword':
                    o = attempt(f'DM:D={fname}', what, lambda: DM(input=mk(X), D=Dv))
                else:
                    ret = attempt(f'DM:D={fname}', what, (lambda: DM(mk(X), Dv, retH=True)) if style == 'retH=True' else (lambda: DM(mk(X), Dv, 1)))
                    if ret is None:
                        o = None
                    elif not (isinstance(ret, tuple) and len(ret) == 2):
                        viol.append(('DM:retH:not-a-pair', f'{what}: returned {type(ret).__name__}'))
                        o = None
                    else:
                        o = ret[0]
                        # H against the response read off the output to an impulse (second input of `base`)
                        if X is base[1]:
                            Xr = rows3(np.asarray(X)[None])[0]
                            lv = layout_viol('DM', o, X)
                            if not lv:
                                Or = rows3(o.signal[None])[0]
                                Hrec = [response_from_delta(Or[r], Xr[r]) for r in range(Xr.shape[0])]
                                th = theta_max(fs, dev[1], 0)
                                tol1 = EPS * (cfft(N) + C_PH * th + 4)
                                check_retH(what, dev_class(dev), ret, X, o.signal, Hrec, tol1, 2 * math.sqrt(N) * tol1 + EPS * cfft(N) + EPS * C_PH * th, viol)
                if o is None:
                    break
                outs.append(o)
            if len(outs) == len(base):
                judge(f'DM:D={fname}', what, dev, blab, base, outs)
        else:
            names = ('length', 'alpha', 'beta_2', 'beta_3')
            vals = dict(zip(names, dev[1:]))
            what = f'FIBER{dev[1:]} with {arg} given as {fname}, {style}'
            outs = []
            for X in base:
                kw = {n: (F(v) if arg in (n, 'all') else float(v)) for n, v in vals.items()}
                if style == 'positional':
                    o = attempt(f'FIBER:{arg}={fname}', what, lambda: FIBER(mk(X), kw['length'], kw['alpha'], kw['beta_2'], kw['beta_3'], 0))
                else:
                    o = attempt(f'FIBER:{arg}={fname}', what, lambda: FIBER(mk(X), **kw))
                if o is None:
                    break
                outs.append(o)
            if len(outs) == len(base):
                judge(f'FIBER:{arg}={fname}', what, dev, blab, base, outs)

    elif kind == 'gamma':
        _, di, g = form
        dev = FORM_DEVS[di]
        _, L, a, b2, b3 = dev
        what = f'FIBER{dev[1:]} with gamma given as {g}'
        outs = [attempt(f'FIBER:gamma={g}', what, lambda: FIBER(mk(X), length=L, alpha=a, beta_2=b2, beta_3=b3, gamma=GAMMA_FORMS[g]())) for X in base]
        if all(o is not None for o in outs):
            judge(f'FIBER:gamma={g}', what, dev, blab, base, outs)

    elif kind == 'option':
        _, di, opt = form
        dev = FORM_DEVS[di]
        _, L, a, b2, b3 = dev
        what = f'FIBER{dev[1:]} with {opt}'
        call = {
            'phi_max=1e-9': lambda X: FIBER(mk(X), L, a, b2, b3, phi_max=1e-9),
            'phi_max=10': lambda X: FIBER(mk(X), L, a, b2, b3, 0.0, 10),
            'show_progress': lambda X: quiet(lambda: FIBER(mk(X), length=L, alpha=a, beta_2=b2, beta_3=b3, show_progress=True)),
            'show_progress+int': lambda X: quiet(lambda: FIBER(mk(X), length=int(L), alpha=int(a), beta_2=int(b2), beta_3=int(b3), gamma=0, show_progress=True)),
            'show_progress positional': lambda X: quiet(lambda: FIBER(mk(X), L, a, b2, b3, 0, 0.05, True)),
        }[opt]
        outs = [attempt(f'FIBER:{opt}', what, lambda: call(X)) for X in base]
        if all(o is not None for o in outs):
            judge(f'FIBER:{opt}', what, dev, blab, base, outs)

    elif kind == 'scale':
        _, di, sc = form
        dev = FORM_DEVS[di]
        if sc == 'dc+small':
            ins = [1e6 + 1e-3 * X for X in base]
        elif sc == 'j*dc+small':
            ins = [-1e6j + 1e-6 * X for X in base]
        else:
            ins = [sc * X for X in base]
        what = f'{dev[0]}{dev[1:]} on inputs scaled by {sc}'
        outs = [attempt(f'scale:{sc}', what, lambda: apply_dev(dev, mk(X))) for X in ins]
        if all(o is not None for o in outs):
            judge(f'scale:{sc}', what, dev, blab, ins, outs)

    elif kind == 'noise':
        _, di, nz = form
        dev = FORM_DEVS[di]
        X = base[0]
        R = rand_field(N, pol, seed, 2)
        if nz == 'zeros':
            Nn = np.zeros(X.shape, complex)
        elif nz == 'real-float':
            Nn = R.real.copy()
        elif nz == 'int':
            Nn = np.rint(3 * R.real).astype(np.int64)
        elif nz == 'zero-sum':
            Nn = R - R.mean(axis=-1, keepdims=True)
        elif pol == 2:
            Nn = R.copy()
            Nn[1 if nz == 'x-only' else 0] = 0
        else:
            Nn = R * (1 if nz == 'x-only' else 1j)
        what = f'{dev[0]}{dev[1:]} on a field with {nz} noise'
        b2L, b3L, aL = dev_triple(dev)
        th = theta_max(fs, b2L, b3L)
        v = []
        o = attempt(f'noise:{nz}', what, lambda: noisy_check(f'{dev[0]} {dev[1:]}', dev_class(dev), dev[0], dev, X, Nn, fs, b2L, b3L, aL, th, v))
        viol.extend((f'form:noise:{nz}:{clause(k)}', f'{what}: {m}') for k, m in v)
        if o is not None:
            obs.append(o)
        if dev[0] == 'DM':
            v = []
            hold = {}

            def call(sig):
                hold['ret'] = DM(sig, dev[1], retH=True)
                return hold['ret'][0] if isinstance(hold['ret'], tuple) else hold['ret']
            o2 = attempt(f'noise:{nz}:retH', what + ' retH=True', lambda: noisy_check(f'DM {dev[1:]}', dev_class(dev), 'DM', dev, X, Nn, fs, b2L, b3L, aL, th, v, call=call))
            viol.extend((f'form:noise:{nz}:retH:{clause(k)}', f'{what} retH=True: {m}') for k, m in v)
            if o2 is not None and isinstance(hold.get('ret'), tuple) and np.shape(hold['ret'][1])[-1:] != (N,):
                viol.append(('DM:retH:shape', f'{what}: H has shape {np.shape(hold["ret"][1])} for input length {N}'))

    elif kind == 'twice':
        # the same input object AND the same argument objects used for two calls; each call must be the filter of the numbers given
        _, di = form
        dev = FORM_DEVS[di]
        for fname in ('float', 'np.float64', '0d-float'):
            F = SCALAR_FORMS[fname]
            what = f'{dev[0]}{dev[1:]} called twice with the same input object and the same {fname} argument objects'
            for X, lab in zip(base, blab):
                sig = mk(X)
                snap = freeze(sig)
                args = [F(v) for v in dev[1:]]
                want = ('DM', pvalue(args[0])) if dev[0] == 'DM' else ('FIBER',) + tuple(pvalue(a) for a in args)
                for n in (1, 2):
                    o = attempt(f'reuse:{dev[0]}:{fname}', what, (lambda: DM(sig, args[0])) if dev[0] == 'DM' else (lambda: FIBER(sig, *args)))
                    if o is None or not judge(f'reuse:{dev[0]}:{fname}:call{n}', what + f', call {n}', want, [lab], [X], [o]):
                        break
                if not unchanged(sig, snap):
                    viol.append((f'form:reuse:{dev[0]}:input-changed', f'{what}: the input object was written to'))

    elif kind == 'reconf':
        # the same call (same length, same parameters, same input) before and after gv was reconfigured, and back
        _, di = form
        dev = FORM_DEVS[di]
        other = FS_OTHER.get(fskey, '160G' if fskey != '160G' else '16G')
        for step, key in enumerate((fskey, other, fskey, other)):
            fs = setup(key)
            what = f'{dev[0]}{dev[1:]} at step {step} of the gv history {fskey} -> {other} -> {fskey} -> {other} (gv.fs = {fs:g})'
            outs = [attempt('reconf', what, lambda: apply_dev(dev, mk(X))) for X in base]
            if all(o is not None for o in outs):
                judge(f'reconf:step{step}', what, dev, blab, base, outs)
            if dev[0] == 'DM':
                ret = attempt('reconf:retH', what, lambda: DM(mk(base[1]), dev[1], retH=True))
                if isinstance(ret, tuple) and len(ret) == 2 and not layout_viol('DM', ret[0], base[1]):
                    Xr, Or = rows3(base[1][None])[0], rows3(ret[0].signal[None])[0]
                    th = theta_max(fs, dev[1], 0)
                    tol1 = EPS * (cfft(N) + C_PH * th + 4)
                    check_retH(what, dev_class(dev), ret, base[1], ret[0].signal, [response_from_delta(Or[r], Xr[r]) for r in range(Xr.shape[0])],
                               tol1, 2 * math.sqrt(N) * tol1 + EPS * cfft(N) + EPS * C_PH * th, viol)

    elif kind == 'sweep':
        # a sweep over one parameter on ONE shared, write-protected input object; every point against the oracle on the original field
        _, which = form
        X = base[0]
        sig = mk(X)
        snap = freeze(sig)
        pts = {'DM:D': [('DM', D) for D in D_VALUES],
               'FIBER:length': [('FIBER', L, 0.005, -25, 0.2) for L in (1e-6, 0.5, 3, 50, 1e4)],
               'FIBER:beta_3': [('FIBER', 3, 0, 0, b3) for b3 in (-2, -0.2, 0, 0.2, 2)],
               'FIBER:alpha': [('FIBER', 50, a, 0, 0) for a in (0, 1e-9, 0.2, 0.5, 1)],
               'mixed': [FORM_DEVS[i] for i in (0, 2, 1, 3, 4, 0)]}[which]
        for i, dev in enumerate(pts):
            what = f'sweep {which}, point {i} = {dev[0]}{dev[1:]} on one shared input object'
            o = attempt(f'sweep:{which}', what, lambda: apply_dev(dev, sig))
            if o is None or not judge(f'sweep:{which}', what, dev, ['rand'], [X], [o]):
                break
        if not unchanged(sig, snap):
            viol.append((f'form:sweep:{which}:input-changed', f'sweep {which}: the shared input object was written to'))
    else:
        raise AssertionError(form)

    return res(viol=viol, obs=digest([np.frombuffer(repr(o).encode(), np.uint8) if isinstance(o, tuple) else np.asarray(o) for o in obs]),
               nontrivial=('D', N, pol, fskey, form), stats={'D.lib_calls': ncalls, f'D.cases_{kind}': 1}, payload=worst)


# --------------------------------------------------------------------------- driver
def self_check():
    """the extended-precision grid of the reference is the DESIGN formula w = 2*pi*fftfreq(N)*fs"""
    for N in (1, 2, 3, 13, 16, 17, 64, 65, 97, 129, 206, 4097, 8192):
        for fs in sorted(set(c[1] for c in FSCONF.values())):
            w = 2 * np.pi * np.fft.fftfreq(N) * fs
            wp = (grid_wp(N, fs) * LD(10 ** 12)).astype(float)
            assert np.all(np.abs(w - wp) <= 4 * EPS * np.abs(wp)), (N, fs)
    # the model of the alphabet: aL stays inside the validity range of the loss band
    worst = max(float(span_model(i)[2]) for i in range(len(SPANS))) * 3
    assert worst <= 60.0
    # the configuration alphabet separates gv.fs from sps*R in both directions and holds every call form
    assert any(c[1] > c[2] for c in FSCONF.values()) and any(c[1] < c[2] for c in FSCONF.values())
    forms = {tuple(sorted(k for k in kw if k in ('sps', 'R', 'fs'))) for c in FSCONF.values() for kw in c[0]}
    assert forms == {('R', 'sps'), ('fs', 'sps'), ('R', 'fs'), ('fs',), ('sps',)}, forms
    assert set(N_FORMS_QUICK) <= set(N_FULL_QUICK)
    # lengths: non-smooth (a prime factor > 11) and > 4096 are present in the quick tier; thorough is a superset
    pf = lambda n: max(p for p in range(2, n + 1) if n % p == 0 and all(p % q for q in range(2, int(p ** 0.5) + 1)))
    assert sum(1 for n in N_FULL_QUICK + N_PROBE_QUICK if n > 1 and pf(n) > 11) >= 5 and max(N_PROBE_QUICK) > 4096
    assert set(g for g in grids('quick')) <= set(grids('thorough')) and set(form_grids('quick')) <= set(form_grids('thorough'))
    assert max(float(dev_triple(d)[2]) for d in EXTREME_DEVS + FORM_DEVS) <= 60.0


def gv_table(keys):
    """the state every enumerated configuration leaves behind on the tree under test (recorded in the evidence)"""
    from opticomlib.typing import gv
    out = {}
    for k in keys:
        setup(k)
        out[k] = {'calls': [{a: b for a, b in kw.items()} for kw in FSCONF[k][0]], 'gv.fs': gv.fs, 'gv.sps': gv.sps, 'gv.R': gv.R,
                  'gv.sps*gv.R': gv.sps * gv.R, '1/gv.dt - gv.fs': 1 / gv.dt - gv.fs, 'len(gv.w)': None if gv.w is None else len(gv.w)}
    gv_reset()
    return out


def run(ctx):
    self_check()
    tier = ctx.tier
    G = grids(tier)
    devs = devices()
    depth = 2 if ctx.quick else 3
    seed = ctx.seed
    fullN = set(full_lengths(tier))
    GD = form_grids(tier)
    FM = forms()
    ctx.space('grids(N,layout,fs)', len(G))
    ctx.space(f'devices(7 DM + 135 FIBER + {len(EXTREME_DEVS)} extreme)', len(devs))
    fkeys = sorted(set(g[2] for g in G), key=list(FSCONF).index)
    nform = sorted(set(g[0] for g in G if g[2] in FS_FORMS))
    ctx.rule(f'gv configurations = call histories after clean(): sps+R {[k for k in fkeys if k not in FS_FORMS]} on every N; the other call forms and two-call '
             f'histories {[k for k in fkeys if k in FS_FORMS]} on N in {nform}; {sum(1 for k in fkeys if FSCONF[k][1] != FSCONF[k][2])} of them leave gv.fs != gv.sps*gv.R '
             f'(non-integer fs/R, rounded down/up/half-even), 2 leave a gv.w of another length in force; every oracle uses gv.fs')
    ctx.rule(f'lengths: operator recovered from the FULL basis for N in {sorted(fullN)}; probe mode (e_k, j*e_k for k in 0, 1, N/2, N-1, ones, random, one-sided; '
             f'response read off the impulse response) for N in {sorted(set(g[0] for g in G) - fullN)}')
    ctx.rule(f'A: every grid (N in {sorted(set(g[0] for g in G))} x 1/2 pol x gv.fs in {sorted(set(FSCONF[g[2]][1] for g in G))}) x every device '
             f'(D in {D_VALUES} ps^2; FIBER L{F_L} x alpha{F_ALPHA} x beta2{F_B2} x beta3{F_B3}, gamma=0; plus {len(EXTREME_DEVS)} extreme points: |D| 1e-3 / 1e6 ps^2, L 1e-9 ... 1e5 km, alpha 1e-9 ... 100 dB/km, alpha*L <= 50 dB) on the full basis e_k, j*e_k (2N inputs), ones, seeded random, '
             f'one-sided 2-pol, a noisy field, and for N=16 all 480 superpositions a*e_i+b*e_j; operator recovered from the basis and compared with retH')
    ctx.rule('B: DM(D1)oDM(D2)==DM(D1+D2) for all 49 ordered pairs (7 of them inverses), FIBER(L,b2)==DM(b2*L) for 15 (L,b2), '
             'FIBER(L2)oFIBER(L1)==FIBER(L1+L2) for 45 fibres x 9 length pairs, on every grid (full basis for N<=17, 6 fields otherwise; '
             f'N > {N_LONG}: 2 of the 9 length pairs and gv.fs in {FS_LONG_THOROUGH if tier == "thorough" else FS_LONG_QUICK} only); '
             f'plus {len(EXTREME_LAWS)} of the same laws at extreme parameter values')
    ctx.rule(f'D: deviation lattice of {len(FM)} call forms around {len(FORM_DEVS)} base devices on {len(GD)} grids (N in {sorted(set(g[0] for g in GD))} x 1/2 pol x '
             f'{sorted(set(g[2] for g in GD), key=list(FSCONF).index)}): input dtypes {DTYPES} and containers {CONTAINERS} (with integer / float noise, retH); every scalar spelling '
             f'{list(SCALAR_FORMS)} of D / length / alpha / beta_2 / beta_3 one at a time and all at once, keyword and positional, retH=True / 1; gamma as {list(GAMMA_FORMS)}; '
             f'phi_max, show_progress; amplitude scales {SCALES} and DC offsets; noise layouts {NOISES}; same input and argument objects used twice; gv reconfigured between '
             f'identical calls; parameter sweeps on one write-protected input object')
    ctx.rule(f'C: explicit-state search over ALL span sequences of depth <= {depth} over a 6-span alphabet (2 DM, 4 FIBER) on every grid; model state = exact rational '
             f'(sum b2*L, sum b3*L, sum alpha*L); every transition executed on the real devices by chaining output objects; reached field compared with the model filter, '
             f'the single equivalent span, and the first history of the same model state')
    ctx.assume('numpy.fft is a correct DFT (it is the reference transform; C02 checks the library transforms against it)')
    ctx.assume('x87 extended precision (np.longdouble, 64-bit mantissa) is used for the phase argument of the reference filter')
    ctx.assume('every gv() call form leaves the documented gv.fs in force (a given fs as given, otherwise R*sps; C14 checks gv itself); the check asserts gv.fs before every case '
               'and reads nothing else from gv')
    ctx.assume('the noise component is outside the statement: only its shape is checked; for a noisy input either the signal part or the total field may obey the filter')
    ctx.assume(f'loss law band {LOSS_BAND} relative (the alpha/4.343 constant), rounding tolerance eps*(64*stages + 16*sum|theta|max)*||in_row||_2')

    worst = {}

    def absorb(part, payloads):
        vals = [p for p in payloads if isinstance(p, float)]
        if vals:
            worst[part] = max(worst.get(part, 0.0), max(vals))

    # ---- A
    cases = [(g, d, seed, g[0] in fullN) for g in G for d in devs]
    absorb('A', ctx.pmap('A.basis', case_basis, cases, horizon=HORIZON))
    # ---- B
    LW = laws()
    ctx.space('laws', len(LW))
    LWlong = laws(long=True)
    assert set(LWlong) <= set(LW)
    cases = [(g, l, seed) for g in G for l in (LW if g[0] <= N_LONG else LWlong)]
    absorb('B', ctx.pmap('B.laws', case_laws, cases, horizon=HORIZON))
    # ---- D
    ctx.space('forms', len(FM))
    cases = [(g, f, seed) for g in GD for f in FM]
    absorb('D', ctx.pmap('D.forms', case_forms, cases, horizon=HORIZON))
    # ---- C: BFS by depth over the trace tree, merging on the model state
    root_key, _ = model_state(())
    seen = {root_key: ()}
    frontier = [()]
    transitions = 0
    for d in range(1, depth + 1):
        nxt = [seq + (s,) for seq in frontier for s in range(len(SPANS))]
        layer = []
        for seq in nxt:
            key, _ = model_state(seq)
            if key not in seen:
                seen[key] = seq
            layer.append((seq, seen[key]))
        cases = [(g, seq, rep, seed) for g in G for seq, rep in layer]
        absorb('C', ctx.pmap(f'C.seq.depth{d}', case_seq, cases, horizon=HORIZON))
        transitions += len(nxt) * len(G)
        frontier = nxt
        print(f'[C07] span sequences depth {d}: sequences={len(nxt)} model states so far={len(seen)} transitions so far={transitions}', flush=True)
    ctx.graph(states=len(seen) * len(G), transitions=transitions)
    ctx.extra['gv_configurations'] = gv_table(fkeys)
    ctx.extra['span_search'] = {'alphabet': [' '.join(s) for s in SPANS], 'depth': depth, 'model_states_per_grid': len(seen),
                                'sequences_per_grid': sum(len(SPANS) ** k for k in range(1, depth + 1)), 'grids': len(G)}
    ctx.extra['worst_error_over_tolerance'] = {k: round(v, 4) for k, v in worst.items()}
    ctx.sample({'part': 'C', 'deepest_history': [' '.join(SPANS[i]) for i in max(seen.values(), key=len)]})
