"""C18 - `ADC` is a true n-bit quantiser; `shortest_int` returns a shortest covering interval.

Bounded-exhaustive exploration on the real functions (`opticomlib.utils.shortest_int`,
`opticomlib.devices.ADC`) against brute-force reference models.

shortest_int
    * EVERY data vector of length 1..8 over {0,1,2,3} (87 380 vectors = every tie pattern up to that
      size; thorough: length <= 9) x 6 percentages,
    * EVERY vector of length <= 6 (thorough: <= 8) over each of the float alphabets: scale mix {0, 0.5, 1e-3, 7}; tiny scale
      {0,1,2,3}*1e-11; 'near' {0, 1e6, 2e6+1e-3, 3e6+3e-3} (large scale, widths 1e-9 apart in relative terms); 'ulp'
      {1, 1+eps, 1+2eps, 1+3eps} (large offset, variation of one unit in the last place) - the statement is scale and offset free,
    * integer-dtype vectors of length <= 6 (thorough: <= 7): int64 {0,1,2,3}, int32 {-2,-1,0,1}, uint16 {0,1,2,3},
      full-scale int16 {-30000,0,3000,30000} (differences do not fit the dtype); real data in a complex container (imaginary
      part exactly zero), signed: complex128 {-2,-1,0,1}, complex64 {-1,-1/2,0,2} - judged on the real part,
    * the EDGE percentages (16 values: 1e-9, below 1 %, around 1 %, fractional with exact products, close to 100 % up to
      99.9999999) x every vector of length <= 7 over {0,1,2,3} (thorough: <= 8) and every int64 vector of length <= 6,
    * si-forms: 13 spellings of the data argument (ndarray, list/tuple of floats and of ints, float32, float16, int8, uint8,
      write-protected, strided view, complex128 / complex64 with zero imaginary part) x 10 spellings of the percentage (Python int/float, np.int64/int32/uint8/float64/float32,
      0-d arrays, keyword) x every vector of length <= 4 (thorough: <= 5) over {0,1,2,3},
    * si-lagscan: the lag clause on EVERY (percent, length) with percent a multiple of 1/2 in (0,100) and length 2..200
      (thorough: multiples of 1/4, length <= 400), on a permutation of 0..len-1 (float64 and int64: the returned pair shows the
      lag that was used) and on the same permutation of the triangular numbers (unique minimum),
    * seeded long vectors (3 ... 2^17, incl. 9999 / 10^4 / 10^4+1 at 99.99 %; Gaussian / uniform / dyadic 16-level quantised;
      float64, float32, float16, raw integer counts int8 ... int64 / uint8 / uint16, scaled by 1e-12 ... 1e6, on offsets of 1e6,
      -1e9 and 1 with variations down to a few ulp, real records in complex128 / complex64 containers) with the standard and
      the edge percentages.
  Vectors are batched (one worker call per 3-symbol prefix / per form pair / per length).  Failing inputs are re-registered as
  single-vector cases so that the replay file holds exactly the smallest failing input.

ADC
    adc      : 5 signal families x 10 lengths x 24 dtype / value forms (float64, float32, float16, int8 ... int64 counts, uint8 /
               uint16 counts, full-scale int16, scales 1e-12 ... 1e6, offsets; REAL records held in a complex container -
               complex128 / complex64 / complex128 with -0.0 imaginary part, bipolar, unipolar, on +1e6 / -1e9 offsets: the
               statement's "real signals" are read as "imaginary part exactly zero", the oracle is evaluated on the real part;
               a non-zero imaginary part stays outside) x n in 1..12 x otype x 8 input forms {ndarray,
               container, container+noise, +all-zero noise, +noise of another dtype, the output of a first 3-bit-volt / 8-bit-code /
               12-bit-volt conversion}, a fresh input per call (quick: the new forms as a deviation lattice around the base block).
    adc-callforms: 10 spellings of the call (positional, fs=None, n as np.int64/int32/uint8/0-d array, otype as np.str_ / left
               out, two configured global grids) on a sub-product.
    adc-sweep: family x length x dtype form x input form x {writable, write-protected}: ONE input object converted with all
               24 (n, otype) in turn; every conversion is judged against the signal handed over before the first call and
               the argument's bytes are compared with a snapshot after every call.

Oracles: see notes/C18.md.
"""
from __future__ import annotations

import functools
import itertools
import math
import zlib
from fractions import Fraction

import numpy as np

from mcx.core.kernel import res

ID = 'C18'
LEVEL = 'exploration'
NONTRIVIAL = ('shortest_int: distinct (sorted data, percent[, spelling]) with a repeated data value, lag >= 1 and >= 2 '
              'candidate windows (lag scan: distinct (vector, length, percent) with lag >= 1 and >= 2 windows); ADC: distinct (signal, length, n, otype, input form) whose output uses >= 2 '
              'levels (tag carries whether samples fall outside the estimated range, i.e. saturation is exercised)')

PERCENTS = (10, 25, 50, 75, 90, 99.99)
# the statement quantifies over percentages in (0, 100): values below 1 (lag 0 on short data, lag >= 1 only on records of
# more than 100/p samples), around 1, non-integer values with an exact product (12.5 % of 8), and values close to 100
PERCENTS_EDGE = (1e-9, 0.01, 0.25, 0.5, 0.9, 0.99, 1, 1.5, 12.5, 37.5, 62.5, 99, 99.5, 99.9, 99.999, 99.9999999)
PSETS = {'std': PERCENTS, 'edge': PERCENTS_EDGE}
ALPHABETS = {
    'int4': (0.0, 1.0, 2.0, 3.0),
    'mix': (0.0, 0.5, 1e-3, 7.0),
    'tiny': (0.0, 1e-11, 2e-11, 3e-11),
    # large scale, window widths that differ by 1e-9 of their size (a RELATIVE tie tolerance confuses them)
    'near': (0.0, 1e6, 2e6 + 1e-3, 3e6 + 3e-3),
    # large offset, variation of one unit in the last place (differences are exact multiples of eps)
    'ulp': (1.0, 1.0 + 2.0 ** -52, 1.0 + 2.0 ** -51, 1.0 + 3 * 2.0 ** -52),
    'i64': (0, 1, 2, 3),
    'i32s': (-2, -1, 0, 1),       # signed raw counts
    'u16': (0, 1, 2, 3),          # unsigned raw counts
    'i16fs': (-30000, 0, 3000, 30000),   # full-scale int16 capture: every value fits int16, some differences do not
    # REAL data held in a complex container (imaginary part exactly zero), signed values: complex128 / complex64
    'c16s': (-2.0, -1.0, 0.0, 1.0),
    'c8s': (-1.0, -0.5, 0.0, 2.0),
}
ALPHA_DTYPE = {'i64': np.int64, 'i32s': np.int32, 'u16': np.uint16, 'i16fs': np.int16, 'c16s': np.complex128,
               'c8s': np.complex64}
# input classes whose failures get their own keys (one defect class: the arithmetic is carried out in the input's own integer
# dtype and wraps around)
SI_WRAP = {'i16fs': 'full-scale-int16-input', 'i2fs': 'full-scale-int16-input', 'i1': 'full-scale-int8-input'}
EPS = float(np.finfo(float).eps)
EPS32 = float(np.finfo(np.float32).eps)
EPS16 = float(np.finfo(np.float16).eps)


def work_dtype(a):
    """the floating-point type the library's arithmetic on `a` is carried out in (integer records are converted to float64;
    a complex container computes its real part in the floating type of its components)"""
    dt = np.asarray(a).dtype
    if dt.kind == 'c':
        return np.dtype(np.float32 if dt.itemsize == 8 else np.float64)
    return dt if dt.kind == 'f' else np.dtype(float)


def real_part(a):
    """the real record held by `a`.  A complex container is inside the statement ("real signals", "data sets") only when its
    imaginary part is exactly zero: then the record IS its real part; otherwise None."""
    a = np.asarray(a)
    if a.dtype.kind != 'c':
        return a
    if np.any(a.imag != 0):
        return None
    return np.ascontiguousarray(a.real)


def work_eps(wt):
    return {2: EPS16, 4: EPS32}.get(np.dtype(wt).itemsize, EPS)


# ------------------------------------------------------------------ lag
@functools.lru_cache(maxsize=None)
def lag_set(n, p):
    """floor(p*n/100): exact (p read as the decimal literal) and the float evaluation in the order the statement writes it,
    (p*n)/100.  Other evaluation orders ((p/100)*n) are NOT accepted: they give floor-1 for some (p, n) whose product is an
    exact multiple of 100 (p=29, n=100 -> 28), which contradicts 'exactly lag = floor(p*len/100)'."""
    exact = math.floor(Fraction(str(p)) * n / 100)
    pf = float(p)
    fl = {int(math.floor(n * pf / 100)), int(math.floor(pf * n / 100.0))}
    out = [exact] + sorted(l for l in fl if l != exact)
    return tuple(l for l in out if 0 <= l < n)


# ------------------------------------------------------------------ shortest_int reference
_REF = {}


def ref_small(s, lag):
    """s: sorted tuple. -> (min width, #windows attaining it, set of (lo,hi) order-statistic pairs lag apart)"""
    k = (s, lag)
    r = _REF.get(k)
    if r is None:
        n = len(s)
        pairs = [(s[i], s[i + lag]) for i in range(n - lag)]
        widths = [b - a for a, b in pairs]
        m = min(widths)
        r = (m, sum(1 for w in widths if w == m), frozenset(pairs), len(pairs))
        if n > 12:          # the lag-scan vectors: each (vector, lag) is asked for once or twice
            return r
        if len(_REF) > 200000:
            _REF.clear()
        _REF[k] = r
    return r


def _unpack(out, cplx=False):
    """two scalars from whatever the library returned, else None.  cplx: the data were handed over in a complex container
    (zero imaginary part); the two values may then come back in that container, again with a zero imaginary part."""
    try:
        a = np.asarray(out)
        if a.shape[0] != 2:
            return None
        lo, hi = a[0], a[1]
        if np.size(lo) != 1 or np.size(hi) != 1:
            return None
        lo = np.asarray(lo).ravel()[0]
        hi = np.asarray(hi).ravel()[0]
        if np.iscomplexobj(lo) or np.iscomplexobj(hi):
            if not cplx or np.imag(lo) != 0 or np.imag(hi) != 0:
                return None
            lo, hi = np.real(lo), np.real(hi)
        return float(lo), float(hi)
    except Exception:
        return None


def si_eval(values, p, dtype=float, wrap=None):
    """run the real shortest_int on one small vector; -> (key|None, message, outcome tag, nontrivial tag|None)"""
    key, msg, otag, nt = _si_eval(values, p, dtype)
    if key is not None and wrap is not None:
        key, msg = 'SI:integer-input-wraparound:' + wrap, f'[{key}] (dtype {np.dtype(dtype).name}) ' + msg
    return key, msg, otag, nt


# ---- spellings of the two arguments (the statement quantifies over data sets and percentages, not over their Python types)
# data: the float64 ndarray is the base form; array-likes (list/tuple of floats, of Python ints), narrower dtypes (the
# alphabet {0,1,2,3} is exact in all of them), a write-protected buffer, a strided view of a larger buffer
DATA_FORMS = ('ndarray', 'list', 'tuple', 'int-list', 'int-tuple', 'f4', 'f2', 'i1', 'u1', 'readonly', 'strided', 'c16', 'c8')
# percent: Python int is the base form; Python float, numpy scalars, 0-d arrays, the keyword spelling.  Only values that every
# form represents exactly are used (integers; 12.5 in the floating forms), so the lag is the same number in every form
PCT_FORMS = ('py', 'float', 'np.int64', 'np.int32', 'np.uint8', 'np.float64', 'np.float32', '0d-int', '0d-float', 'kw')
PCT_INT_FORMS = ('py', 'np.int64', 'np.int32', 'np.uint8', '0d-int', 'kw')
FORM_PERCENTS = (10, 25, 50, 75, 90, 12.5)
_DFORM_DTYPE = {'f4': np.float32, 'f2': np.float16, 'i1': np.int8, 'u1': np.uint8, 'c16': np.complex128, 'c8': np.complex64}


def make_data(values, dform):
    if dform in ('list', 'tuple'):
        return (list if dform == 'list' else tuple)(float(v) for v in values)
    if dform in ('int-list', 'int-tuple'):
        return (list if dform == 'int-list' else tuple)(int(v) for v in values)
    if dform in _DFORM_DTYPE:
        return np.array(values, dtype=_DFORM_DTYPE[dform])
    if dform == 'strided':
        buf = np.full(2 * len(values), -99.0)
        buf[::2] = values
        return buf[::2]
    a = np.array(values, dtype=float)
    if dform == 'readonly':
        a.flags.writeable = False
    return a


def make_percent(p, pform):
    if pform in ('py', 'kw'):
        return p
    if pform == 'float':
        return float(p)
    if pform == '0d-int':
        return np.array(int(p))
    if pform == '0d-float':
        return np.array(float(p))
    return getattr(np, pform[3:])(p)


def _si_eval(values, p, dtype, dform=None, pform=None):
    from opticomlib.utils import shortest_int
    data = np.array(values, dtype=dtype) if dform is None else make_data(values, dform)
    n = len(values)
    lags = lag_set(n, p)
    s = tuple(sorted(float(v) for v in values))
    try:
        if pform is None:
            out = shortest_int(data, p)
        elif pform == 'kw':
            out = shortest_int(data, percent=p)
        else:
            out = shortest_int(data, make_percent(p, pform))
    except Exception as e:  # the statement requires a return value for every data set and p in (0,100)
        if lags and max(lags) == 0:
            key = 'SI:lag0:exception'
        else:
            key = f'SI:exception:{type(e).__name__}'
        return (key, f'shortest_int({list(values)}, {p}) raised {type(e).__name__}: {e}; lag={lags[0]}',
                (s, p, 'EXC', type(e).__name__), None)
    nt = None
    lag0 = lags[0]
    if len(set(s)) < n and lag0 >= 1 and n - lag0 >= 2:
        nt = (s, p)
    pr = _unpack(out, cplx=np.asarray(data).dtype.kind == 'c')
    otag = (s, p, pr)
    if pr is None:
        return ('SI:shape', f'shortest_int({list(values)}, {p}) returned {out!r}: not two scalars', otag, nt)
    lo, hi = pr
    call = f'shortest_int({list(values)}, {p}) -> ({lo!r}, {hi!r})'
    if lo not in s or hi not in s:
        return ('SI:not-data-values', call + ': not both data values', otag, nt)
    if not lo <= hi:
        return ('SI:lo>hi', call, otag, nt)
    worst = None
    for lag in lags:
        m, nmin, pairs, nwin = ref_small(s, lag)
        if (lo, hi) not in pairs:
            v = ('SI:not-lag-apart', call + f': no i with sorted[i]==lo and sorted[i+{lag}]==hi (sorted={list(s)})')
        elif hi - lo > m:
            if hi - lo - m < 1e-10:
                cls = 'within-abs-1e-10'
            elif nmin > 1:
                cls = 'tied-minima'
            else:
                cls = 'unique-minimum'
            v = (f'SI:not-shortest:{cls}', call + f': width {hi - lo!r} but the closest pair of order statistics '
                 f'{lag} apart has width {m!r} ({nmin} of {nwin} windows attain it; sorted={list(s)})')
        else:
            return (None, '', otag, nt)
        if worst is None:
            worst = v
    return (worst[0], worst[1], otag, nt)


def vectors(alpha, length, prefix):
    vals = ALPHABETS[alpha]
    for suf in itertools.product(vals, repeat=length - len(prefix)):
        yield tuple(prefix) + suf


def si_batch(case):
    """case = (alphabet name, length, prefix, percent set): all vectors of that length with that prefix x all percents"""
    alpha, length, prefix, pset = case
    dtype = ALPHA_DTYPE.get(alpha, float)
    ncall = 0
    nts, outs = set(), set()
    fails, failcount = {}, {}
    h = zlib.crc32(b'')
    for vec in vectors(alpha, length, prefix):
        for p in PSETS[pset]:
            key, msg, otag, nt = si_eval(vec, p, dtype, SI_WRAP.get(alpha))
            ncall += 1
            outs.add(otag)
            h = zlib.crc32(repr((vec, p, otag[2:], key)).encode(), h)
            if nt is not None:
                nts.add(nt)
            if key is not None:
                failcount[key] = failcount.get(key, 0) + 1
                if key not in fails:
                    fails[key] = (alpha, vec, p, msg)
    stats = {'si_calls': ncall}
    for k, c in failcount.items():
        stats['si_fail[' + k + ']'] = c
    return res(obs=(case, ncall, h), nontrivial=False, stats=stats,
               payload={'n': ncall, 'nt': nts, 'outs': outs, 'fails': fails})


def si_single(case):
    """one vector, one percent (replayable form of a failure found by a batch)"""
    alpha, vec, p = case
    key, msg, otag, nt = si_eval(tuple(vec), p, ALPHA_DTYPE.get(alpha, float), SI_WRAP.get(alpha))
    return res(viol=[(key, msg)] if key else [], obs=otag, nontrivial=nt if nt is not None else False)


# ------------------------------------------------------------------ argument spellings
def form_percents(pform):
    return tuple(p for p in FORM_PERCENTS if isinstance(p, int) or pform not in PCT_INT_FORMS)


def si_form_eval(vec, p, dform, pform):
    """one vector in one (data form, percent form).  A failure that the base form (float64 ndarray, Python number) shows
    as well keeps its key; a failure that only the spelling shows gets the key of the spelling."""
    key, msg, otag, nt = _si_eval(vec, p, float, dform, pform)
    if key is not None and _si_eval(vec, p, float)[0] is None:
        if _si_eval(vec, p, float, dform, 'py')[0] is not None:         # the data spelling alone does it
            what = f'data={dform}'
        elif _si_eval(vec, p, float, 'ndarray', pform)[0] is not None:  # the percent spelling alone does it
            what = f'percent={pform}'
        else:
            what = f'data={dform},percent={pform}'
        key, msg = f'SI:form-dependent:{what}', f'[{key}] (data as {dform}, percent as {pform}; the float64-ndarray / ' \
                                                f'Python-number call of the same input is right) ' + msg
    return key, msg, otag, nt


def si_forms_batch(case):
    """case = (length, data form, percent form): every vector of that length over {0,1,2,3} x the form's percentages"""
    length, dform, pform = case
    ncall = 0
    nts, outs, fails = set(), set(), {}
    h = zlib.crc32(b'')
    for vec in itertools.product(ALPHABETS['int4'], repeat=length):
        for p in form_percents(pform):
            key, msg, otag, nt = si_form_eval(vec, p, dform, pform)
            ncall += 1
            outs.add(otag)
            h = zlib.crc32(repr((vec, p, otag[2:], key)).encode(), h)
            if nt is not None:
                nts.add((nt, dform, pform))
            if key is not None and key not in fails:
                fails[key] = (vec, p, dform, pform, msg)
    return res(obs=(case, ncall, h), nontrivial=False, stats={'si_form_calls': ncall},
               payload={'n': ncall, 'nt': nts, 'outs': outs, 'fails': fails})


def si_form_single(case):
    vec, p, dform, pform = case
    key, msg, otag, nt = si_form_eval(tuple(vec), p, dform, pform)
    return res(viol=[(key, msg)] if key else [], obs=otag, nontrivial=(nt, dform, pform) if nt is not None else False)


# ------------------------------------------------------------------ lag scan
SCAN_KINDS = ('perm', 'quad', 'perm-i8')


@functools.lru_cache(maxsize=None)
def scan_vector(kind, n):
    """'perm': a fixed permutation of 0..n-1 (every window lag apart has width lag: the returned pair SHOWS the lag used);
    'quad': the same permutation of the triangular numbers k(k+1)/2 (unique minimum at the lowest window)"""
    m = next(k for k in range(max(1, int(0.618 * n)), 2 * n + 2) if math.gcd(k, n) == 1)
    perm = [(k * m + 1) % n for k in range(n)]
    if kind == 'quad':
        return tuple(float(t * (t + 1) // 2) for t in perm)
    return tuple(perm) if kind == 'perm-i8' else tuple(float(t) for t in perm)


def scan_percents(quick):
    """every multiple of 1/2 (thorough: 1/4) in (0, 100); whole numbers as Python ints"""
    d = 2 if quick else 4
    return tuple(k // d if k % d == 0 else k / d for k in range(1, 100 * d))


def si_scan_eval(kind, n, p):
    key, msg, otag, _ = _si_eval(scan_vector(kind, n), p, np.int64 if kind == 'perm-i8' else float)
    lag = lag_set(n, p)[0]
    if key is not None:
        msg = f'[{kind} vector of length {n}, p*len/100 = {Fraction(str(p)) * n / 100}] ' + msg
    return key, msg, otag[2:], ((kind, n, p) if lag >= 1 and n - lag >= 2 else None)


def si_scan_batch(case):
    """case = (length, quick?): every scan percentage x the scan vectors of that length"""
    n, quick = case
    ncall = 0
    nts, outs, fails = set(), set(), {}
    h = zlib.crc32(b'')
    for p in scan_percents(quick):
        for kind in SCAN_KINDS:
            key, msg, o, nt = si_scan_eval(kind, n, p)
            ncall += 1
            outs.add((kind, n, p, o))
            h = zlib.crc32(repr((kind, p, o, key)).encode(), h)
            if nt is not None:
                nts.add(nt)
            if key is not None and key not in fails:
                fails[key] = (kind, n, p, msg)
    return res(obs=(case, ncall, h), nontrivial=False, stats={'si_scan_calls': ncall},
               payload={'n': ncall, 'nt': nts, 'outs': outs, 'fails': fails})


def si_scan_single(case):
    kind, n, p = case
    key, msg, o, nt = si_scan_eval(kind, n, p)
    return res(viol=[(key, msg)] if key else [], obs=(kind, n, p, o), nontrivial=nt if nt is not None else False)


# ------------------------------------------------------------------ seeded long data
def _rs(seed, *what):
    return np.random.RandomState(zlib.crc32(repr((seed,) + what).encode()) & 0x7FFFFFFF)


def gen_data(kind, n, seed):
    rs = _rs(seed, 'data', kind, n)
    if kind == 'gauss':
        return rs.normal(0.0, 1.0, n)
    if kind == 'uniform':
        return rs.uniform(-1.0, 1.0, n)
    if kind == 'quant16':        # 16 dyadic levels k/4, k=-8..7: differences are exact, ties are exact
        q = np.clip(np.round(rs.normal(0.0, 1.0, n) * 4), -8, 7) / 4.0
        if np.ptp(q) == 0:
            q[0] += 0.25
        return q
    if kind == 'sine':
        k = np.arange(n)
        return 0.8 * np.sin(2 * np.pi * 0.01234 * k + 0.3) + 0.1
    if kind == 'gauss_out':      # Gaussian with injected +-10 sigma outliers
        x = rs.normal(0.0, 1.0, n)
        for j, v in zip(sorted({n // 4, n // 2, (3 * n) // 4}), (10.0, -10.0, 10.0)):
            x[j] = v
        return x
    raise KeyError(kind)


# dtype forms of a record: 'f8' is the float64 record itself; 'f4' / 'f2' its float32 / float16 rounding; the integer forms
# are raw counts (1 unit = 1000 counts: +-4 sigma = +-4000 counts, the +-10 sigma outliers = +-10000 counts fit int16, no
# difference of two samples leaves the dtype); the unsigned form rides on a 20000-count offset (all samples 10000..30000 fit
# uint16); 'i2fs' is a full-scale int16 capture (1 unit = 3000 counts: +-10 sigma = +-30000, so differences of two samples do
# not fit int16 although every sample does); 'i1' / 'u1' are 8-bit captures (1 unit = 10 counts: +-10 sigma = +-100 fits
# int8, differences do not; uint8 on a 128-count offset)
COUNTS = {'i2': (1000, 0), 'i4': (1000, 0), 'i8': (1000, 0), 'u2': (1000, 20000), 'i2fs': (3000, 0), 'i1': (10, 0),
          'u1': (10, 128)}
NP_DTYPE = {'f8': np.float64, 'f4': np.float32, 'f2': np.float16, 'i2': np.int16, 'i4': np.int32, 'i8': np.int64,
            'u2': np.uint16, 'i2fs': np.int16, 'i1': np.int8, 'u1': np.uint8}
# value forms of the float64 record: x -> x*scale + offset.  The statement has no unit (scale) and no reference level (offset):
# 'ulp' is a record whose whole variation is a few hundred units in the last place of its offset (a 12-bit step is far below
# one ulp there: the clauses hold up to the rounding of the offset, which is what the tolerance of adc_clauses expresses)
XFORM = {'x1e-12': (1e-12, 0.0), 'x1e-9': (1e-9, 0.0), 'x1e-6': (1e-6, 0.0), 'x1e6': (1e6, 0.0),
         'o1e6': (1.0, 1e6), 'o1e9': (1e-3, -1e9), 'ulp': (1e-14, 1.0)}
# complex CONTAINERS of a real record (imaginary part exactly zero; what electrical_signal(x, dtype=complex), x.astype(complex)
# or a 'v' conversion of such a record hold): '<container>' or '<container>:<value form of the real part>'.  'c16' complex128,
# 'c8' complex64 (real part rounded to float32), 'c16m' complex128 with the other spelling of zero (-0.0, e.g. after conj()).
# The families are bipolar; 'uni' makes them unipolar (5 +- 0.5 x: a photocurrent / unipolar NRZ, the +-10 sigma outliers reach
# 0 and 10), 'o1e6' / 'o1e9' put them on a large positive / negative offset (o1e9: an all-negative record)
CPLX = {'c16': np.complex128, 'c8': np.complex64, 'c16m': np.complex128}
XFORM_CPLX = {'uni': (0.5, 5.0)}


def split_form(dt):
    """-> (complex container | None, dtype / value form of the real record)"""
    head, _, inner = dt.partition(':')
    if head in CPLX:
        return head, inner or ('f4' if head == 'c8' else 'f8')
    return None, dt


def form_unit(dt):
    """size of one unit of the family in the dtype / value form dt (scale of the noise components)"""
    inner = split_form(dt)[1]
    if inner in COUNTS:
        return COUNTS[inner][0]
    return XFORM.get(inner, XFORM_CPLX.get(inner, (1.0, 0.0)))[0]


def as_dtype(base, dt, unsigned_abs=False, component=False):
    """float64 record -> the dtype / value form `dt` (see COUNTS, XFORM); never constant.
    component=True: a noise component (it takes the scale of a value form, not its offset)"""
    cont, inner = split_form(dt)
    if cont is not None:
        re = as_dtype(base, inner, unsigned_abs, component)
        if cont == 'c8' and re.dtype != np.float32:      # the real part has to be exact in the container's component type
            re = re.astype(np.float32)
            if np.ptp(re) == 0:
                re[0] = np.nextafter(re[0], np.float32(np.inf))
        x = re.astype(CPLX[cont])
        if cont == 'c16m':
            x = np.conj(x)
        assert x.dtype == CPLX[cont] and not np.any(x.imag != 0) and np.array_equal(x.real, re)
        return x
    if dt == 'f8':
        return base
    if dt in XFORM or dt in XFORM_CPLX:
        scale, off = XFORM[dt] if dt in XFORM else XFORM_CPLX[dt]
        x = base * scale + (0.0 if component else off)
        if np.ptp(x) == 0:
            x[0] = np.nextafter(x[0], np.inf)
        return x
    if dt in ('f4', 'f2'):
        x = base.astype(NP_DTYPE[dt])
    else:
        scale, off = COUNTS[dt]
        c = np.round(base * scale)
        if unsigned_abs and off:         # a noise component in an unsigned dtype cannot be negative
            c = np.abs(c)
        elif off:
            c = c + off
        info = np.iinfo(NP_DTYPE[dt])
        assert c.min() >= info.min and c.max() <= info.max, (dt, c.min(), c.max())
        x = c.astype(NP_DTYPE[dt])
    if np.ptp(x) == 0:
        x[0] += 1
    return x


def gen_signal(kind, n, seed):
    """kind = '<family>' (float64) or '<family>@<dtype or value form>'"""
    fam, _, dt = kind.partition('@')
    return as_dtype(gen_data(fam, n, seed), dt or 'f8')


def ref_long(x, lag):
    """-> (sorted, min width, indices of minimal windows).  float32 / float16 records are sorted and subtracted in their own
    arithmetic: rounding is monotone, so fl(w_ret) > fl(w_min) implies w_ret > w_min in the reals whichever precision the
    library used, and windows whose widths round to the same number are all accepted."""
    s = np.sort(np.asarray(real_part(x), dtype=work_dtype(x)))
    n = len(s)
    w = s[lag:] - s[:n - lag]
    m = w.min()
    return s, m, np.flatnonzero(w == m)


def si_long(case):
    kind, n, p, seed = case
    from opticomlib.utils import shortest_int
    x = gen_signal(kind, n, seed)
    x.flags.writeable = False
    lags = lag_set(n, p)
    name = f'shortest_int(<{kind} n={n} seed={seed}>, {p})'
    try:
        out = shortest_int(x, p)
    except Exception as e:
        key = 'SI:lag0:exception' if max(lags) == 0 else f'SI:exception:{type(e).__name__}'
        return res(viol=[(key, f'{name} raised {type(e).__name__}: {e}')], obs=('EXC', type(e).__name__), nontrivial=False)
    pr = _unpack(out, cplx=x.dtype.kind == 'c')
    nt = (kind, n, p) if lags[0] >= 1 else False
    if pr is None:
        return res(viol=[('SI:shape', f'{name} returned {out!r}')], obs=repr(out), nontrivial=nt)
    lo, hi = pr
    viol = []
    first = None
    stats = {'si_long_calls': 1}
    for lag in lags:
        s, m, imin = ref_long(x, lag)
        stats['si_long_tied_minima'] = int(len(imin) > 1)
        ilo = np.flatnonzero(s[:n - lag] == lo)
        if not (np.any(s == lo) and np.any(s == hi)):
            v = ('SI:not-data-values', f'{name} -> ({lo!r}, {hi!r}): not both data values')
        elif not lo <= hi:
            v = ('SI:lo>hi', f'{name} -> ({lo!r}, {hi!r})')
        elif not np.any(s[ilo + lag] == hi):
            v = ('SI:not-lag-apart', f'{name} -> ({lo!r}, {hi!r}): not order statistics {lag} apart')
        elif s.dtype.type(hi) - s.dtype.type(lo) > m:
            cls = 'within-abs-1e-10' if hi - lo - float(m) < 1e-10 else ('tied-minima' if len(imin) > 1 else 'unique-minimum')
            v = (f'SI:not-shortest:{cls}', f'{name} -> ({lo!r}, {hi!r}) width {hi - lo!r}; the closest order statistics '
                 f'{lag} apart have width {float(m)!r} ({len(imin)} windows, first at sorted index {int(imin[0])}: '
                 f'({s[imin[0]]!r}, {s[imin[0] + lag]!r}))')
        else:
            v = None
        if v is None:
            first = None
            break
        if first is None:
            first = v
    if first is not None:
        wrap = SI_WRAP.get(kind.partition('@')[2])
        if wrap is not None:
            first = ('SI:integer-input-wraparound:' + wrap, f'[{first[0]}] ' + first[1])
        viol.append(first)
    return res(viol=viol, obs=(lo, hi), nontrivial=nt, stats=stats)


# ------------------------------------------------------------------ ADC
ADC_KINDS = ('gauss', 'uniform', 'sine', 'quant16', 'gauss_out')
# 127 (prime) and 1024 behave like every record of fewer than 10^4 samples (lag = len-1: the range is [min, max]); 9999, 10^4
# and 10^4+1 straddle the length at which the 99.99 % rule starts to exclude a sample (10001 is the first with two windows)
ADC_LENGTHS = (2, 3, 100, 127, 1024, 9999, 10000, 10001, 20000, 2 ** 17)
ADC_LENGTHS_THIN = (2, 3, 100, 10000, 10001, 20000)      # quick tier, forms other than the float64 base
# input forms: bare ndarray; the library container without / with a noise component of the signal's dtype; with an all-zero
# noise component; with a noise component of ANOTHER dtype (float32 on a float64 signal, float64 on everything else: the
# container converts both to the common type); 'chain:<n><otype>' = the OUTPUT of a first conversion of the 'container+noise'
# input (a quantised record produced by the library itself: 8 / 4096 volt levels, 256 integer codes)
ADC_FORMS_BASE = ('ndarray', 'container', 'container+noise')
ADC_FORMS_NEW = ('container+zero-noise', 'container+other-noise', 'chain:3v', 'chain:8n', 'chain:12v')
ADC_FORMS = ADC_FORMS_BASE + ADC_FORMS_NEW
ADC_DTYPES_BASE = ('f8', 'i4', 'i8', 'i2', 'f4', 'u2', 'i2fs')     # see COUNTS
ADC_DTYPES_NEW = ('f2', 'i1', 'u1') + tuple(XFORM)                 # 8-bit captures, float16, scales and offsets (see XFORM)
# real records in a complex container (see CPLX): bipolar in complex128 / complex64, and the value forms of the complex axis
ADC_DTYPES_CPLX = ('c16', 'c8')
ADC_DTYPES_CPLX_VAL = ('c16m', 'c16:uni', 'c8:uni', 'c16:o1e6', 'c16:o1e9')
ADC_DTYPES_NEW = ADC_DTYPES_NEW + ADC_DTYPES_CPLX + ADC_DTYPES_CPLX_VAL
ADC_DTYPES = ADC_DTYPES_BASE + ADC_DTYPES_NEW
# spellings of the call: keyword (base) / positional / explicit fs=None; n as numpy integer scalars and a 0-d array; otype as
# numpy string, or left out (the statement's `ADC(x, n)` is then bound by the volt clauses); a configured global grid
ADC_CALLFORMS = ('kw', 'pos', 'fs=None', 'n:int64', 'n:int32', 'n:uint8', 'n:0d', 'otype:str_', 'otype:default',
                 'gv:sps,R', 'gv:sps,fs')
GV_FORMS = {'gv:sps,R': dict(sps=8, R=1e9), 'gv:sps,fs': dict(sps=7, fs=12.5e9 + 0.5, wavelength=1310e-9, N=5)}
ADC_NS = tuple(range(1, 13))
ADC_SWEEP = tuple((n, o) for n in ADC_NS for o in ('n', 'v'))  # the conversions applied to ONE shared input object
CLAUSES = ('length', 'integer-codes', 'saturation', 'range', 'levels', 'half-step')
CLAUSE_KEY = {'length': 'ADC:length', 'integer-codes': 'ADC:non-integer-codes', 'range': 'ADC:out-of-range',
              'levels': 'ADC:levels>2^n', 'half-step': 'ADC:inside-moves>half-step'}
# input classes whose failures get their own keys: the arithmetic of the input's own integer dtype wraps around
WRAP_DTYPES = {'u2': 'unsigned-int-input', 'i2fs': 'full-scale-int16-input', 'u1': 'unsigned-int-input',
               'i1': 'full-scale-int8-input'}


def adc_candidates(x, wt=float):
    """all minimal (V_min, V_max) value pairs of the 99.99 % rule (brute force), for every admissible lag; wt: the floating
    type the library's arithmetic on this input is carried out in (widths are compared in that arithmetic, see ref_long)"""
    n = len(x)
    xw = np.asarray(x, dtype=wt)
    cands = []
    for lag in lag_set(n, 99.99):
        s, m, imin = ref_long(xw, lag)
        for i in imin:
            c = (float(s[i]), float(s[i + lag]))
            if c not in cands:
                cands.append(c)
    return cands


def adc_clauses(x, out, n, otype, vmin, vmax, model, eps=EPS):
    """-> dict clause -> message, for one candidate range and one quantiser model.
    model 'tread': 2^n levels V_min + c*R/(2^n-1) (end levels on the range ends, step R/(2^n-1));
    model 'rise' : 2^n levels V_min + (c+1/2)*R/2^n (cells of width R/2^n). The statement does not say which.
    eps: machine epsilon of the arithmetic the input's dtype implies (float32 input -> float32 arithmetic)."""
    bad = {}
    L = 2 ** n
    R = vmax - vmin
    S = max(abs(vmin), abs(vmax), R)
    tol = 32 * eps * S          # a handful of flops on magnitudes <= S (scaling, rounding decision, back-mapping)
    if model == 'tread':
        step = R / (L - 1)
        level = lambda c: vmin + c * step
    else:
        step = R / L
        level = lambda c: vmin + (c + 0.5) * step
    if out.ndim != 1 or len(out) != len(x):
        bad['length'] = f'output shape {out.shape} for input length {len(x)}'
        return bad
    if np.iscomplexobj(out) or not np.all(np.isfinite(out)):
        bad['length'] = 'output is not a finite real signal'
        return bad
    out = out.astype(float)
    low, high = x < vmin, x > vmax
    inside = ~(low | high)
    if otype == 'n':
        if not np.all(out == np.round(out)):
            bad['integer-codes'] = 'non-integer codes'
        if np.any(out[low] != 0) or np.any(out[high] != L - 1):
            w = np.concatenate([out[low][out[low] != 0], out[high][out[high] != L - 1]])
            beyond = bool(np.any(w < 0) or np.any(w > L - 1))
            bad['saturation'] = (beyond, f'{len(w)} sample(s) outside [{vmin:.6g}, {vmax:.6g}] do not get the end codes 0/{L - 1}: '
                                 f'codes {int(w.min())}..{int(w.max())}')
        if out.min() < 0 or out.max() > L - 1:
            bad['range'] = f'codes {int(out.min())}..{int(out.max())} not within [0, {L - 1}]'
        rec = level(out)
    else:
        lo_lvl, hi_lvl = level(0), level(L - 1)
        wl = out[low][np.abs(out[low] - lo_lvl) > tol]
        wh = out[high][np.abs(out[high] - hi_lvl) > tol]
        if len(wl) or len(wh):
            w = np.concatenate([wl, wh])
            beyond = bool(np.any(w < vmin - tol) or np.any(w > vmax + tol))
            bad['saturation'] = (beyond, f'{len(w)} sample(s) outside [{vmin:.6g}, {vmax:.6g}] are not mapped to the end levels '
                                 f'{lo_lvl:.6g}/{hi_lvl:.6g}: values {w.min():.6g}..{w.max():.6g}')
        if out.min() < vmin - tol or out.max() > vmax + tol:
            bad['range'] = f'values {out.min():.6g}..{out.max():.6g} not within [V_min, V_max] = [{vmin:.6g}, {vmax:.6g}]'
        rec = out
    nlev = len(np.unique(out))
    if nlev > L:
        bad['levels'] = f'{nlev} distinct values > 2^{n} = {L}'
    if np.any(inside):
        mv = np.abs(rec[inside] - x[inside])
        if mv.max() > step / 2 + tol:
            j = int(np.argmax(mv))
            bad['half-step'] = (f'sample {x[inside][j]!r} inside the range moved by {mv.max():.6g} > half a step '
                                f'{step / 2:.6g} ({int(np.sum(mv > step / 2 + tol))} samples)')
    return bad


def adc_input(kind, length, dt, form, seed):
    """-> (argument for ADC, float64 copy of the real signal the converter has to quantise, working float type).
    The integer forms are exact in float64; for float32 / float16 the reference is the sum signal+noise in that type (the real
    sum is within one rounding of it, which the tolerance of adc_clauses in that type covers).  For a complex container the
    signal to quantise is the real part (the imaginary part is exactly zero; the sum of two such records is exact in both
    parts); a chained record with a non-zero imaginary part is outside the statement: the signal is returned as None."""
    from opticomlib.typing import electrical_signal
    if form.startswith('chain:'):
        first, _, _ = adc_input(kind, length, dt, 'container+noise', seed)
        arg = adc_call(first, int(form[6:-1]), form[-1])
        x = adc_output(arg)
        xr = real_part(x)
        return arg, (None if xr is None else np.array(xr, dtype=float)), work_dtype(x)
    sig = as_dtype(gen_data(kind, length, seed), dt)
    if form == 'ndarray':
        arg, x = sig, sig
    elif form == 'container':
        arg = electrical_signal(sig)
        x = arg.signal
    else:
        nbase = 0.05 * _rs(seed, 'noise', kind, length).normal(0.0, 1.0, length)
        if form == 'container+noise':
            noise = as_dtype(nbase, dt, unsigned_abs=True, component=True)
        elif form == 'container+zero-noise':
            noise = np.zeros_like(sig)
        else:
            noise = (nbase * form_unit(dt)).astype(np.float32 if sig.dtype == np.float64 else np.float64)
        if np.ptp(real_part(np.asarray(sig) + noise)) == 0:      # 8-bit pair [a, a+1] + noise [1, 0]: keep the record non-constant
            noise = noise.copy()
            noise[0] = noise[0] - 1 if noise[0] > 0 else noise[0] + 1
        arg = electrical_signal(sig, noise)
        x = arg.signal + arg.noise
    assert split_form(dt)[0] is None or x.dtype.kind == 'c', (dt, form, x.dtype)     # the container keeps the complex type
    return arg, np.array(real_part(x), dtype=float), work_dtype(x)


def adc_call(arg, n, otype, cform='kw'):
    from opticomlib.devices import ADC
    if cform == 'pos':
        return ADC(arg, None, n, otype)
    if cform == 'fs=None':
        return ADC(arg, fs=None, n=n, otype=otype)
    if cform.startswith('n:'):
        return ADC(arg, n=np.array(n) if cform == 'n:0d' else getattr(np, cform[2:])(n), otype=otype)
    if cform == 'otype:str_':
        return ADC(arg, n=n, otype=np.str_(otype))
    if cform == 'otype:default':
        assert otype == 'v'
        return ADC(arg, n=n)
    return ADC(arg, n=n, otype=otype)


def adc_output(y, cplx=False):
    """the returned record.  cplx: the input was a real record in a complex container; the output may then come back in
    such a container too (the 'v' levels V_min + c*step inherit the type of V_min) - with an imaginary part that is exactly
    zero it is judged by its real part; a non-zero imaginary part is not a value in [V_min, V_max] and stays complex
    (adc_clauses: 'not a finite real signal')."""
    out = np.asarray(getattr(y, 'signal', y))
    if getattr(y, 'noise', None) is not None:
        out = out + np.asarray(y.noise)
    if cplx and out.dtype.kind == 'c' and real_part(out) is not None:
        out = real_part(out)
    return out


def is_cplx(arg):
    return np.asarray(getattr(arg, 'signal', arg)).dtype.kind == 'c'


def adc_judge(x, out, n, otype, cands, dt, eps=EPS):
    """try every minimal range x both quantiser models; -> (key|None, message, #samples outside the best range)"""
    best = None
    for (vmin, vmax) in cands:
        for model in ('tread', 'rise'):
            bad = adc_clauses(x, out, n, otype, vmin, vmax, model, eps)
            first = min((CLAUSES.index(c) for c in bad), default=len(CLAUSES))
            score = (first, -len(bad))
            if best is None or score > best[0]:
                best = (score, bad, vmin, vmax, model)
            if not bad:
                break
        if best is not None and not best[1]:
            break
    _, bad, vmin, vmax, model = best
    n_out = int(np.sum((x < vmin) | (x > vmax)))
    if not bad:
        return None, '', n_out
    c = min(bad, key=CLAUSES.index)
    m = bad[c]
    if c == 'saturation':
        beyond, m = m
        key = 'ADC:no-saturation' if beyond else 'ADC:outside-not-end-code'
    else:
        key = CLAUSE_KEY[c]
    others = [k for k in bad if k != c]
    if dt in WRAP_DTYPES:      # one defect class (arithmetic carried out in the input's own integer dtype) -> one key per class
        m = f'[{key}] ' + m
        key = 'ADC:integer-input-wraparound:' + WRAP_DTYPES[dt]
    return (key, m + (f' [also failing: {", ".join(others)}]' if others else '') +
            f' (best of {len(cands)} minimal range(s), model {model})', n_out)


def _digest(out):
    import hashlib
    return (out.shape, str(out.dtype), hashlib.sha256(np.ascontiguousarray(out).tobytes()).hexdigest()[:16])


def _degenerate(cands):
    """every minimal range has zero width: a constant record (zero quantisation step) is outside the quantifier"""
    return all(vmax == vmin for vmin, vmax in cands)


def adc_case(case):
    """one conversion of a freshly built input; case = (family, length, dtype form, n, otype, input form, seed[, call form])"""
    kind, length, dt, n, otype, form, seed = case[:7]
    cform = case[7] if len(case) > 7 else 'kw'
    from mcx.core.env import gv_reset
    gv_reset(**GV_FORMS.get(cform, {}))
    np.random.seed(0)
    arg, x, wt = adc_input(kind, length, dt, form, seed)
    if x is None:
        return res(obs='chained-record-not-real', nontrivial=False, stats={'adc_chained_inputs_not_real': 1})
    cands = adc_candidates(x, wt)
    if _degenerate(cands):
        return res(obs='constant-input', nontrivial=False, stats={'adc_constant_inputs': 1})
    name = f'ADC(<{kind} {dt} len={length} {form} seed={seed}>, n={n}, otype={otype!r})' + \
           ('' if cform == 'kw' else f' spelled {cform!r}')
    cplx = is_cplx(arg)
    y = adc_call(arg, n, otype, cform)
    out = adc_output(y, cplx)
    key, msg, n_out = adc_judge(x, out, n, otype, cands, dt, work_eps(wt))
    if key and cform != 'kw':
        # a failure of the plain keyword call keeps its key; one that only this spelling shows gets the key of the spelling
        gv_reset()
        arg0, _, _ = adc_input(kind, length, dt, form, seed)
        if adc_judge(x, adc_output(adc_call(arg0, n, otype), cplx), n, otype, cands, dt, work_eps(wt))[0] is None:
            key, msg = f'ADC:call-form-dependent:{cform}', f'[{key}] ' + msg
    nlev = len(np.unique(out)) if out.ndim == 1 else 0
    stats = {'adc_cases': 1, 'adc_cases_with_outside_samples': int(n_out > 0), 'adc_candidate_ranges': len(cands),
             'adc_cases_complex_container': int(cplx), 'adc_cases_complex_container_negative_samples': int(cplx and x.min() < 0)}
    nt = (kind, length, dt, n, otype, form, cform, n_out > 0) if nlev >= 2 else False
    viol = [(key, f'{name}: {msg}')] if key else []
    return res(viol=viol, obs=_digest(out), nontrivial=nt, stats=stats)


def adc_sweep(case):
    """ONE input object converted with every (n, otype) in turn (a bit-depth sweep); every conversion is judged against
    the signal the caller handed over, and the argument's bytes are compared with a snapshot after every call.
    protect=True additionally write-protects the argument's buffers (the statement's x is an operand, not an output)."""
    kind, length, dt, form, protect, seed = case
    from mcx.core.env import gv_reset, freeze, unchanged
    from opticomlib.devices import ADC
    gv_reset()
    np.random.seed(0)
    arg, x, wt = adc_input(kind, length, dt, form, seed)
    if x is None:
        return res(obs='chained-record-not-real', nontrivial=False, stats={'adc_chained_inputs_not_real': 1}, payload={'calls': 0})
    cplx = is_cplx(arg)
    snap = freeze(arg)
    if not protect:
        for a in ([arg] if isinstance(arg, np.ndarray) else [getattr(arg, k, None) for k in ('signal', 'noise')]):
            if isinstance(a, np.ndarray):
                a.flags.writeable = True
    cands = adc_candidates(x, wt)
    if _degenerate(cands):
        return res(obs='constant-input', nontrivial=False, stats={'adc_constant_inputs': 1}, payload={'calls': 0})
    eps = work_eps(wt)
    base = f'<{kind} {dt} len={length} {form} seed={seed}{" write-protected" if protect else ""}>'
    viol, seen = [], set()
    digests = []
    n_multi = 0
    n_outside = 0
    for k, (n, otype) in enumerate(ADC_SWEEP):
        name = f'conversion #{k + 1} of one shared input: ADC({base}, n={n}, otype={otype!r})'
        try:
            y = ADC(arg, n=n, otype=otype)
        except ValueError as e:
            if protect and 'read-only' in str(e):
                viol.append(('ADC:writes-into-argument', f'{name} tried to write into its write-protected argument: {e}'))
                break
            raise
        out = adc_output(y, cplx)
        digests.append(_digest(out))
        key, msg, n_out = adc_judge(x, out, n, otype, cands, dt, eps)
        n_outside = max(n_outside, n_out)
        if out.ndim == 1 and len(np.unique(out)) >= 2:
            n_multi += 1
        if key:
            if k > 0 and dt not in WRAP_DTYPES:
                key += ':reused-input'
            if key not in seen:
                seen.add(key)
                viol.append((key, f'{name}: {msg}'))
        if 'ADC:argument-modified' not in seen and not unchanged(arg, snap):
            seen.add('ADC:argument-modified')     # keep converting: the later calls show what the caller then gets
            viol.append(('ADC:argument-modified', f'{name} changed the bytes of its argument (signal/noise buffers compared '
                         f'with the snapshot taken before the first conversion)'))
    stats = {'adc_sweeps': 1, 'adc_sweep_calls': len(digests), 'adc_sweeps_with_outside_samples': int(n_outside > 0)}
    nt = (kind, length, dt, form, protect, n_outside > 0) if n_multi >= 2 else False
    return res(viol=viol, obs=tuple(digests), nontrivial=nt, stats=stats, payload={'calls': len(digests)})


# ------------------------------------------------------------------ run
def _batches(alpha, maxlen, pset='std'):
    out = []
    vals = ALPHABETS[alpha]
    for length in range(1, maxlen + 1):
        for prefix in itertools.product(vals, repeat=min(length, 3)):
            out.append((alpha, length, prefix, pset))
    return out


def _merge_batches(ctx, part, cases, pay, single_fn, single_case):
    """sub-case bookkeeping of a batched part: distinct outcomes / non-trivial tags, calls, and the first failing inputs of
    every key re-registered as single replayable cases"""
    total, seen = 0, {}
    for c, p in zip(cases, pay):
        if p is None:
            continue
        total += p['n']
        for t in p['nt']:
            ctx.nt_tags.add((part, t))
        for o in p['outs']:
            ctx.outcomes.add((part, o))
        for key, f in p['fails'].items():
            k = seen.setdefault(key, 0)
            if k < 20:       # first (= simplest) failing inputs, as single replayable cases
                seen[key] = k + 1
                ctx.violation(part, key, f[-1], case=single_case(f), fn=single_fn)
    ctx.evaluations += total - len(cases)
    ctx.spaces[part + ':calls'] = total
    return total


def run(ctx):
    q = ctx.quick
    ctx.rule('shortest_int: every vector of length 1..Lmax over a 4-value alphabet (lexicographic, shortest first), each '
             'with every percentage of the set (std {10,25,50,75,90,99.99}; edge = 16 values below 1, around 1, fractional, '
             'close to 100); one worker call per (alphabet, length, 3-symbol prefix); si-forms: every vector of length <= 4 (5) '
             'over {0,1,2,3} in every (data spelling x percent spelling); si-lagscan: every (percent, length) with percent a '
             'multiple of 1/2 (1/4) in (0,100) and length 2..200 (400) on three probe vectors; '
             'evaluations counts single shortest_int/ADC calls; seeded long vectors select content only via VERIF_SEED. '
             'ADC: signal family x length x dtype/value form x n x otype x input form (fresh input per call; quick: the forms '
             'added by the hardening pass run as a deviation lattice around the base forms, thorough: the full product), the '
             'call spellings on a sub-product, and family x length x dtype form x input form x write-protection with all 24 '
             '(n, otype) applied to ONE input object')
    ctx.assume('numpy sort/min/subtract are correct (the reference uses them on long vectors; python arithmetic on short ones)')
    ctx.assume('float subtraction is monotone, so "returned width > minimal width" in floats implies the same for the exact reals')
    ctx.assume('a constant signal (V_max == V_min, zero quantisation step) is outside the quantifier and is not enumerated')
    ctx.assume('numpy 1.26 scalar promotion (value based): numpy integer scalars for n / percent do not wrap around')
    ctx.assume('a real record held in a complex container (imaginary part exactly zero) is a real signal / data set: it is judged on '
               'its real part, and an output that comes back in such a container is judged on its real part if its imaginary part '
               'is exactly zero; records with a non-zero imaginary part are outside the statement and are not enumerated')

    plan = [('int4', 8 if q else 9, 'std'), ('mix', 6 if q else 8, 'std'), ('tiny', 6 if q else 8, 'std'),
            ('near', 6 if q else 8, 'std'), ('ulp', 6 if q else 8, 'std'),
            ('i64', 6 if q else 7, 'std'), ('i32s', 6 if q else 7, 'std'), ('u16', 6 if q else 7, 'std'),
            ('i16fs', 6 if q else 7, 'std'), ('c16s', 6 if q else 7, 'std'), ('c8s', 6 if q else 7, 'std'),
            ('int4', 7 if q else 8, 'edge'), ('i64', 6 if q else 7, 'edge')]
    for alpha, maxlen, pset in plan:
        part = f'si-exhaustive-{alpha}' + ('' if pset == 'std' else '-' + pset)
        npct = len(PSETS[pset])
        cases = _batches(alpha, maxlen, pset)
        nvec = sum(4 ** l for l in range(1, maxlen + 1))
        print(f'[C18] {part}: {nvec} vectors x {npct} percents = {nvec * npct} calls in {len(cases)} batches',
              flush=True)
        pay = ctx.pmap(part, si_batch, cases, horizon=300, chunk=1, quiet=True)
        total = _merge_batches(ctx, part, cases, pay, si_single, lambda f: (f[0], tuple(f[1]), f[2]))
        assert total == nvec * npct, (total, nvec)
        ctx.spaces[part + ':vectors'] = nvec

    # argument spellings: (data form x percent form) x every vector of length 1..4 (5) over {0,1,2,3}
    cases = [(length, d, p) for length in range(1, (4 if q else 5) + 1) for d in DATA_FORMS for p in PCT_FORMS]
    print(f'[C18] si-forms: {len(DATA_FORMS)} data forms x {len(PCT_FORMS)} percent forms, {len(cases)} batches', flush=True)
    pay = ctx.pmap('si-forms', si_forms_batch, cases, horizon=300, quiet=True)
    _merge_batches(ctx, 'si-forms', cases, pay, si_form_single, lambda f: (tuple(f[0]), f[1], f[2], f[3]))

    # the lag clause: every (percent, length) pair of a grid, incl. all pairs whose product is an exact multiple of 100
    cases = [(n, q) for n in range(2, (200 if q else 400) + 1)]
    print(f'[C18] si-lagscan: {len(cases)} lengths x {len(scan_percents(q))} percents x {len(SCAN_KINDS)} vectors', flush=True)
    pay = ctx.pmap('si-lagscan', si_scan_batch, cases, horizon=300, quiet=True)
    _merge_batches(ctx, 'si-lagscan', cases, pay, si_scan_single, lambda f: (f[0], f[1], f[2]))

    kinds = ('gauss', 'uniform', 'quant16')
    ikinds = ('gauss@i4', 'quant16@i8', 'uniform@i2', 'gauss@u2', 'gauss@f4', 'gauss_out@i2fs')     # raw-count / float32 records
    # 8-bit / float16 records, scales 1e-12 .. 1e6, large offsets with a small (down to ulp-sized) variation
    xkinds = ('gauss_out@i1', 'gauss@u1', 'gauss@f2', 'gauss@x1e-12', 'uniform@x1e-9', 'quant16@x1e-6', 'gauss@x1e6',
              'gauss@o1e6', 'uniform@o1e9', 'gauss@ulp', 'quant16@ulp',
              # real records in a complex container (zero imaginary part): bipolar, unipolar, on a negative offset
              'gauss@c16', 'uniform@c8', 'quant16@c16m', 'gauss_out@c8:uni', 'uniform@c16:o1e9')
    lens = (10 ** 4, 2 ** 17)
    long_cases = [(k, n, p, ctx.seed + j) for n in lens for k in kinds for p in PERCENTS
                  for j in range(1 if q else 4)]
    # (p, n) pairs whose product is an exact multiple of 100 while (p/100)*n rounds below it
    long_cases += [(k, n, p, ctx.seed) for n in (50, 100, 200, 800) for k in kinds for p in (29, 57, 58, 7, 14, 28)]
    long_cases += [(k, n, 99.99, ctx.seed) for n in (9999, 10 ** 4, 10 ** 4 + 1, 2 * 10 ** 4, 3 * 10 ** 4) for k in kinds]
    # integer-dtype / float32 records with the standard percentages
    long_cases += [(k, n, p, ctx.seed + j) for n in lens for k in ikinds for p in PERCENTS for j in range(1 if q else 2)]
    # edge percentages on records long enough for a lag >= 1 below 1 % (lag 0 on the shortest ones)
    long_cases += [(k, n, p, ctx.seed + j) for n in (64, 200, 2000, 10 ** 4, 2 ** 17) for k in kinds + ikinds[:2]
                   for p in PERCENTS_EDGE for j in range(1 if q else 2)]
    long_cases += [(k, n, p, ctx.seed + j) for n in (3, 200, 10 ** 4 + 1) + ((2 ** 17,) if not q else ()) for k in xkinds
                   for p in PERCENTS + (0.5, 12.5) for j in range(1 if q else 2)]
    ctx.pmap('si-long', si_long, long_cases, horizon=120)

    # ---- ADC, single conversions.  thorough: the full product (cells with a new dtype form AND a new input form: every
    # second bit depth; sweeps of those cells: writable form only).  quick: the base block (7 dtype forms x 3 input forms, as
    # before the hardening pass) and, around it, one deviation at a time: a new dtype / value form with the base input forms,
    # a new input form with four dtype forms; both with every second bit depth; 9999 / 127 / 1024 / 2^17 only for float64
    # (2^17 for the other forms is left to the sweeps)
    NS_THIN = (1, 2, 5, 8, 11, 12)

    def single_lengths(dt):
        return ADC_LENGTHS if (dt == 'f8' or not q) else ADC_LENGTHS_THIN

    def single_cells():
        for dt in ADC_DTYPES:
            for f in ADC_FORMS:
                new_dt, new_f = dt in ADC_DTYPES_NEW, f in ADC_FORMS_NEW
                if not (new_dt or new_f) or (not q and not (new_dt and new_f)):
                    yield dt, f, single_lengths(dt), ADC_NS
                elif not q:                                   # thorough, two deviations at once: every second bit depth
                    yield dt, f, ADC_LENGTHS, NS_THIN
                elif dt in ADC_DTYPES_CPLX_VAL:               # value forms of the complex-container axis: thinner lattice
                    if f in ('ndarray', 'container+noise'):
                        yield dt, f, (3, 100, 10001, 20000), (1, 8, 12)
                elif new_dt != new_f and (new_dt or dt in ('f8', 'i4', 'f4', 'u2')):
                    yield dt, f, ADC_LENGTHS_THIN, NS_THIN
                elif dt == 'c16' and f in ('container+other-noise', 'chain:12v'):
                    # a real noise component on a complex signal; the complex128 record a first 'v' conversion returns
                    yield dt, f, ADC_LENGTHS_THIN, NS_THIN

    def nseeds(dt, f):      # thorough: three seeds for the base block, one for the cells the hardening pass added
        return 1 if q or dt in ADC_DTYPES_NEW or f in ADC_FORMS_NEW else 3

    adc_cases = [(k, L, dt, n, o, f, ctx.seed + j) for j in range(3) for dt, f, Ls, ns in single_cells() if j < nseeds(dt, f)
                 for L in Ls for k in ADC_KINDS for n in ns for o in ('n', 'v')]
    ctx.pmap('adc', adc_case, adc_cases, horizon=120)

    # ---- ADC, spellings of the call (each alone and combined with one other deviation: integer counts, a noise component)
    cf_cases = [(k, L, dt, n, o, f, ctx.seed, cf)
                for cf in ADC_CALLFORMS[1:] for dt in (('f8', 'i4') if q else ('f8', 'i4', 'u2', 'f4', 'c16'))
                for L in ((3, 100, 10001, 20000) if q else (3, 100, 10001, 20000, 2 ** 17)) for k in ADC_KINDS
                for f in (('ndarray', 'container+noise') if q else ('ndarray', 'container+noise', 'container+other-noise',
                                                                    'chain:8n')) for n in (1, 8, 12) for o in ('n', 'v')
                if not (cf == 'otype:default' and o == 'n')]
    ctx.pmap('adc-callforms', adc_case, cf_cases, horizon=120)

    def sweep_member(dt, f, L, prot):
        new_dt, new_f = dt in ADC_DTYPES_NEW, f in ADC_FORMS_NEW
        if dt in ADC_DTYPES_CPLX_VAL:      # value forms of the complex-container axis: thorough only, writable, base input forms
            return not q and not prot and not new_f
        if not q:
            return not (new_dt and new_f and prot)
        if new_dt and new_f:
            return False
        if dt == 'c8':                     # complex64: the bare array only (complex128: as every new dtype form)
            return not prot and f == 'ndarray' and L in ADC_LENGTHS_THIN
        if new_dt:                 # writable form, input forms ndarray / container+noise; 2^17 for 'ulp' and int8
            return (not prot and f != 'container' and
                    L in ADC_LENGTHS_THIN + ((2 ** 17,) if dt in ('ulp', 'i1') and f == 'ndarray' else ()))
        if new_f:
            return dt in ('f8', 'i4') and L in ADC_LENGTHS_THIN + ((2 ** 17,) if (dt == 'f8' and not prot) else ())
        if dt == 'f8':
            return True
        if L == 2 ** 17:
            return dt in ('i4', 'u2', 'i2fs') and not prot
        return L in ADC_LENGTHS_THIN

    sweep_cases = [(k, L, dt, f, prot, ctx.seed + j) for j in range(2) for dt in ADC_DTYPES for L in ADC_LENGTHS
                   for k in ADC_KINDS for f in ADC_FORMS for prot in (False, True)
                   if sweep_member(dt, f, L, prot) and j < min(2, nseeds(dt, f))]
    pay = ctx.pmap('adc-sweep', adc_sweep, sweep_cases, horizon=300)
    ncalls = sum(p['calls'] for p in pay if p)
    ctx.evaluations += ncalls - len(sweep_cases)
    ctx.spaces['adc-sweep:calls'] = ncalls
