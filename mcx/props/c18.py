"""C18 - `ADC` is a true n-bit quantiser; `shortest_int` returns a shortest covering interval.

Bounded-exhaustive exploration on the real functions (`opticomlib.utils.shortest_int`,
`opticomlib.devices.ADC`) against brute-force reference models.

shortest_int
    * EVERY data vector of length 1..8 over {0,1,2,3} (87 380 vectors = every tie pattern up to that
      size; thorough: length <= 9) x 6 percentages,
    * EVERY vector of length <= 6 over the scale mix {0, 0.5, 1e-3, 7} (thorough: <= 8),
    * EVERY vector of length <= 6 over the tiny-scale alphabet {0,1,2,3}*1e-11 (the statement is
      scale free; thorough: <= 8),
    * integer-dtype vectors of length <= 6 (thorough: <= 7): int64 {0,1,2,3}, int32 {-2,-1,0,1}, uint16 {0,1,2,3},
      full-scale int16 {-30000,0,3000,30000} (differences do not fit the dtype),
    * the EDGE percentages (14 values: below 1 %, around 1 %, fractional with exact products, close to 100 %) x every
      vector of length <= 7 over {0,1,2,3} (thorough: <= 8) and every int64 vector of length <= 6,
    * seeded long vectors (64 ... 2^17; Gaussian / uniform / dyadic 16-level quantised; float64, float32 and raw integer
      counts int32/int64/int16/uint16) with the standard and the edge percentages (lag >= 1 below 1 % needs > 100 samples).
  Vectors are batched by their 3-symbol prefix: one `si_batch` call runs all vectors below a prefix
  with all percentages.  Failing (vector, percent) pairs are re-registered as single-vector cases so
  that the replay file holds exactly the smallest failing input.

ADC
    adc      : 5 signal families x 7 lengths x 7 dtype forms (float64, float32, int32/int64/int16 counts, uint16 counts,
               full-scale int16) x n in 1..12 x otype x {ndarray, container, container+noise}, a fresh input per call.
    adc-sweep: family x length x dtype form x input form x {writable, write-protected}: ONE input object converted with all
               24 (n, otype) in turn; every conversion is judged against the signal handed over before the first call and
               the argument's bytes are compared with a snapshot after every call.

Oracles: see notes/C18.md.
"""
from __future__ import annotations

import functools
import itertools
import math
import zlib
from fractions import Fraction

import numpy as np

from mcx.core.kernel import res

ID = 'C18'
LEVEL = 'exploration'
NONTRIVIAL = ('shortest_int: distinct (sorted data, percent) with a repeated data value, lag >= 1 and >= 2 '
              'candidate windows; ADC: distinct (signal, length, n, otype, input form) whose output uses >= 2 '
              'levels (tag carries whether samples fall outside the estimated range, i.e. saturation is exercised)')

PERCENTS = (10, 25, 50, 75, 90, 99.99)
# the statement quantifies over percentages in (0, 100): values below 1 (lag 0 on short data, lag >= 1 only on records of
# more than 100/p samples), around 1, non-integer values with an exact product (12.5 % of 8), and values close to 100
PERCENTS_EDGE = (0.01, 0.25, 0.5, 0.9, 0.99, 1, 1.5, 12.5, 37.5, 62.5, 99, 99.5, 99.9, 99.999)
PSETS = {'std': PERCENTS, 'edge': PERCENTS_EDGE}
ALPHABETS = {
    'int4': (0.0, 1.0, 2.0, 3.0),
    'mix': (0.0, 0.5, 1e-3, 7.0),
    'tiny': (0.0, 1e-11, 2e-11, 3e-11),
    'i64': (0, 1, 2, 3),
    'i32s': (-2, -1, 0, 1),       # signed raw counts
    'u16': (0, 1, 2, 3),          # unsigned raw counts
    'i16fs': (-30000, 0, 3000, 30000),   # full-scale int16 capture: every value fits int16, some differences do not
}
ALPHA_DTYPE = {'i64': np.int64, 'i32s': np.int32, 'u16': np.uint16, 'i16fs': np.int16}
# input classes whose failures get their own keys (one defect class: the arithmetic is carried out in the input's own integer
# dtype and wraps around)
SI_WRAP = {'i16fs': 'full-scale-int16-input', 'i2fs': 'full-scale-int16-input'}
EPS = float(np.finfo(float).eps)
EPS32 = float(np.finfo(np.float32).eps)


# ------------------------------------------------------------------ lag
@functools.lru_cache(maxsize=None)
def lag_set(n, p):
    """floor(p*n/100): exact (p read as the decimal literal) and the float evaluation in the order the statement writes it,
    (p*n)/100.  Other evaluation orders ((p/100)*n) are NOT accepted: they give floor-1 for some (p, n) whose product is an
    exact multiple of 100 (p=29, n=100 -> 28), which contradicts 'exactly lag = floor(p*len/100)'."""
    exact = math.floor(Fraction(str(p)) * n / 100)
    pf = float(p)
    fl = {int(math.floor(n * pf / 100)), int(math.floor(pf * n / 100.0))}
    out = [exact] + sorted(l for l in fl if l != exact)
    return tuple(l for l in out if 0 <= l < n)


# ------------------------------------------------------------------ shortest_int reference
_REF = {}


def ref_small(s, lag):
    """s: sorted tuple. -> (min width, #windows attaining it, set of (lo,hi) order-statistic pairs lag apart)"""
    k = (s, lag)
    r = _REF.get(k)
    if r is None:
        n = len(s)
        pairs = [(s[i], s[i + lag]) for i in range(n - lag)]
        widths = [b - a for a, b in pairs]
        m = min(widths)
        r = (m, sum(1 for w in widths if w == m), frozenset(pairs), len(pairs))
        if len(_REF) > 200000:
            _REF.clear()
        _REF[k] = r
    return r


def _unpack(out):
    """two scalars from whatever the library returned, else None"""
    try:
        a = np.asarray(out)
        if a.shape[0] != 2:
            return None
        lo, hi = a[0], a[1]
        if np.size(lo) != 1 or np.size(hi) != 1:
            return None
        lo = np.asarray(lo).ravel()[0]
        hi = np.asarray(hi).ravel()[0]
        if np.iscomplexobj(lo) or np.iscomplexobj(hi):
            return None
        return float(lo), float(hi)
    except Exception:
        return None


def si_eval(values, p, dtype=float, wrap=None):
    """run the real shortest_int on one small vector; -> (key|None, message, outcome tag, nontrivial tag|None)"""
    key, msg, otag, nt = _si_eval(values, p, dtype)
    if key is not None and wrap is not None:
        key, msg = 'SI:integer-input-wraparound:' + wrap, f'[{key}] (dtype {np.dtype(dtype).name}) ' + msg
    return key, msg, otag, nt


def _si_eval(values, p, dtype):
    from opticomlib.utils import shortest_int
    data = np.array(values, dtype=dtype)
    n = len(values)
    lags = lag_set(n, p)
    s = tuple(sorted(float(v) for v in values))
    try:
        out = shortest_int(data, p)
    except Exception as e:  # the statement requires a return value for every data set and p in (0,100)
        if lags and max(lags) == 0:
            key = 'SI:lag0:exception'
        else:
            key = f'SI:exception:{type(e).__name__}'
        return (key, f'shortest_int({list(values)}, {p}) raised {type(e).__name__}: {e}; lag={lags[0]}',
                (s, p, 'EXC', type(e).__name__), None)
    nt = None
    lag0 = lags[0]
    if len(set(s)) < n and lag0 >= 1 and n - lag0 >= 2:
        nt = (s, p)
    pr = _unpack(out)
    otag = (s, p, pr)
    if pr is None:
        return ('SI:shape', f'shortest_int({list(values)}, {p}) returned {out!r}: not two scalars', otag, nt)
    lo, hi = pr
    call = f'shortest_int({list(values)}, {p}) -> ({lo!r}, {hi!r})'
    if lo not in s or hi not in s:
        return ('SI:not-data-values', call + ': not both data values', otag, nt)
    if not lo <= hi:
        return ('SI:lo>hi', call, otag, nt)
    worst = None
    for lag in lags:
        m, nmin, pairs, nwin = ref_small(s, lag)
        if (lo, hi) not in pairs:
            v = ('SI:not-lag-apart', call + f': no i with sorted[i]==lo and sorted[i+{lag}]==hi (sorted={list(s)})')
        elif hi - lo > m:
            if hi - lo - m < 1e-10:
                cls = 'within-abs-1e-10'
            elif nmin > 1:
                cls = 'tied-minima'
            else:
                cls = 'unique-minimum'
            v = (f'SI:not-shortest:{cls}', call + f': width {hi - lo!r} but the closest pair of order statistics '
                 f'{lag} apart has width {m!r} ({nmin} of {nwin} windows attain it; sorted={list(s)})')
        else:
            return (None, '', otag, nt)
        if worst is None:
            worst = v
    return (worst[0], worst[1], otag, nt)


def vectors(alpha, length, prefix):
    vals = ALPHABETS[alpha]
    for suf in itertools.product(vals, repeat=length - len(prefix)):
        yield tuple(prefix) + suf


def si_batch(case):
    """case = (alphabet name, length, prefix, percent set): all vectors of that length with that prefix x all percents"""
    alpha, length, prefix, pset = case
    dtype = ALPHA_DTYPE.get(alpha, float)
    ncall = 0
    nts, outs = set(), set()
    fails, failcount = {}, {}
    h = zlib.crc32(b'')
    for vec in vectors(alpha, length, prefix):
        for p in PSETS[pset]:
            key, msg, otag, nt = si_eval(vec, p, dtype, SI_WRAP.get(alpha))
            ncall += 1
            outs.add(otag)
            h = zlib.crc32(repr((vec, p, otag[2:], key)).encode(), h)
            if nt is not None:
                nts.add(nt)
            if key is not None:
                failcount[key] = failcount.get(key, 0) + 1
                if key not in fails:
                    fails[key] = (alpha, vec, p, msg)
    stats = {'si_calls': ncall}
    for k, c in failcount.items():
        stats['si_fail[' + k + ']'] = c
    return res(obs=(case, ncall, h), nontrivial=False, stats=stats,
               payload={'n': ncall, 'nt': nts, 'outs': outs, 'fails': fails})


def si_single(case):
    """one vector, one percent (replayable form of a failure found by a batch)"""
    alpha, vec, p = case
    key, msg, otag, nt = si_eval(tuple(vec), p, ALPHA_DTYPE.get(alpha, float), SI_WRAP.get(alpha))
    return res(viol=[(key, msg)] if key else [], obs=otag, nontrivial=nt if nt is not None else False)


# ------------------------------------------------------------------ seeded long data
def _rs(seed, *what):
    return np.random.RandomState(zlib.crc32(repr((seed,) + what).encode()) & 0x7FFFFFFF)


def gen_data(kind, n, seed):
    rs = _rs(seed, 'data', kind, n)
    if kind == 'gauss':
        return rs.normal(0.0, 1.0, n)
    if kind == 'uniform':
        return rs.uniform(-1.0, 1.0, n)
    if kind == 'quant16':        # 16 dyadic levels k/4, k=-8..7: differences are exact, ties are exact
        q = np.clip(np.round(rs.normal(0.0, 1.0, n) * 4), -8, 7) / 4.0
        if np.ptp(q) == 0:
            q[0] += 0.25
        return q
    if kind == 'sine':
        k = np.arange(n)
        return 0.8 * np.sin(2 * np.pi * 0.01234 * k + 0.3) + 0.1
    if kind == 'gauss_out':      # Gaussian with injected +-10 sigma outliers
        x = rs.normal(0.0, 1.0, n)
        for j, v in zip(sorted({n // 4, n // 2, (3 * n) // 4}), (10.0, -10.0, 10.0)):
            x[j] = v
        return x
    raise KeyError(kind)


# dtype forms of a record: 'f8' is the float64 record itself; 'f4' its float32 rounding; the integer forms are raw counts
# (1 unit = 1000 counts: +-4 sigma = +-4000 counts, the +-10 sigma outliers = +-10000 counts fit int16, no difference of two
# samples leaves the dtype); the unsigned form rides on a 20000-count offset (all samples 10000..30000 fit uint16);
# 'i2fs' is a full-scale int16 capture (1 unit = 3000 counts: +-10 sigma = +-30000, so differences of two samples do not fit
# int16 although every sample does)
COUNTS = {'i2': (1000, 0), 'i4': (1000, 0), 'i8': (1000, 0), 'u2': (1000, 20000), 'i2fs': (3000, 0)}
NP_DTYPE = {'f8': np.float64, 'f4': np.float32, 'i2': np.int16, 'i4': np.int32, 'i8': np.int64, 'u2': np.uint16,
            'i2fs': np.int16}


def as_dtype(base, dt, unsigned_abs=False):
    """float64 record -> the dtype form `dt` (see COUNTS); never constant"""
    if dt == 'f8':
        return base
    if dt == 'f4':
        x = base.astype(np.float32)
    else:
        scale, off = COUNTS[dt]
        c = np.round(base * scale)
        if unsigned_abs and off:         # a noise component in an unsigned dtype cannot be negative
            c = np.abs(c)
        elif off:
            c = c + off
        info = np.iinfo(NP_DTYPE[dt])
        assert c.min() >= info.min and c.max() <= info.max, (dt, c.min(), c.max())
        x = c.astype(NP_DTYPE[dt])
    if np.ptp(x) == 0:
        x[0] += 1
    return x


def gen_signal(kind, n, seed):
    """kind = '<family>' (float64) or '<family>@<dtype form>'"""
    fam, _, dt = kind.partition('@')
    return as_dtype(gen_data(fam, n, seed), dt or 'f8')


def ref_long(x, lag):
    """-> (sorted, min width, indices of minimal windows)"""
    s = np.sort(np.asarray(x, dtype=float))
    n = len(s)
    w = s[lag:] - s[:n - lag]
    m = w.min()
    return s, float(m), np.flatnonzero(w == m)


def si_long(case):
    kind, n, p, seed = case
    from opticomlib.utils import shortest_int
    x = gen_signal(kind, n, seed)
    x.flags.writeable = False
    lags = lag_set(n, p)
    name = f'shortest_int(<{kind} n={n} seed={seed}>, {p})'
    try:
        out = shortest_int(x, p)
    except Exception as e:
        key = 'SI:lag0:exception' if max(lags) == 0 else f'SI:exception:{type(e).__name__}'
        return res(viol=[(key, f'{name} raised {type(e).__name__}: {e}')], obs=('EXC', type(e).__name__), nontrivial=False)
    pr = _unpack(out)
    tied_any = len(np.unique(x)) < n
    nt = (kind, n, p) if lags[0] >= 1 else False
    if pr is None:
        return res(viol=[('SI:shape', f'{name} returned {out!r}')], obs=repr(out), nontrivial=nt)
    lo, hi = pr
    viol = []
    first = None
    stats = {'si_long_calls': 1}
    for lag in lags:
        s, m, imin = ref_long(x, lag)
        stats['si_long_tied_minima'] = int(len(imin) > 1)
        ilo = np.flatnonzero(s[:n - lag] == lo)
        if not (np.any(s == lo) and np.any(s == hi)):
            v = ('SI:not-data-values', f'{name} -> ({lo!r}, {hi!r}): not both data values')
        elif not lo <= hi:
            v = ('SI:lo>hi', f'{name} -> ({lo!r}, {hi!r})')
        elif not np.any(s[ilo + lag] == hi):
            v = ('SI:not-lag-apart', f'{name} -> ({lo!r}, {hi!r}): not order statistics {lag} apart')
        elif hi - lo > m:
            cls = 'within-abs-1e-10' if hi - lo - m < 1e-10 else ('tied-minima' if len(imin) > 1 else 'unique-minimum')
            v = (f'SI:not-shortest:{cls}', f'{name} -> ({lo!r}, {hi!r}) width {hi - lo!r}; the closest order statistics '
                 f'{lag} apart have width {m!r} ({len(imin)} windows, first at sorted index {int(imin[0])}: '
                 f'({s[imin[0]]!r}, {s[imin[0] + lag]!r}))')
        else:
            v = None
        if v is None:
            first = None
            break
        if first is None:
            first = v
    if first is not None:
        wrap = SI_WRAP.get(kind.partition('@')[2])
        if wrap is not None:
            first = ('SI:integer-input-wraparound:' + wrap, f'[{first[0]}] ' + first[1])
        viol.append(first)
    return res(viol=viol, obs=(lo, hi), nontrivial=nt, stats=stats)


# ------------------------------------------------------------------ ADC
ADC_KINDS = ('gauss', 'uniform', 'sine', 'quant16', 'gauss_out')
ADC_LENGTHS = (2, 3, 100, 9999, 10000, 20000, 2 ** 17)
ADC_FORMS = ('ndarray', 'container', 'container+noise')
ADC_DTYPES = ('f8', 'i4', 'i8', 'i2', 'f4', 'u2', 'i2fs')     # see COUNTS
ADC_NS = tuple(range(1, 13))
ADC_SWEEP = tuple((n, o) for n in ADC_NS for o in ('n', 'v'))  # the conversions applied to ONE shared input object
CLAUSES = ('length', 'integer-codes', 'saturation', 'range', 'levels', 'half-step')
CLAUSE_KEY = {'length': 'ADC:length', 'integer-codes': 'ADC:non-integer-codes', 'range': 'ADC:out-of-range',
              'levels': 'ADC:levels>2^n', 'half-step': 'ADC:inside-moves>half-step'}
# input classes whose failures get their own keys: the arithmetic of the input's own integer dtype wraps around
WRAP_DTYPES = {'u2': 'unsigned-int-input', 'i2fs': 'full-scale-int16-input'}


def adc_candidates(x):
    """all minimal (V_min, V_max) value pairs of the 99.99 % rule (brute force), for every admissible lag"""
    n = len(x)
    cands = []
    for lag in lag_set(n, 99.99):
        s, m, imin = ref_long(x, lag)
        for i in imin:
            c = (float(s[i]), float(s[i + lag]))
            if c not in cands:
                cands.append(c)
    return cands


def adc_clauses(x, out, n, otype, vmin, vmax, model, eps=EPS):
    """-> dict clause -> message, for one candidate range and one quantiser model.
    model 'tread': 2^n levels V_min + c*R/(2^n-1) (end levels on the range ends, step R/(2^n-1));
    model 'rise' : 2^n levels V_min + (c+1/2)*R/2^n (cells of width R/2^n). The statement does not say which.
    eps: machine epsilon of the arithmetic the input's dtype implies (float32 input -> float32 arithmetic)."""
    bad = {}
    L = 2 ** n
    R = vmax - vmin
    S = max(abs(vmin), abs(vmax), R)
    tol = 32 * eps * S          # a handful of flops on magnitudes <= S (scaling, rounding decision, back-mapping)
    if model == 'tread':
        step = R / (L - 1)
        level = lambda c: vmin + c * step
    else:
        step = R / L
        level = lambda c: vmin + (c + 0.5) * step
    if out.ndim != 1 or len(out) != len(x):
        bad['length'] = f'output shape {out.shape} for input length {len(x)}'
        return bad
    if np.iscomplexobj(out) or not np.all(np.isfinite(out)):
        bad['length'] = 'output is not a finite real signal'
        return bad
    out = out.astype(float)
    low, high = x < vmin, x > vmax
    inside = ~(low | high)
    if otype == 'n':
        if not np.all(out == np.round(out)):
            bad['integer-codes'] = 'non-integer codes'
        if np.any(out[low] != 0) or np.any(out[high] != L - 1):
            w = np.concatenate([out[low][out[low] != 0], out[high][out[high] != L - 1]])
            beyond = bool(np.any(w < 0) or np.any(w > L - 1))
            bad['saturation'] = (beyond, f'{len(w)} sample(s) outside [{vmin:.6g}, {vmax:.6g}] do not get the end codes 0/{L - 1}: '
                                 f'codes {int(w.min())}..{int(w.max())}')
        if out.min() < 0 or out.max() > L - 1:
            bad['range'] = f'codes {int(out.min())}..{int(out.max())} not within [0, {L - 1}]'
        rec = level(out)
    else:
        lo_lvl, hi_lvl = level(0), level(L - 1)
        wl = out[low][np.abs(out[low] - lo_lvl) > tol]
        wh = out[high][np.abs(out[high] - hi_lvl) > tol]
        if len(wl) or len(wh):
            w = np.concatenate([wl, wh])
            beyond = bool(np.any(w < vmin - tol) or np.any(w > vmax + tol))
            bad['saturation'] = (beyond, f'{len(w)} sample(s) outside [{vmin:.6g}, {vmax:.6g}] are not mapped to the end levels '
                                 f'{lo_lvl:.6g}/{hi_lvl:.6g}: values {w.min():.6g}..{w.max():.6g}')
        if out.min() < vmin - tol or out.max() > vmax + tol:
            bad['range'] = f'values {out.min():.6g}..{out.max():.6g} not within [V_min, V_max] = [{vmin:.6g}, {vmax:.6g}]'
        rec = out
    nlev = len(np.unique(out))
    if nlev > L:
        bad['levels'] = f'{nlev} distinct values > 2^{n} = {L}'
    if np.any(inside):
        mv = np.abs(rec[inside] - x[inside])
        if mv.max() > step / 2 + tol:
            j = int(np.argmax(mv))
            bad['half-step'] = (f'sample {x[inside][j]!r} inside the range moved by {mv.max():.6g} > half a step '
                                f'{step / 2:.6g} ({int(np.sum(mv > step / 2 + tol))} samples)')
    return bad


def adc_input(kind, length, dt, form, seed):
    """-> (argument for ADC, float64 copy of the real signal the converter has to quantise).
    The integer forms are exact in float64; for float32 the reference is the float32 sum signal+noise (the real sum is
    within eps32 of it, which the float32 tolerance of adc_clauses covers)."""
    from opticomlib.typing import electrical_signal
    sig = as_dtype(gen_data(kind, length, seed), dt)
    if form == 'ndarray':
        arg, x = sig, sig
    elif form == 'container':
        arg = electrical_signal(sig)
        x = arg.signal
    else:
        noise = as_dtype(0.05 * _rs(seed, 'noise', kind, length).normal(0.0, 1.0, length), dt, unsigned_abs=True)
        arg = electrical_signal(sig, noise)
        x = arg.signal + arg.noise
    return arg, np.array(x, dtype=float)


def adc_output(y):
    out = np.asarray(getattr(y, 'signal', y))
    if getattr(y, 'noise', None) is not None:
        out = out + np.asarray(y.noise)
    return out


def adc_judge(x, out, n, otype, cands, dt):
    """try every minimal range x both quantiser models; -> (key|None, message, #samples outside the best range)"""
    eps = EPS32 if dt == 'f4' else EPS
    best = None
    for (vmin, vmax) in cands:
        for model in ('tread', 'rise'):
            bad = adc_clauses(x, out, n, otype, vmin, vmax, model, eps)
            first = min((CLAUSES.index(c) for c in bad), default=len(CLAUSES))
            score = (first, -len(bad))
            if best is None or score > best[0]:
                best = (score, bad, vmin, vmax, model)
            if not bad:
                break
        if best is not None and not best[1]:
            break
    _, bad, vmin, vmax, model = best
    n_out = int(np.sum((x < vmin) | (x > vmax)))
    if not bad:
        return None, '', n_out
    c = min(bad, key=CLAUSES.index)
    m = bad[c]
    if c == 'saturation':
        beyond, m = m
        key = 'ADC:no-saturation' if beyond else 'ADC:outside-not-end-code'
    else:
        key = CLAUSE_KEY[c]
    others = [k for k in bad if k != c]
    if dt in WRAP_DTYPES:      # one defect class (arithmetic carried out in the input's own integer dtype) -> one key per class
        m = f'[{key}] ' + m
        key = 'ADC:integer-input-wraparound:' + WRAP_DTYPES[dt]
    return (key, m + (f' [also failing: {", ".join(others)}]' if others else '') +
            f' (best of {len(cands)} minimal range(s), model {model})', n_out)


def _digest(out):
    import hashlib
    return (out.shape, str(out.dtype), hashlib.sha256(np.ascontiguousarray(out).tobytes()).hexdigest()[:16])


def adc_case(case):
    """one conversion of a freshly built input"""
    kind, length, dt, n, otype, form, seed = case
    from mcx.core.env import gv_reset
    from opticomlib.devices import ADC
    gv_reset()
    np.random.seed(0)
    arg, x = adc_input(kind, length, dt, form, seed)
    name = f'ADC(<{kind} {dt} len={length} {form} seed={seed}>, n={n}, otype={otype!r})'
    y = ADC(arg, n=n, otype=otype)
    out = adc_output(y)
    cands = adc_candidates(x)
    key, msg, n_out = adc_judge(x, out, n, otype, cands, dt)
    nlev = len(np.unique(out)) if out.ndim == 1 else 0
    stats = {'adc_cases': 1, 'adc_cases_with_outside_samples': int(n_out > 0), 'adc_candidate_ranges': len(cands)}
    nt = (kind, length, dt, n, otype, form, n_out > 0) if nlev >= 2 else False
    viol = [(key, f'{name}: {msg}')] if key else []
    return res(viol=viol, obs=_digest(out), nontrivial=nt, stats=stats)


def adc_sweep(case):
    """ONE input object converted with every (n, otype) in turn (a bit-depth sweep); every conversion is judged against
    the signal the caller handed over, and the argument's bytes are compared with a snapshot after every call.
    protect=True additionally write-protects the argument's buffers (the statement's x is an operand, not an output)."""
    kind, length, dt, form, protect, seed = case
    from mcx.core.env import gv_reset, freeze, unchanged
    from opticomlib.devices import ADC
    gv_reset()
    np.random.seed(0)
    arg, x = adc_input(kind, length, dt, form, seed)
    snap = freeze(arg)
    if not protect:
        for a in ([arg] if isinstance(arg, np.ndarray) else [getattr(arg, k, None) for k in ('signal', 'noise')]):
            if isinstance(a, np.ndarray):
                a.flags.writeable = True
    cands = adc_candidates(x)
    base = f'<{kind} {dt} len={length} {form} seed={seed}{" write-protected" if protect else ""}>'
    viol, seen = [], set()
    digests = []
    n_multi = 0
    n_outside = 0
    for k, (n, otype) in enumerate(ADC_SWEEP):
        name = f'conversion #{k + 1} of one shared input: ADC({base}, n={n}, otype={otype!r})'
        try:
            y = ADC(arg, n=n, otype=otype)
        except ValueError as e:
            if protect and 'read-only' in str(e):
                viol.append(('ADC:writes-into-argument', f'{name} tried to write into its write-protected argument: {e}'))
                break
            raise
        out = adc_output(y)
        digests.append(_digest(out))
        key, msg, n_out = adc_judge(x, out, n, otype, cands, dt)
        n_outside = max(n_outside, n_out)
        if out.ndim == 1 and len(np.unique(out)) >= 2:
            n_multi += 1
        if key:
            if k > 0 and dt not in WRAP_DTYPES:
                key += ':reused-input'
            if key not in seen:
                seen.add(key)
                viol.append((key, f'{name}: {msg}'))
        if 'ADC:argument-modified' not in seen and not unchanged(arg, snap):
            seen.add('ADC:argument-modified')     # keep converting: the later calls show what the caller then gets
            viol.append(('ADC:argument-modified', f'{name} changed the bytes of its argument (signal/noise buffers compared '
                         f'with the snapshot taken before the first conversion)'))
    stats = {'adc_sweeps': 1, 'adc_sweep_calls': len(digests), 'adc_sweeps_with_outside_samples': int(n_outside > 0)}
    nt = (kind, length, dt, form, protect, n_outside > 0) if n_multi >= 2 else False
    return res(viol=viol, obs=tuple(digests), nontrivial=nt, stats=stats, payload={'calls': len(digests)})


# ------------------------------------------------------------------ run
def _batches(alpha, maxlen, pset='std'):
    out = []
    vals = ALPHABETS[alpha]
    for length in range(1, maxlen + 1):
        for prefix in itertools.product(vals, repeat=min(length, 3)):
            out.append((alpha, length, prefix, pset))
    return out


def run(ctx):
    q = ctx.quick
    ctx.rule('shortest_int: every vector of length 1..Lmax over a 4-value alphabet (lexicographic, shortest first), each '
             'with every percentage of the set (std {10,25,50,75,90,99.99}; edge = 14 values below 1, around 1, fractional, '
             'close to 100); one worker call per (alphabet, length, 3-symbol prefix); '
             'evaluations counts single shortest_int/ADC calls; seeded long vectors select content only via VERIF_SEED. '
             'ADC: full product signal family x length x dtype form x n x otype x input form (fresh input per call), and '
             'family x length x dtype form x input form x write-protection with all 24 (n, otype) applied to ONE input object')
    ctx.assume('numpy sort/min/subtract are correct (the reference uses them on long vectors; python arithmetic on short ones)')
    ctx.assume('float subtraction is monotone, so "returned width > minimal width" in floats implies the same for the exact reals')
    ctx.assume('a constant signal (V_max == V_min, zero quantisation step) is outside the quantifier and is not enumerated')

    plan = [('int4', 8 if q else 9, 'std'), ('mix', 6 if q else 8, 'std'), ('tiny', 6 if q else 8, 'std'),
            ('i64', 6 if q else 7, 'std'), ('i32s', 6 if q else 7, 'std'), ('u16', 6 if q else 7, 'std'),
            ('i16fs', 6 if q else 7, 'std'),
            ('int4', 7 if q else 8, 'edge'), ('i64', 6 if q else 7, 'edge')]
    for alpha, maxlen, pset in plan:
        part = f'si-exhaustive-{alpha}' + ('' if pset == 'std' else '-' + pset)
        npct = len(PSETS[pset])
        cases = _batches(alpha, maxlen, pset)
        nvec = sum(4 ** l for l in range(1, maxlen + 1))
        print(f'[C18] {part}: {nvec} vectors x {npct} percents = {nvec * npct} calls in {len(cases)} batches',
              flush=True)
        pay = ctx.pmap(part, si_batch, cases, horizon=300, chunk=1, quiet=True)
        total = 0
        seen = {}
        for c, p in zip(cases, pay):
            if p is None:
                continue
            total += p['n']
            for t in p['nt']:
                ctx.nt_tags.add((part, t))
            for o in p['outs']:
                ctx.outcomes.add((part, o))
            for key, (a, vec, pc, msg) in p['fails'].items():
                k = seen.setdefault(key, 0)
                if k < 20:       # first (= simplest) failing vectors, as single-vector replayable cases
                    seen[key] = k + 1
                    ctx.violation(part, key, msg, case=(a, tuple(vec), pc), fn=si_single)
        assert total == nvec * npct, (total, nvec)
        ctx.evaluations += total - len(cases)
        ctx.spaces[part + ':vectors'] = nvec
        ctx.spaces[part + ':calls'] = total

    kinds = ('gauss', 'uniform', 'quant16')
    ikinds = ('gauss@i4', 'quant16@i8', 'uniform@i2', 'gauss@u2', 'gauss@f4', 'gauss_out@i2fs')     # raw-count / float32 records
    lens = (10 ** 4, 2 ** 17)
    long_cases = [(k, n, p, ctx.seed + j) for n in lens for k in kinds for p in PERCENTS
                  for j in range(1 if q else 4)]
    # (p, n) pairs whose product is an exact multiple of 100 while (p/100)*n rounds below it
    long_cases += [(k, n, p, ctx.seed) for n in (50, 100, 200, 800) for k in kinds for p in (29, 57, 58, 7, 14, 28)]
    long_cases += [(k, n, 99.99, ctx.seed) for n in (10 ** 4, 2 * 10 ** 4, 3 * 10 ** 4) for k in kinds]
    # integer-dtype / float32 records with the standard percentages
    long_cases += [(k, n, p, ctx.seed + j) for n in lens for k in ikinds for p in PERCENTS for j in range(1 if q else 2)]
    # edge percentages on records long enough for a lag >= 1 below 1 % (lag 0 on the shortest ones)
    long_cases += [(k, n, p, ctx.seed + j) for n in (64, 200, 2000, 10 ** 4, 2 ** 17) for k in kinds + ikinds[:2]
                   for p in PERCENTS_EDGE for j in range(1 if q else 2)]
    ctx.pmap('si-long', si_long, long_cases, horizon=120)

    # quick tier: the float64 form runs every length; the other dtype forms skip 9999 (same lag class as 10000) and leave
    # 2^17 to the sweeps (float64: both protections; i4/u2/i2fs: unprotected).  thorough: the full product.
    def single_lengths(dt):
        return ADC_LENGTHS if (dt == 'f8' or not q) else tuple(L for L in ADC_LENGTHS if L not in (9999, 2 ** 17))

    def sweep_member(dt, L, prot):
        if not q or dt == 'f8':
            return True
        if L == 2 ** 17:
            return dt in ('i4', 'u2', 'i2fs') and not prot
        return L != 9999

    adc_cases = [(k, L, dt, n, o, f, ctx.seed + j) for j in range(1 if q else 3) for dt in ADC_DTYPES
                 for L in single_lengths(dt) for k in ADC_KINDS for f in ADC_FORMS for n in ADC_NS for o in ('n', 'v')]
    ctx.pmap('adc', adc_case, adc_cases, horizon=120)

    sweep_cases = [(k, L, dt, f, prot, ctx.seed + j) for j in range(1 if q else 2) for dt in ADC_DTYPES for L in ADC_LENGTHS
                   for k in ADC_KINDS for f in ADC_FORMS for prot in (False, True) if sweep_member(dt, L, prot)]
    pay = ctx.pmap('adc-sweep', adc_sweep, sweep_cases, horizon=300)
    ncalls = sum(p['calls'] for p in pay if p)
    ctx.evaluations += ncalls - len(sweep_cases)
    ctx.spaces['adc-sweep:calls'] = ncalls
