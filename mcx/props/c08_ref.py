"""Reference side of C08: input-field alphabet and an independent scalar-NLSE solver.

The equation (fixed by the property texts: C07 gives the linear filter exp(-a'L/2 - j b2 L w^2/2 -
j b3 L w^3/6), C08 gives the SPM factor exp(+j g |A|^2 L_eff)) on the N-point periodic grid is

    dA/dz = F^-1[ (-a'/2 - j b2 w^2/2 - j b3 w^3/6) F[A] ] + j g |A|^2 A            (*)

with F = numpy's forward DFT (kernel exp(-j w t)), w in rad/ps, z in km.

Solver: fixed-step *Strang* splitting (half linear - full nonlinear - half linear; the nonlinear
sub-step uses the intensity at the middle of the step, which is not what the library does) is
second order with an error expansion in even powers of the step, so one Richardson extrapolation
R(n) = (4 S(2n) - S(n)) / 3 is fourth order.  n is doubled until two successive extrapolations
agree to `tol` (relative L2).  Nothing is shared with opticomlib except numpy's FFT.
"""
from __future__ import annotations
import numpy as np
from numpy.fft import fft as _fft, ifft as _ifft, fftfreq as _fftfreq

FS = 160e9          # sampling rate of the baseline grid gv(sps=16, R=10e9); other grids pass their own gv.fs
SPS = 16            # samples per pulse/bit slot of the field alphabet (a per-sample layout, independent of gv.sps)
WORD = (1, 0, 1, 1, 0, 1, 0, 0, 1, 1, 1, 0, 0, 1, 0, 1)   # NRZ word (truncated to N/SPS slots)


# ------------------------------------------------------------------------- fields
def _circ_gauss_filter(x, sigma_samples):
    n = x.size
    f = _fftfreq(n)                     # cycles / sample
    H = np.exp(-2 * (np.pi * f * sigma_samples) ** 2)
    return _ifft(_fft(x) * H)


def make_field(kind, N, P, seed, real=False):
    """one polarisation row, complex128, max |x|^2 == P exactly up to one rounding (all zeros when P == 0 or when
    the shape itself is empty: `lead0` with N <= 2).  real=True: the real part of the shape (for real/integer dtypes)."""
    n = np.arange(N)
    slot = min(SPS, N)                                # fields shorter than one slot: one pulse / one bit over N samples
    nslots = max(1, N // SPS)
    if kind in ('gauss', 'lead0'):
        # Gaussian pulse train: one pulse per slot, alternating amplitude 1 / 0.6, sigma = T/6
        x = np.zeros(N, dtype=complex)
        for k in range(nslots):
            c = k * slot + slot / 2
            d = (n - c + N / 2) % N - N / 2          # periodic distance
            x += (1.0 if k % 2 == 0 else 0.6) * np.exp(-0.5 * (d / (slot / 6)) ** 2)
        if kind == 'lead0':
            x[:2] = 0.0                               # the field whose first two samples are zero
    elif kind == 'nrz':
        bits = np.array(WORD[:nslots], dtype=float)
        lv = np.where(bits > 0, 1.0, 0.3)             # finite extinction: no sample is exactly zero
        x = _circ_gauss_filter(np.resize(np.repeat(lv, slot), N).astype(complex), 2.0)   # np.resize: cyclic fill when SPS does not divide N
        x = x.real.astype(complex)
    elif kind in ('rand', 'white'):
        rs = np.random.RandomState((int(seed) * 1000003 + N + (7919 if kind == 'white' else 0)) % (2 ** 31 - 1))
        g = rs.standard_normal(N) + 1j * rs.standard_normal(N)
        # rand: band-limited complex Gaussian field; white: every DFT bin populated, the Nyquist bin of an even N included
        x = _circ_gauss_filter(g, 3.0) if kind == 'rand' else g
    elif kind == 'cw':
        x = np.ones(N, dtype=complex)
    elif kind == 'dcr':
        # large DC level with a small (1e-3) complex ripple at two tones
        x = 1.0 + 1e-3 * (np.cos(2 * np.pi * 3 * n / N) + 1j * np.sin(2 * np.pi * 5 * n / N))
    else:
        raise ValueError(kind)
    if real:
        x = x.real.astype(complex)
    m = np.max(np.abs(x) ** 2)
    if m == 0:
        return x
    return x * np.sqrt(P / m)


def omega(N, fs=FS):
    """rad/ps, as the library builds it (2*pi*fftfreq(N)*fs*1e-12); written independently"""
    k = np.arange(N)
    k = np.where(k < (N + 1) // 2, k, k - N)
    return 2 * np.pi * k * (fs / N) * 1e-12


# ------------------------------------------------------------------------- solver
def _strang(x, Dop, g, L, n, track=False):
    h = L / n
    Eh = np.exp(Dop * h / 2)
    Ef = Eh * Eh
    A = _ifft(Eh * _fft(x))
    pk = 0.0
    for i in range(n):
        I = A.real ** 2 + A.imag ** 2
        if track:
            pk += I.max()
        A = A * np.exp(1j * g * h * I)
        A = _ifft((Ef if i < n - 1 else Eh) * _fft(A))
    return (A, pk * h) if track else A


def nlse_ref(x, L, a_lin, b2, b3, g, tol=1e-7, nmax=1 << 17, fs=FS):
    """solution of (*) at z = L for the row x on the grid of sampling rate fs.  a_lin in 1/km (power).
    Returns (A_L, info)."""
    N = x.size
    w = omega(N, fs)
    if L == 0:
        return x.copy(), {'n': 0, 'conv': True, 'est': 0.0, 'pint': 0.0}
    Dop = -a_lin / 2 - 0.5j * b2 * w ** 2 - (1j / 6) * b3 * w ** 3
    if g == 0 or not np.any(x):
        return _ifft(np.exp(Dop * L) * _fft(x)), {'n': 0, 'conv': True, 'est': 0.0, 'pint': float(np.max(np.abs(x) ** 2)) * L}
    if b2 == 0 and b3 == 0:
        Le = L if a_lin == 0 else -np.expm1(-a_lin * L) / a_lin
        return x * np.exp(-a_lin * L / 2 + 1j * g * np.abs(x) ** 2 * Le), {'n': 0, 'conv': True, 'est': 0.0,
                                                                             'pint': float(np.max(np.abs(x) ** 2)) * Le}
    phi = g * float(np.max(np.abs(x) ** 2)) * L
    n = int(max(16, 2 ** np.ceil(np.log2(max(1.0, 4 * phi)))))
    S0 = _strang(x, Dop, g, L, n)
    S1 = _strang(x, Dop, g, L, 2 * n)
    R_prev = (4 * S1 - S0) / 3
    n *= 2
    while True:
        S2, pint = _strang(x, Dop, g, L, 2 * n, track=True)
        R = (4 * S2 - S1) / 3
        est = float(np.linalg.norm(R - R_prev) / np.linalg.norm(R))
        if est <= tol:
            return R, {'n': 2 * n, 'conv': True, 'est': est, 'pint': float(pint)}
        if 2 * n >= nmax:
            return R, {'n': 2 * n, 'conv': False, 'est': est, 'pint': float(pint)}
        S1, R_prev = S2, R
        n *= 2


def nlse_ref_dop853(x, L, a_lin, b2, b3, g, rtol=1e-11, fs=FS):
    """second, unrelated integrator (interaction picture + scipy DOP853); only used by the
    reference self-check"""
    from scipy.integrate import solve_ivp
    N = x.size
    w = omega(N, fs)
    Dd = -0.5j * b2 * w ** 2 - (1j / 6) * b3 * w ** 3          # dispersive part only (unitary)

    def rhs(z, v):
        A = _ifft(np.exp(Dd * z) * v)
        return np.exp(-Dd * z) * _fft(1j * g * np.exp(-a_lin * z) * np.abs(A) ** 2 * A)
    # substitution A = exp(-a z/2) B removes the loss from the linear part
    sol = solve_ivp(rhs, (0, L), _fft(x), method='DOP853', rtol=rtol, atol=rtol * 1e-3 * np.sqrt(np.max(np.abs(x) ** 2) * N))
    v = sol.y[:, -1]
    return np.exp(-a_lin * L / 2) * _ifft(np.exp(Dd * L) * v)
