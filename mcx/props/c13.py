"""C13 - analytic BER and receiver-noise formulas match closed forms and each other.

Bounded-exhaustive exploration (no sampling): the full product (s0, s1, mu-ladder, M, decision) for
`ook.theory_BER`, `ppm.theory_BER`, the 'estimator' modes of `BER_analizer`, `THRESHOLD_EST` and
`utils.optimum_threshold`; a deviation lattice (k <= 2 quick, k <= 4 thorough, two baselines) over the
receiver-model parameters, with the full P_avg ladder at every lattice point, for `utils.p_ase`,
`average_voltages`, `noise_variances` and `utils.theory_BER`; and a small product for the cross-device
clause (variances captured from the RNG requests of `PD`, ASE scale captured from `EDFA`).

Hardening pass (input classes, see notes "Hardening pass"): a common scale factor 1e-12 .. 1e6 on (mu0, mu, s0, s1);
offsets mu0 of both signs up to 1000; vectors of length 1, 2-D, spread over 15 orders of magnitude, read-only, one
object passed twice; M held in numpy integer types; the receiver lattice carries two more axes (type form of every
numeric argument, type of M), M = 2 and 256, five fixed thresholds incl. next to both edges of (0, 1), and feeds the
helpers' results on to the slot-level formulas / estimators ("chain"); `receiver-vectors`: utils.theory_BER vectorised
over every argument, alone / with P_avg / broadcast; `forms`: integer / numpy / 0-d / float32 operands, containers,
documented defaults, keyword vs positional forms, undocumented spellings (either rejected or the same value).

Eye-object classes (added after seeded wave 5): the estimators part carries the axis `extras` - eye objects that hold MORE
than mu0, mu1, s0, s1 (a `threshold` attribute set to None / plausible / implausible values, the timing fields, complete
records as devices.GET_EYE and lab.GET_EYE_v2 store them, consistent and inconsistent with the four statistics) - and four
eye objects actually measured by devices.GET_EYE; every estimator must return what it returns for the bare object.

Values equal up to rounding (added after seeded wave 6): variance / sigma pairs one ulp ... 1e-8 apart (nextafter, k eps,
`0.1**2` vs `0.01`, ...) in both orders and levels such as `0.1*3` vs `0.3`, for `utils.optimum_threshold` (root, likelihood
equation and continuity at equal variances within a tolerance derived from the conditioning of the equation) and, on a
slice, for THRESHOLD_EST and the estimator BERs (`near_equal_case`).

The reference model below is written from the property text with scipy.special only; it shares no code with
the library.  Tolerances: see `/verif/notes/C13.md` (every one is a rounding bound, the 1000/5000-point
threshold grid band stated by the property, or quad's documented epsabs).
"""
from __future__ import annotations

import itertools
import math

import numpy as np
from scipy.constants import c as C0, e as QE, h as HP, k as KB
from scipy.integrate import quad
from scipy.optimize import minimize_scalar
from scipy.special import erfc, log_ndtr

from mcx.core.kernel import res
from mcx.core.env import gv_reset, ScriptedRNG, scripted_rng

ID = 'C13'
LEVEL = 'exploration'
NONTRIVIAL = ('a case is non-trivial when at least one of its BER values is informative (1e-30 < BER < 0.4: neither '
              'saturated at the bound nor underflowed) or, for the threshold helpers, when a real in-range solution '
              'exists; counted as distinct observations of such cases')

EPS = float(np.finfo(float).eps)
SQ2 = math.sqrt(2.0)
SQ2PI = math.sqrt(2.0 * math.pi)

# ---------------------------------------------------------------------------------------------------------
# tolerances (each with its source)
RT_GRID = 1e-9      # relative slack on the two edges of the grid band for ook/ppm.theory_BER (pure rounding of
#                     ~10 flops + erfc, amplified by |dlnQ/dz|*z <= 400 at z = 20: < 1e-12; three orders of margin)
RT_RX = 1e-6        # DESIGN: band edges for utils.theory_BER (levels/variances recomputed from physical constants:
#                     relative rounding 1e-15 amplified by z^2 <= 1e6 for z ~ 1e3 would exceed 1e-9 there)
RT_CURVE = 1e-6     # comparisons between two library values (monotonicity, soft <= hard, estimator vs formula)
AT_SOFT = 1e-8      # quad(..., epsabs=1.49e-8) inside `1 - quad/sqrt(2 pi)`: below ~1e-8 the soft formula carries no information
RT_MODEL = 1e-12    # p_ase / average_voltages / noise_variances vs the reference (<= ~20 flops, 2 pow: < 100 eps)


def at_hard(M):
    """rounding floor of `1 - Q(.)*(1-Q(.))**(M-1)` evaluated in double precision near 1: (M+4) eps"""
    return (M + 4) * EPS


# ---------------------------------------------------------------------------------------------------------
# reference model (boring, independent)
def Qf(x):
    return 0.5 * erfc(np.asarray(x, dtype=float) / SQ2)


def Qz(a, s):
    """P(N(0, s^2) > a) including the s -> 0+ limit (a deterministic level: 1 for a < 0, else 0)"""
    a = np.asarray(a, dtype=float)
    if s > 0:
        return Qf(a / s)
    return np.where(a < 0, 1.0, 0.0)


def ook_obj(x, d, s0, s1):
    """two-Gaussian error integral at threshold x (levels 0 and d)"""
    return 0.5 * (Qz(d - x, s1) + Qz(x, s0))


def hard_obj(x, d, s0, s1, M):
    """documented hard-decision symbol error 1 - Q((x-d)/s1) * (1 - Q(x/s0))**(M-1), evaluated without cancellation"""
    a = Qz(d - x, s1)      # ON slot below the threshold
    b = Qz(x, s0)          # an OFF slot above the threshold
    with np.errstate(divide='ignore'):
        return -np.expm1(np.log1p(-a) + (M - 1) * np.log1p(-b))


def ook_stationary(d, s0, s1):
    """thresholds where N(x;0,s0) = N(x;d,s1) (closed form)"""
    S0, S1 = s0 * s0, s1 * s1
    if S0 == S1:
        return [d / 2]
    A = 1 / (2 * S1) - 1 / (2 * S0)
    B = -d / S1
    Cc = d * d / (2 * S1) + math.log(s1 / s0)
    disc = B * B - 4 * A * Cc
    if disc < 0:
        return []
    sq = math.sqrt(disc)
    q = -0.5 * (B + math.copysign(sq, B))
    out = [q / A]
    if q != 0:
        out.append(Cc / q)
    return out


def band(kind, d, s0, s1, M, npts):
    """(true_min, gridmin, argmin_true) of the error integral over thresholds in [0, d].
    gridmin: on the npts-point grid the statement allows.  true_min: dense grid that CONTAINS that grid
    (so true_min <= gridmin up to rounding), polished by a bounded local minimisation, plus the closed-form
    stationary points for OOK and the end points."""
    if kind == 'ook':
        f = lambda x: ook_obj(x, d, s0, s1)
    else:
        f = lambda x: hard_obj(x, d, s0, s1, M)
    grid = np.linspace(0.0, d, npts)
    fg = f(grid)
    if s0 == 0:
        # deterministic OFF level: infimum is approached for x -> 0+, the grid may only use x > 0
        tm = float(0.5 * Qf(d / s1)) if kind == 'ook' else float(Qf(d / s1))
        return tm, float(fg[1:].min()), 0.0
    gm = float(fg.min())
    K = 20 if npts <= 1000 else 4
    dense = np.linspace(0.0, d, (npts - 1) * K + 1)
    fd = f(dense)
    k = int(np.argmin(fd))
    tm, xm = float(fd[k]), float(dense[k])
    lo, hi = dense[max(k - 1, 0)], dense[min(k + 1, len(dense) - 1)]
    if hi > lo:
        try:
            r = minimize_scalar(lambda x: float(f(x)), bounds=(lo, hi), method='bounded',
                                options={'xatol': 1e-13 * d, 'maxiter': 200})
            if float(r.fun) < tm:
                tm, xm = float(r.fun), float(r.x)
        except Exception:
            pass
    if kind == 'ook':
        for x in ook_stationary(d, s0, s1):
            if 0 <= x <= d:
                v = float(f(x))
                if v < tm:
                    tm, xm = v, x
    return min(tm, gm), gm, xm


def soft_ser(d, s0, s1, M):
    """1 - (2 pi)^-1/2 Int (1 - Q((d + s1 x)/s0))^(M-1) exp(-x^2/2) dx, complement integrated directly"""
    if s0 == 0:
        return float(Qf(d / s1))

    def g(x):
        return math.exp(-0.5 * x * x) / SQ2PI * (-math.expm1((M - 1) * float(log_ndtr((d + s1 * x) / s0))))
    w = s0 / s1
    xs = -d / s1
    pts = sorted({min(max(p, -39.0), 39.0) for p in (xs - 8 * w, xs, xs + 8 * w)})
    v = quad(g, -40.0, 40.0, points=pts, epsabs=1e-14, epsrel=1e-10, limit=400)[0]
    return float(v)


def bit(M):
    return 0.5 * M / (M - 1)


def rx_model(P, M, ER, amplify, wavelength, G, NF, BW_opt, r, BW_el, R_L, T, NF_el, shot_RL=True, nf_all=False,
             unamp_gain=False):
    """The receiver model of the property text.  Flags give the *wrong* variants used only to NAME a mismatch."""
    p_avg = 1e-3 * 10 ** (P / 10)
    er = math.inf if ER == math.inf else 10 ** (ER / 10)
    if amplify:
        g = 10 ** (G / 10)
        pase = 10 ** (NF / 10) * HP * (C0 / wavelength) * (g - 1) * BW_opt
        l = BW_el / BW_opt
    else:
        g = 10 ** (G / 10) if (unamp_gain and G is not None) else 1.0
        pase = 0.0
        l = 1.0
    p_on = p_avg * M / (1 + (M - 1) / er)
    p_off = p_on / er
    mu_ase = r * pase * R_L
    sig = r * g * np.array([p_off, p_on]) * R_L
    mu = sig + mu_ase
    fn = 10 ** (NF_el / 10)
    S_th = 4 * KB * T * BW_el * R_L
    S_sh = 2 * QE * mu * BW_el * (R_L if shot_RL else 1.0)
    S_sa = 2 * mu_ase * sig * l
    S_aa = mu_ase ** 2 * (1 - l / 2) * l
    if nf_all:
        S = (S_th + S_sh + S_sa + S_aa) * fn
    else:
        S = S_th * fn + S_sh + S_sa + S_aa
    return {'pase': pase, 'mu': mu, 'mu_ase': mu_ase, 'S': S, 'S_th': S_th * fn, 'S_sh': S_sh, 'S_beat': S_sa + S_aa}


def close(a, b, rt, at=0.0):
    a = np.asarray(a, dtype=float)
    b = np.asarray(b, dtype=float)
    if a.shape != b.shape:
        return False
    if not (np.all(np.isfinite(a)) and np.all(np.isfinite(b))):
        return bool(np.all((a == b) | (np.isnan(a) & np.isnan(b))))
    return bool(np.all(np.abs(a - b) <= at + rt * np.maximum(np.abs(a), np.abs(b))))


def fl(x):
    """canonical float(s) for observations"""
    a = np.asarray(x, dtype=float).ravel()
    return tuple(float(v) for v in a)


# ---------------------------------------------------------------------------------------------------------
# alphabets
def sigmas(tier):
    return [0.1, 0.05, 0.3, 1.0] if tier == 'quick' else [0.1, 0.05, 0.3, 1.0, 0.02, 3.0]


def ladder(tier):
    # 1e-3: next to the open lower end of (0, 20 s]; 20: the closed upper end exactly
    base = [1e-3, 0.1, 0.5, 1, 2, 3, 4, 6, 8, 12, 16, 20]
    if tier == 'quick':
        return base
    extra = [0.2, 0.75, 1.5, 2.5, 3.5, 5, 7, 10, 14, 18]
    return sorted(set(base + extra))


MS = [2, 4, 8, 16, 32, 64, 128, 256]
OFFSETS = [0.0, 0.3, -1.0, 5.0, -250.0, 1000.0]      # mu0 in units of the scale: zero, small, negative, large of both signs


def scales(tier):
    """common factor applied to ALL of mu0, mu, s0, s1 (the error integral is scale-free, thresholds scale with it)"""
    return [1e-9, 1e-6, 1e6] if tier == 'quick' else [1e-12, 1e-9, 1e-6, 1e6]


def formula_cases(tier):
    """(tier, kind, s0, s1, M, scale): the full product at scale 1, and every other scale on a slice (quick: six sigma
    pairs x M in {2, 4, 256}; thorough: all sigma pairs x M in {2, 4, 16, 256})"""
    sg_ = sigmas(tier)
    pairs = list(itertools.product(sg_, sg_))
    pairs.sort(key=lambda p: (p[0] != p[1], sg_.index(p[0]) + sg_.index(p[1])))
    out = [(tier, 'ook', a, b, 2, 1.0) for a, b in pairs] + [(tier, 'ppm', a, b, M, 1.0) for M in MS for a, b in pairs]
    if tier == 'quick':
        sp, Ms = [(0.1, 0.1), (1.0, 1.0), (0.1, 0.05), (0.05, 0.1), (0.1, 0.3), (0.3, 1.0)], [2, 4, 256]
    else:
        sp, Ms = pairs, [2, 4, 16, 256]
    for c in scales(tier):
        out += [(tier, 'ook', a, b, 2, c) for a, b in sp] + [(tier, 'ppm', a, b, M, c) for M in Ms for a, b in sp]
    return out


def as_form(v, form):
    """the same numeric value in another type a caller may legitimately hold it in.  Values the type cannot hold
    exactly (non-integers for the integer forms, inf) stay floats; None / str / bool pass through."""
    if v is None or isinstance(v, (str, bool, np.bool_)):
        return v
    fv = float(v)
    integral = math.isfinite(fv) and fv == int(fv)
    if form == 'float':
        return fv
    if form == 'int':
        return int(fv) if integral else fv
    if form == 'np.float64':
        return np.float64(fv)
    if form == 'np.int64':
        return np.int64(fv) if integral else np.float64(fv)
    if form == 'np.int32':
        return np.int32(fv) if (integral and abs(fv) < 2 ** 31) else np.float64(fv)
    if form == '0-d':
        return np.array(fv)
    if form == '0-d int':
        return np.array(int(fv)) if integral else np.array(fv)
    if form == 'np.float32':
        return np.float32(fv)
    raise KeyError(form)


def as_mform(M, form):
    if M is None or form == 'int':
        return M
    return getattr(np, form[3:])(M)


def as_vec(vals, form):
    """a vector of values in the container that goes with the numeric form"""
    if form == 'float':
        return np.array([float(v) for v in vals])
    if form == 'int':
        return [as_form(v, 'int') for v in vals]                 # Python list of Python numbers
    if form == 'np.float64':
        return tuple(np.float64(v) for v in vals)                # tuple of numpy scalars
    if form in ('np.int64', 'np.int32'):
        a = np.array([float(v) for v in vals])
        return a.astype(form[3:]) if np.all(a == np.round(a)) else a
    if form == '0-d':
        return np.array([float(v) for v in vals])
    if form == 'np.float32':
        return np.array(vals, dtype=np.float32)
    raise KeyError(form)


def informative(vals):
    v = np.asarray(vals, dtype=float)
    return bool(np.any((v > 1e-30) & (v < 0.4)))


# ---------------------------------------------------------------------------------------------------------
# part 1: ook.theory_BER / ppm.theory_BER over the full product
def formulas_case(case):
    """case = (tier, kind, s0, s1, M[, scale]); kind in {'ook','ppm'}.  Runs the whole mu ladder; `scale` multiplies
    mu, s0 and s1 alike."""
    tier, kind, s0, s1, M = case[:5]
    c = case[5] if len(case) > 5 else 1.0
    s0, s1 = s0 * c, s1 * c
    from opticomlib import ook, ppm
    lad = ladder(tier)
    s = max(s0, s1)
    mus = [q * s for q in lad]
    viol, obs, nlib = [], [], 0

    def V(key, msg):
        viol.append((key, f'{kind} s0={s0} s1={s1} M={M}: {msg}'))

    def vector_forms(name, f, scal, at=0.0):
        """element-wise clause on more vector shapes: f(mu, s0, s1) is the library function (M / decision bound), `scal`
        the scalar-call values over the ladder.  All comparisons are library vs library (rtol 1e-12: same flops)."""
        n = 0
        i1 = 5
        one = np.asarray(f(np.array([mus[i1]]), s0, s1), dtype=float); n += 1
        if one.shape != (1,) or not close(one, [scal[i1]], 1e-12, at):
            V(f'{name}:vectorisation', f'length-1 vector call mu=[{mus[i1]}] gives {one!r}, scalar call {scal[i1]!r}')
        two = np.asarray(f(np.array(mus[:6]).reshape(2, 3), s0, s1), dtype=float); n += 1
        if two.shape != (2, 3) or not close(two.ravel(), scal[:6], 1e-12, at):
            V(f'{name}:vectorisation', f'(2,3)-shaped mu gives {two!r}, scalar calls {scal[:6]!r}')
        # entries that differ by many orders of magnitude: element i is the triple (mu, s0, s1) * K[i]
        K = np.array([1e-9, 1e-3, 1.0, 1e6])
        mw, aw, bw = mus[i1] * K, s0 * K, s1 * K
        for a in (mw, aw, bw):
            a.flags.writeable = False
        snap = (mw.tobytes(), aw.tobytes(), bw.tobytes())
        wide = np.asarray(f(mw, aw, bw), dtype=float); n += 1
        scw = [float(f(float(mw[i]), float(aw[i]), float(bw[i]))) for i in range(len(K))]; n += len(K)
        if wide.shape != (len(K),) or not close(wide, scw, 1e-12, at):
            V(f'{name}:vectorisation', f'vector call on (mu,s0,s1)*{K.tolist()} gives {wide!r}, scalar calls {scw!r}')
        if (mw.tobytes(), aw.tobytes(), bw.tobytes()) != snap:
            V(f'{name}:operand-modified', 'a write-protected argument array changed')
        if s0 == s1:
            sv = np.full(len(mus), s0)          # ONE array object passed for both sigmas
            same = np.asarray(f(np.array(mus), sv, sv), dtype=float); n += 1
            if same.shape != (len(mus),) or not close(same, scal, 1e-12, at):
                V(f'{name}:vectorisation', f'one array object passed as s0 and s1 gives {same!r}, scalar calls {scal!r}')
        return n, (fl(one), fl(two), fl(wide))

    if kind == 'ook':
        vals = []
        for q, mu in zip(lad, mus):
            v = float(ook.theory_BER(mu, s0, s1)); nlib += 1
            tm, gm, _ = band('ook', mu, s0, s1, 2, 1000)
            vals.append((v, tm, gm))
            if not np.isfinite(v):
                V('ook.theory_BER:not-finite', f'mu={mu}: {v}')
                continue
            if v < tm * (1 - RT_GRID):
                V('ook.theory_BER:below-true-minimum', f'mu={mu} (mu/s={q}): value {v!r} < true minimum {tm!r}')
            if v > gm * (1 + RT_GRID):
                V('ook.theory_BER:above-1000-point-grid-minimum', f'mu={mu} (mu/s={q}): value {v!r} > grid minimum {gm!r} (true min {tm!r})')
            if s0 == s1:
                qq = float(Qf(mu / (2 * s0)))
                if not (qq * (1 - RT_GRID) <= v <= gm * (1 + RT_GRID)):
                    V('ook.theory_BER:equal-sigma:Q(mu/2s)', f'mu={mu}: value {v!r}, Q(mu/2s)={qq!r}, grid band top {gm!r}')
            if v > 1.0 * (1 + 4 * EPS):
                V('ook.theory_BER:bound', f'mu={mu}: value {v!r} > M/(2(M-1)) = 1')
        # non-increasing in mu (allowing the grid error of the later point)
        for i in range(len(vals) - 1):
            (v0, _, _), (v1, tm1, gm1) = vals[i], vals[i + 1]
            if v1 > v0 * (1 + RT_CURVE) + (gm1 - tm1):
                V('ook.theory_BER:not-monotone-in-mu', f'mu {mus[i]}->{mus[i+1]}: {v0!r} -> {v1!r}')
        # element-wise vectorisation
        vec = np.asarray(ook.theory_BER(np.array(mus), s0, s1), dtype=float); nlib += 1
        if vec.shape != (len(mus),) or not close(vec, [t[0] for t in vals], 1e-12):
            V('ook.theory_BER:vectorisation', f'vector call over mu gives {vec!r}, scalar calls {[t[0] for t in vals]!r}')
        m3 = np.array(mus[3:6]); a3 = np.array([s0, s1, s0]); b3 = np.array([s1, s0, s1])
        vec3 = np.asarray(ook.theory_BER(m3, a3, b3), dtype=float); nlib += 1
        sc3 = [float(ook.theory_BER(float(m3[i]), float(a3[i]), float(b3[i]))) for i in range(3)]; nlib += 3
        if vec3.shape != (3,) or not close(vec3, sc3, 1e-12):
            V('ook.theory_BER:vectorisation', f'vector call (mu,s0,s1 arrays) gives {vec3!r}, scalar calls {sc3!r}')
        k_, o_ = vector_forms('ook.theory_BER', ook.theory_BER, [t[0] for t in vals]); nlib += k_
        obs = (fl([t[0] for t in vals]), fl(vec), fl(vec3), o_)
        return res(viol=viol, obs=obs, nontrivial=informative([t[0] for t in vals]),
                   stats={'formula_points': len(mus), 'lib_calls': nlib})

    # ---- ppm
    hard, soft, hb = [], [], []
    ndev = 0
    bound = M / (2 * (M - 1))
    for q, mu in zip(lad, mus):
        vh = float(ppm.theory_BER(mu, s0, s1, M, 'hard')); vs = float(ppm.theory_BER(mu, s0, s1, M, 'soft')); nlib += 2
        tm, gm, _ = band('ppm', mu, s0, s1, M, 1000)
        tm *= bit(M); gm *= bit(M)
        rs = soft_ser(mu, s0, s1, M) * bit(M)
        hard.append(vh); soft.append(vs); hb.append((tm, gm))
        ah = at_hard(M)
        if not (np.isfinite(vh) and np.isfinite(vs)):
            V('ppm.theory_BER:not-finite', f'mu={mu}: hard {vh} soft {vs}')
            continue
        if vh < tm * (1 - RT_GRID) - ah:
            V('ppm.theory_BER:hard:below-true-minimum', f'mu={mu} (mu/s={q}): value {vh!r} < true minimum {tm!r}')
        if vh > gm * (1 + RT_GRID) + ah:
            V('ppm.theory_BER:hard:above-1000-point-grid-minimum', f'mu={mu} (mu/s={q}): value {vh!r} > grid minimum {gm!r} of the documented symbol-error formula (true min {tm!r})')
        # general M: the statement gives no value for the soft curve (only M = 2, soft <= hard, monotone, bounded), so a
        # deviation from the independently evaluated integral is RECORDED (stats), not reported as a violation
        if not close(vs, rs, RT_CURVE, AT_SOFT):
            ndev += 1
        if M == 2:
            cf = float(Qf(mu / math.hypot(s0, s1)))
            if not close(vs, cf, RT_CURVE, AT_SOFT):
                V('ppm.theory_BER:soft:M=2:Q(mu/sqrt(s0^2+s1^2))', f'mu={mu}: value {vs!r}, closed form {cf!r}')
        if vs > vh * (1 + RT_CURVE) + AT_SOFT + ah:
            V('ppm.theory_BER:soft>hard', f'mu={mu} (mu/s={q}): soft {vs!r} > hard {vh!r}')
        if vh > bound * (1 + 1e-12):
            V('ppm.theory_BER:bound', f'mu={mu}: hard {vh!r} > M/(2(M-1)) = {bound!r}')
        if vs > bound * (1 + 1e-12) + AT_SOFT:
            V('ppm.theory_BER:bound', f'mu={mu}: soft {vs!r} > M/(2(M-1)) = {bound!r}')
    for i in range(len(mus) - 1):
        tm1, gm1 = hb[i + 1]
        if hard[i + 1] > hard[i] * (1 + RT_CURVE) + (gm1 - tm1) + at_hard(M):
            V('ppm.theory_BER:hard:not-monotone-in-mu', f'mu {mus[i]}->{mus[i+1]}: {hard[i]!r} -> {hard[i+1]!r}')
        if soft[i + 1] > soft[i] * (1 + RT_CURVE) + 2 * AT_SOFT:
            V('ppm.theory_BER:soft:not-monotone-in-mu', f'mu {mus[i]}->{mus[i+1]}: {soft[i]!r} -> {soft[i+1]!r}')
    outs = []
    for dec, sc in (('hard', hard), ('soft', soft)):
        vec = np.asarray(ppm.theory_BER(np.array(mus), s0, s1, M, dec), dtype=float); nlib += 1
        if vec.shape != (len(mus),) or not close(vec, sc, 1e-12, 1e-300):
            V('ppm.theory_BER:vectorisation', f'{dec}: vector call over mu gives {vec!r}, scalar calls {sc!r}')
        m3 = np.array(mus[3:6]); a3 = np.array([s0, s1, s0]); b3 = np.array([s1, s0, s1])
        vec3 = np.asarray(ppm.theory_BER(m3, a3, b3, M, dec), dtype=float); nlib += 1
        sc3 = [float(ppm.theory_BER(float(m3[i]), float(a3[i]), float(b3[i]), M, dec)) for i in range(3)]; nlib += 3
        if vec3.shape != (3,) or not close(vec3, sc3, 1e-12, 1e-300):
            V('ppm.theory_BER:vectorisation', f'{dec}: vector call (mu,s0,s1 arrays) gives {vec3!r}, scalar calls {sc3!r}')
        k_, o_ = vector_forms('ppm.theory_BER', lambda m_, a_, b_: ppm.theory_BER(m_, a_, b_, M, dec), sc, 1e-300); nlib += k_
        # the order M held in numpy integer types
        for mt in ('int64', 'int32', 'int16', 'uint8' if M < 256 else 'uint16'):
            vm = np.asarray(ppm.theory_BER(np.array(mus), s0, s1, getattr(np, mt)(M), dec), dtype=float); nlib += 1
            if vm.shape != vec.shape or not close(vm, vec, 1e-12, 1e-300):     # the same vector call, only the type of M differs
                V(f'ppm.theory_BER:M-as-numpy-integer', f'{dec}: M=np.{mt}({M}) gives {vm!r}, M={M} (int) gives {vec!r}')
        outs.append((fl(vec), fl(vec3), o_))
    obs = (fl(hard), fl(soft), tuple(outs))
    return res(viol=viol, obs=obs, nontrivial=informative(hard + soft),
               stats={'formula_points': 2 * len(mus), 'lib_calls': nlib, 'soft_general_M_off_documented_integral_by_more_than_1e-8': ndev})


# ---------------------------------------------------------------------------------------------------------
# part 2: estimator helpers
def _eye(mu0, mu1, s0, s1, **extras):
    from opticomlib.typing import eye
    return eye(mu0=mu0, mu1=mu1, s0=s0, s1=s1, **extras)


def _show_extras(ex):
    """short text of a dict of additional eye attributes (arrays by shape only)"""
    return '{' + ', '.join(f'{k}=<array {np.shape(v)}>' if isinstance(v, np.ndarray) else f'{k}={v!r}' for k, v in ex.items()) + '}'


def opt_thr_roots(d, S0, S1, M):
    """real solutions t (relative to mu0) of (M-1) N(t;0,S0) = N(t;d,S1), by the stable quadratic formula"""
    L = math.log((M - 1) * math.sqrt(S1 / S0))
    # (S0 - S1) t^2 - 2 S0 d t... derived: -(S1-S0) t^2 - 2 S0 d t + S0 d^2 + 2 S0 S1 L = 0
    A = -(S1 - S0)
    B = -2 * S0 * d
    Cc = S0 * d * d + 2 * S0 * S1 * L
    if A == 0:
        return [-Cc / B]
    disc = B * B - 4 * A * Cc
    if disc < 0:
        return []
    sq = math.sqrt(disc)
    q = -0.5 * (B + math.copysign(sq, B))
    out = [q / A]
    if q != 0:
        out.append(Cc / q)
    return out


def log_residual(t, d, S0, S1, M):
    """ln[(M-1) N(t;0,S0)] - ln N(t;d,S1) and the scale of its terms"""
    a = math.log(M - 1) - 0.5 * math.log(S0) - t * t / (2 * S0)
    b = -0.5 * math.log(S1) - (t - d) ** 2 / (2 * S1)
    scale = abs(math.log(M - 1)) + 0.5 * abs(math.log(S0)) + t * t / (2 * S0) + 0.5 * abs(math.log(S1)) + (t - d) ** 2 / (2 * S1)
    return a - b, max(scale, 1.0)


# ---- eye objects that carry MORE than the four statistics (axis `extras` of the estimators part) -------------------------
# An `eye` is an attribute bag: devices.GET_EYE / lab.GET_EYE_v2 store ~25 further fields next to mu0, mu1, s0, s1 (a
# KDE-minimum `threshold` or None, the timing fields, the resampled record and the sample clusters, er, eye_h, ...), and
# these are the objects ook.DSP / ppm.DSP hand back to the user.  The statement says the estimators "depend only on
# mu1-mu0, s0, s1 and M": whatever else the object carries, the result is the one of the bare object.
EXTRAS = ['threshold=None',            # GET_EYE could not estimate a threshold (its `except` branch)
          'threshold=midpoint', 'threshold=mu0+d/4',      # plausible measured thresholds (inside the eye)
          'threshold=mu0', 'threshold=mu1',               # both ends of the range GET_EYE searches
          'threshold=mu1+d',                              # implausible: outside [mu0, mu1]
          'timing',                    # the time-axis / bookkeeping fields only, no threshold attribute at all
          'GET_EYE',                   # every field devices.GET_EYE stores, mutually consistent with the four statistics
          'GET_EYE-inconsistent',      # the same fields describing ANOTHER eye (levels, spreads, threshold below mu0, er = nan)
          'lab.GET_EYE']               # the fields lab.GET_EYE_v2 stores (ones / zeros / t0 / t1 instead of the clusters)
_Z8 = np.array([-1.0, 1.0, -1.0, 1.0, 1.0, -1.0, 1.0, -1.0])       # standard scores with mean 0 and standard deviation 1


def eye_extras(name, mu0, mu1, s0, s1):
    """the additional attributes of the variant `name` for an eye with the statistics (mu0, mu1, s0, s1)"""
    d = mu1 - mu0
    if name.startswith('threshold='):
        return {'threshold': {'None': None, 'midpoint': mu0 + d / 2, 'mu0+d/4': mu0 + d / 4, 'mu0': mu0, 'mu1': mu1, 'mu1+d': mu1 + d}[name[10:]]}
    sps = 16
    timing = dict(sps=sps, dt=1 / (sps * 1e9), t_left=-0.5, t_right=0.5, t_opt=0.0, t_dist=1.0, t_span0=-0.05, t_span1=0.05, i=sps // 2 - 1, execution_time=1e-3)
    if name == 'timing':
        return timing
    if name == 'GET_EYE-inconsistent':
        a0, a1, b0, b1 = mu0 - d, mu1 + 2 * d, 3 * s0, s1 / 3          # the record belongs to another eye
    else:
        a0, a1, b0, b1 = mu0, mu1, s0, s1
    top, bot = a1 + b1 * _Z8, a0 + b0 * _Z8
    y = np.concatenate([bot, top, top, bot])                            # 2 slots of 16 samples
    t = np.linspace(-1, 1 - 1 / sps, 2 * sps)
    er = float(10 * np.log10(a1 / a0)) if a0 > 0 else (math.inf if a0 == 0 else math.nan)
    out = dict(timing, y=y, t=t, er=er, eye_h=a1 - 3 * b1 - a0 - 3 * b0)
    if name == 'lab.GET_EYE':
        out.update(ones=np.concatenate([top, top]), zeros=np.concatenate([bot, bot]), t0=np.linspace(-0.5, 0.5, sps, endpoint=False),
                   t1=np.linspace(-0.5, 0.5, sps, endpoint=False), y_left=None, y_right=None, threshold=np.float64(mu0 + 0.4 * d))
        return out
    nan8 = np.full(8, np.nan)
    out.update(y_top=np.concatenate([nan8, top, top, nan8]), y_bot=np.concatenate([bot, nan8, nan8, bot]), y_25_75=np.full(2 * sps, np.nan),
               top_int=(a1 - b1 / 2, a1 + b1 / 2), bot_int=(a0 - b0 / 2, a0 + b0 / 2))
    if name == 'GET_EYE':
        out.update(y_left=mu0 + d / 2, y_right=mu0 + d / 2, threshold=np.float64(mu0 + 0.4 * d))
    else:
        out.update(y_left=None, y_right=None, threshold=np.float64(mu0 - d), sps_resamp=128, t_opt=0.3125, i=0)
    return out


def extras_offsets(tier):
    """offsets mu0 (in units of the scale) at which the whole `extras` axis is run: zero (threshold = 0.0 IS mu0) and nonzero"""
    return OFFSETS[:2] if tier == 'quick' else OFFSETS[:3]


def _same(a, b):
    """two library results obtained from the same (mu0, mu1, s0, s1, M): the same flops on the same numbers; 1e-12
    relative only leaves room for an implementation that reorders a sum"""
    return close(a, b, 1e-12, 1e-300)


def estimators_case(case):
    """case = (tier, kind, s0, s1, M[, scale]).  mu ladder x offsets mu0 (x eye variants with additional attributes at the
    first offsets); `scale` multiplies mu0, mu1, s0 and s1 alike."""
    tier, kind, s0, s1, M = case[:5]
    c = case[5] if len(case) > 5 else 1.0
    s0, s1 = s0 * c, s1 * c
    from opticomlib import ook, ppm, utils as U
    lad = ladder(tier)
    s = max(s0, s1)
    viol, obs, nlib = [], [], 0
    nsol = nx = 0
    xoffs = set(extras_offsets(tier))

    def V(key, msg):
        viol.append((key, f'{kind} s0={s0} s1={s1} M={M}: {msg}'))

    S0, S1 = s0 * s0, s1 * s1
    for q in lad:
        d = q * s
        step = d / 999
        if kind == 'ook':
            tm, gm, _ = band('ook', d, s0, s1, 2, 1000)
            fobj = lambda x: float(ook_obj(x, d, s0, s1))
            scale = 1.0
        else:
            tm, gm, _ = band('ppm', d, s0, s1, M, 1000)
            fobj = lambda x: float(hard_obj(x, d, s0, s1, M))
            scale = bit(M)
        ah = 0.0 if kind == 'ook' else at_hard(M)
        base = {}
        for off in OFFSETS:
            mu0 = off * c
            mu1 = mu0 + d
            dd = mu1 - mu0                      # the difference the library can see (rounded)
            rnd = 8 * EPS * (abs(mu0) + abs(mu1))
            ey = _eye(mu0, mu1, s0, s1)
            # ---- grid threshold estimator
            th = float(ook.THRESHOLD_EST(ey) if kind == 'ook' else ppm.THRESHOLD_EST(ey, M)); nlib += 1
            if not (mu0 <= th <= mu1):
                V(f'{kind}.THRESHOLD_EST:outside-[mu0,mu1]', f'mu0={mu0} mu1={mu1}: threshold {th!r}')
            else:
                fo = fobj(min(max(th - mu0, 0.0), d))
                # rounding of the shifted grid points / of (th - mu0): |dQ/Q| <= |dlnQ/dz| * rnd/s with |dlnQ/dz| < 40 wherever Q(z) > 0 in doubles
                slack = gm * (RT_GRID + 40 * rnd / min(s0, s1)) + ah
                if fo > gm + slack:
                    V(f'{kind}.THRESHOLD_EST:not-a-grid-minimiser', f'mu0={mu0} mu1={mu1}: error integral at returned threshold {fo!r} > 1000-point grid minimum {gm!r}')
            if kind == 'ook' and s0 == s1:
                if abs(th - (mu0 + mu1) / 2) > step / 2 * (1 + 1e-9) + rnd:
                    V('ook.THRESHOLD_EST:equal-sigma:not-midpoint', f'mu0={mu0} mu1={mu1}: threshold {th!r}, midpoint {(mu0+mu1)/2!r}, half grid step {step/2!r}')
            # ---- estimator BER
            if kind == 'ook':
                bers = {'ook': float(ook.BER_analizer('estimator', eye_obj=ey))}; nlib += 1
            else:
                bers = {'hard': float(ppm.BER_analizer('estimator', eye_obj=ey, M=M, decision='hard')),
                        'soft': float(ppm.BER_analizer('estimator', eye_obj=ey, M=M, decision='soft'))}; nlib += 2
            for dec, v in bers.items():
                if dec == 'soft':
                    if M == 2:
                        cf = float(Qf(d / math.hypot(s0, s1)))
                        if not close(v, cf, RT_CURVE, AT_SOFT):
                            V('ppm.BER_analizer:estimator:soft:M=2:Q(mu/sqrt(s0^2+s1^2))', f'mu0={mu0} mu1={mu1}: {v!r}, closed form {cf!r}')
                else:
                    slack = gm * scale * (RT_GRID + 40 * rnd / min(s0, s1)) + ah
                    if not np.isfinite(v) or v < tm * scale * (1 - RT_GRID) - slack or v > gm * scale + slack:
                        V(f'{kind}.BER_analizer:estimator:{dec}:outside-grid-band', f'mu0={mu0} mu1={mu1}: {v!r} not in [{tm*scale!r}, {gm*scale!r}]')
            if mu0 == 0.0:
                base = {'th': th, **bers}
                # consistent with the theory_BER formulas (same mu1-mu0, s0, s1, M)
                if kind == 'ook':
                    t = float(ook.theory_BER(d, s0, s1)); nlib += 1
                    if not close(bers['ook'], t, RT_CURVE):
                        V('ook.BER_analizer:estimator!=theory_BER', f'mu={d}: estimator {bers["ook"]!r}, theory_BER {t!r}')
                else:
                    for dec in ('hard', 'soft'):
                        t = float(ppm.theory_BER(d, s0, s1, M, dec)); nlib += 1
                        if not close(bers[dec], t, RT_CURVE, AT_SOFT if dec == 'soft' else ah):
                            V(f'ppm.BER_analizer:estimator!=theory_BER:{dec}', f'mu={d}: estimator {bers[dec]!r}, theory_BER {t!r}')
            else:
                # depend only on mu1 - mu0: compare with the un-shifted call
                if abs((th - mu0) - base['th']) > step * (1 + 1e-9) + rnd:
                    V(f'{kind}.THRESHOLD_EST:not-shift-invariant', f'mu0={mu0}: threshold-mu0 = {th-mu0!r}, at mu0=0: {base["th"]!r} (grid step {step!r})')
                for dec, v in bers.items():
                    if dec == 'soft':
                        ok = close(v, base[dec], RT_CURVE, 2 * AT_SOFT)
                    else:
                        ok = close(v, base[dec], RT_GRID + 40 * rnd / min(s0, s1), ah)
                    if not ok:
                        V(f'{kind}.BER_analizer:estimator:{dec}:not-shift-invariant', f'mu0={mu0}: {v!r}, at mu0=0: {base[dec]!r}')
            obs.append((th,) + tuple(bers.values()))
            # one eye object served all the calls above: its parameters are still the ones it was built with
            if (ey.mu0, ey.mu1, ey.s0, ey.s1) != (mu0, mu1, s0, s1):
                V(f'{kind}:estimators:eye-object-modified', f'mu0={mu0} mu1={mu1}: the eye object now holds {(ey.mu0, ey.mu1, ey.s0, ey.s1)!r}')
            # ---- the same four statistics on eye objects that carry further attributes: same threshold, same BERs
            if off in xoffs:
                nsame = 0
                for xn in EXTRAS:
                    ex = eye_extras(xn, mu0, mu1, s0, s1)
                    eyx = _eye(mu0, mu1, s0, s1, **ex)
                    thx = float(ook.THRESHOLD_EST(eyx) if kind == 'ook' else ppm.THRESHOLD_EST(eyx, M)); nlib += 1
                    if kind == 'ook':
                        bx = {'ook': float(ook.BER_analizer('estimator', eye_obj=eyx))}; nlib += 1
                    else:
                        bx = {'hard': float(ppm.BER_analizer('estimator', eye_obj=eyx, M=M, decision='hard')),
                              'soft': float(ppm.BER_analizer('estimator', eye_obj=eyx, M=M, decision='soft'))}; nlib += 2
                    what = f'mu0={mu0} mu1={mu1}: eye object that also carries {_show_extras(ex)}'
                    ok = True
                    if not _same(thx, th):
                        ok = False
                        V(f'{kind}.THRESHOLD_EST:depends-on-other-eye-attributes', f'{what}: threshold {thx!r}; {th!r} for the bare eye(mu0, mu1, s0, s1)')
                    for dec, v in bx.items():
                        if not _same(v, bers[dec]):
                            ok = False
                            V(f'{kind}.BER_analizer:estimator:{dec}:depends-on-other-eye-attributes',
                              f'{what}: BER {v!r}; {bers[dec]!r} for the bare eye(mu0, mu1, s0, s1) (reference grid band [{tm*scale!r}, {gm*scale!r}])' if dec != 'soft' else
                              f'{what}: BER {v!r}; {bers[dec]!r} for the bare eye(mu0, mu1, s0, s1)')
                    nsame += ok
                    nx += 1
                obs.append(('extras', nsame))

            # ---- utils.optimum_threshold (variances S0, S1)
            roots = opt_thr_roots(dd, S0, S1, M)
            try:
                ot = U.optimum_threshold(mu0, mu1, S0, S1, 'ook' if kind == 'ook' else 'ppm', None if kind == 'ook' else M); nlib += 1
                ot = float(ot)
                exc = None
            except ArithmeticError as ex:           # ZeroDivisionError / FloatingPointError from the library formula
                ot, exc = math.nan, f'{type(ex).__name__}: {ex}'
            obs.append(('ot', ot if ot == ot else 'nan', exc))
            if not roots:
                continue            # no real solution exists: the statement is silent, anything goes
            nsol += 1
            if not np.isfinite(ot):
                if S0 == S1:
                    V('optimum_threshold:equal-variances', f'mu0={mu0} mu1={mu1} S0=S1={S0}: {exc or ot!r}; the solution of (M-1)N0=N1 is {mu0 + roots[0]!r}' + (' (the midpoint)' if kind == 'ook' else ''))
                else:
                    V('optimum_threshold:not-finite', f'mu0={mu0} mu1={mu1} S0={S0} S1={S1}: {exc or ot!r} although real solutions {[mu0 + t for t in roots]!r} exist')
                continue
            t = ot - mu0
            resid, sc = log_residual(t, dd, S0, S1, M)
            # rounding model: residual is a difference of terms of size `sc`; the root carries a relative error of a few eps
            # amplified by the cancellation in mu0*S1 - mu1*S0 (|mu0|,|mu1| vs d) -> tol = 1e-9 * sc * (1 + (|mu0|+|mu1|)/d)
            tol = 1e-9 * sc * (1 + (abs(mu0) + abs(mu1)) / dd)
            if abs(resid) > tol:
                V('optimum_threshold:does-not-solve-(M-1)N0=N1', f'mu0={mu0} mu1={mu1} S0={S0} S1={S1}: r={ot!r}, ln-residual {resid!r} (tol {tol!r}); solutions {[mu0 + x for x in roots]!r}')
            inr = [x for x in roots if 0 <= x <= dd]
            if len(inr) == 1 and not (-tol_x(dd, mu0, mu1) <= t <= dd + tol_x(dd, mu0, mu1)):
                V('optimum_threshold:wrong-root:outside-[mu0,mu1]', f'mu0={mu0} mu1={mu1} S0={S0} S1={S1}: r={ot!r} although the solution {mu0 + inr[0]!r} lies in [mu0, mu1]')
            if kind == 'ook' and S0 == S1 and abs(ot - (mu0 + mu1) / 2) > 1e-9 * dd + rnd:
                V('optimum_threshold:equal-variances', f'mu0={mu0} mu1={mu1}: r={ot!r} is not the midpoint')
            if mu0 == 0.0:
                base['ot'] = ot
            elif 'ot' in base and np.isfinite(base['ot']):
                if abs(t - base['ot']) > 1e-9 * (dd + abs(base['ot'])) * (1 + (abs(mu0) + abs(mu1)) / dd):
                    V('optimum_threshold:not-shift-invariant', f'mu0={mu0}: r-mu0 = {t!r}, at mu0=0: {base["ot"]!r}')
    return res(viol=viol, obs=tuple(obs), nontrivial=bool(nsol), stats={'estimator_points': len(lad) * len(OFFSETS), 'lib_calls': nlib,
                                                                      'optimum_threshold_with_real_solution': nsol, 'eye_objects_with_additional_attributes': nx})


def tol_x(d, mu0, mu1):
    return 1e-9 * d + 8 * EPS * (abs(mu0) + abs(mu1))


# ---- eye objects MEASURED by devices.GET_EYE (the objects ook.DSP / ppm.DSP return), fed to every estimator ----------------
# (format, slots, sps, lower level, upper level, noise sigma, sps_resamp): fixed records, simplest first.  The waveform is
# built without the library (own LFSR, np.kron, a private RandomState for the noise stream); np.random.seed owns KMeans.
MEASURED = [('nrz', 128, 16, 0.0, 1.0, 0.10, None),
            ('nrz', 128, 16, 0.2, 1.2, 0.15, 64),          # resampled record: the object also carries sps_resamp
            ('ppm4', 256, 16, 0.0, 1.0, 0.12, None),       # one pulse per 4 slots
            ('nrz', 128, 8, -0.5, 0.5, 0.08, None)]        # negative lower level: er = nan
MEASURED_MS = [2, 4, 16, 256]


def _lfsr7(n):
    st, out = 0x7F, []
    for _ in range(n):
        b = ((st >> 6) ^ (st >> 5)) & 1
        st = ((st << 1) | b) & 0x7F
        out.append(st & 1)
    return np.array(out)


def measured_eye_case(case):
    """case = (index into MEASURED,).  GET_EYE measures a noisy two-level record; the object it returns (mu0, mu1, s0, s1 AND
    threshold, timing fields, the record, the clusters, ...) goes to every estimator.  Inside the quantifier (s0, s1 > 0,
    0 < mu1-mu0 <= 20 max(s0, s1)) each result must equal the one for the bare eye(mu0, mu1, s0, s1), which in turn must be
    consistent with theory_BER(mu1-mu0, s0, s1[, M, decision]) and lie in the reference grid band."""
    fmt, nsl, sps, a, b, sg_, rs = MEASURED[case[0]]
    from opticomlib import ook, ppm
    from opticomlib.devices import GET_EYE
    from opticomlib.typing import electrical_signal
    viol, obs, nlib = [], [], 0

    def V(key, msg):
        viol.append((key, f'GET_EYE record {MEASURED[case[0]]!r}: {msg}'))

    gv_reset(sps=sps, R=1e9)
    bits = _lfsr7(nsl)
    if fmt == 'ppm4':
        sym = (2 * bits[0:nsl // 2:2] + bits[1:nsl // 2:2])[:nsl // 4]
        slots = np.zeros(nsl, dtype=int)
        slots[4 * np.arange(len(sym)) + sym] = 1
    else:
        slots = bits
    w = a + (b - a) * np.kron(slots, np.ones(sps)) + np.random.RandomState(1000 + case[0]).normal(0, sg_, nsl * sps)
    np.random.seed(case[0])
    ey = GET_EYE(electrical_signal(w)) if rs is None else GET_EYE(electrical_signal(w), sps_resamp=rs)
    mu0, mu1, s0, s1 = ey.mu0, ey.mu1, ey.s0, ey.s1           # numpy float64 scalars as stored by GET_EYE
    extra = sorted(k for k in vars(ey) if k not in ('mu0', 'mu1', 's0', 's1'))
    f0, f1, fs0, fs1 = float(mu0), float(mu1), float(s0), float(s1)
    d = f1 - f0
    obs.append((f0, f1, fs0, fs1, None if ey.threshold is None else float(ey.threshold), tuple(extra)))
    if not (np.isfinite([f0, f1, fs0, fs1]).all() and fs0 > 0 and fs1 > 0 and 0 < d <= 20 * max(fs0, fs1)):
        return res(viol=viol, obs=tuple(obs), nontrivial=False, stats={'measured_eyes_outside_the_quantifier': 1})
    bare = _eye(mu0, mu1, s0, s1)
    rnd = 8 * EPS * (abs(f0) + abs(f1))
    what = f'measured eye mu0={f0!r} mu1={f1!r} s0={fs0!r} s1={fs1!r} (threshold attribute {ey.threshold!r}, {len(extra)} further attributes)'
    jobs = [('ook', 2, 'ook.THRESHOLD_EST', None, lambda e: ook.THRESHOLD_EST(e)),
            ('ook', 2, 'ook.BER_analizer:estimator:ook', 'ook', lambda e: ook.BER_analizer('estimator', eye_obj=e))]
    for M in MEASURED_MS:
        jobs += [('ppm', M, 'ppm.THRESHOLD_EST', None, lambda e, M=M: ppm.THRESHOLD_EST(e, M)),
                 ('ppm', M, 'ppm.BER_analizer:estimator:hard', 'hard', lambda e, M=M: ppm.BER_analizer('estimator', eye_obj=e, M=M, decision='hard')),
                 ('ppm', M, 'ppm.BER_analizer:estimator:soft', 'soft', lambda e, M=M: ppm.BER_analizer('estimator', eye_obj=e, M=M, decision='soft'))]
    bands = {}
    vals = []
    for kind, M, name, dec, f in jobs:
        vm, vb = float(f(ey)), float(f(bare)); nlib += 2
        obs.append((name, M, vb))
        if not _same(vm, vb):
            V(f'{name}:depends-on-other-eye-attributes', f'{what}{"" if kind == "ook" else f" M={M}"}: {vm!r}; {vb!r} for the bare eye(mu0, mu1, s0, s1)')
        if dec is None:
            if not (f0 <= vb <= f1):
                V(f'{kind}.THRESHOLD_EST:outside-[mu0,mu1]', f'{what} M={M}: threshold {vb!r}')
            continue
        vals.append(vb)
        if dec == 'soft':
            t = float(ppm.theory_BER(d, s0, s1, M, 'soft')); nlib += 1
            if not close(vb, t, RT_CURVE, 2 * AT_SOFT):
                V('ppm.BER_analizer:estimator!=theory_BER:soft', f'{what} M={M}: estimator {vb!r}, theory_BER {t!r}')
            continue
        if (kind, M) not in bands:
            bands[(kind, M)] = band(kind, d, fs0, fs1, M, 1000)
        tm, gm, _ = bands[(kind, M)]
        sc = 1.0 if kind == 'ook' else bit(M)
        ah = 0.0 if kind == 'ook' else at_hard(M)
        slack = gm * sc * (RT_GRID + 40 * rnd / min(fs0, fs1)) + ah
        if not np.isfinite(vb) or vb < tm * sc * (1 - RT_GRID) - slack or vb > gm * sc + slack:
            V(f'{kind}.BER_analizer:estimator:{dec}:outside-grid-band', f'{what} M={M}: {vb!r} not in [{tm*sc!r}, {gm*sc!r}]')
        t = float(ook.theory_BER(d, s0, s1) if kind == 'ook' else ppm.theory_BER(d, s0, s1, M, 'hard')); nlib += 1
        if not close(vb, t, RT_CURVE + 40 * rnd / min(fs0, fs1), ah):
            V('ook.BER_analizer:estimator!=theory_BER' if kind == 'ook' else 'ppm.BER_analizer:estimator!=theory_BER:hard', f'{what} M={M}: estimator {vb!r}, theory_BER {t!r}')
    return res(viol=viol, obs=tuple(obs), nontrivial=informative(vals) and ('measured', case[0]), stats={'lib_calls': nlib, 'measured_eyes': 1})


# ---- variances / sigmas / levels that are equal UP TO ROUNDING ------------------------------------------------------------
# (strengthening after seeded wave 6)  The sigma pairs of the product above are either bit-identical or clearly different.  Two
# variances that reach a caller through different arithmetic routes (0.1**2 and 0.01, a measured std squared and the same
# number typed in, S and S*(1 + 1e-12)) are neither: a closed form that divides by (S1 - S0), or that switches to the
# equal-variance limit only for S1 == S0, loses everything there.  The problem itself is perfectly well conditioned at equal
# variances (the solution of (M-1) N(t;0,S0) = N(t;d,S1) is a smooth function of S1 through S1 = S0), so the statement's
# clauses can be asserted with a conditioning-derived tolerance:
#   F(t; d, S0, S1) = ln(M-1) + ln(S1/S0)/2 - t^2/(2 S0) + (t-d)^2/(2 S1) = 0,    dt/dx = -F_x/F_t    (implicit function theorem)
#   F_t = -t/S0 + (t-d)/S1,  F_d = -(t-d)/S1,  F_S0 = -1/(2 S0) + t^2/(2 S0^2),  F_S1 = 1/(2 S1) - (t-d)^2/(2 S1^2),  F_L = 1
# unit(t) = eps * [ (|mu0|+|mu1|)(1 + |F_d/F_t|) + (|F_S0| S0 + |F_S1| S1 + |L| + 1)/|F_t| + |mu0| + |t| ]
# is what ONE relative rounding of each datum (mu0, mu1 -> d, S0, S1, the logarithm L) and of the result mu0 + t moves the
# answer by.  NEAR_K units are allowed: a direct evaluation of any closed form has <= ~25 elementary operations, each worth at
# most one unit when the algorithm is (mixed forward-backward) stable, and the double-precision reference root costs < 1 unit
# (measured against 60-digit decimal arithmetic over the whole quick space: library 0.56, reference 0.54 units - i.e. NEAR_K
# leaves a factor ~50 and is not fitted to the output).  A formula that cancels in mu0*S1 - mu1*S0 + s1*s0*sqrt(.) and divides by
# S1 - S0 is wrong by ~ eps*(|mu0|+|mu1|+d)*S/|S1-S0| = 1/(relative difference) units.
NEAR_K = 32
NEAR_MS = [2, 4, 16, 256]
# values that print alike / are "the same number" to the person who typed them, but differ in the last place(s)
PRINT_SAME = [('0.1**2', 0.1 ** 2, '0.01', 0.01), ('0.3**2', 0.3 ** 2, '0.09', 0.09), ('0.1*3', 0.1 * 3, '0.3', 0.3),
              ('0.3-0.1', 0.3 - 0.1, '0.2', 0.2), ('0.1+0.2', 0.1 + 0.2, '0.3', 0.3), ('1.1*1.1', 1.1 * 1.1, '1.21', 1.21),
              ('0.7**2', 0.7 ** 2, '0.49', 0.49), ('1-0.9', 1 - 0.9, '0.1', 0.1), ('sqrt(0.0123)**2', math.sqrt(0.0123) ** 2, '0.0123', 0.0123)]
PRINT_SAME = [p for p in PRINT_SAME if p[1] != p[3]]
# offsets mu0 (in units of the scale): the OFFSETS and levels that are "0.3" / "0.2" by two arithmetic routes
NEAR_OFFSETS = [0.0, 0.3, 0.1 * 3, 0.3 - 0.1, 0.2, -1.0, 5.0, -250.0, 1000.0]


def near_perts(tier, eye_only=False):
    """(name, x -> x') : x' equals x up to rounding.  One ulp either way, k eps for k in {1, 2, 8, 1e3, 1e6}, relative
    differences 1e-14 ... 1e-8, both signs; simplest (closest) first."""
    out = [('nextafter(x,+inf)', lambda x: float(np.nextafter(x, math.inf))), ('nextafter(x,0)', lambda x: float(np.nextafter(x, 0.0)))]
    for k in (1, 2, 8, 1e3, 1e6):
        out += [(f'x*(1+{k:g}eps)', lambda x, k=k: x * (1 + k * EPS)), (f'x*(1-{k:g}eps)', lambda x, k=k: x * (1 - k * EPS))]
    for r in (1e-14, 1e-12, 1e-10, 1e-8):
        out += [(f'x*(1+{r:g})', lambda x, r=r: x * (1 + r)), (f'x*(1-{r:g})', lambda x, r=r: x * (1 - r))]
    if eye_only and tier == 'quick':
        keep = {'nextafter(x,+inf)', 'nextafter(x,0)', 'x*(1+1000eps)', 'x*(1-1000eps)', 'x*(1+1e-10)', 'x*(1-1e-10)'}
        out = [p for p in out if p[0] in keep]
    return out


def near_cases(tier):
    """('near', tier, kind, M, base sigma | 'print-same', scale, run the eye-object functions too?)"""
    if tier == 'quick':
        bases = [(sg_, c) for c in (1.0, 1e-6, 1e6) for sg_ in (0.1, 0.3, 1.0)]
        eye_bases = {(0.1, 1.0), (1.0, 1.0), (0.1, 1e-6), (0.1, 1e6)}
        Ms = NEAR_MS
    else:
        bases = [(sg_, c) for c in [1.0] + scales(tier) for sg_ in sigmas(tier)]
        eye_bases = {(sg_, 1.0) for sg_ in (0.1, 0.05, 0.3, 1.0)} | {(0.1, c) for c in scales(tier)}
        Ms = [2, 4, 8, 16, 64, 256]
    kinds = [('ook', 2)] + [('ppm', M) for M in Ms]
    out = []
    for kind, M in kinds:
        out += [('near', tier, kind, M, 'print-same', c, True) for c in (1.0, 2.0 ** -40)]          # exact scalings keep the bit patterns
    for b in bases:
        out += [('near', tier, kind, M, b[0], b[1], b in eye_bases) for kind, M in kinds]
    return out


def near_unit(t, d, mu0, mu1, S0, S1, M):
    """see the comment block above: displacement of the solution by one relative rounding of every datum"""
    L = math.log((M - 1) * math.sqrt(S1 / S0))
    Ft = -t / S0 + (t - d) / S1
    Fd = -(t - d) / S1
    FS0 = -1 / (2 * S0) + t * t / (2 * S0 * S0)
    FS1 = 1 / (2 * S1) - (t - d) ** 2 / (2 * S1 * S1)
    m = abs(mu0) + abs(mu1)
    return EPS * (m * (1 + abs(Fd / Ft)) + (abs(FS0) * S0 + abs(FS1) * S1 + abs(L) + 1) / abs(Ft) + abs(mu0) + abs(t)), abs(Ft)


def near_equal_case(case):
    """case = ('near', tier, kind, M, base, scale, eyes).  base = a sigma: variance pairs (S, S') and (S', S) with S = (sigma*scale)^2
    and S' = every perturbation of near_perts; base = 'print-same': the PRINT_SAME pairs (times an exact power of two).  For
    every pair: the mu ladder x NEAR_OFFSETS through utils.optimum_threshold.  With `eyes`: sigma pairs (s, s') / the
    PRINT_SAME values as sigmas through THRESHOLD_EST and the estimator BERs of ook / ppm."""
    _, tier, kind, M, base, c, eyes = case
    from opticomlib import ook, ppm, utils as U
    lad = ladder(tier)
    viol, obs = [], []
    st = dict(nearly_equal_variance_pairs=0, nearly_equal_optimum_threshold_calls=0, nearly_equal_sigma_eye_objects=0, lib_calls=0,
              nearly_equal_solution_in_range=0)
    mod, Marg = ('ook', None) if kind == 'ook' else ('ppm', M)
    LM = math.log(M - 1)

    def V(key, msg):
        viol.append((key, f'{kind} M={M}: {msg}'))

    if base == 'print-same':
        vpairs = []
        for na, a, nb, b in PRINT_SAME:
            vpairs += [(a * c, b * c, f'S0 = {na}, S1 = {nb}' + (f' (both times {c!r})' if c != 1 else '')),
                       (b * c, a * c, f'S0 = {nb}, S1 = {na}' + (f' (both times {c!r})' if c != 1 else ''))]
        spairs = [(a, b, t.replace('S0', 's0').replace('S1', 's1')) for a, b, t in vpairs]
    else:
        S, sg_ = (base * c) ** 2, base * c
        vpairs, spairs = [], []
        for pn, pf in near_perts(tier):
            vpairs += [(S, pf(S), f'S0 = x = {S!r}, S1 = {pn}'), (pf(S), S, f'S1 = x = {S!r}, S0 = {pn}')]
        for pn, pf in near_perts(tier, eye_only=True):
            spairs += [(sg_, pf(sg_), f's0 = x = {sg_!r}, s1 = {pn}'), (pf(sg_), sg_, f's1 = x = {sg_!r}, s0 = {pn}')]

    cs_v = math.sqrt(c) if base == 'print-same' else c          # scale of the sigmas (and of the offsets) of the variance pairs
    # ---- utils.optimum_threshold on variances equal up to rounding ------------------------------------------------------
    for S0, S1, label in vpairs:
        st['nearly_equal_variance_pairs'] += 1
        s = math.sqrt(max(S0, S1))
        for q in lad:
            tb = ub = None
            for off in NEAR_OFFSETS:
                mu0 = off * cs_v
                mu1 = mu0 + q * s
                dd = mu1 - mu0
                what = f'mu0={mu0!r} mu1={mu1!r} S0={S0!r} S1={S1!r} ({label}; relative difference {(S1 - S0) / S0:.3g})'
                roots = opt_thr_roots(dd, S0, S1, M)
                t_eq = dd / 2 + S0 * LM / dd                       # solution for S1 == S0 (OOK: the midpoint)
                tref = min(roots, key=lambda x: abs(x - t_eq))     # the root that continues it (the other one is ~ 2 S d/(S1-S0) away)
                try:
                    ot = float(U.optimum_threshold(mu0, mu1, S0, S1, mod, Marg))
                    exc = None
                except ArithmeticError as ex:
                    ot, exc = math.nan, f'{type(ex).__name__}: {ex}'
                st['nearly_equal_optimum_threshold_calls'] += 1
                obs.append(ot if ot == ot else 'nan')
                if not math.isfinite(ot):
                    V('optimum_threshold:nearly-equal-variances:not-finite', f'{what}: {exc or ot!r}; the solution of (M-1)N0=N1 is {mu0 + tref!r}')
                    continue
                t = ot - mu0
                unit, aFt = near_unit(tref, dd, mu0, mu1, S0, S1, M)
                tol = NEAR_K * unit
                resid, sc = log_residual(t, dd, S0, S1, M)
                # |F(t)| <= |F_t| * (allowed displacement) + rounding of the residual's own evaluation (5 terms of size <= sc)
                if abs(t - tref) > tol or abs(resid) > aFt * tol + 16 * EPS * sc:
                    V('optimum_threshold:nearly-equal-variances:does-not-solve-(M-1)N0=N1',
                      f'{what}: r={ot!r}; the solution is {mu0 + tref!r} (|difference| {abs(t - tref)!r}, allowed {tol!r} = {NEAR_K} roundings of the data); '
                      f'ln[(M-1)N0/N1] at r = {resid!r} (allowed {aFt * tol + 16 * EPS * sc!r})')
                inside = -tol <= tref <= dd + tol
                st['nearly_equal_solution_in_range'] += inside
                if inside and not (-2 * tol <= t <= dd + 2 * tol):
                    V('optimum_threshold:nearly-equal-variances:outside-[mu0,mu1]', f'{what}: r={ot!r} although the solution {mu0 + tref!r} lies in [mu0, mu1]')
                # continuity at equal variances: |dt/dS1| = |S - (t-d)^2|/(2 S d) <= (1 + (t-d)^2/S)/(2 d) at S1 = S0; twice that covers
                # its variation along the path S0 -> S1 (relative difference <= 1e-8, (t-d)^2/S <= 3e7)
                ctol = abs(S1 - S0) / dd * (1 + (t_eq - dd) ** 2 / S0) + tol
                if abs(t - t_eq) > ctol:
                    V('optimum_threshold:nearly-equal-variances:far-from-equal-variance-solution',
                      f'{what}: r={ot!r}; for S1 = S0 the solution is {mu0 + t_eq!r}' + (' (the midpoint)' if M == 2 else '') +
                      f'; |difference| {abs(t - t_eq)!r}, the variance difference explains at most {ctol!r}')
                if off == 0.0:
                    tb, ub = t, unit
                elif tb is not None and abs(t - tb) > NEAR_K * (unit + ub):
                    V('optimum_threshold:nearly-equal-variances:not-shift-invariant', f'{what}: r-mu0 = {t!r}, at mu0=0: {tb!r} (allowed {NEAR_K * (unit + ub)!r})')
    st['lib_calls'] += st['nearly_equal_optimum_threshold_calls']

    # ---- the eye-object functions on sigmas equal up to rounding ------------------------------------------------------------
    if eyes:
        scale = 1.0 if kind == 'ook' else bit(M)
        ah = 0.0 if kind == 'ook' else at_hard(M)

        def est(ey):
            th = float(ook.THRESHOLD_EST(ey) if kind == 'ook' else ppm.THRESHOLD_EST(ey, M))
            if kind == 'ook':
                return th, {'ook': float(ook.BER_analizer('estimator', eye_obj=ey))}, 2
            return th, {'hard': float(ppm.BER_analizer('estimator', eye_obj=ey, M=M, decision='hard')),
                        'soft': float(ppm.BER_analizer('estimator', eye_obj=ey, M=M, decision='soft'))}, 3
        eq_cache = {}
        for s0, s1, label in spairs:
            s = max(s0, s1)
            rel = abs(s1 - s0) / s0
            for q in lad:
                d = q * s
                step = d / 999
                tm, gm, _ = band(kind, d, s0, s1, M, 1000)
                fobj = (lambda x: float(ook_obj(x, d, s0, s1))) if kind == 'ook' else (lambda x: float(hard_obj(x, d, s0, s1, M)))
                for off in NEAR_OFFSETS[:2]:
                    mu0 = off * c
                    mu1 = mu0 + d
                    rnd = 8 * EPS * (abs(mu0) + abs(mu1))
                    what = f'mu0={mu0!r} mu1={mu1!r} s0={s0!r} s1={s1!r} ({label}; relative difference {(s1 - s0) / s0:.3g})'
                    th, bers, n = est(_eye(mu0, mu1, s0, s1)); st['lib_calls'] += n
                    st['nearly_equal_sigma_eye_objects'] += 1
                    obs.append((th,) + tuple(bers.values()))
                    if not (mu0 <= th <= mu1):
                        V(f'{kind}.THRESHOLD_EST:nearly-equal-sigmas:outside-[mu0,mu1]', f'{what}: threshold {th!r}')
                    else:
                        fo = fobj(min(max(th - mu0, 0.0), d))
                        slack = gm * (RT_GRID + 40 * rnd / min(s0, s1)) + ah
                        if fo > gm + slack:
                            V(f'{kind}.THRESHOLD_EST:nearly-equal-sigmas:not-a-grid-minimiser', f'{what}: error integral at returned threshold {fo!r} > 1000-point grid minimum {gm!r}')
                    if kind == 'ook':
                        # the two grid points next to the midpoint beat the next pair by the relative amount z phi(z)/Q(z) (step/s)^2, z = d/2s;
                        # where that is resolved by the rounding of the objective, the argmin is one of them (the minimiser moves by
                        # ~ rel * s (1 + q^2/4)/(2 q) << step/2)
                        z = d / (2 * s)
                        sep = z * math.exp(-0.5 * z * z) / SQ2PI / float(Qf(z)) * (step / s) ** 2
                        if sep > 1e3 * (EPS + 40 * rnd / min(s0, s1)) and abs(th - (mu0 + mu1) / 2) > step / 2 * (1 + 1e-9) + rnd:
                            V('ook.THRESHOLD_EST:nearly-equal-sigmas:not-midpoint', f'{what}: threshold {th!r}, midpoint {(mu0 + mu1) / 2!r}, half grid step {step / 2!r}')
                    for dec, v in bers.items():
                        if dec == 'soft':
                            if M == 2:
                                cf = float(Qf(d / math.hypot(s0, s1)))
                                if not close(v, cf, RT_CURVE, AT_SOFT):
                                    V('ppm.BER_analizer:estimator:soft:nearly-equal-sigmas:M=2:Q(mu/sqrt(s0^2+s1^2))', f'{what}: {v!r}, closed form {cf!r}')
                        else:
                            slack = gm * scale * (RT_GRID + 40 * rnd / min(s0, s1)) + ah
                            if not np.isfinite(v) or v < tm * scale * (1 - RT_GRID) - slack or v > gm * scale + slack:
                                V(f'{kind}.BER_analizer:estimator:{dec}:nearly-equal-sigmas:outside-grid-band', f'{what}: {v!r} not in [{tm * scale!r}, {gm * scale!r}]')
                    # continuity: the same eye with s1 := s0 exactly.  d ln BER / d ln s1 <= z |dlnQ/dz| <= 20 * 40, so a relative
                    # difference `rel` of the sigmas moves every BER by less than 1e3 * rel (<= 1e-5), on top of RT_CURVE / the floors
                    key = (q, off, s0)
                    if key not in eq_cache:
                        _, eq_cache[key], n = est(_eye(mu0, mu1, s0, s0)); st['lib_calls'] += n
                    for dec, v in bers.items():
                        w = eq_cache[key][dec]
                        if not close(v, w, RT_CURVE + 1e3 * rel + 40 * rnd / min(s0, s1), 2 * AT_SOFT if dec == 'soft' else ah):
                            V(f'{kind}.BER_analizer:estimator:{dec}:nearly-equal-sigmas:far-from-equal-sigma-value', f'{what}: {v!r}; {w!r} for s1 = s0')
                    if off == 0.0:
                        if kind == 'ook':
                            tb_ = float(ook.theory_BER(d, s0, s1)); st['lib_calls'] += 1
                            if not close(bers['ook'], tb_, RT_CURVE):
                                V('ook.BER_analizer:estimator!=theory_BER:nearly-equal-sigmas', f'{what}: estimator {bers["ook"]!r}, theory_BER {tb_!r}')
                        else:
                            for dec in ('hard', 'soft'):
                                tb_ = float(ppm.theory_BER(d, s0, s1, M, dec)); st['lib_calls'] += 1
                                if not close(bers[dec], tb_, RT_CURVE, AT_SOFT if dec == 'soft' else ah):
                                    V(f'ppm.BER_analizer:estimator!=theory_BER:{dec}:nearly-equal-sigmas', f'{what}: estimator {bers[dec]!r}, theory_BER {tb_!r}')
    return res(viol=viol, obs=tuple(obs), nontrivial=bool(st['nearly_equal_solution_in_range']) and ('near', kind, M, base, c), stats=st)


# ---------------------------------------------------------------------------------------------------------
# part 3: receiver model lattice
P_LADDER = [-50.0, -40.0, -30.0, -25.0, -20.0, -10.0, 0.0]
MODS = [('ook', None, None), ('ppm', 4, 'hard'), ('ppm', 4, 'soft'), ('ppm', 16, 'hard'), ('ppm', 16, 'soft'),
        ('ppm', 2, 'hard'), ('ppm', 2, 'soft'), ('ppm', 256, 'hard'), ('ppm', 256, 'soft')]      # both ends of M in {2,...,256}
THRESHOLDS = [0.5, 0.1, 0.9, 1e-6, 1 - 1e-6]     # documented range (0, 1) without the edges: middle, both sides, next to both edges
NUMFORMS = ['float', 'int', 'np.float64', 'np.int64', '0-d']
AXES = {                                 # first entry = baseline A (unamplified); simplest first
    'ER': [math.inf, 3.0, 10.0, 20.0],
    'amplify': [False, True],
    'form': ['default', 'explicit'],     # unamplified call form: G/NF/BW_opt left at their None defaults, or passed explicitly
    'G': [0.0, 20.0, 40.0, 1.0],         # both documented limits; 1 dB: a small gain that is NOT equivalent to "no amplifier"
    'NF': [3.0, 5.0, 10.0],
    'BWx': [4.0, 10.0, 1 + 2.0 ** -10],  # BW_opt / BW_el (> 1; the last one next to the limit)
    'r': [1.0, 0.5, 0.05],
    'R_L': [50.0, 10.0, 1e4],
    'T': [300.0, 0.0, 400.0],
    'NF_el': [0.0, 3.0, 10.0],
    'mod': list(range(len(MODS))),
    'BW_el': [5e9, 10e9],
    'wavelength': [1550e-9, 1310e-9],
    'num': NUMFORMS,                     # type every numeric argument is passed in (Python float / int, numpy scalars, 0-d array)
    'Mt': ['int', 'np.int64', 'np.int16', 'np.uint16'],   # type the PPM order is passed in
}
AXN = list(AXES)
BASE_A = {k: v[0] for k, v in AXES.items()}
BASE_B = dict(BASE_A, amplify=True, G=20.0, NF=5.0)


def deviations(base, k):
    out = []
    for n in range(k + 1):
        for axs in itertools.combinations(AXN, n):
            choices = [[v for v in AXES[a] if v != base[a]] for a in axs]
            for vals in itertools.product(*choices):
                p = dict(base)
                p.update(zip(axs, vals))
                out.append((n, p))
    return out


def canon_point(p):
    """points that lead to the same library calls are one point"""
    p = dict(p)
    if p['amplify']:
        p['form'] = 'explicit'
    elif p['form'] == 'default':
        p['G'], p['NF'], p['BWx'] = BASE_A['G'], BASE_A['NF'], BASE_A['BWx']
    if MODS[p['mod']][1] is None:
        p['Mt'] = BASE_A['Mt']
    return tuple(p[a] for a in AXN)


def rx_points(k):
    seen, out = set(), []
    for base in (BASE_A, BASE_B):
        for n, p in deviations(base, k):
            c = canon_point(p)
            if c not in seen:
                seen.add(c)
                out.append((n, c))
    out.sort(key=lambda t: t[0])       # stable: simplest (fewest deviations) first
    return [c for _, c in out]


def _in_band(v, lo, hi, rt, at):
    return np.isfinite(v) and (lo * (1 - rt) - at <= v <= hi * (1 + rt) + at)


def _ber_refs(kind, M, dec, mu, S, npts=5000):
    """(true_min, gridmin, value at the mid threshold) of the BER on levels mu / variances S"""
    d = float(mu[1] - mu[0])
    s0, s1 = math.sqrt(S[0]), math.sqrt(S[1])
    if kind == 'ook':
        tm, gm, _ = band('ook', d, s0, s1, 2, npts)
        mid = float(ook_obj(d / 2, d, s0, s1))
        return tm, gm, mid
    if dec == 'hard':
        tm, gm, _ = band('ppm', d, s0, s1, M, npts)
        mid = float(hard_obj(d / 2, d, s0, s1, M))
        return tm * bit(M), gm * bit(M), mid * bit(M)
    v = soft_ser(d, s0, s1, M) * bit(M)
    return v, v, v


def _ber_at(kind, M, dec, mu, S, t):
    """BER of the model for the FIXED threshold mu_OFF + t (mu_ON - mu_OFF)"""
    d = float(mu[1] - mu[0])
    s0, s1 = math.sqrt(S[0]), math.sqrt(S[1])
    if kind == 'ook':
        return float(ook_obj(t * d, d, s0, s1))
    return float(hard_obj(t * d, d, s0, s1, M)) * bit(M)


def _chain(V, kind, M, dec, P, mu, S, ref):
    """Results of the model helpers (numpy scalars) fed on to the slot-level formulas, inside their quantifier
    (0 < mu1-mu0 <= 20 max(s0, s1), s0 > 0): ook/ppm.theory_BER, optimum_threshold and the estimators on an eye object
    built from them must agree with the error integral on the model levels.  Returns (#library calls, observation)."""
    from opticomlib import ook, ppm, utils as U
    d = float(ref['mu'][1] - ref['mu'][0])
    s0, s1 = math.sqrt(ref['S'][0]), math.sqrt(ref['S'][1])
    if not (s0 > 0 and 0 < d <= 20 * max(s0, s1)):
        return 0, None
    n = 0
    mu0_, mu1_, S0_, S1_ = mu[0], mu[1], S[0], S[1]            # numpy float64 scalars as returned by the library
    dl, a, b = mu1_ - mu0_, S0_ ** 0.5, S1_ ** 0.5
    kb = 'ook' if kind == 'ook' else 'ppm'
    tm, gm, _ = band(kb, d, s0, s1, 2 if kind == 'ook' else M, 1000)
    sc = 1.0 if kind == 'ook' else bit(M)
    ah = 0.0 if kind == 'ook' else at_hard(M)
    rnd = 8 * EPS * (abs(float(mu0_)) + abs(float(mu1_)))
    slack = gm * sc * (RT_CURVE + 40 * rnd / min(s0, s1)) + ah
    out = []
    if kind == 'ook':
        v = float(ook.theory_BER(dl, a, b)); n += 1
        if not _in_band(v, tm, gm, RT_CURVE, 0.0):
            V('chain:ook.theory_BER(average_voltages,noise_variances)', f'P_avg={P}: ook.theory_BER({dl!r}, {a!r}, {b!r}) = {v!r} outside [{tm!r}, {gm!r}]')
        out.append(v)
    else:
        vh = float(ppm.theory_BER(dl, a, b, M, 'hard')); vs = float(ppm.theory_BER(dl, a, b, M, 'soft')); n += 2
        if not _in_band(vh, tm * sc, gm * sc, RT_CURVE, ah):
            V('chain:ppm.theory_BER(average_voltages,noise_variances)', f'P_avg={P}: ppm.theory_BER({dl!r}, {a!r}, {b!r}, {M}, hard) = {vh!r} outside [{tm*sc!r}, {gm*sc!r}]')
        if M == 2 and not close(vs, float(Qf(d / math.hypot(s0, s1))), RT_CURVE, AT_SOFT):
            V('chain:ppm.theory_BER(average_voltages,noise_variances)', f'P_avg={P}: soft M=2 {vs!r}, Q(d/sqrt(S0+S1)) = {float(Qf(d / math.hypot(s0, s1)))!r}')
        if vs > vh * (1 + RT_CURVE) + AT_SOFT + ah:
            V('chain:ppm.theory_BER(average_voltages,noise_variances)', f'P_avg={P}: soft {vs!r} > hard {vh!r}')
        out += [vh, vs]
    # estimators on an eye object with mu0 = mu_OFF != 0 and the (tiny) model sigmas
    ey = _eye(mu0_, mu1_, a, b)
    th = float(ook.THRESHOLD_EST(ey) if kind == 'ook' else ppm.THRESHOLD_EST(ey, M)); n += 1
    fobj = (lambda x: float(ook_obj(x, d, s0, s1))) if kind == 'ook' else (lambda x: float(hard_obj(x, d, s0, s1, M)))
    if not (float(mu0_) <= th <= float(mu1_)):
        V(f'chain:{kb}.THRESHOLD_EST:outside-[mu0,mu1]', f'P_avg={P}: eye(mu0={mu0_!r}, mu1={mu1_!r}): threshold {th!r}')
    elif fobj(min(max(th - float(mu0_), 0.0), d)) * sc > gm * sc + slack:
        V(f'chain:{kb}.THRESHOLD_EST:not-a-grid-minimiser', f'P_avg={P}: eye(mu0={mu0_!r}, mu1={mu1_!r}, s0={a!r}, s1={b!r}): error integral at the returned threshold {th!r} exceeds the 1000-point grid minimum {gm!r}')
    if kind == 'ook':
        ve = float(ook.BER_analizer('estimator', eye_obj=ey)); n += 1
    else:
        ve = float(ppm.BER_analizer('estimator', eye_obj=ey, M=M, decision='hard')); n += 1
    if not np.isfinite(ve) or ve < tm * sc * (1 - RT_CURVE) - slack or ve > gm * sc + slack:
        V(f'chain:{kb}.BER_analizer:estimator:outside-grid-band', f'P_avg={P}: eye(mu0={mu0_!r}, mu1={mu1_!r}, s0={a!r}, s1={b!r}): {ve!r} not in [{tm*sc!r}, {gm*sc!r}]')
    out += [th, ve]
    # optimum_threshold on the model levels / variances
    Mq = 2 if kind == 'ook' else M
    roots = opt_thr_roots(float(dl), float(S0_), float(S1_), Mq)
    try:
        ot = float(U.optimum_threshold(mu0_, mu1_, S0_, S1_, kb, None if kind == 'ook' else M)); n += 1
    except ArithmeticError:
        ot = math.nan
    out.append(ot if ot == ot else 'nan')
    if roots:
        if not np.isfinite(ot):
            V('chain:optimum_threshold:not-finite', f'P_avg={P}: optimum_threshold({mu0_!r}, {mu1_!r}, {S0_!r}, {S1_!r}) = {ot!r} although real solutions exist')
        else:
            resid, scl = log_residual(ot - float(mu0_), float(dl), float(S0_), float(S1_), Mq)
            tol = 1e-9 * scl * (1 + (abs(float(mu0_)) + abs(float(mu1_))) / float(dl))
            if abs(resid) > tol:
                V('chain:optimum_threshold:does-not-solve-(M-1)N0=N1', f'P_avg={P}: optimum_threshold({mu0_!r}, {mu1_!r}, {S0_!r}, {S1_!r}, {kb}, {M}) = {ot!r}: ln-residual {resid!r} (tol {tol!r})')
    return n, tuple(out)


def receiver_case(case):
    """case = tuple of the AXN coordinates.  Full P_avg ladder at this point."""
    p = dict(zip(AXN, case))
    from opticomlib import utils as U
    kind, M, dec = MODS[p['mod']]
    Mm = 2 if kind == 'ook' else M
    amp, wl, r, R_L, T, NF_el, BW_el, ER = p['amplify'], p['wavelength'], p['r'], p['R_L'], p['T'], p['NF_el'], p['BW_el'], p['ER']
    num, Mt = p.get('num', 'float'), p.get('Mt', 'int')
    if amp or p['form'] == 'explicit':
        G, NF, BW_opt = p['G'], p['NF'], p['BWx'] * BW_el
    else:
        G = NF = BW_opt = None
    f0 = C0 / wl
    viol, obs, nlib = [], [], 0
    tag = (f'{kind}{"" if kind == "ook" else f" M={M} {dec}"} ER={ER} amplify={amp} G={G} NF={NF} BW_opt={BW_opt} r={r} BW_el={BW_el} R_L={R_L} T={T} NF_el={NF_el} wavelength={wl}'
           + ('' if num == 'float' else f' [numbers passed as {num}]') + ('' if Mt == 'int' else f' [M passed as {Mt}]'))

    def V(key, msg):
        viol.append((key, f'{tag}: {msg}'))

    # what the library is handed: the same values in the type form of this lattice point (the reference keeps the floats)
    F = lambda v: as_form(v, num)
    tER, twl, tG, tNF, tBo, tr, tBe, tRL, tT, tNe, tf0 = F(ER), F(wl), F(G), F(NF), F(BW_opt), F(r), F(BW_el), F(R_L), F(T), F(NF_el), F(f0)
    tM = as_mform(M, Mt)
    tamp = np.bool_(amp) if num.startswith('np.') else amp

    # ---- p_ase
    ref0 = rx_model(P_LADDER[0], Mm, ER, amp, wl, G, NF, BW_opt, r, BW_el, R_L, T, NF_el)
    try:
        pa = U.p_ase(tamp, twl, tG, tNF, tBo); nlib += 1
        if not close(pa, ref0['pase'], RT_MODEL):
            V('p_ase:value', f'p_ase={pa!r}, reference NF*h*f0*(G-1)*BW_opt={ref0["pase"]!r}')
        if (not amp or G == 0) and float(pa) != 0.0:
            V('p_ase:value', f'p_ase={pa!r}: no amplifier / a gain of 0 dB adds no ASE (exactly 0 W expected)')
        obs.append(fl(pa))
    except TypeError as ex:
        V('unamplified-default-args:TypeError:p_ase', f'{ex}')

    bers_ok = []
    refs = []
    for P in P_LADDER:
        ref = rx_model(P, Mm, ER, amp, wl, G, NF, BW_opt, r, BW_el, R_L, T, NF_el)
        refs.append(ref)
        tP = F(P)
        mu_l = S_l = None
        # ---- average_voltages
        try:
            mu, mua = U.average_voltages(tP, kind, tM, tER, tamp, twl, tG, tNF, tBo, tr, tRL); nlib += 1
            mu_l = mu
            mu = np.asarray(mu, dtype=float)
            if not (close(mu, ref['mu'], RT_MODEL) and close(mua, ref['mu_ase'], RT_MODEL)):
                alt = rx_model(P, Mm, ER, amp, wl, G, NF, BW_opt, r, BW_el, R_L, T, NF_el, unamp_gain=True)
                if not amp and close(mu, alt['mu'], RT_MODEL):
                    V('average_voltages:unamplified-applies-G', f'P_avg={P}: levels {mu!r} are those of a receiver WITH gain G={G} dB; unamplified reference {ref["mu"]!r}')
                else:
                    V('average_voltages:value', f'P_avg={P}: (mu, mu_ASE)=({mu!r}, {mua!r}), reference ({ref["mu"]!r}, {ref["mu_ase"]!r})')
                mu_l = None
            obs.append(fl(mu) + fl(mua))
        except TypeError as ex:
            if not amp and G is None:
                V('unamplified-default-args:TypeError:average_voltages', f'P_avg={P}: average_voltages(amplify=False) with the default G/NF/BW_opt raises TypeError: {ex}')
            else:
                raise
        # ---- noise_variances
        try:
            S_l = U.noise_variances(tP, kind, tM, tER, tamp, twl, tG, tNF, tBo, tr, tBe, tRL, tT, tNe); nlib += 1
            S = np.asarray(S_l, dtype=float)
            if not close(S, ref['S'], RT_MODEL):
                S_l = None
                alt1 = rx_model(P, Mm, ER, amp, wl, G, NF, BW_opt, r, BW_el, R_L, T, NF_el, nf_all=True)
                alt2 = rx_model(P, Mm, ER, amp, wl, G, NF, BW_opt, r, BW_el, R_L, T, NF_el, unamp_gain=True)
                alt3 = rx_model(P, Mm, ER, amp, wl, G, NF, BW_opt, r, BW_el, R_L, T, NF_el, nf_all=True, unamp_gain=True)
                if NF_el != 0 and close(S, alt1['S'], RT_MODEL):
                    V('noise_variances:NF_el-applied-to-all-terms', f'P_avg={P}: {S!r} = (thermal+shot+beat)*Fn; the model applies Fn to the thermal term only: {ref["S"]!r}')
                elif not amp and close(S, alt2['S'], RT_MODEL):
                    V('noise_variances:unamplified-applies-G', f'P_avg={P}: {S!r} uses the levels of a receiver WITH gain G={G} dB; unamplified reference {ref["S"]!r}')
                elif not amp and NF_el != 0 and close(S, alt3['S'], RT_MODEL):
                    V('noise_variances:NF_el-applied-to-all-terms', f'P_avg={P}: {S!r} = (thermal+shot)*Fn (and gain G applied to an unamplified receiver); reference {ref["S"]!r}')
                else:
                    V('noise_variances:value', f'P_avg={P}: {S!r}, reference thermal {ref["S_th"]!r} + shot {ref["S_sh"]!r} + beat {ref["S_beat"]!r} = {ref["S"]!r}')
            obs.append(fl(S))
        except TypeError as ex:
            if not amp and (G is None or BW_opt is None):
                V('unamplified-default-args:TypeError:noise_variances', f'P_avg={P}: noise_variances(amplify=False) with the default G/NF/BW_opt raises TypeError: {ex}')
            else:
                raise
        # ---- the helpers' results fed on to the slot-level formulas
        if mu_l is not None and S_l is not None:
            k_, o_ = _chain(V, kind, M, dec, P, mu_l, S_l, ref); nlib += k_
            if o_ is not None:
                obs.append(o_)

    # ---- utils.theory_BER: one vector call over the P ladder (+ one scalar call, + fixed thresholds)
    kw = dict(modulation=kind, M=tM, decision=dec, ER=tER, amplify=tamp, f0=tf0, G=tG, NF=tNF, BW_opt=tBo, r=tr, BW_el=tBe, R_L=tRL, T=tT, NF_el=tNe)
    nP = len(P_LADDER)
    Pvec = as_vec(P_LADDER, num)
    if isinstance(Pvec, np.ndarray):
        Pvec.flags.writeable = False
    vec = np.asarray(U.theory_BER(Pvec, **kw), dtype=float); nlib += 1
    sc = float(U.theory_BER(F(P_LADDER[3]), **kw)); nlib += 1
    if vec.shape != (nP,) or not (close(vec[3], sc, 1e-12, 1e-300)):
        V('utils.theory_BER:vectorisation', f'vector call {vec!r}, scalar call at P_avg={P_LADDER[3]}: {sc!r}')
    one = np.asarray(U.theory_BER(as_vec(P_LADDER[3:4], num), **kw), dtype=float); nlib += 1
    if one.shape != (1,) or not close(one, [sc], 1e-12, 1e-300):
        V('utils.theory_BER:vectorisation', f'length-1 vector call at P_avg=[{P_LADDER[3]}] gives {one!r}, scalar call {sc!r}')
    # every numeric argument as an array of the ladder's length (constant arrays): the same element-wise results
    akw = {k_: (np.full(nP, v) if (v is not None and not isinstance(v, (str, bool, np.bool_))) else v) for k_, v in kw.items()}
    allv = np.asarray(U.theory_BER(np.array(P_LADDER), **akw), dtype=float); nlib += 1
    if allv.shape != vec.shape or not close(allv, vec, 1e-12, 1e-300):
        V('utils.theory_BER:vectorisation', f'call with every numeric argument given as a length-{nP} array gives {allv!r}, with scalars {vec!r}')
    soft = (kind == 'ppm' and dec == 'soft')
    vthr = {}
    if not soft:
        for t in THRESHOLDS:
            vthr[t] = np.asarray(U.theory_BER(Pvec, threshold=F(t), **kw), dtype=float); nlib += 1
        # a vector of thresholds goes element-wise with the vector of powers
        tcyc = [THRESHOLDS[i % len(THRESHOLDS)] for i in range(nP)]
        vt = np.asarray(U.theory_BER(Pvec, threshold=np.array(tcyc), **kw), dtype=float); nlib += 1
        want = [float(vthr[t][i]) if vthr[t].shape == (nP,) else math.nan for i, t in enumerate(tcyc)]
        if vt.shape != (nP,) or not close(vt, want, 1e-12, 1e-300):
            V('utils.theory_BER:vectorisation', f'threshold={tcyc} with the P_avg vector gives {vt!r}, the calls with one threshold each {want!r}')
    obs.append(fl(vec))
    at = AT_SOFT if soft else (at_hard(M) if kind == 'ppm' else 0.0)
    lo_hi = []
    for i, P in enumerate(P_LADDER):
        ref = refs[i]
        tm, gm, mid = _ber_refs(kind, M, dec, ref['mu'], ref['S'])
        lo_hi.append((tm, gm))
        v = float(vec[i]) if vec.shape == (nP,) else math.nan
        if np.isnan(v) and ref['S'][0] == 0:
            V('utils.theory_BER:nan:zero-OFF-variance', f'P_avg={P}: theory_BER is nan; the OFF-slot variance is exactly 0 (levels {ref["mu"]!r}, variances {ref["S"]!r}), the error integral tends to {tm!r}')
            continue
        if not _in_band(v, tm, gm, RT_RX, at):
            # name the mismatch when a known wrong model explains it
            alt = rx_model(P, Mm, ER, amp, wl, G, NF, BW_opt, r, BW_el, R_L, T, NF_el, shot_RL=False)
            tma, gma, _ = _ber_refs(kind, M, dec, alt['mu'], alt['S'])
            if R_L != 1 and _in_band(v, tma, gma, RT_RX, at):
                V('utils.theory_BER:shot-variance-lacks-R_L', f'P_avg={P}: BER {v!r} is outside the band [{tm!r}, {gm!r}] of the error integral on the model levels {ref["mu"]!r} / variances {ref["S"]!r} '
                  f'and inside the band [{tma!r}, {gma!r}] obtained with the shot term 2*e*mu*B (without R_L)')
            else:
                V('utils.theory_BER:soft:integral' if soft else 'utils.theory_BER:outside-band', f'P_avg={P}: BER {v!r} outside [{tm!r}, {gm!r}] (levels {ref["mu"]!r}, variances {ref["S"]!r})')
        else:
            bers_ok.append(v)
        for t, vv in vthr.items():
            if vv.shape != vec.shape:
                V('utils.theory_BER:fixed-threshold:value', f'threshold={t}: result of shape {vv.shape} for {nP} powers')
                continue
            vm = float(vv[i])
            want = _ber_at(kind, M, dec, ref['mu'], ref['S'], t)
            if np.isnan(vm) and ref['S'][0] == 0:
                pass            # same defect as above at the same point; reported once
            elif not close(vm, want, RT_RX, at):
                alt = rx_model(P, Mm, ER, amp, wl, G, NF, BW_opt, r, BW_el, R_L, T, NF_el, shot_RL=False)
                wa = _ber_at(kind, M, dec, alt['mu'], alt['S'], t)
                if R_L != 1 and close(vm, wa, RT_RX, at):
                    V('utils.theory_BER:shot-variance-lacks-R_L', f'P_avg={P} threshold={t}: BER {vm!r}, model {want!r}; equals the value {wa!r} obtained with shot = 2*e*mu*B (without R_L)')
                else:
                    V('utils.theory_BER:fixed-threshold:value', f'P_avg={P} threshold={t}: BER {vm!r}, error integral at that threshold {want!r}')
    for t, vv in vthr.items():
        obs.append(fl(vv))
    # ---- decreases monotonically with received power (only where the reference itself does)
    if vec.shape == (nP,):
        for i in range(nP - 1):
            v0, v1 = float(vec[i]), float(vec[i + 1])
            if not (np.isfinite(v0) and np.isfinite(v1)):
                continue
            tm0, _ = lo_hi[i]
            tm1, gm1 = lo_hi[i + 1]
            if tm1 > tm0:
                continue
            if v1 > v0 * (1 + RT_RX) + (gm1 - tm1) + (2 * at):
                V('utils.theory_BER:not-monotone-in-P_avg', f'P_avg {P_LADDER[i]}->{P_LADDER[i+1]}: {v0!r} -> {v1!r}')
    return res(viol=viol, obs=tuple(obs), nontrivial=informative(vec), stats={'receiver_points': nP, 'lib_calls': nlib})


# ---------------------------------------------------------------------------------------------------------
# part 4: device models (PD noise scales, EDFA ASE scale) captured at the RNG seam
def devices_case(case):
    """case = (which, BW_el, r, R_L, T, Fn, P_avg, ER, modidx, amplify, G, NF, wavelength)"""
    which, BW_el, r, R_L, T, Fn, P, ER, modidx, amp, G, NF, wl = case
    from opticomlib import utils as U
    from opticomlib.devices import PD, EDFA
    from opticomlib.typing import optical_signal
    kind, M, dec = MODS[modidx]
    Mm = 2 if kind == 'ook' else M
    viol, obs = [], []
    tag = f'{which} BW_el={BW_el} r={r} R_L={R_L} T={T} Fn={Fn} P_avg={P} ER={ER} {kind} M={M} amplify={amp} G={G} NF={NF} wavelength={wl}'

    def V(key, msg):
        viol.append((key, f'{tag}: {msg}'))

    gv = gv_reset(sps=2, R=BW_el, wavelength=wl)          # fs = 2*BW_el  ->  B = fs/2 = BW_el
    fs = gv.fs
    n = 16
    if which == 'edfa':
        x = optical_signal(np.full(n, 1e-3, dtype=complex))
        with scripted_rng(ScriptedRNG(lambda kind_, info: np.ones(info['size']))) as rng:
            y = EDFA(x, G=G, NF=NF, BW=None)
        reqs = [q for q in rng.requests if q['fn'] == 'randn']
        if len(reqs) != 1 or reqs[0]['size'] != (4, n):
            V('EDFA:rng-requests', f'expected one randn(4, n) request, got {rng.requests!r}')
            return res(viol=viol, obs=repr(rng.requests))
        nz = np.asarray(y.noise)
        amp_q = float(nz.real.ravel()[0])
        if not (np.allclose(nz.real, amp_q, rtol=1e-12, atol=0) and np.allclose(nz.imag, amp_q, rtol=1e-12, atol=0)):
            V('EDFA:ase-not-uniform-scale', 'ASE quadratures are not one common scale times the requested randn values')
        pa = U.p_ase(True, wl, G, NF, BW_opt=fs)
        if not close(4 * amp_q ** 2, pa, RT_MODEL):
            V('p_ase!=EDFA-ASE-power', f'EDFA quadrature scale^2*4 = {4*amp_q**2!r}, utils.p_ase(BW_opt=fs) = {pa!r}')
        return res(viol=viol, obs=(amp_q, float(pa)), nontrivial=pa > 0)

    # ---- PD: thermal and shot scales for the OFF and ON level of the receiver model
    BW_opt = fs if amp else None
    ref = rx_model(P, Mm, ER, amp, wl, G, NF, BW_opt, r, BW_el, R_L, T, Fn)
    g = 10 ** (G / 10) if amp else 1.0
    p_avg = 1e-3 * 10 ** (P / 10)
    er = math.inf if ER == math.inf else 10 ** (ER / 10)
    p_on = p_avg * Mm / (1 + (Mm - 1) / er)
    levels = [p_on / er, p_on]
    # utils side; an unamplified receiver is called with explicit G=0 dB / BW_opt so that defect #10 does not mask this clause
    Gc, NFc, BWc = (G, NF, BW_opt) if amp else (0.0, 3.0, fs)
    S_u = np.asarray(U.noise_variances(P, kind, M, ER, amp, wl, Gc, NFc, BWc, r, BW_el, R_L, T, Fn), dtype=float)
    for lvl, p_lvl in enumerate(levels):
        if amp:
            sig = np.zeros((2, n), dtype=complex); sig[0] = math.sqrt(g * p_lvl)
            nse = np.full((2, n), math.sqrt(ref['pase'] / 2), dtype=complex)
            x = optical_signal(sig, nse, n_pol=2)
        else:
            x = optical_signal(np.full(n, math.sqrt(p_lvl), dtype=complex))
        with scripted_rng(ScriptedRNG()) as rng:
            PD(x, BW=fs / 4, r=r, T=T, R_load=R_L, include_noise='thermal-shot', i_dark=0.0, Fn=Fn)
        reqs = [q for q in rng.requests if q['fn'] == 'normal']
        if len(reqs) != 2 or any(q['loc'] != 0.0 or q['size'] not in (n, (n,)) for q in reqs):
            V('PD:rng-requests', f'expected normal(0, s_thermal, n), normal(0, s_shot, n); got {rng.requests!r}')
            return res(viol=viol, obs=repr(rng.requests))
        v_th = reqs[0]['scale'] ** 2 * R_L ** 2
        v_sh = reqs[1]['scale'] ** 2 * R_L ** 2
        obs.append((v_th, v_sh))
        # device vs the model of the property text (thermal 4kTB R_L Fn, shot 2 e mu B R_L)
        if not close(v_th, ref['S_th'], RT_MODEL):
            V('PD:thermal!=4kTB*R_L*Fn', f'level {lvl}: PD thermal variance {v_th!r} V^2, model {ref["S_th"]!r}')
        if not close(v_sh, ref['S_sh'][lvl], 1e-11):
            V('PD:shot!=2e*mu*B*R_L', f'level {lvl}: PD shot variance {v_sh!r} V^2, model {ref["S_sh"][lvl]!r}')
        # utils vs device: noise_variances minus the beating terms of the model
        tot_dev = v_th + v_sh + ref['S_beat'][lvl] if amp else v_th + v_sh
        rt = 1e-11
        if not close(S_u[lvl], tot_dev, rt):
            alt = (v_th / 10 ** (Fn / 10) + v_sh + (ref['S_beat'][lvl] if amp else 0.0)) * 10 ** (Fn / 10)
            if Fn != 0 and close(S_u[lvl], alt, rt):
                V('noise_variances:NF_el-applied-to-all-terms', f'level {lvl}: noise_variances {S_u[lvl]!r} V^2 = (thermal+shot+beat)*Fn; PD requests thermal*Fn {v_th!r} + shot {v_sh!r} (Fn on the thermal term only)')
            else:
                V('noise_variances!=PD-thermal+shot', f'level {lvl}: noise_variances {S_u[lvl]!r} V^2, PD requests thermal {v_th!r} + shot {v_sh!r}' + (f' + model beating {ref["S_beat"][lvl]!r}' if amp else ''))
    return res(viol=viol, obs=(tuple(obs), fl(S_u)), nontrivial=True)


def devices_cases(tier):
    out = []
    BWs = [5e9, 10e9]
    rs, RLs, Ts, Fns = AXES['r'], AXES['R_L'], AXES['T'], AXES['NF_el']
    Ps = [-25.0, -50.0, 0.0] if tier == 'quick' else P_LADDER
    ERs = [math.inf, 10.0] if tier == 'quick' else AXES['ER']
    mods = [0, 1] if tier == 'quick' else [0, 1, 3]
    # PD: one-axis-at-a-time would hide pairwise effects; the space is small, take the full product of the physical axes
    for amp in (False, True):
        for BW, r, R_L, T, Fn, P, ER, m in itertools.product(BWs, rs, RLs, Ts, Fns, Ps, ERs, mods):
            if amp:
                if not (BW == 5e9 and P in (-25.0, -50.0, 0.0) and m == 0) or (tier == 'quick' and P != -25.0):
                    continue
                out.append(('pd', BW, r, R_L, T, Fn, P, ER, m, True, 20.0, 5.0, 1550e-9))
            else:
                out.append(('pd', BW, r, R_L, T, Fn, P, ER, m, False, None, None, 1550e-9))
    for BW, G, NF, wl in itertools.product(BWs, AXES['G'], AXES['NF'], AXES['wavelength']):
        out.append(('edfa', BW, 1.0, 50.0, 300.0, 0.0, 0.0, math.inf, 0, True, G, NF, wl))
    out.sort(key=lambda c: (c[0] != 'pd',))
    return out


# ---------------------------------------------------------------------------------------------------------
# part 5: element-wise vectorisation of the receiver functions over every argument other than P_avg
def _vec_values(p, pname):
    BW_el = p['BW_el']
    if pname == 'BW_opt':
        return [x * BW_el for x in AXES['BWx']]
    if pname == 'f0':
        return [C0 / w for w in AXES['wavelength']]
    return list(AXES[pname])


VEC_PARAMS = ['ER', 'G', 'NF', 'BW_opt', 'r', 'BW_el', 'R_L', 'T', 'NF_el', 'f0', 'P_avg']
HELPER_ARGS = {                      # positional order of the documented signatures
    'p_ase': ['amplify', 'wavelength', 'G', 'NF', 'BW_opt'],
    'average_voltages': ['P_avg', 'modulation', 'M', 'ER', 'amplify', 'wavelength', 'G', 'NF', 'BW_opt', 'r', 'R_L'],
    'noise_variances': ['P_avg', 'modulation', 'M', 'ER', 'amplify', 'wavelength', 'G', 'NF', 'BW_opt', 'r', 'BW_el', 'R_L', 'T', 'NF_el'],
}


def rxvec_case(case):
    """case = (lattice point, name of the argument that is given as a vector).  utils.theory_BER is documented with array
    input (np.vectorize over every argument): a vector call must equal the scalar calls element by element - the vector
    alone (all legal values of that axis, spread over orders of magnitude for R_L / r / ER), as a length-1 vector,
    together with the P_avg vector (pair of vectors) and broadcast against it ((7,1) x (1,n)).  The model helpers are
    documented for floats only: when they accept the vector their result must likewise be the scalar results side by side
    (a rejection is recorded, not reported)."""
    point, pname = case
    p = dict(zip(AXN, point))
    from opticomlib import utils as U
    kind, M, dec = MODS[p['mod']]
    amp, BW_el = p['amplify'], p['BW_el']
    if amp or p['form'] == 'explicit':
        G, NF, BW_opt = p['G'], p['NF'], p['BWx'] * BW_el
    else:
        G = NF = BW_opt = None
    base = dict(ER=p['ER'], amplify=amp, f0=C0 / p['wavelength'], G=G, NF=NF, BW_opt=BW_opt, r=p['r'], BW_el=BW_el, R_L=p['R_L'], T=p['T'], NF_el=p['NF_el'])
    viol, obs, nlib, nrej = [], [], 0, 0
    tag = f'{kind} M={M} {dec} {base} vector argument {pname}'

    def V(key, msg):
        viol.append((key, f'{tag}: {msg}'))

    if pname == 'P_avg':
        # the model helpers are documented for a float P_avg; they happen to accept a vector of powers (levels / variances
        # of shape (2, n)).  When they do, column i must be the scalar result for P_avg[i]; a rejection is recorded only.
        hb = dict(modulation=kind, M=M, ER=base['ER'], amplify=amp, wavelength=p['wavelength'], G=G, NF=NF, BW_opt=BW_opt, r=base['r'], BW_el=BW_el, R_L=base['R_L'], T=base['T'], NF_el=base['NF_el'])
        if not amp and G is None:
            hb.update(G=0.0, NF=3.0, BW_opt=4 * BW_el)       # explicit form; the default form is exercised by the lattice
        for Pv in (list(P_LADDER), P_LADDER[3:4]):
            for fn in ('average_voltages', 'noise_variances'):
                f, args = getattr(U, fn), HELPER_ARGS[fn]
                sres = [f(*[dict(hb, P_avg=P)[a] for a in args]) for P in Pv]; nlib += len(Pv)
                try:
                    vres = f(*[dict(hb, P_avg=np.array(Pv))[a] for a in args]); nlib += 1
                except Exception:
                    nrej += 1
                    continue
                lv = np.asarray(vres[0] if fn == 'average_voltages' else vres, dtype=float)
                ls = np.array([np.asarray(x[0] if fn == 'average_voltages' else x, dtype=float) for x in sres]).T
                if lv.shape != ls.shape:
                    nrej += 1
                    continue
                if not close(lv, ls, 1e-12, 0.0) or (fn == 'average_voltages' and not close(np.ravel(vres[1])[0], sres[0][1], 1e-12, 0.0)):
                    V(f'{fn}:vector-argument-not-element-wise', f'P_avg={Pv} gives {vres!r}, scalar calls {sres!r}')
                obs.append(fl(lv))
        return res(viol=viol, obs=tuple(obs), nontrivial=(pname, point), stats={'lib_calls': nlib, 'helper_vector_calls_rejected': nrej})
    vals = _vec_values(p, pname)
    if pname == 'BW_opt' and amp:
        vals = [v for v in vals if v > BW_el]
    if pname == 'BW_el' and BW_opt is not None:
        vals = [v for v in vals if v < BW_opt]
    n = len(vals)
    P0 = P_LADDER[3]

    def tb(P, **over):
        kw = dict(base); kw.update(over)
        return U.theory_BER(P, kind, M, dec, **kw)

    scal = [float(tb(P0, **{pname: v})) for v in vals]; nlib += n
    vec = np.asarray(tb(P0, **{pname: np.array(vals)}), dtype=float); nlib += 1
    if vec.shape != (n,) or not close(vec, scal, 1e-12, 1e-300):
        V('utils.theory_BER:vectorisation', f'{pname}={vals} gives {vec!r}, scalar calls {scal!r}')
    one = np.asarray(tb(P0, **{pname: np.array(vals[-1:])}), dtype=float); nlib += 1
    if one.shape != (1,) or not close(one, scal[-1:], 1e-12, 1e-300):
        V('utils.theory_BER:vectorisation', f'length-1 vector {pname}={vals[-1:]} gives {one!r}, scalar call {scal[-1]!r}')
    nP = len(P_LADDER)
    cyc = [vals[i % n] for i in range(nP)]
    pair = np.asarray(tb(np.array(P_LADDER), **{pname: np.array(cyc)}), dtype=float); nlib += 1
    spair = [float(tb(P_LADDER[i], **{pname: cyc[i]})) for i in range(nP)]; nlib += nP
    if pair.shape != (nP,) or not close(pair, spair, 1e-12, 1e-300):
        V('utils.theory_BER:vectorisation', f'P_avg={P_LADDER} together with {pname}={cyc} gives {pair!r}, scalar calls {spair!r}')
    grid = np.asarray(tb(np.array(P_LADDER).reshape(nP, 1), **{pname: np.array(vals).reshape(1, n)}), dtype=float); nlib += 1
    cols = [np.asarray(tb(np.array(P_LADDER), **{pname: v}), dtype=float) for v in vals]; nlib += n
    if grid.shape != (nP, n) or not all(close(grid[:, j], cols[j], 1e-12, 1e-300) for j in range(n)):
        V('utils.theory_BER:vectorisation', f'P_avg (7,1) broadcast against {pname} (1,{n}) gives {grid!r}, column-wise calls {cols!r}')
    obs += [fl(vec), fl(pair), fl(grid)]

    return res(viol=viol, obs=tuple(obs), nontrivial=informative(np.concatenate([vec.ravel(), pair.ravel()])) and (pname, point),
               stats={'lib_calls': nlib, 'helper_vector_calls_rejected': nrej})


def rxvec_cases(tier):
    pts = rx_points(1 if tier == 'quick' else 2)
    i_num, i_mt = AXN.index('num'), AXN.index('Mt')
    out = []
    for pt in pts:
        if pt[i_num] != 'float' or pt[i_mt] != 'int':
            continue                          # type forms are the business of the receiver lattice
        for name in VEC_PARAMS:
            out.append((pt, name))
    return out


# ---------------------------------------------------------------------------------------------------------
# part 6: type forms, documented defaults, keyword / positional forms, spellings
FORM_TUPLES = [(0, 8, 1, 1), (0, 8, 1, 2), (0, 8, 2, 1), (-3, 8, 1, 2), (1000, 12, 3, 1), (0, 20, 1, 1), (2, 40, 2, 1)]   # (mu0, mu1-mu0, s0, s1), integer valued
FORM_MS = [2, 4, 256]
SCALAR_FORMS = ['int', 'np.float64', 'np.int64', 'np.int32', '0-d', '0-d int', 'np.float32']
RT_F32, AT_F32 = 1e-4, 1e-7      # float32 operands: 8 eps32 = 1e-6 on every level / sigma, amplified by z|dlnQ/dz| <= 100 for z <= 10 (the tuples have mu/s <= 20 only where BER < 1e-20: covered by AT)


def _cmp_forms(V, name, what, got, want, f32=False, soft=False):
    rt, at = (RT_F32, AT_F32) if f32 else (1e-12, 1e-300)
    if soft:
        at = max(at, 1e-12)
    if not close(np.asarray(got, dtype=float), np.asarray(want, dtype=float), rt, at):
        V(f'{name}:argument-form', f'{what}: {got!r}; with Python floats: {want!r}')


def _either(f, want, rt=1e-12, at=1e-300):
    """statement silent on this spelling: an exception is accepted, a returned value must be the right one.
    Returns None (fine), or the wrong value."""
    try:
        got = f()
    except Exception:
        return None, 1
    if isinstance(got, tuple) != isinstance(want, tuple):
        return got, 0
    gs, ws = (got, want) if isinstance(got, tuple) else ((got,), (want,))
    for g, w in zip(gs, ws):
        if not close(np.asarray(g, dtype=float), np.asarray(w, dtype=float), rt, at):
            return got, 0
    return None, 0


def forms_case(case):
    viol, obs, nlib, nrej = [], [], 0, 0
    from opticomlib import ook, ppm, utils as U

    def V(key, msg):
        viol.append((key, f'{case!r}: {msg}'))

    if case[0] == 'slot':
        _, mu0, d, s0, s1, M = case

        def calls(F, Mx):
            m0, m1, dd, a, b, A, B = F(mu0), F(mu0 + d), F(d), F(s0), F(s1), F(s0 * s0), F(s1 * s1)
            ey = _eye(m0, m1, a, b)
            return {
                'ook.theory_BER': lambda: ook.theory_BER(dd, a, b),
                'ppm.theory_BER:hard': lambda: ppm.theory_BER(dd, a, b, Mx, 'hard'),
                'ppm.theory_BER:soft': lambda: ppm.theory_BER(dd, a, b, Mx, 'soft'),
                'optimum_threshold:ook': lambda: U.optimum_threshold(m0, m1, A, B, 'ook'),
                'optimum_threshold:ppm': lambda: U.optimum_threshold(m0, m1, A, B, 'ppm', Mx),
                'ook.THRESHOLD_EST': lambda: ook.THRESHOLD_EST(ey),
                'ppm.THRESHOLD_EST': lambda: ppm.THRESHOLD_EST(ey, Mx),
                'ook.BER_analizer:estimator': lambda: ook.BER_analizer('estimator', eye_obj=ey),
                'ppm.BER_analizer:estimator:hard': lambda: ppm.BER_analizer('estimator', eye_obj=ey, M=Mx, decision='hard'),
                'ppm.BER_analizer:estimator:soft': lambda: ppm.BER_analizer('estimator', eye_obj=ey, M=Mx, decision='soft'),
            }

        def run(F, Mx):
            out = {}
            with np.errstate(all='ignore'):
                for k_, f in calls(F, Mx).items():
                    out[k_] = one_float(f())
            return out
        base = run(float, M); nlib += len(base)
        obs.append(tuple(v if v == v else 'nan' for v in base.values()))
        for form in SCALAR_FORMS:
            got = run(lambda v: as_form(v, form), M); nlib += len(got)
            for k_ in base:
                _cmp_forms(V, k_, f'arguments passed as {form}', got[k_], base[k_], f32=(form == 'np.float32'), soft='soft' in k_)
        for mt in ('np.int64', 'np.int32', 'np.int16', 'np.uint8' if M < 256 else 'np.uint16'):
            got = run(float, as_mform(M, mt)); nlib += len(got)
            for k_ in base:
                _cmp_forms(V, k_, f'M passed as {mt}({M})', got[k_], base[k_], soft='soft' in k_)
        # ---- vectors in every container / dtype
        mus = [1, 2, d // 2, d]
        fns = {'ook.theory_BER': lambda m_, a_, b_: ook.theory_BER(m_, a_, b_),
               'ppm.theory_BER:hard': lambda m_, a_, b_: ppm.theory_BER(m_, a_, b_, M, 'hard'),
               'ppm.theory_BER:soft': lambda m_, a_, b_: ppm.theory_BER(m_, a_, b_, M, 'soft')}
        conts = {'list of int': lambda: list(mus), 'tuple of int': lambda: tuple(mus), 'list of float': lambda: [float(m) for m in mus],
                 'int64 ndarray': lambda: np.array(mus, dtype=np.int64), 'int32 ndarray': lambda: np.array(mus, dtype=np.int32),
                 'uint8 ndarray': lambda: np.array(mus, dtype=np.uint8), 'float32 ndarray': lambda: np.array(mus, dtype=np.float32),
                 '(2,2) int64 ndarray': lambda: np.array(mus, dtype=np.int64).reshape(2, 2),
                 'read-only float ndarray': lambda: freeze_arr(np.array(mus, dtype=float))}
        for k_, f in fns.items():
            sc = [float(f(float(m), float(s0), float(s1))) for m in mus]; nlib += len(mus)
            for cn, mk in conts.items():
                for sform in ('int', 'float'):
                    x = mk()
                    r = np.asarray(f(x, as_form(s0, sform), as_form(s1, sform)), dtype=float); nlib += 1
                    if r.shape != np.shape(x) or not close(r.ravel(), sc, 1e-12, 1e-12 if 'soft' in k_ else 1e-300):
                        V(f'{k_}:argument-form', f'mu as {cn} {x!r}, sigmas as {sform}: {r!r}; scalar float calls {sc!r}')
            # sigma arrays of integer dtype alongside
            r = np.asarray(f(np.array(mus), np.full(4, s0, dtype=np.int64), np.full(4, s1, dtype=np.int32)), dtype=float); nlib += 1
            if r.shape != (4,) or not close(r, sc, 1e-12, 1e-12 if 'soft' in k_ else 1e-300):
                V(f'{k_}:argument-form', f'mu float array, s0 int64 array, s1 int32 array: {r!r}; scalar float calls {sc!r}')
        # ---- documented defaults and keyword forms
        fd, fa, fb = float(d), float(s0), float(s1)
        ey = _eye(float(mu0), float(mu0 + d), fa, fb)
        chk = [('ppm.theory_BER:soft', 'decision omitted (documented default soft)', lambda: ppm.theory_BER(fd, fa, fb, M)),
               ('ppm.theory_BER:soft', 'all arguments by keyword', lambda: ppm.theory_BER(decision='soft', M=M, s1=fb, s0=fa, mu1=fd)),
               ('ppm.theory_BER:hard', 'all arguments by keyword', lambda: ppm.theory_BER(decision='hard', M=M, s1=fb, s0=fa, mu1=fd)),
               ('ook.theory_BER', 'all arguments by keyword', lambda: ook.theory_BER(s1=fb, s0=fa, mu1=fd)),
               ('ppm.BER_analizer:estimator:soft', 'decision omitted (documented default soft)', lambda: ppm.BER_analizer('estimator', eye_obj=ey, M=M)),
               ('ppm.THRESHOLD_EST', 'arguments by keyword', lambda: ppm.THRESHOLD_EST(M=M, eye_obj=ey)),
               ('ook.THRESHOLD_EST', 'argument by keyword', lambda: ook.THRESHOLD_EST(eye_obj=ey)),
               ('optimum_threshold:ppm', 'arguments by keyword', lambda: U.optimum_threshold(M=M, modulation='ppm', S1=fb * fb, S0=fa * fa, mu1=float(mu0 + d), mu0=float(mu0))),
               ('optimum_threshold:ook', 'M omitted / None for ook', lambda: U.optimum_threshold(float(mu0), float(mu0 + d), fa * fa, fb * fb, 'ook', None))]
        with np.errstate(all='ignore'):
            for k_, what, f in chk:
                _cmp_forms(V, k_, what, one_float(f()), base[k_], soft='soft' in k_); nlib += 1
            # ---- other spellings (not documented: either rejected or the same value)
            sp = [('ppm.theory_BER:hard', "decision='HARD'", lambda: ppm.theory_BER(fd, fa, fb, M, 'HARD')),
                  ('ppm.theory_BER:soft', "decision='Soft'", lambda: ppm.theory_BER(fd, fa, fb, M, 'Soft')),
                  ('ppm.BER_analizer:estimator:hard', "decision='HARD'", lambda: ppm.BER_analizer('estimator', eye_obj=ey, M=M, decision='HARD')),
                  ('ppm.BER_analizer:estimator:soft', "decision='Soft'", lambda: ppm.BER_analizer('estimator', eye_obj=ey, M=M, decision='Soft')),
                  ('ppm.BER_analizer:estimator:hard', "mode='ESTIMATOR'", lambda: ppm.BER_analizer('ESTIMATOR', eye_obj=ey, M=M, decision='hard')),
                  ('ook.BER_analizer:estimator', "mode='ESTIMATOR'", lambda: ook.BER_analizer('ESTIMATOR', eye_obj=ey)),
                  ('optimum_threshold:ook', "modulation='OOK'", lambda: U.optimum_threshold(float(mu0), float(mu0 + d), fa * fa, fb * fb, 'OOK')),
                  ('optimum_threshold:ppm', "modulation='PPM'", lambda: U.optimum_threshold(float(mu0), float(mu0 + d), fa * fa, fb * fb, 'PPM', M))]
            for k_, what, f in sp:
                bad, rej = _either(f, base[k_], 1e-12, 1e-12 if 'soft' in k_ else 1e-300); nlib += 1; nrej += rej
                if bad is not None:
                    V(f'{k_}:spelling', f'{what} is accepted but gives {bad!r}; {base[k_]!r} with the documented spelling')
        return res(viol=viol, obs=tuple(obs), nontrivial=informative([base['ook.theory_BER'], base['ppm.theory_BER:hard']]) and case,
                   stats={'lib_calls': nlib, 'undocumented_spellings_rejected': nrej})

    # ---- receiver functions: case = ('rx', amplified?, index into MODS)
    _, amp, mi = case
    kind, M, dec = MODS[mi]
    Mm = 2 if kind == 'ook' else M
    val = dict(P_avg=-25.0, ER=10.0, wavelength=1550e-9, G=20.0 if amp else None, NF=5.0 if amp else None, BW_opt=20e9 if amp else None,
               r=0.5, BW_el=5e9, R_L=50.0, T=300.0, NF_el=3.0)
    f0 = C0 / val['wavelength']

    def helper(fn, F=float, **over):
        v = {k_: (F(x) if (k_ != 'wavelength' and x is not None) else x) for k_, x in val.items()}
        v.update(modulation=kind, M=M, amplify=amp); v.update(over)
        return getattr(U, fn)(*[v[a] for a in HELPER_ARGS[fn]])

    def tber(F=float, **over):
        v = {k_: (F(x) if x is not None else x) for k_, x in val.items() if k_ not in ('wavelength', 'P_avg')}
        v.update(amplify=amp, f0=f0); v.update(over)
        return U.theory_BER(F(val['P_avg']), kind, M, dec, **v)

    def flat(x):
        return np.concatenate([np.ravel(np.asarray(y, dtype=float)) for y in (x if isinstance(x, tuple) else (x,))])
    ref = rx_model(val['P_avg'], Mm, val['ER'], amp, val['wavelength'], val['G'], val['NF'], val['BW_opt'], val['r'], val['BW_el'], val['R_L'], val['T'], val['NF_el'])
    base = {fn: flat(helper(fn)) for fn in HELPER_ARGS}; nlib += 3
    base['theory_BER'] = flat(tber()); nlib += 1
    soft = (kind == 'ppm' and dec == 'soft')
    if not soft:
        base['theory_BER:threshold'] = flat(tber(threshold=0.25)); nlib += 1
    obs.append(tuple(fl(v) for v in base.values()))
    if not (close(base['p_ase'], [ref['pase']], RT_MODEL) and close(base['average_voltages'], list(ref['mu']) + [ref['mu_ase']], RT_MODEL) and close(base['noise_variances'], ref['S'], RT_MODEL)):
        V('forms:baseline-model-value', f'helpers give {base!r}, model {ref!r}')
    # float32 operands (every value of this point is exactly representable): the result of a float32-accurate evaluation
    F32 = lambda v: as_form(v, 'np.float32')
    for fn in HELPER_ARGS:
        g = flat(helper(fn, F32)); nlib += 1
        if not close(g, base[fn], RT_F32, 0.0):
            V(f'{fn}:argument-form', f'arguments passed as np.float32: {g!r}; with Python floats: {base[fn]!r}')
    g = flat(tber(F32)); nlib += 1
    # BER: relative error of the variances/levels (<= 1e-6) amplified by z^2 (z = d/2s <= 8 at this point: BER >= 1e-15 for OOK / hard)
    if not close(g, base['theory_BER'], 1e-3, AT_SOFT if soft else 1e-18):
        V('utils.theory_BER:argument-form', f'arguments passed as np.float32: {g!r}; with Python floats: {base["theory_BER"]!r}')
    # ---- keyword form of the helpers / positional form of theory_BER
    kwv = dict(modulation=kind, M=M, amplify=amp, **val)
    for fn, args in HELPER_ARGS.items():
        g = flat(getattr(U, fn)(**{a: kwv[a] for a in reversed(args)})); nlib += 1
        if not close(g, base[fn], 1e-15, 0.0):
            V(f'{fn}:argument-form', f'arguments by keyword: {g!r}; by position: {base[fn]!r}')
    g = flat(U.theory_BER(val['P_avg'], kind, M, dec, None, val['ER'], amp, f0, val['G'], val['NF'], val['BW_opt'], val['r'], val['BW_el'], val['R_L'], val['T'], val['NF_el'])); nlib += 1
    if not close(g, base['theory_BER'], 1e-15, 0.0):
        V('utils.theory_BER:argument-form', f'all arguments by position (documented order): {g!r}; by keyword: {base["theory_BER"]!r}')
    if not soft:
        g = flat(U.theory_BER(val['P_avg'], kind, M, dec, 0.25, val['ER'], amp, f0, val['G'], val['NF'], val['BW_opt'], val['r'], val['BW_el'], val['R_L'], val['T'], val['NF_el'])); nlib += 1
        if not close(g, base['theory_BER:threshold'], 1e-15, 0.0):
            V('utils.theory_BER:argument-form', f'all arguments by position, threshold=0.25: {g!r}; by keyword: {base["theory_BER:threshold"]!r}')
    # ---- documented defaults: leaving an argument out == passing the documented default value
    edfa = dict(G=val['G'], NF=val['NF'], BW_opt=val['BW_opt'])
    P = val['P_avg']
    dflt = [('p_ase', 'amplify, wavelength omitted' if amp else 'wavelength, G, NF, BW_opt omitted',
             (lambda: U.p_ase(**edfa)) if amp else (lambda: U.p_ase(False)),
             (lambda: U.p_ase(True, 1550e-9, **edfa)) if amp else (lambda: U.p_ase(False, 1550e-9, None, None, None))),
            ('average_voltages', 'M (ook), ER, wavelength, r, R_L omitted' + (', amplify omitted' if amp else ''),
             (lambda: U.average_voltages(P, kind, **edfa)) if (amp and kind == 'ook') else (lambda: U.average_voltages(P, kind, M, amplify=amp, **edfa)),
             lambda: U.average_voltages(P, kind, M, np.inf, amp, 1550e-9, val['G'], val['NF'], val['BW_opt'], 1.0, 50)),
            ('noise_variances', 'ER, wavelength, r, BW_el, R_L, T, NF_el omitted',
             lambda: U.noise_variances(P, kind, M, amplify=amp, **edfa),
             lambda: U.noise_variances(P, kind, M, np.inf, amp, 1550e-9, val['G'], val['NF'], val['BW_opt'], 1.0, 5e9, 50, 300, 0)),
            ('utils.theory_BER', 'threshold, ER, f0, r, BW_el, R_L, T, NF_el omitted' + ('' if amp else ', amplify, G, NF, BW_opt omitted'),
             (lambda: U.theory_BER(P, kind, M, dec, amplify=True, **edfa)) if amp else (lambda: U.theory_BER(P, kind, M, dec)),
             lambda: U.theory_BER(P, kind, M, dec, None, np.inf, amp, 193.4145e12, val['G'], val['NF'], val['BW_opt'], 1.0, 5e9, 50, 300, 0))]
    for fn, what, f_short, f_full in dflt:
        a, b = flat(f_short()), flat(f_full()); nlib += 2
        if not close(a, b, 1e-15, 0.0):
            V(f'{fn}:documented-default', f'{what}: {a!r}; documented defaults passed explicitly: {b!r}')
        obs.append(fl(a))
    # ---- spellings (letter case is not documented: either rejected or the same value)
    for what, f, want in [("modulation upper case", lambda: helper('average_voltages', modulation=kind.upper()), tuple(helper('average_voltages'))),
                          ("modulation upper case", lambda: helper('noise_variances', modulation=kind.upper()), helper('noise_variances')),
                          ("modulation upper case", lambda: U.theory_BER(P, kind.upper(), M, dec, amplify=amp, f0=f0, **edfa), U.theory_BER(P, kind, M, dec, amplify=amp, f0=f0, **edfa)),
                          ("modulation capitalised", lambda: U.theory_BER(P, kind.capitalize(), M, dec, amplify=amp, f0=f0, **edfa), U.theory_BER(P, kind, M, dec, amplify=amp, f0=f0, **edfa)),
                          ("decision upper case", lambda: U.theory_BER(P, kind, M, dec.upper() if dec else dec, amplify=amp, f0=f0, **edfa), U.theory_BER(P, kind, M, dec, amplify=amp, f0=f0, **edfa))]:
        bad, rej = _either(f, want, 1e-12, 1e-12 if soft else 1e-300); nlib += 2; nrej += rej
        if bad is not None:
            V('receiver:spelling', f'{what} is accepted but gives {bad!r}; {want!r} with the documented spelling')
    return res(viol=viol, obs=tuple(obs), nontrivial=informative(base['theory_BER']) and case,
               stats={'lib_calls': nlib, 'undocumented_spellings_rejected': nrej})


def one_float(x):
    """the single number a scalar call returns (nan when the library returns something else)"""
    a = np.asarray(x, dtype=float)
    return float(a.ravel()[0]) if a.size == 1 else math.nan


def freeze_arr(a):
    a.flags.writeable = False
    return a


def forms_cases():
    out = [('slot', mu0, d, s0, s1, M) for M in FORM_MS for (mu0, d, s0, s1) in FORM_TUPLES]
    out += [('rx', amp, mi) for amp in (False, True) for mi in range(len(MODS))]
    return out


# ---------------------------------------------------------------------------------------------------------
# part 0: minimal inputs of the defects known from DESIGN section 8 (#8-#12), replayed first
def regress_case(case):
    name = case[0]
    from opticomlib import utils as U
    viol, obs = [], None
    if name == 'avgV-unamplified-defaults':
        ref = rx_model(-25.0, 2, math.inf, False, 1550e-9, None, None, None, 1.0, 5e9, 50.0, 300.0, 0.0)
        try:
            mu, mua = U.average_voltages(-25, 'ook', amplify=False)
            obs = fl(mu) + fl(mua)
            if not (close(mu, ref['mu'], RT_MODEL) and close(mua, 0.0, 0, 0)):
                viol.append(('average_voltages:value', f'{mu!r},{mua!r} reference {ref["mu"]!r}, 0'))
        except TypeError as ex:
            obs = ('TypeError', str(ex))
            viol.append(('unamplified-default-args:TypeError:average_voltages', f"average_voltages(-25, 'ook', amplify=False) raises TypeError: {ex}"))
    elif name == 'nv-unamplified-BW_opt-default':
        ref = rx_model(-25.0, 2, math.inf, False, 1550e-9, None, None, None, 1.0, 5e9, 50.0, 300.0, 0.0)
        try:
            S = U.noise_variances(-25, 'ook', amplify=False, G=0)
            obs = fl(S)
            if not close(S, ref['S'], RT_MODEL):
                viol.append(('noise_variances:value', f'{S!r} reference {ref["S"]!r}'))
        except TypeError as ex:
            obs = ('TypeError', str(ex))
            viol.append(('unamplified-default-args:TypeError:noise_variances', f"noise_variances(-25, 'ook', amplify=False, G=0) (BW_opt left at None) raises TypeError: {ex}"))
    elif name == 'nv-NF_el':
        ref = rx_model(-25.0, 2, math.inf, False, 1550e-9, 0.0, 3.0, 20e9, 1.0, 5e9, 50.0, 300.0, 3.0)
        S = np.asarray(U.noise_variances(-25, 'ook', amplify=False, G=0, NF=3, BW_opt=20e9, NF_el=3), dtype=float)
        obs = fl(S)
        if not close(S, ref['S'], RT_MODEL):
            alt = rx_model(-25.0, 2, math.inf, False, 1550e-9, 0.0, 3.0, 20e9, 1.0, 5e9, 50.0, 300.0, 3.0, nf_all=True)
            key = 'noise_variances:NF_el-applied-to-all-terms' if close(S, alt['S'], RT_MODEL) else 'noise_variances:value'
            viol.append((key, f"noise_variances(-25,'ook',amplify=False,G=0,NF=3,BW_opt=20e9,NF_el=3) = {S!r}; thermal*Fn + shot = {ref['S']!r}; (thermal+shot)*Fn = {alt['S']!r}"))
    elif name == 'opt-thr-equal-variances':
        try:
            t = float(U.optimum_threshold(0.0, 1.0, 0.01, 0.01, 'ook'))
            obs = t if t == t else 'nan'
            if not (abs(t - 0.5) <= 1e-9):
                viol.append(('optimum_threshold:equal-variances', f"optimum_threshold(0,1,0.01,0.01,'ook') = {t!r}, midpoint 0.5 expected"))
        except ArithmeticError as ex:
            obs = (type(ex).__name__, str(ex))
            viol.append(('optimum_threshold:equal-variances', f"optimum_threshold(0,1,0.01,0.01,'ook') raises {type(ex).__name__}: {ex}; midpoint 0.5 expected"))
    elif name == 'tb-shot-R_L':
        kw = dict(modulation='ook', f0=C0 / 1550e-9)
        v = float(U.theory_BER(-25.0, **kw))
        obs = v
        ref = rx_model(-25.0, 2, math.inf, False, 1550e-9, None, None, None, 1.0, 5e9, 50.0, 300.0, 0.0)
        tm, gm, _ = _ber_refs('ook', None, None, ref['mu'], ref['S'])
        if not _in_band(v, tm, gm, RT_RX, 0.0):
            alt = rx_model(-25.0, 2, math.inf, False, 1550e-9, None, None, None, 1.0, 5e9, 50.0, 300.0, 0.0, shot_RL=False)
            tma, gma, _ = _ber_refs('ook', None, None, alt['mu'], alt['S'])
            key = 'utils.theory_BER:shot-variance-lacks-R_L' if _in_band(v, tma, gma, RT_RX, 0.0) else 'utils.theory_BER:outside-band'
            viol.append((key, f"theory_BER(-25,'ook') (R_L=50) = {v!r}; band of the model [{tm!r}, {gm!r}]; band with shot=2*e*mu*B [{tma!r}, {gma!r}]"))
    elif name == 'tb-nan-zero-variance':
        v = float(U.theory_BER(-25.0, 'ook', T=0, f0=C0 / 1550e-9))
        obs = v if v == v else 'nan'
        if not np.isfinite(v):
            viol.append(('utils.theory_BER:nan:zero-OFF-variance', f"theory_BER(-25,'ook',T=0) (ER=inf, unamplified: OFF-slot variance exactly 0) = {v!r}"))
    return res(viol=viol, obs=(name, obs), nontrivial=True)


REGRESS = [('avgV-unamplified-defaults',), ('nv-unamplified-BW_opt-default',), ('nv-NF_el',), ('opt-thr-equal-variances',),
           ('tb-shot-R_L',), ('tb-nan-zero-variance',)]


# ---------------------------------------------------------------------------------------------------------
# ------------------------------------------------------------------ ambient-grid independence (added by the coordinator)
AMBIENT = [dict(), dict(sps=16, R=10e9, wavelength=1310e-9), dict(sps=8, R=2.5e9, wavelength=850e-9), dict(sps=4, R=40e9),
           dict(sps=8, fs=33.3e9, wavelength=1310e-9), dict(R=1.25e9, fs=20e9), dict(fs=37e9), dict(sps=16, R=10e9, N=1024, wavelength=1600e-9)]


def ambient_case(case):
    """The formulas of C13 are functions of their arguments only: nothing in their signature refers to the global grid.
    case = (name of the call, arguments).  The same call with the same (default) carrier arguments is evaluated after the
    global grid `gv` has been configured in several ways (other wavelength / rates); every result must be bit-identical to
    the one obtained under the pristine grid, and the receiver-model helpers called with their documented default
    wavelength must describe the same receiver as utils.theory_BER called with its default f0."""
    name, P, kind, M, dec, amp = case
    from opticomlib import utils as U, ook as OOK, ppm as PPM
    kw = dict(G=20.0, NF=5.0, BW_opt=20e9) if amp else {}
    calls = {
        'p_ase': lambda: U.p_ase(amp, **kw),
        'average_voltages': lambda: U.average_voltages(P, kind, M, amplify=amp, **kw),
        'noise_variances': lambda: U.noise_variances(P, kind, M, amplify=amp, **(kw if amp else dict(G=0.0, NF=0.0, BW_opt=20e9))),
        'theory_BER': lambda: U.theory_BER(P, kind, M, dec, amplify=amp, **kw),
        'ook.theory_BER': lambda: OOK.theory_BER(np.array([1.0, 2.0]), 0.1, 0.2),
        'ppm.theory_BER': lambda: PPM.theory_BER(np.array([1.0, 2.0]), 0.2, 0.3, M or 4, dec or 'hard'),
        'optimum_threshold': lambda: U.optimum_threshold(0.1, 1.1, 0.01, 0.04, kind, M),
        'ook.THRESHOLD_EST': lambda: OOK.THRESHOLD_EST(_eye(0.1, 1.1, 0.1, 0.2)),
        'ppm.THRESHOLD_EST': lambda: PPM.THRESHOLD_EST(_eye(0.1, 1.1, 0.1, 0.2), M or 4),
        'ook.BER_analizer': lambda: OOK.BER_analizer('estimator', eye_obj=_eye(0.1, 1.1, 0.1, 0.2)),
        'ppm.BER_analizer': lambda: PPM.BER_analizer('estimator', eye_obj=_eye(0.1, 1.1, 0.1, 0.2), M=M or 4, decision=dec or 'hard'),
    }
    f = calls[name]
    viol, outs = [], []
    for g in AMBIENT:
        gv_reset(**g)
        r = f()
        outs.append(repr(np.asarray(r[0] if isinstance(r, tuple) else r, dtype=float).tolist()) + (repr(r[1]) if isinstance(r, tuple) else ''))
    gv_reset()
    if len(set(outs)) > 1:
        j = next(i for i, o in enumerate(outs) if o != outs[0])
        viol.append((f'ambient-gv-dependence:{name}', f'{name}{case[1:]} returns {outs[0][:80]} under the pristine grid but {outs[j][:80]} after gv(**{AMBIENT[j]}): '
                     f'the receiver model depends on hidden global state'))
    return res(viol=viol, obs=tuple(outs), nontrivial=(name, amp, kind, M, dec), stats={'calls.lib': len(AMBIENT)})


def ambient_cases():
    out = []
    for amp in (True, False):
        for kind, M, dec in MODS:
            for P in (-40.0, -25.0):
                for name in ('p_ase', 'average_voltages', 'noise_variances', 'theory_BER'):
                    out.append((name, P, kind, M, dec, amp))
    for name in ('ook.theory_BER', 'ppm.theory_BER', 'optimum_threshold', 'ook.THRESHOLD_EST', 'ppm.THRESHOLD_EST', 'ook.BER_analizer', 'ppm.BER_analizer'):
        out.append((name, -25.0, 'ppm', 4, 'hard', False))
        out.append((name, -25.0, 'ppm', 16, 'soft', False))
        out.append((name, -25.0, 'ook', None, None, False))
    return out


def run(ctx):
    tier = ctx.tier
    sg_, lad = sigmas(tier), ladder(tier)
    k = 3 if ctx.quick else 4
    ncs = near_cases(tier)
    near_txt = ("variances / sigmas equal UP TO ROUNDING: (x, y) and (y, x) for y in " + str([n for n, _ in near_perts(tier)]) +
                f" at {len({(c[4], c[5]) for c in ncs if c[4] != 'print-same'})} (sigma, scale) bases and the pairs " + str([(a_, b_) for a_, _, b_, _ in PRINT_SAME]) +
                f" x [OOK | PPM M in {sorted({c[3] for c in ncs})}] x the mu ladder x offsets {NEAR_OFFSETS} for utils.optimum_threshold "
                "(conditioning-derived tolerance) and, on a slice, for THRESHOLD_EST and the estimator BERs")
    ctx.rule(f'C13: (0) minimal inputs of DESIGN 8 #8-#12; (1) full product s0,s1 in {sg_} x mu/max(s0,s1) in {lad} x '
             f'[OOK | PPM M in {MS} x (hard, soft)] for ook/ppm.theory_BER incl. vector calls; (2) the same product x offsets mu0 in {OFFSETS} '
             f'for THRESHOLD_EST, BER_analizer("estimator") and utils.optimum_threshold, and at the offsets {extras_offsets(tier)} x eye objects that carry '
             f'additional attributes {EXTRAS} (same results as the bare object), + {len(MEASURED)} eye objects measured by devices.GET_EYE x M in {MEASURED_MS}, + {near_txt}; (3) receiver model: every point within {k} deviations of two '
             f'baselines (unamplified / amplified G=20 dB, NF=5 dB) over the axes {{{", ".join(f"{a}:{len(v)}" for a, v in AXES.items())}}} with the full '
             f'P_avg ladder {P_LADDER} at each point, fixed thresholds {THRESHOLDS}, and the helper results chained into the slot-level formulas; '
             f'(4) PD / EDFA noise scales captured from the scripted RNG over a full product of r, R_L, T, Fn, P_avg, ER, BW; '
             f'(1,2) also at the common scales {scales(tier)} on a slice of the product; (5) utils.theory_BER vectorised over each of {VEC_PARAMS} at every point within '
             f'{1 if ctx.quick else 2} deviation(s); (6) type forms {SCALAR_FORMS}, containers, documented defaults, keyword/positional forms and spellings on '
             f'{len(FORM_TUPLES)} integer-valued (mu0, d, s0, s1) x M in {FORM_MS} and on 2 x {len(MODS)} receiver points; (7) ambient grid: {len(AMBIENT)} gv configurations')
    ctx.assume('scipy.special.erfc/log_ndtr, scipy.integrate.quad (reference, epsrel 1e-10) and scipy.constants are correct; numpy.random.normal(0, s) has variance s^2 '
               '(only the requested scale is observed); the continuum quantifiers are covered at the listed grid points only')
    for c in REGRESS:
        ctx.run_case('regress', regress_case, c)
    ctx.space('regress', len(REGRESS))

    fcases = formula_cases(tier)
    import time
    t0 = time.time()
    ctx.pmap('formulas', formulas_case, fcases, horizon=120)
    t1 = time.time()
    ctx.pmap('estimators', estimators_case, fcases, horizon=240)
    ctx.pmap('estimators', measured_eye_case, [(i,) for i in range(len(MEASURED))], horizon=120)
    ctx.pmap('estimators', near_equal_case, near_cases(tier), horizon=240)
    t2 = time.time()
    pts = rx_points(k)
    ctx.extra['receiver_lattice'] = {'k': k, 'points': len(pts), 'baselines': 2, 'P_avg_ladder': len(P_LADDER)}
    ctx.pmap('receiver', receiver_case, pts, horizon=120)
    t3 = time.time()
    ctx.pmap('devices', devices_case, devices_cases(tier), horizon=60)
    t4 = time.time()
    ctx.pmap('receiver-vectors', rxvec_case, rxvec_cases(tier), horizon=120)
    ctx.pmap('forms', forms_case, forms_cases(), horizon=120)
    ctx.pmap('ambient-gv', ambient_case, ambient_cases(), horizon=120)
    t5 = time.time()
    print(f'[C13] wall per part: formulas {t1-t0:.1f}s estimators {t2-t1:.1f}s receiver {t3-t2:.1f}s devices {t4-t3:.1f}s vectors+forms+ambient {t5-t4:.1f}s', flush=True)
