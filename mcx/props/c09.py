"""C09 - PD is a square-law detector with unit DC gain and the documented noise powers.

Technique: deviation lattice over the parameter vector x scripted-RNG environment.  Every
point of the lattice is executed on the real `opticomlib.devices.PD` for every include_noise
selection, letter case and every answer the scripted `numpy.random.normal` can give from the
answer alphabet; the reference model recomputes the photocurrent terms from the input arrays
and filters them with an own zero-phase Bessel reference.

Parts
  main  : (lattice point, selection, letter case) -> all RNG answer combinations
  inv   : (lattice point) -> invariance group elements + scaling laws, all 7 selections
  exc   : documented exceptions over the k<=1 lattice
  conf  : real-RNG conformance (2^18-sample CW records, 3 seeds, six-sigma bands)
"""
from __future__ import annotations
import functools
import hashlib
import itertools
import math

import numpy as np
import scipy.signal as sg

from mcx.core.kernel import res
from mcx.core.env import gv_reset, ScriptedRNG, scripted_rng

ID = 'C09'
LEVEL = 'exploration'
NONTRIVIAL = ('the noise part is more than the filtered dark-current constant: at least one RNG request is made '
              'or non-zero beating terms are selected (distinct observations counted); for inv/conf parts every '
              'case with a non-zero field')

# exact SI values (2019 redefinition) - deliberately not imported from the library
KB = 1.380649e-23
QE = 1.602176634e-19
EPS = float(np.finfo(float).eps)

# --- tolerances (see notes/C09.md for the derivations)
TOL_F = 2.0 ** 24 * EPS      # arrays that went through the order-4 zero-phase IIR filter: a-priori rounding bound of the
                             # sos recursion at BW=0.49 fs is 6.6e6 eps per evaluation (notes/C09.md), two evaluations are compared
TOL_S = 256 * EPS            # scalar RNG scales/variances (<= 10 multiplications + a pairwise mean over <= 2^18 samples)
TOL_CW = 1e-12               # CW -> constant r*P*R_load (stated in DESIGN 5/C09)

SELECTIONS = ['ase-only', 'thermal-only', 'shot-only', 'ase-thermal', 'ase-shot', 'thermal-shot', 'all']
SEL_TABLE = {  # selection -> (beating terms?, thermal?, shot?)
    'ase-only': (True, False, False), 'thermal-only': (False, True, False), 'shot-only': (False, False, True),
    'ase-thermal': (True, True, False), 'ase-shot': (True, False, True), 'thermal-shot': (False, True, True),
    'all': (True, True, True)}
LETTER_CASES = ['lower', 'UPPER', 'MiXed']

# --- alphabets; first entry = baseline (simplest), then the deviations
AXES = [
    ('N', [32, 17, 100, 257]),
    ('kind', ['cw', 'tones', 'rand', 'zero']),
    ('layout', ['x', 'xy', 'xx', 'x0', '1xN']),
    ('onoise', ['none', 'small', 'large', 'zeros']),
    ('r', [1.0, 0.5, 0.01]),
    ('T', [300.0, 0.0, 77.0]),
    ('R_load', [50.0, 1.0, 1e4]),
    ('BW', [0.3, 0.05, 0.49]),          # fraction of fs
    ('i_dark', [10e-9, 0.0, 1e-6]),
    ('Fn', [0, 3, 10]),                 # dB
    ('fs', [16e9, 80e9, 2e9]),
]
AXN = [a for a, _ in AXES]
RICH = {'N': 100, 'kind': 'rand', 'layout': 'xy', 'onoise': 'small', 'r': 0.5, 'T': 77.0, 'R_load': 1e4,
        'BW': 0.05, 'i_dark': 1e-6, 'Fn': 3, 'fs': 80e9}
P_CW = 1e-3   # W

ANSWERS = ['zero', 'ones', 'alt', 'impulse']


def letter_case(name, lc):
    if lc == 'lower':
        return name.lower()
    if lc == 'UPPER':
        return name.upper()
    return ''.join(c.upper() if i % 2 else c.lower() for i, c in enumerate(name))


# ------------------------------------------------------------------ spaces
def deviations(centre, k):
    """all points that differ from `centre` (dict axis->value) in at most k axes; ordered by number of
    deviations, then by axis order / value order (simplest first)"""
    pts = []
    for m in range(k + 1):
        for axes in itertools.combinations(range(len(AXES)), m):
            alts = [[v for v in AXES[i][1] if v != centre[AXES[i][0]]] for i in axes]
            for vals in itertools.product(*alts):
                p = dict(centre)
                for i, v in zip(axes, vals):
                    p[AXES[i][0]] = v
                pts.append(tuple(p[a] for a in AXN))
    return pts


def lattice(k_simple, k_rich):
    simple = {a: v[0] for a, v in AXES}
    seen, out = set(), []
    for p in deviations(simple, k_simple) + deviations(RICH, k_rich):
        if p not in seen:
            seen.add(p)
            out.append(p)
    return out


# ------------------------------------------------------------------ inputs
def _rs(seed, *tag):
    h = hashlib.sha256(repr((seed,) + tag).encode()).digest()
    return np.random.RandomState(int.from_bytes(h[:4], 'little'))


def field_rows(kind, N, seed):
    """x and y rows of the field (complex128)"""
    n = np.arange(N)
    a = math.sqrt(P_CW)
    if kind == 'cw':
        x = np.full(N, a * np.exp(0.3j))
        y = np.full(N, 0.5 * a * np.exp(-1.1j))
    elif kind == 'tones':
        x = a / 1.6 * (np.exp(2j * np.pi * 3 * n / N) + 0.6 * np.exp(-2j * np.pi * 5 * n / N + 0.4j))
        y = a / 1.6 * (0.5 * np.exp(2j * np.pi * 2 * n / N) + 0.3j)
    elif kind == 'rand':
        g = _rs(seed, 'sig', N).randn(4, N)
        x = a * math.sqrt(0.5) * (g[0] + 1j * g[1])
        y = a * math.sqrt(0.5) * (g[2] + 1j * g[3])
    elif kind == 'zero':
        x = np.zeros(N, complex)
        y = np.zeros(N, complex)
    else:
        raise KeyError(kind)
    return x.astype(complex), y.astype(complex)


def noise_rows(onoise, N, seed):
    if onoise == 'none':
        return None
    if onoise == 'zeros':
        return np.zeros(N, complex), np.zeros(N, complex)
    amp = {'small': 0.05, 'large': 1.0}[onoise] * math.sqrt(P_CW)
    g = _rs(seed, 'noise', N, onoise).randn(4, N)
    return amp * math.sqrt(0.5) * (g[0] + 1j * g[1]), amp * math.sqrt(0.5) * (g[2] + 1j * g[3])


def lay(rows, layout):
    """arrange (x, y) rows into the constructor argument; returns (array, n_pol argument)"""
    x, y = rows
    if layout == 'x':
        return x.copy(), None
    if layout == 'xy':
        return np.array([x, y]), None
    if layout == 'xx':
        return x.copy(), 2
    if layout == 'x0':
        return np.array([x, np.zeros_like(x)]), None
    if layout == '1xN':
        return x[np.newaxis, :].copy(), None
    raise KeyError(layout)


def build_arrays(pt, seed):
    """constructor arguments of the optical field for lattice point `pt`"""
    p = dict(zip(AXN, pt))
    sig, n_pol = lay(field_rows(p['kind'], p['N'], seed), p['layout'])
    nz = noise_rows(p['onoise'], p['N'], seed)
    noi = None if nz is None else lay(nz, p['layout'])[0]
    return sig, noi, n_pol


def make_input(sig, noi, n_pol):
    from opticomlib.typing import optical_signal
    if n_pol is None:
        return optical_signal(sig.copy(), None if noi is None else noi.copy())
    return optical_signal(sig.copy(), None if noi is None else noi.copy(), n_pol=n_pol)


def set_grid(fs):
    gv = gv_reset(sps=16, R=fs / 16)
    return float(gv.fs)


# ------------------------------------------------------------------ reference model
@functools.lru_cache(maxsize=256)
def _ref_sos(BW, fs):
    return sg.bessel(4, BW, btype='low', analog=False, output='sos', norm='mag', fs=fs)


def lpf_ref(x, BW, fs):
    """own reference: order-4 Bessel ('mag' normalisation, -3 dB at BW per pass), forward-backward"""
    return sg.sosfiltfilt(_ref_sos(float(BW), float(fs)), np.asarray(x, dtype=float))


def terms(inp):
    """photocurrent ingredients recomputed from the arrays PD receives.
    returns P_sig[n], beat[n] (sig-noise + noise-noise, per unit responsivity), mean sig power, mean noise power,
    magnitude scale of the beating terms (for rounding bounds)"""
    S = np.atleast_2d(np.asarray(inp.signal, dtype=complex))
    psig = (S.real ** 2 + S.imag ** 2).sum(axis=0)
    if inp.noise is None:
        z = np.zeros(S.shape[1])
        return psig, z, float(psig.mean()), 0.0, 0.0
    Z = np.atleast_2d(np.asarray(inp.noise, dtype=complex))
    pn = (Z.real ** 2 + Z.imag ** 2).sum(axis=0)
    beat = 2 * (S.real * Z.real + S.imag * Z.imag).sum(axis=0) + pn
    mag = float((2 * np.sqrt(psig * pn) + pn).max())
    return psig, beat, float(psig.mean()), float(pn.mean()), mag


def variances(p, fs, psig_mean, pn_mean):
    """documented variances in A^2, B = fs/2"""
    B = fs / 2
    s_t = 4 * KB * p['T'] * 10 ** (p['Fn'] / 10) * B / p['R_load']
    s_n = 2 * QE * (p['r'] * (psig_mean + pn_mean) + p['i_dark']) * B
    return s_t, s_n


def pattern(aid, n):
    if aid == 0:
        return np.zeros(n)
    if aid == 1:
        return np.ones(n)
    if aid == 2:
        return np.where(np.arange(n) % 2 == 0, 1.0, -1.0)
    e = np.zeros(n)
    e[n // 2] = 1.0
    return e


def _size_n(size):
    if isinstance(size, (tuple, list)):
        return int(np.prod(size))
    return int(size)


def make_script(combo):
    """scripted RNG answering the i-th request with pattern combo[i] (zero beyond)"""
    script = ScriptedRNG()

    def answer(kind, info):
        i = len(script.requests) - 1
        aid = combo[i] if i < len(combo) else 0
        if aid == 0 or kind not in ('normal', 'randn'):
            return None
        return pattern(aid, _size_n(info['size']))
    script.answer = answer
    return script


def _from_library(exc):
    """True when the exception was raised inside opticomlib (not in harness code)"""
    tb = exc.__traceback__
    while tb is not None:
        if '/opticomlib/' in tb.tb_frame.f_code.co_filename:
            return True
        tb = tb.tb_next
    return False


def call_pd(inp, p, fs, include_noise):
    from opticomlib.devices import PD
    return PD(inp, p['BW'] * fs, r=p['r'], T=p['T'], R_load=p['R_load'], include_noise=include_noise,
              i_dark=p['i_dark'], Fn=p['Fn'])


def shape_check(out, N, viol, where):
    from opticomlib.typing import electrical_signal
    ok = True
    if not isinstance(out, electrical_signal):
        viol.append(('out:type', f'{where}: PD returned {type(out).__name__}'))
        return False
    if not isinstance(out.signal, np.ndarray) or out.signal.shape != (N,):
        viol.append(('out:length:signal', f'{where}: out.signal shape {getattr(out.signal, "shape", None)} for N={N}'))
        ok = False
    if not isinstance(out.noise, np.ndarray) or out.noise.shape != (N,):
        viol.append(('out:length:noise', f'{where}: out.noise shape {getattr(out.noise, "shape", None)} for N={N}'))
        ok = False
    if ok and out.len() != N:
        viol.append(('out:length:len()', f'{where}: out.len()={out.len()} for N={N}'))
        ok = False
    if ok and (np.iscomplexobj(out.signal) or np.iscomplexobj(out.noise)):
        viol.append(('out:complex', f'{where}: detector voltage is complex'))
        ok = False
    if ok and not (np.isfinite(out.signal).all() and np.isfinite(out.noise).all()):
        viol.append(('out:not-finite', f'{where}: nan/inf in the output'))
        ok = False
    return ok


def match_requests(reqs, expected, N, sel, viol, where):
    """the SET of requests must equal the selection table.  expected = [(name, variance)].
    returns list of scales (A) per request in request order, or None when the log is malformed"""
    bad = False
    for q in reqs:
        if q.get('fn') != 'normal':
            viol.append((f'rng:request-kind:{sel}', f'{where}: request {q} is not numpy.random.normal'))
            bad = True
        elif q['loc'] != 0.0:
            viol.append((f'rng:request-loc:{sel}', f'{where}: request {q} has loc != 0'))
            bad = True
        elif q['size'] is None or _size_n(q['size']) != N or (isinstance(q['size'], (tuple, list)) and len(q['size']) != 1):
            viol.append((f'rng:request-size:{sel}', f'{where}: request {q} is not of size N={N}'))
            bad = True
        elif not isinstance(q['scale'], float) or not (q['scale'] >= 0):
            viol.append((f'rng:request-scale:{sel}', f'{where}: request {q} has an invalid scale'))
            bad = True
    if len(reqs) != len(expected):
        viol.append((f'rng:request-count:{sel}',
                     f'{where}: {len(reqs)} request(s) {reqs}, selection table demands {[n for n, _ in expected]}'))
        bad = True
    if bad:
        return None
    # multiset matching (order of the requests is not prescribed)
    left = list(range(len(reqs)))
    for name, var in expected:
        hit = None
        for i in left:
            got = reqs[i]['scale'] ** 2
            if abs(got - var) <= TOL_S * max(var, got):
                hit = i
                break
        if hit is None:
            viol.append((f'rng:{name}-variance',
                         f'{where}: no request with variance {var:.17g} A^2 for the {name} term; requested variances '
                         f'{[reqs[i]["scale"] ** 2 for i in left]} (sel={sel})'))
            bad = True
        else:
            left.remove(hit)
    return None if bad else [q['scale'] for q in reqs]


def _h(a):
    return hashlib.sha256(np.ascontiguousarray(a).tobytes()).hexdigest()[:16]


# ------------------------------------------------------------------ part main
def case_main(case):
    pt, sel, lc, seed = case
    p = dict(zip(AXN, pt))
    N = p['N']
    fs = set_grid(p['fs'])
    BW = p['BW'] * fs
    sig, noi, n_pol = build_arrays(pt, seed)
    name = letter_case(sel, lc)
    want_beat, want_T, want_N = SEL_TABLE[sel]
    where = f'pt={p} sel={name!r}'
    viol, obs, stats = [], [], {'pd_calls': 0, 'rng_requests': 0, 'answer_combos': 0}
    errs = {}

    ref_in = make_input(sig, noi, n_pol)
    psig, beat, psm, pnm, bmag = terms(ref_in)
    s_t, s_n = variances(p, fs, psm, pnm)
    expected = ([('thermal', s_t)] if want_T else []) + ([('shot', s_n)] if want_N else [])
    R, r = p['R_load'], p['r']
    sig_ref = lpf_ref(R * r * psig, BW, fs)
    det = R * ((r * beat if want_beat else 0.0) + p['i_dark']) + np.zeros(N)
    noise0_ref = lpf_ref(det, BW, fs)
    sig_scale = R * r * float(psig.max())
    det_scale = R * (r * bmag * (1 if want_beat else 0) + p['i_dark'])

    base = None
    for combo in itertools.product(range(len(ANSWERS)), repeat=len(expected)):
        inp = make_input(sig, noi, n_pol)
        script = make_script(combo)
        try:
            with scripted_rng(script):
                out = call_pd(inp, p, fs, name)
        except (ValueError, TypeError) as e:
            if not _from_library(e):
                raise
            viol.append((f'valid-arguments-rejected:{lc}', f'{where}: {type(e).__name__}: {e}'))
            obs.append(('EXC', combo, type(e).__name__))
            continue
        stats['pd_calls'] += 1
        stats['answer_combos'] += 1
        stats['rng_requests'] += len(script.requests)
        w = f'{where} answers={[ANSWERS[a] for a in combo]}'
        if not shape_check(out, N, viol, w):
            obs.append(('BADSHAPE', combo))
            continue
        reqs = script.requests
        obs.append((combo, _h(out.signal), _h(out.noise),
                    tuple((q.get('fn'), q.get('loc'), q.get('scale'), repr(q.get('size'))) for q in reqs)))
        if base is None:
            # ---- zero answers: deterministic oracle
            base = (out.signal.copy(), out.noise.copy(), [dict(q) for q in reqs])
            e = float(np.abs(out.signal - sig_ref).max())
            errs['signal'] = e / sig_scale if sig_scale else e
            if e > TOL_F * sig_scale:
                viol.append(('sig:square-law', f'{w}: max|out.signal - LPF(R_load*r*sum|E|^2)| = {e:.3e} '
                                               f'(scale {sig_scale:.3e}, tol {TOL_F * sig_scale:.3e})'))
            if p['kind'] == 'cw':
                const = r * float(psig[0]) * R
                e = float(np.abs(out.signal - const).max())
                errs['cw'] = e / const
                if e > TOL_CW * const:
                    viol.append(('sig:cw-constant', f'{w}: CW of power {psig[0]:.6g} W gives {out.signal[[0, N // 2, -1]]}, '
                                                    f'expected the constant r*P*R_load = {const:.17g} (max dev {e:.3e})'))
            e = float(np.abs(out.noise - noise0_ref).max())
            errs['noise0'] = e / det_scale if det_scale else e
            if e > TOL_F * det_scale:
                viol.append((f'noise:zero-answer:{sel}',
                             f'{w}: with all RNG answers 0, max|out.noise - LPF(R_load*(selected beating + i_dark))| = '
                             f'{e:.3e} (scale {det_scale:.3e}); out.noise[mid]={out.noise[N // 2]:.6e} '
                             f'ref[mid]={noise0_ref[N // 2]:.6e}'))
            match_requests(reqs, expected, N, sel, viol, w)
            continue
        # ---- non-zero answers: deterministic signal, same requests, unit-gain linear entry
        b_sig, b_noise, b_reqs = base
        if not np.array_equal(out.signal, b_sig):
            viol.append(('sig:not-deterministic', f'{w}: out.signal changes with the RNG answers '
                                                  f'(max diff {np.abs(out.signal - b_sig).max():.3e})'))
        if [dict(q) for q in reqs] != b_reqs:
            viol.append((f'rng:requests-depend-on-answers:{sel}', f'{w}: request log {reqs} differs from {b_reqs}'))
            continue
        if any(q.get('fn') != 'normal' or q['size'] is None or _size_n(q['size']) != N or not isinstance(q['scale'], float) for q in reqs):
            continue  # already reported by match_requests on the zero-answer run (incl. a per-sample, array-valued scale)
        z = np.zeros(N)
        for i, q in enumerate(reqs):
            aid = combo[i] if i < len(combo) else 0
            z = z + pattern(aid, N) * q['scale']
        want = lpf_ref(R * z, BW, fs)
        got = out.noise - b_noise
        zs = R * float(np.abs(z).max())
        scale = det_scale + zs
        e = float(np.abs(got - want).max())
        errs['gain'] = max(errs.get('gain', 0.0), e / scale if scale else e)
        if e > TOL_F * scale:
            viol.append((f'noise:rng-gain:{sel}',
                         f'{w}: out.noise - out.noise|0 differs from LPF(R_load*z) by {e:.3e} (scale {scale:.3e}); '
                         f'the random terms do not enter linearly with unit gain'))
    nt = bool(expected) or (want_beat and bmag > 0)
    return res(viol=viol, obs=tuple(obs), nontrivial=nt, stats=stats,
               payload={'errs': errs, 'requests': base[2] if base else None})


# ------------------------------------------------------------------ part inv
GROUP = [('gphase', 'j'), ('gphase', 0.7), ('sphase', 'seeded'),
         ('pol', 'swap'), ('pol', 'rot45'), ('pol', 'circ'), ('pol', 'su2'),
         ('scale', 'r', 0.3), ('scale', 'R_load', 3.0), ('scale', 'amp', 1.7)]


def unitary(kind, seed):
    s = math.sqrt(0.5)
    if kind == 'swap':
        return np.array([[0, 1], [1, 0]], complex)
    if kind == 'rot45':
        return np.array([[s, -s], [s, s]], complex)
    if kind == 'circ':
        return np.array([[s, 1j * s], [1j * s, s]], complex)
    g = _rs(seed, 'su2').randn(4)
    g = g / np.linalg.norm(g)
    a, b = g[0] + 1j * g[1], g[2] + 1j * g[3]
    return np.array([[a, -np.conj(b)], [b, np.conj(a)]], complex)


def transform(inp, el, seed):
    """apply a group element to the stored arrays of `inp`; returns constructor arrays (sig, noise)"""
    S, Z = inp.signal, inp.noise
    N = S.shape[-1]
    if el[0] == 'gphase':
        ph = 1j if el[1] == 'j' else np.exp(1j * el[1])
        return S * ph, None if Z is None else Z * ph
    if el[0] == 'sphase':
        ph = np.exp(2j * np.pi * _rs(seed, 'sphase', N).rand(N))
        return S * ph, None if Z is None else Z * ph
    if el[0] == 'pol':
        U = unitary(el[1], seed)
        S2 = np.vstack([S, np.zeros(N, complex)]) if S.ndim == 1 else S
        Z2 = None if Z is None else (np.vstack([Z, np.zeros(N, complex)]) if Z.ndim == 1 else Z)
        return U @ S2, None if Z2 is None else U @ Z2
    if el[0] == 'scale' and el[1] == 'amp':
        return S * el[2], None if Z is None else Z * el[2]
    return S.copy(), None if Z is None else Z.copy()


def case_inv(case):
    pt, seed = case
    from opticomlib.typing import optical_signal
    p = dict(zip(AXN, pt))
    N = p['N']
    fs = set_grid(p['fs'])
    sig, noi, n_pol = build_arrays(pt, seed)
    viol, obs, errs = [], [], {}
    stats = {'pd_calls': 0, 'group_elements': 0}
    base_in = make_input(sig, noi, n_pol)
    psig, beat, psm, pnm, bmag = terms(base_in)
    R, r = p['R_load'], p['r']
    sig_scale = R * r * float(psig.max())
    for sel in SELECTIONS:
        want_beat = SEL_TABLE[sel][0]
        det_scale = R * (r * bmag * (1 if want_beat else 0) + p['i_dark'])
        s0 = ScriptedRNG()
        with scripted_rng(s0):
            o0 = call_pd(make_input(sig, noi, n_pol), p, fs, sel)
        stats['pd_calls'] += 1
        if not shape_check(o0, N, viol, f'pt={p} sel={sel}'):
            continue
        obs.append((sel, _h(o0.signal), _h(o0.noise)))
        for el in GROUP:
            tS, tZ = transform(base_in, el, seed)
            q = dict(p)
            fsig = fnoise = 1.0
            if el[0] == 'scale':
                if el[1] in ('r', 'R_load'):
                    q[el[1]] = p[el[1]] * el[2]
                    fsig = el[2]
                    fnoise = el[2] if el[1] == 'R_load' else None   # the noise part is affine, not linear, in r
                else:
                    fsig = el[2] ** 2
                    fnoise = None
            s1 = ScriptedRNG()
            with scripted_rng(s1):
                o1 = call_pd(optical_signal(tS, tZ), q, fs, sel)
            stats['pd_calls'] += 1
            stats['group_elements'] += 1
            w = f'pt={p} sel={sel} element={el}'
            if not shape_check(o1, N, viol, w):
                continue
            tag = el[0] if el[0] != 'scale' else f'scale-{el[1]}'
            e = float(np.abs(o1.signal - fsig * o0.signal).max())
            sc = sig_scale * max(fsig, 1.0)
            errs[tag] = max(errs.get(tag, 0.0), e / sc if sc else e)
            if e > TOL_F * sc:
                law = {'r': 'linear in r', 'R_load': 'linear in R_load', 'amp': 'quadratic in the field amplitude'}.get(
                    el[1] if el[0] == 'scale' else '', 'invariant')
                viol.append((f'sig:{tag}:{el[1]}' if el[0] != 'scale' else f'sig:{tag}',
                             f'{w}: signal part is not {law}: max dev {e:.3e} (scale {sc:.3e})'))
            if fnoise is not None:
                e = float(np.abs(o1.noise - fnoise * o0.noise).max())
                sc = det_scale * max(fnoise, 1.0)
                errs['noise-' + tag] = max(errs.get('noise-' + tag, 0.0), e / sc if sc else e)
                if e > TOL_F * sc:
                    viol.append((f'noise:{tag}:{el[1]}:{sel}',
                                 f'{w}: zero-answer noise part changes by {e:.3e} (scale {sc:.3e})'))
            if el[0] != 'scale':
                a = [(x.get('fn'), x.get('loc'), repr(x.get('size'))) for x in s0.requests]
                b = [(x.get('fn'), x.get('loc'), repr(x.get('size'))) for x in s1.requests]
                if a != b:
                    viol.append((f'rng:requests-not-invariant:{tag}', f'{w}: {s0.requests} vs {s1.requests}'))
                else:
                    for x, y in zip(s0.requests, s1.requests):
                        if abs(x['scale'] ** 2 - y['scale'] ** 2) > TOL_S * max(x['scale'] ** 2, y['scale'] ** 2):
                            viol.append((f'rng:variance-not-invariant:{tag}',
                                         f'{w}: requested variance {x["scale"] ** 2:.17g} -> {y["scale"] ** 2:.17g}'))
    return res(viol=viol, obs=tuple(obs), nontrivial=bool(psig.max() > 0), stats=stats, payload={'errs': errs})


# ------------------------------------------------------------------ part exc
INVALID = [
    ('r', 0, ValueError), ('r', -1, ValueError), ('r', 1.5, ValueError), ('r', '1', TypeError),
    ('T', -1, ValueError), ('T', 'x', TypeError),
    ('R_load', -50, ValueError), ('R_load', [50], TypeError),
    ('include_noise', 'foo', ValueError), ('include_noise', 'ase-foo', ValueError),
    ('include_noise', 'thermal-foo', ValueError), ('include_noise', 'ase', ValueError),
    ('include_noise', '', ValueError), ('include_noise', 'all-', ValueError),
    ('include_noise', True, TypeError), ('include_noise', None, TypeError),
    ('include_noise', 0, TypeError), ('include_noise', ['all'], TypeError),
]


def case_exc(case):
    pt, idx, sel, seed = case
    from opticomlib.devices import PD
    p = dict(zip(AXN, pt))
    fs = set_grid(p['fs'])
    sig, noi, n_pol = build_arrays(pt, seed)
    param, value, exc = INVALID[idx]
    kw = dict(r=p['r'], T=p['T'], R_load=p['R_load'], include_noise=sel, i_dark=p['i_dark'], Fn=p['Fn'])
    kw[param] = value
    inp = make_input(sig, noi, n_pol)
    got = None
    with scripted_rng(ScriptedRNG()):
        try:
            PD(inp, p['BW'] * fs, **kw)
        except Exception as e:  # the documented errors are the subject of this part
            got = e
    viol = []
    if got is None:
        viol.append((f'exc:{param}={value!r}:no-error', f'pt={p}: PD(..., {param}={value!r}) returned instead of raising {exc.__name__}'))
    elif type(got) is not exc:
        viol.append((f'exc:{param}={value!r}:{type(got).__name__}',
                     f'pt={p}: PD(..., {param}={value!r}) raised {type(got).__name__}({got}) instead of the documented {exc.__name__}'))
    return res(viol=viol, obs=(param, repr(value), type(got).__name__, str(got)[:80]), nontrivial=(param, repr(value)),
               stats={'pd_calls': 1})


# ------------------------------------------------------------------ independent frequency response (NEB)
def _bessel4_mag(W):
    """|H0(jW)| of the delay-normalised order-4 Bessel low-pass 105/theta_4(s)"""
    s = 1j * np.asarray(W, dtype=float)
    return np.abs(105.0 / ((((s + 10.0) * s + 45.0) * s + 105.0) * s + 105.0))


@functools.lru_cache(maxsize=1)
def _bessel4_c():
    """frequency scaling c with |H0(jc)|^2 = 1/2 ('mag' normalisation), by bisection"""
    lo, hi = 0.1, 10.0
    for _ in range(200):
        mid = 0.5 * (lo + hi)
        if _bessel4_mag(mid) ** 2 > 0.5:
            lo = mid
        else:
            hi = mid
    return 0.5 * (lo + hi)


def h_closed(w, bw_frac):
    """|H(e^{jw})| of the bilinear-transformed (pre-warped) order-4 'mag' Bessel with cutoff bw_frac*fs;
    written from the Bessel polynomial, does not use scipy"""
    W = np.tan(np.asarray(w, dtype=float) / 2) / math.tan(math.pi * bw_frac)
    return _bessel4_mag(_bessel4_c() * np.abs(W))


@functools.lru_cache(maxsize=32)
def neb(bw_frac):
    """rho4 = mean over the unit circle of |H|^4 (variance gain of the forward-backward filter for white noise),
    rho8 = mean |H|^8 (for the variance of the sample variance)"""
    M = 1 << 16
    w = (np.arange(M) + 0.5) * 2 * np.pi / M     # midpoint rule, avoids w = pi exactly
    h2 = h_closed(w, bw_frac) ** 2
    return float(np.mean(h2 ** 2)), float(np.mean(h2 ** 4))


def reference_selfcheck():
    """binds the scipy-designed reference filter to the closed form; returns max abs deviation of |H|"""
    worst = 0.0
    for frac in AXES[7][1]:
        sos = _ref_sos(frac, 1.0)
        w = np.linspace(0, np.pi, 513)[:-1]
        z = np.exp(-1j * w)
        H = np.ones_like(z)
        for b0, b1, b2, a0, a1, a2 in sos:
            H = H * (b0 + b1 * z + b2 * z * z) / (a0 + a1 * z + a2 * z * z)
        worst = max(worst, float(np.abs(np.abs(H) - h_closed(w, frac)).max()))
    return worst


# ------------------------------------------------------------------ part conf
CONF_N = 1 << 18
CONF_EDGE = 1024
CONF_CFG = [
    {}, {'BW': 0.05}, {'BW': 0.49}, {'r': 0.5}, {'R_load': 1e4}, {'T': 77.0}, {'Fn': 3}, {'i_dark': 1e-6},
    {'fs': 80e9}, {'layout': 'xy', 'onoise': 'small', 'r': 0.5},
]
CONF_SEL = ['thermal-only', 'shot-only', 'thermal-shot', 'ase-thermal', 'ase-shot', 'all']


def case_conf(case):
    cfg, sel, seed = case
    p = {a: v[0] for a, v in AXES}
    p.update(cfg)
    p['N'] = CONF_N
    pt = tuple(p[a] for a in AXN)
    fs = set_grid(p['fs'])
    BW = p['BW'] * fs
    sig, noi, n_pol = build_arrays(pt, seed)
    inp = make_input(sig, noi, n_pol)
    psig, beat, psm, pnm, bmag = terms(inp)
    want_beat, want_T, want_N = SEL_TABLE[sel]
    s_t, s_n = variances(p, fs, psm, pnm)
    R, r = p['R_load'], p['r']
    var_w = ((s_t if want_T else 0.0) + (s_n if want_N else 0.0)) * R * R     # V^2 before the filter
    rho4, rho8 = neb(p['BW'])
    np.random.seed(seed % (2 ** 32))
    out = call_pd(inp, p, fs, sel)
    viol = []
    w = f'cfg={cfg} sel={sel} seed={seed}'
    if not shape_check(out, CONF_N, viol, w):
        return res(viol=viol, obs='BADSHAPE')
    det = lpf_ref(R * ((r * beat if want_beat else 0.0) + p['i_dark']) + np.zeros(CONF_N), BW, fs)
    y = (out.noise - det)[CONF_EDGE:-CONF_EDGE]
    M = y.size
    mean, var = float(y.mean()), float(y.var())
    e_var = var_w * (rho4 - 1.0 / M)                 # E[S]: the sample mean removes G(0)^2 var_w / M
    sd_var = var_w * math.sqrt(2.0 * rho8 / M)       # Var[S] = (2/M) sum_k c[k]^2 = (2/M) var_w^2 mean|H|^8
    sd_mean = math.sqrt(var_w / M)                   # Var[mean] = sum_k c[k] / M = var_w G(0)^2 / M
    zv = (var - e_var) / sd_var
    zm = mean / sd_mean
    if abs(zv) > 6:
        viol.append((f'conf:variance:{sel}', f'{w}: sample variance {var:.6e} V^2 vs (documented variance)*R_load^2*NEB = '
                                             f'{e_var:.6e} V^2: {zv:+.1f} sigma (sigma {sd_var:.3e})'))
    if abs(zm) > 6:
        viol.append((f'conf:mean:{sel}', f'{w}: sample mean of the random part {mean:.3e} V = {zm:+.1f} sigma'))
    if float(np.abs(out.signal - lpf_ref(R * r * psig, BW, fs)).max()) > TOL_F * R * r * float(psig.max()):
        viol.append(('conf:signal', f'{w}: signal part differs from LPF(R_load*r*sum|E|^2) under the real RNG'))
    return res(viol=viol, obs=(_h(out.signal), _h(out.noise)), nontrivial=True, stats={'pd_calls': 1},
               payload={'zv': zv, 'zm': zm})


# ------------------------------------------------------------------ driver
def _merge_errs(ctx, name, payloads):
    agg = {}
    for pl in payloads:
        if not pl:
            continue
        for k, v in pl.get('errs', {}).items():
            agg[k] = max(agg.get(k, 0.0), v)
    ctx.extra.setdefault('max_relative_error_observed', {})[name] = {k: float(f'{v:.3e}') for k, v in sorted(agg.items())}
    print(f'[C09] {name}: max relative errors {ctx.extra["max_relative_error_observed"][name]} (tolerance {TOL_F:.2e})', flush=True)


def run(ctx):
    seed = int(ctx.seed)
    k_simple, k_rich = (2, 1) if ctx.quick else (3, 2)
    pts = lattice(k_simple, k_rich)
    ctx.space('lattice.points', len(pts))
    ctx.space('axes', len(AXES))
    ctx.rule(f'C09: deviation lattice over {len(AXES)} axes {[(a, len(v)) for a, v in AXES]}: every point differing from '
             f'the simplest baseline in <= {k_simple} axes plus every point differing from the richest centre {RICH} in '
             f'<= {k_rich} axes ({len(pts)} points); x all 7 include_noise selections x letter cases {LETTER_CASES} '
             f'x EVERY combination of scripted answers {ANSWERS} to each numpy.random.normal request (4^requests); '
             f'invariance group {GROUP} and documented exceptions {[(a, repr(b)) for a, b, _ in INVALID]} over the lattice; '
             f'real-RNG conformance on 2^18-sample CW records, seeds {{seed, seed+1, seed+2}}')
    ctx.assume('numpy.random.normal(0, s, n) returns n independent N(0, s^2) draws (the scripted RNG decides which draws are '
               'requested and how they enter; the real-RNG runs only bind the script to the real generator)')
    ctx.assume('the reference zero-phase filter shares scipy.signal.bessel/sosfiltfilt with the implementation; its frequency '
               'response is bound to the Bessel polynomial closed form (self-check) and filter-independent facts are checked '
               'separately (CW constant, invariances, scaling laws); LPF itself is the subject of C11')
    ctx.assume('kB = 1.380649e-23 J/K and e = 1.602176634e-19 C (exact SI values)')

    dev = reference_selfcheck()
    ctx.extra['reference_filter_vs_closed_form'] = float(f'{dev:.3e}')
    if dev > 1e-9:
        raise AssertionError(f'reference filter deviates from the Bessel closed form by {dev}')

    # ---- main
    cases = [(pt, sel, lc, seed) for pt in pts for sel in SELECTIONS for lc in LETTER_CASES]
    pl = ctx.pmap('main', case_main, cases, horizon=30)
    _merge_errs(ctx, 'main', pl)
    logs = [p_['requests'] for p_ in pl[:21] if p_ and p_.get('requests') is not None]
    ctx.extra['request_log_baseline'] = [{'selection': c[1], 'case': c[2], 'requests': l}
                                         for c, l in zip(cases[:21], logs)][:21]

    # ---- invariances and scaling laws
    pl = ctx.pmap('inv', case_inv, [(pt, seed) for pt in pts], horizon=60)
    _merge_errs(ctx, 'inv', pl)

    # ---- documented exceptions over the k<=1 lattice, under every selection at the baseline
    epts = lattice(1, 0)
    ecases = [(pt, i, 'all', seed) for pt in epts for i in range(len(INVALID))]
    ecases += [(epts[0], i, sel, seed) for sel in SELECTIONS[:-1] for i in range(len(INVALID)) if INVALID[i][0] != 'include_noise']
    ctx.pmap('exc', case_exc, ecases, horizon=20)

    # ---- real-RNG conformance
    ccases = [(cfg, sel, seed + d) for cfg in CONF_CFG for sel in CONF_SEL for d in (0, 1, 2)]
    pl = ctx.pmap('conf', case_conf, ccases, horizon=120, chunk=1)
    zs = [abs(p_['zv']) for p_ in pl if p_]
    zm = [abs(p_['zm']) for p_ in pl if p_]
    if zs:
        ctx.extra['conformance'] = {'runs': len(zs), 'max_abs_z_variance': round(max(zs), 2), 'max_abs_z_mean': round(max(zm), 2),
                                    'rms_z_variance': round(float(np.sqrt(np.mean(np.square(zs)))), 2)}
        print(f'[C09] conformance: {ctx.extra["conformance"]}', flush=True)
