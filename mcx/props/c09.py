"""C09 - PD is a square-law detector with unit DC gain and the documented noise powers.

Technique: deviation lattice over the parameter vector x scripted-RNG environment.  Every
point of the lattice is executed on the real `opticomlib.devices.PD` for every include_noise
selection, letter case and every answer the scripted `numpy.random.normal` can give from the
answer alphabet; the reference model recomputes the photocurrent terms from the input arrays
and filters them with an own zero-phase Bessel reference.

Every axis has CORE values (combined with each other up to k deviations) and EDGE values (input
classes that are legal under the quantifier but rarely used: sample dtypes, scalar forms, limits,
record lengths around the filter padding, ill-conditioned bandwidths, grid histories, call forms,
amplitude scales); an edge value is taken alone (quick) or together with one core deviation (thorough),
from the simplest baseline and from the richest centre.

Parts
  main  : (lattice point, selection, letter case) -> all RNG answer combinations
  inv   : (lattice point) -> invariance group elements + scaling laws, all 7 selections
  case  : every one of the 2^n upper/lower spellings of the 7 selections (5 640 strings)
  sweep : parameter / selection / sampling-rate sweeps on ONE shared write-protected input object
  exc   : documented exceptions over the k<=1 lattice
  conf  : real-RNG conformance (2^18-sample CW records, 3 seeds, six-sigma bands)
"""
from __future__ import annotations
import copy
import functools
import hashlib
import itertools
import math

import numpy as np
import scipy.signal as sg

from mcx.core.kernel import res
from mcx.core.env import gv_reset, ScriptedRNG, scripted_rng, freeze, unchanged

ID = 'C09'
LEVEL = 'exploration'
NONTRIVIAL = ('the noise part is more than the filtered dark-current constant: at least one RNG request is made '
              'or non-zero beating terms are selected (distinct observations counted); for inv/conf/sweep parts every '
              'case with a non-zero field; for case/exc parts every distinct spelling / invalid value')

# exact SI values (2019 redefinition) - deliberately not imported from the library
KB = 1.380649e-23
QE = 1.602176634e-19
EPS = float(np.finfo(float).eps)

# --- tolerances (see notes/C09.md for the derivations)
TOL_F = 2.0 ** 24 * EPS      # arrays that went through the order-4 zero-phase IIR filter: a-priori rounding bound of the
                             # sos recursion at BW=0.49 fs is 6.6e6 eps per evaluation (notes/C09.md), two evaluations are compared
TOL_S = 256 * EPS            # scalar RNG scales/variances (<= 10 multiplications + a pairwise mean over <= 2^18 samples)
TOL_CW = 1e-12               # CW -> constant r*P*R_load (stated in DESIGN 5/C09)
K_DT = 64                    # rounding steps (x safety) carried out in a reduced-precision sample/scalar dtype


def tolerances(p, bw):
    """relative tolerances for lattice point p at BW = bw*fs.
    f   : filtered arrays.  Narrow filters: a section's recursion amplifies rounding by ||1/A||_1 <= 1/|1-pole|^2 <=
          1/(2 pi bw)^2 (poles of the 'mag'-normalised Bessel lie at >= 1.4 x the cut-off), 2 sections x 2 passes x
          5 eps x ||a||_1 (= 4) x odd extension (3) = 240 -> 2^9 eps/(2 pi bw)^2; never below the 0.49 fs bound TOL_F
    cw  : unit DC gain of a section = sum(b)/sum(a) with sum(a) = |1-pole|^2 >= (2 pi bw)^2 formed from coefficients
          of size <= 2 that carry one rounding each: relative error <= 2 eps/(2 pi bw)^2 per section, 2 sections x
          2 passes + the steady-state initial conditions (same conditioning) -> 16, x4 safety = 64 eps/(2 pi bw)^2
    s   : requested variances
    dt  : samples (or scalar arguments) handed over in a reduced-precision dtype are processed in that dtype before
          the filter (abs, square, x r, sum over polarisations, x R_load, mean: < 16 roundings) -> K_DT*eps(dtype) is
          added everywhere; q = smallest subnormal of the dtype (absolute floor, relevant for float16 only)"""
    e_dt, q_dt = DT_EPS.get(p['dtype'], (0.0, 0.0))
    e_dt = max([e_dt] + [form_eps(p[a]) for a in FORM_AXES])
    w2 = (2 * math.pi * bw) ** 2
    return {'f': max(TOL_F, 2.0 ** 9 * EPS / w2) + K_DT * e_dt,
            'cw': max(TOL_CW, 64 * EPS / w2) + K_DT * e_dt,
            's': TOL_S + K_DT * e_dt,
            'q': 4 * q_dt}


SELECTIONS = ['ase-only', 'thermal-only', 'shot-only', 'ase-thermal', 'ase-shot', 'thermal-shot', 'all']
SEL_TABLE = {  # selection -> (beating terms?, thermal?, shot?)
    'ase-only': (True, False, False), 'thermal-only': (False, True, False), 'shot-only': (False, False, True),
    'ase-thermal': (True, True, False), 'ase-shot': (True, False, True), 'thermal-shot': (False, True, True),
    'all': (True, True, True)}
LETTER_CASES = ['lower', 'UPPER', 'MiXed']

# ------------------------------------------------------------------ scalar forms
# A scalar axis value is either a plain Python float/int (passed as it is) or (form, value): the value built in
# another scalar type.  `num` is the exact number the library receives.
FORMS = {
    'int': int, 'float': float, 'bool': bool,
    'np.float64': np.float64, 'np.float32': np.float32, 'np.float16': np.float16,
    'np.int64': np.int64, 'np.int32': np.int32, 'np.uint8': np.uint8, 'np.bool_': np.bool_,
    '0-d': lambda v: np.array(v, dtype=float),
}
MUST_ACCEPT = ('int', 'float')     # documented scalars.  The statement is silent on bool and numpy scalar types: the library may
                             # reject them with its documented TypeError ("not a scalar value") or must treat them as the number
FORM_AXES = ('r', 'T', 'R_load', 'BW', 'i_dark', 'Fn')


def realise(spec):
    return FORMS[spec[0]](spec[1]) if isinstance(spec, tuple) else spec


def num(spec):
    return float(realise(spec))


def may_reject(spec):
    return isinstance(spec, tuple) and spec[0] not in MUST_ACCEPT


def form_eps(spec):
    if isinstance(spec, tuple) and spec[0] in ('np.float32', 'np.float16'):
        return float(np.finfo(FORMS[spec[0]]).eps)
    return 0.0


# ------------------------------------------------------------------ sample dtypes
DTYPES = {'c128': np.complex128, 'c64': np.complex64, 'f64': np.float64, 'f32': np.float32, 'f16': np.float16,
          'i64': np.int64, 'i32': np.int32, 'i16': np.int16, 'i8': np.int8, 'u8': np.uint8, 'bool': np.bool_}
INT_FS = {'i64': 1e6, 'i32': 1e5, 'i16': 2e4, 'i8': 100, 'u8': 200, 'bool': 1}   # integer full scale the field is quantised to
DT_EPS = {k: (float(np.finfo(DTYPES[k]).eps), float(np.finfo(DTYPES[k]).smallest_subnormal)) for k in ('c64', 'f32', 'f16')}
DT_EPS['c64'] = DT_EPS['f32'] = (DT_EPS['f32'][0], 0.0)      # 1.4e-45: no floor needed


def is_int_dtype(name):
    return np.dtype(DTYPES[name]).kind in 'iub'


def precision_class(p):
    """'double' | 'single' | 'half': the lowest precision among the sample dtype and the scalar forms of point p"""
    e = max([DT_EPS.get(p['dtype'], (0.0, 0.0))[0]] + [form_eps(p[a]) for a in FORM_AXES])
    return 'double' if e == 0 else ('single' if e < 1e-6 else 'half')


# --- alphabets: (axis, core values [first = baseline, simplest], edge values)
F = lambda form, v: (form, v)   # noqa: E731
AXES = [
    ('N', [32, 17, 100, 257],
     list(range(18, 32)) + [33, 64, 97, 127, 128, 1023, 1024, 1025, 4096]),          # 17..33: around the 16-sample padding
    ('kind', ['cw', 'tones', 'rand', 'zero'],
     ['imag', 'chirp', 'ook', 'ramp', 'dcsmall', 'impulse']),
    ('layout', ['x', 'xy', 'xx', 'x0', '1xN'],
     ['0x', 'xy-n0y', 'x-np1', '2xN-np1', '1xN-np1', 'x-list', 'xy-list']),
    ('onoise', ['none', 'small', 'large', 'zeros'],
     ['real', 'int', 'zerosum', 'tiny']),
    ('r', [1.0, 0.5, 0.01],
     [F('int', 1), F('bool', True), float(np.nextafter(1.0, 0.0)), 1e-6, 1e-200, F('np.float64', 0.5), F('np.float32', 0.5),
      F('np.float16', 0.5), F('np.int64', 1), F('np.bool_', True), F('0-d', 0.5)]),
    ('T', [300.0, 0.0, 77.0],
     [F('int', 300), F('int', 0), -0.0, F('bool', True), F('bool', False), 5e-324, 1e-280, 1e5, F('np.float64', 77.0),
      F('np.float32', 77.0), F('np.int64', 300), F('np.int64', 0), F('0-d', 300.0)]),
    ('R_load', [50.0, 1.0, 1e4],
     [F('int', 50), F('bool', True), 1e-12, 1e-6, 1e9, F('np.float64', 50.0), F('np.float32', 50.0), F('np.int64', 50),
      F('np.uint8', 50), F('0-d', 50.0)]),
    ('BW', [0.3, 0.05, 0.49],           # fraction of fs
     [1e-4, 1e-3, 1e-2, 0.15, 0.4, F('int', 0.3), F('np.float64', 0.3)]),
    ('i_dark', [10e-9, 0.0, 1e-6],
     [F('int', 0), 1e-15, 1e-3, F('np.float64', 1e-6), F('np.float32', 1e-6)]),
    ('Fn', [0, 3, 10],                  # dB
     [F('float', 0.0), F('float', 3.0), 0.5, 30, F('np.int64', 3), F('np.float64', 3.0), F('np.float32', 3.0)]),
    ('fs', [16e9, 80e9, 2e9],
     [1e3, 1e6, 48e9, 1e12]),
    ('dtype', ['c128'],
     ['f64', 'i64', 'c64', 'f32', 'f16', 'i32', 'i16', 'i8', 'u8', 'bool']),
    ('call', ['kw'],
     ['pos', 'dflt']),
    ('grid', ['sps,R'],
     ['sps,fs', 'R,fs', 'R,fs~', 'fs', 'fs~', 'N8', 'wl1310', 'intR', 'npR']),
    ('amp', [1.0],                      # the whole field (signal and noise) multiplied by this
     [1e-12, 1e-9, 1e-6, 1e-3, 1e3, 1e6]),
]
AXN = [a for a, _, _ in AXES]
CORE = {a: c for a, c, _ in AXES}
EDGE = {a: e for a, _, e in AXES}
SIMPLE = {a: c[0] for a, c, _ in AXES}
RICH = {'N': 100, 'kind': 'rand', 'layout': 'xy', 'onoise': 'small', 'r': 0.5, 'T': 77.0, 'R_load': 1e4,
        'BW': 0.05, 'i_dark': 1e-6, 'Fn': 3, 'fs': 80e9, 'dtype': 'c128', 'call': 'pos', 'grid': 'sps,fs', 'amp': 1.0}
P_CW = 1e-3   # W
DEFAULTS = {'r': 1.0, 'T': 300.0, 'R_load': 50.0, 'i_dark': 10e-9, 'Fn': 0}     # documented defaults of PD

ANSWERS = ['zero', 'ones', 'alt', 'impulse']


def letter_case(name, lc):
    if lc == 'lower':
        return name.lower()
    if lc == 'UPPER':
        return name.upper()
    return ''.join(c.upper() if i % 2 else c.lower() for i, c in enumerate(name))


# ------------------------------------------------------------------ spaces
def legal(p):
    """combinations the harness cannot represent (not restrictions of the property)"""
    if is_int_dtype(p['dtype']) and p['amp'] != 1.0:
        return False                       # the integer field is quantised to the full scale of its dtype
    if p['dtype'] == 'f16':                # 11 significant bits, range 6e-8 .. 65504: r*P*R_load must fit
        if p['amp'] != 1.0 or p['R_load'] not in CORE['R_load'] or p['r'] not in CORE['r']:
            return False
    return True


def deviations(centre, k_core, k_edge):
    """points that differ from `centre` in at most k_core axes by core values, plus points with ONE edge value and at
    most k_edge further core deviations (k_edge < 0: no edge values).  Returns [(point, number of deviations)],
    ordered by number of deviations, then axis order / value order (simplest first)"""
    n = len(AXES)

    def core_devs(m, skip=None):
        for axes in itertools.combinations([i for i in range(n) if i != skip], m):
            alts = [[v for v in AXES[i][1] if v != centre[AXES[i][0]]] for i in axes]
            for vals in itertools.product(*alts):
                yield dict(zip((AXES[i][0] for i in axes), vals))

    out = []
    for m in range(max(k_core, k_edge + 1) + 1):
        if m <= k_core:
            for d in core_devs(m):
                out.append((dict(centre, **d), m))
        if 1 <= m <= k_edge + 1:
            for i in range(n):
                for ev in AXES[i][2]:
                    if ev == centre[AXES[i][0]]:
                        continue
                    for d in core_devs(m - 1, skip=i):
                        out.append((dict(centre, **d, **{AXES[i][0]: ev}), m))
    return [(tuple(p[a] for a in AXN), m) for p, m in out if legal(p)]


def lattice(k_simple, k_rich, e_simple=-1, e_rich=-1):
    """[(point, depth)] around the two centres, duplicates removed (first = shallowest occurrence kept)"""
    seen, out = set(), []
    for p, m in deviations(SIMPLE, k_simple, e_simple) + deviations(RICH, k_rich, e_rich):
        key = repr(p)        # repr: 1 and 1.0 and True are different forms
        if key not in seen:
            seen.add(key)
            out.append((p, m))
    return out


# ------------------------------------------------------------------ inputs
def _rs(seed, *tag):
    h = hashlib.sha256(repr((seed,) + tag).encode()).digest()
    return np.random.RandomState(int.from_bytes(h[:4], 'little'))


def field_rows(kind, N, seed):
    """x and y rows of the field (complex128)"""
    n = np.arange(N)
    a = math.sqrt(P_CW)
    if kind == 'cw':
        x = np.full(N, a * np.exp(0.3j))
        y = np.full(N, 0.5 * a * np.exp(-1.1j))
    elif kind == 'tones':
        x = a / 1.6 * (np.exp(2j * np.pi * 3 * n / N) + 0.6 * np.exp(-2j * np.pi * 5 * n / N + 0.4j))
        y = a / 1.6 * (0.5 * np.exp(2j * np.pi * 2 * n / N) + 0.3j)
    elif kind == 'rand':
        g = _rs(seed, 'sig', N).randn(4, N)
        x = a * math.sqrt(0.5) * (g[0] + 1j * g[1])
        y = a * math.sqrt(0.5) * (g[2] + 1j * g[3])
    elif kind == 'zero':
        x = np.zeros(N, complex)
        y = np.zeros(N, complex)
    elif kind == 'imag':            # CW, purely imaginary
        x = np.full(N, 1j * a)
        y = np.full(N, -0.5j * a)
    elif kind == 'chirp':           # constant envelope, quadratic phase
        x = a * np.exp(0.4j * np.pi * n * n / N)
        y = 0.5 * a * np.exp(-0.25j * np.pi * n * n / N + 0.8j)
    elif kind == 'ook':             # on/off envelope (4-sample slots), dark samples are exactly zero
        x = a * math.sqrt(2) * ((n // 4) % 2) * np.exp(0.3j)
        y = 0.5 * a * math.sqrt(2) * (((n + 2) // 4) % 2) * np.exp(-1.1j)
    elif kind == 'ramp':            # linearly rising / falling power
        x = a * np.sqrt(2 * (n + 1) / N) * np.exp(0.3j)
        y = 0.5 * a * np.sqrt(2 * (N - n) / N) * np.exp(-1.1j)
    elif kind == 'dcsmall':         # large constant with a 1e-6 ripple
        x = a * (1 + 1e-6 * np.cos(2 * np.pi * 3 * n / N)) * np.exp(0.3j)
        y = np.full(N, 0.5 * a * np.exp(-1.1j))
    elif kind == 'impulse':         # one lit sample per polarisation
        x = np.zeros(N, complex)
        y = np.zeros(N, complex)
        x[N // 2] = a * math.sqrt(N) * np.exp(0.3j)
        y[0] = 0.5 * a * math.sqrt(N) * np.exp(-1.1j)
    else:
        raise KeyError(kind)
    return x.astype(complex), y.astype(complex)


def noise_rows(onoise, N, seed):
    if onoise == 'none':
        return None
    if onoise == 'zeros':
        return np.zeros(N, complex), np.zeros(N, complex)
    a = math.sqrt(P_CW)
    if onoise == 'zerosum':          # samples sum to exactly zero
        s = np.where(np.arange(N) % 2 == 0, 1.0, -1.0)
        if N % 2:
            s[-1] = 0.0
        return 0.05 * a * s * np.exp(0.9j), 0.05 * a * s[::-1] * np.exp(-0.2j)
    if onoise == 'int':              # integer-valued noise of dtype int64 (its own dtype, not the signal's)
        g = _rs(seed, 'noise', N, onoise).randint(-1, 2, size=(2, N))
        return g[0].astype(complex), g[1].astype(complex)
    amp = {'small': 0.05, 'large': 1.0, 'real': 0.05, 'tiny': 1e-9}[onoise] * a
    g = _rs(seed, 'noise', N, onoise).randn(4, N)
    return amp * math.sqrt(0.5) * (g[0] + 1j * g[1]), amp * math.sqrt(0.5) * (g[2] + 1j * g[3])


def cast(a, dtype, peak):
    """complex harness row -> row of the sample dtype (real dtypes take the real part, integer dtypes the real part
    quantised so that `peak` maps to the dtype's full scale INT_FS)"""
    dt = np.dtype(DTYPES[dtype])
    if dt.kind == 'c':
        return a.astype(dt)
    if dt.kind == 'f':
        return a.real.astype(dt)
    q = np.rint(a.real / peak * INT_FS[dtype])
    if dt.kind == 'u':
        q = np.abs(q)
    if dt.kind == 'b':
        return q != 0
    return q.astype(dt)


def lay(rows, layout, role='sig'):
    """arrange (x, y) rows into the constructor argument; returns (array or nested list, n_pol argument)"""
    x, y = rows
    z = np.zeros_like(x)
    if layout in ('x', 'xx', 'x-np1', 'x-list'):
        arr = x.copy()
    elif layout in ('xy', '2xN-np1', 'xy-list'):
        arr = np.array([x, y])
    elif layout == 'x0':
        arr = np.array([x, z])
    elif layout in ('1xN', '1xN-np1'):
        arr = x[np.newaxis, :].copy()
    elif layout == '0x':            # dark first polarisation; the noise is present in both
        arr = np.array([z, x]) if role == 'sig' else np.array([x, y])
    elif layout == 'xy-n0y':        # noise in the second polarisation only
        arr = np.array([x, y]) if role == 'sig' else np.array([z, y])
    else:
        raise KeyError(layout)
    if layout.endswith('-list'):
        arr = arr.tolist()
    return arr, {'xx': 2, 'x-np1': 1, '2xN-np1': 1, '1xN-np1': 1}.get(layout)


def build_arrays(pt, seed):
    """constructor arguments of the optical field for lattice point `pt`"""
    p = dict(zip(AXN, pt))
    N, dt, amp = p['N'], p['dtype'], p['amp']
    rows = field_rows(p['kind'], N, seed)
    peak = max(float(np.abs(r.real).max()) for r in rows) or 1.0
    sig, n_pol = lay(tuple(cast(r * amp, dt, peak * amp) for r in rows), p['layout'])
    nz = noise_rows(p['onoise'], N, seed)
    if nz is None:
        return sig, None, n_pol
    if p['onoise'] == 'real':
        nz = tuple((r.real * amp).astype(float) for r in nz)
    elif p['onoise'] == 'int':
        nz = tuple(np.rint(r.real).astype(np.int64) for r in nz)
    else:
        nz = tuple(cast(r * amp, dt, peak * amp) for r in nz)
    return sig, lay(nz, p['layout'], 'noise')[0], n_pol


def make_input(sig, noi, n_pol):
    from opticomlib.typing import optical_signal
    sig, noi = copy.deepcopy(sig), copy.deepcopy(noi)
    if n_pol is None:
        return optical_signal(sig, noi)
    return optical_signal(sig, noi, n_pol=n_pol)


def set_grid(fs, grid='sps,R', clean=True):
    """configure the global grid in the documented form `grid`; returns the sampling rate in force"""
    from opticomlib.typing import gv
    R = fs / 16
    kw = {'sps,R': dict(sps=16, R=R),
          'sps,fs': dict(sps=16, fs=fs),
          'R,fs': dict(R=R, fs=fs),
          'R,fs~': dict(R=fs / 16.4, fs=fs),            # fs/R is not an integer: sps is rounded, sps*R != fs
          'fs': dict(fs=fs),                            # R stays at its 1e9 default
          'fs~': dict(fs=fs * 1.03125),                 # fs alone, fs/R = 16.5, 82.5, 2.0625
          'N8': dict(sps=16, R=R, N=8),                 # a slot count in force: gv.t / gv.w have 128 entries, not N
          'wl1310': dict(sps=16, R=R, wavelength=1310e-9),
          'intR': dict(sps=16, R=int(R)),               # Python ints: gv.fs is an int
          'npR': dict(sps=np.int64(16), R=np.float64(R)),
          }[grid]
    if clean:
        gv_reset(**kw)
    else:
        import warnings
        with warnings.catch_warnings():
            warnings.simplefilter('ignore')
            gv(**kw)
    return float(gv.fs)


def bw_of(spec, fs):
    """(BW argument in Hz in the form of `spec`, exact fraction of fs it amounts to)"""
    if isinstance(spec, tuple):
        arg = FORMS[spec[0]](spec[1] * fs)
    else:
        arg = spec * fs
    return arg, float(arg) / fs


# ------------------------------------------------------------------ reference model
@functools.lru_cache(maxsize=256)
def _ref_sos(BW, fs):
    return sg.bessel(4, BW, btype='low', analog=False, output='sos', norm='mag', fs=fs)


def lpf_ref(x, BW, fs):
    """own reference: order-4 Bessel ('mag' normalisation, -3 dB at BW per pass), forward-backward"""
    return sg.sosfiltfilt(_ref_sos(float(BW), float(fs)), np.asarray(x, dtype=float))


def terms(inp):
    """photocurrent ingredients recomputed (in complex128, exact for every sample dtype) from the arrays PD receives.
    returns P_sig[n], beat[n] (sig-noise + noise-noise, per unit responsivity), mean sig power, mean noise power,
    magnitude scale of the beating terms (for rounding bounds)"""
    S = np.atleast_2d(np.asarray(inp.signal).astype(complex))
    psig = (S.real ** 2 + S.imag ** 2).sum(axis=0)
    if inp.noise is None:
        z = np.zeros(S.shape[1])
        return psig, z, float(psig.mean()), 0.0, 0.0
    Z = np.atleast_2d(np.asarray(inp.noise).astype(complex))
    pn = (Z.real ** 2 + Z.imag ** 2).sum(axis=0)
    beat = 2 * (S.real * Z.real + S.imag * Z.imag).sum(axis=0) + pn
    mag = float((2 * np.sqrt(psig * pn) + pn).max())
    return psig, beat, float(psig.mean()), float(pn.mean()), mag


def variances(v, fs, psig_mean, pn_mean):
    """documented variances in A^2, B = fs/2"""
    B = fs / 2
    s_t = 4 * KB * v['T'] * 10 ** (v['Fn'] / 10) * B / v['R_load']
    s_n = 2 * QE * (v['r'] * (psig_mean + pn_mean) + v['i_dark']) * B
    return s_t, s_n


def values(p):
    """numeric values of the scalar parameters (the exact numbers the library receives)"""
    return {a: num(p[a]) for a in ('r', 'T', 'R_load', 'i_dark', 'Fn')}


def oracle(inp, p, fs, bw, sel):
    """everything the zero-answer run is compared with"""
    v = values(p)
    psig, beat, psm, pnm, bmag = terms(inp)
    want_beat, want_T, want_N = SEL_TABLE[sel]
    s_t, s_n = variances(v, fs, psm, pnm)
    R, r = v['R_load'], v['r']
    N = psig.size
    BW = bw * fs
    o = {'v': v, 'N': N, 'BW': BW, 'fs': fs, 'sel': sel, 'tol': tolerances(p, bw), 'psig': psig, 'bmag': bmag,
         'expected': ([('thermal', s_t)] if want_T else []) + ([('shot', s_n)] if want_N else []),
         'sig_ref': lpf_ref(R * r * psig, BW, fs),
         'noise0_ref': lpf_ref(R * ((r * beat if want_beat else 0.0) + v['i_dark']) + np.zeros(N), BW, fs),
         'sig_scale': R * r * float(psig.max()),
         'det_scale': R * (r * bmag * (1 if want_beat else 0) + v['i_dark']),
         'nontrivial': bool(want_T or want_N or (want_beat and bmag > 0)),
         's_floor': 2 * QE * (fs / 2) * 4 * DT_EPS.get(p['dtype'], (0, 0))[1]}
    o['cw'] = bool(psig.max() == psig.min() and psig[0] > 0)
    return o


def pattern(aid, n):
    if aid == 0:
        return np.zeros(n)
    if aid == 1:
        return np.ones(n)
    if aid == 2:
        return np.where(np.arange(n) % 2 == 0, 1.0, -1.0)
    e = np.zeros(n)
    e[n // 2] = 1.0
    return e


def _size_n(size):
    if isinstance(size, (tuple, list)):
        return int(np.prod(size))
    return int(size)


class RNG(ScriptedRNG):
    """the kernel's scripted RNG records an array-valued scale as 'array'.  A scale array whose entries are all the same
    number IS one number per call (identical distribution): it is recorded as that number; for a non-constant array the
    range is recorded next to 'array' (the documented variance is one number per record: the mean power enters)."""

    def normal(self, loc=0.0, scale=1.0, size=None):
        out = super().normal(loc, scale, size)
        q = self.requests[-1]
        if q['scale'] == 'array':
            s = np.asarray(scale, dtype=float)
            lo, hi = float(s.min()), float(s.max())
            if lo == hi:
                q['scale'] = lo
            else:
                q['scale_range'] = (lo, hi)
        return out


def make_script(combo):
    """scripted RNG answering the i-th request with pattern combo[i] (zero beyond)"""
    script = RNG()

    def answer(kind, info):
        i = len(script.requests) - 1
        aid = combo[i] if i < len(combo) else 0
        if aid == 0 or kind not in ('normal', 'randn'):
            return None
        return pattern(aid, _size_n(info['size']))
    script.answer = answer
    return script


def _from_library(exc):
    """True when the exception was raised inside opticomlib (not in harness code)"""
    tb = exc.__traceback__
    while tb is not None:
        if '/opticomlib/' in tb.tb_frame.f_code.co_filename:
            return True
        tb = tb.tb_next
    return False


def call_pd(inp, p, bw_arg, include_noise, **override):
    """PD call in the call form p['call']; scalar arguments in the forms given by the lattice point"""
    from opticomlib.devices import PD
    a = {k: realise(p[k]) for k in ('r', 'T', 'R_load', 'i_dark', 'Fn')}
    a.update(override)
    form = p['call']
    if form == 'pos':          # documented positional order
        return PD(inp, bw_arg, a['r'], a['T'], a['R_load'], include_noise, a['i_dark'], a['Fn'])
    if form == 'dflt':         # every argument that equals its documented default is left out
        kw = {k: x for k, x in a.items() if k in override or isinstance(p[k], tuple) or p[k] != DEFAULTS[k]}
        if include_noise != 'all':
            kw['include_noise'] = include_noise
        return PD(inp, bw_arg, **kw)
    return PD(inp, bw_arg, r=a['r'], T=a['T'], R_load=a['R_load'], include_noise=include_noise, i_dark=a['i_dark'], Fn=a['Fn'])


def rejected(e, p):
    """a TypeError of the library for a bool / numpy-scalar FORM of a legal value: the statement is silent (accepted)"""
    return type(e) is TypeError and _from_library(e) and any(may_reject(p[a]) for a in FORM_AXES)


def shape_check(out, N, viol, where):
    from opticomlib.typing import electrical_signal
    ok = True
    if not isinstance(out, electrical_signal):
        viol.append(('out:type', f'{where}: PD returned {type(out).__name__}'))
        return False
    if not isinstance(out.signal, np.ndarray) or out.signal.shape != (N,):
        viol.append(('out:length:signal', f'{where}: out.signal shape {getattr(out.signal, "shape", None)} for N={N}'))
        ok = False
    if not isinstance(out.noise, np.ndarray) or out.noise.shape != (N,):
        viol.append(('out:length:noise', f'{where}: out.noise shape {getattr(out.noise, "shape", None)} for N={N}'))
        ok = False
    if ok and out.len() != N:
        viol.append(('out:length:len()', f'{where}: out.len()={out.len()} for N={N}'))
        ok = False
    if ok and (np.iscomplexobj(out.signal) or np.iscomplexobj(out.noise)):
        viol.append(('out:complex', f'{where}: detector voltage is complex'))
        ok = False
    if ok and not (np.isfinite(out.signal).all() and np.isfinite(out.noise).all()):
        viol.append(('out:not-finite', f'{where}: nan/inf in the output'))
        ok = False
    return ok


def match_requests(reqs, o, viol, where):
    """the SET of requests must equal the selection table.  o['expected'] = [(name, variance)].
    returns list of scales (A) per request in request order, or None when the log is malformed"""
    expected, N, sel, tol = o['expected'], o['N'], o['sel'], o['tol']['s']
    bad = False
    for q in reqs:
        if q.get('fn') != 'normal':
            viol.append((f'rng:request-kind:{sel}', f'{where}: request {q} is not numpy.random.normal'))
            bad = True
        elif q['loc'] != 0.0:
            viol.append((f'rng:request-loc:{sel}', f'{where}: request {q} has loc != 0'))
            bad = True
        elif q['size'] is None or _size_n(q['size']) != N or (isinstance(q['size'], (tuple, list)) and len(q['size']) != 1):
            viol.append((f'rng:request-size:{sel}', f'{where}: request {q} is not of size N={N}'))
            bad = True
        elif not isinstance(q['scale'], float) or not (q['scale'] >= 0):
            viol.append((f'rng:request-scale:{sel}', f'{where}: request {q} has an invalid scale (one non-negative number per '
                                                     f'call is documented; "array" = a per-sample scale, range in scale_range)'))
            bad = True
    if len(reqs) != len(expected):
        viol.append((f'rng:request-count:{sel}',
                     f'{where}: {len(reqs)} request(s) {reqs}, selection table demands {[n for n, _ in expected]}'))
        bad = True
    if bad:
        return None
    # multiset matching (order of the requests is not prescribed)
    left = list(range(len(reqs)))
    for name, var in expected:
        hit = None
        for i in left:
            got = reqs[i]['scale'] ** 2
            if abs(got - var) <= tol * max(var, got) + (o['s_floor'] if name == 'shot' else 0.0):
                hit = i
                break
        if hit is None:
            viol.append((f'rng:{name}-variance',
                         f'{where}: no request with variance {var:.17g} A^2 for the {name} term; requested variances '
                         f'{[reqs[i]["scale"] ** 2 for i in left]} (sel={sel})'))
            bad = True
        else:
            left.remove(hit)
    return None if bad else [q['scale'] for q in reqs]


def judge_zero(out, reqs, o, w, viol, errs):
    """all RNG answers were 0: deterministic oracle for the signal part, the noise part and the request log"""
    v, N, tol = o['v'], o['N'], o['tol']
    R, r = v['R_load'], v['r']
    floor = R * tol['q']
    e = float(np.abs(out.signal - o['sig_ref']).max())
    errs['signal'] = max(errs.get('signal', 0.0), e / o['sig_scale'] if o['sig_scale'] else e)
    if e > tol['f'] * o['sig_scale'] + floor:
        viol.append(('sig:square-law', f'{w}: max|out.signal - LPF(R_load*r*sum|E|^2)| = {e:.3e} '
                                       f'(scale {o["sig_scale"]:.3e}, tol {tol["f"] * o["sig_scale"] + floor:.3e})'))
    if o['cw']:
        const = r * float(o['psig'][0]) * R
        e = float(np.abs(out.signal - const).max())
        errs['cw'] = max(errs.get('cw', 0.0), e / const if const else e)
        if e > tol['cw'] * const + floor:
            viol.append(('sig:cw-constant', f'{w}: CW of power {o["psig"][0]:.6g} W gives {out.signal[[0, N // 2, -1]]}, '
                                            f'expected the constant r*P*R_load = {const:.17g} (max dev {e:.3e}, '
                                            f'tol {tol["cw"] * const + floor:.3e})'))
    e = float(np.abs(out.noise - o['noise0_ref']).max())
    errs['noise0'] = max(errs.get('noise0', 0.0), e / o['det_scale'] if o['det_scale'] else e)
    if e > tol['f'] * o['det_scale'] + floor:
        viol.append((f'noise:zero-answer:{o["sel"]}',
                     f'{w}: with all RNG answers 0, max|out.noise - LPF(R_load*(selected beating + i_dark))| = '
                     f'{e:.3e} (scale {o["det_scale"]:.3e}); out.noise[mid]={out.noise[N // 2]:.6e} '
                     f'ref[mid]={o["noise0_ref"][N // 2]:.6e}'))
    match_requests(reqs, o, viol, w)


def _h(a):
    return hashlib.sha256(np.ascontiguousarray(a).tobytes()).hexdigest()[:16]


def _suffix(viol, p):
    """integer / bool sample dtypes get their own (few) violation keys: the library does its arithmetic in the dtype of the
    field, which is one defect with many symptoms; the violated clause stays in the message"""
    if not is_int_dtype(p['dtype']):
        return viol
    return [(f"{k.replace('sweep:', '').split(':')[0]}:integer-dtype-field", f'[{k}] {m}') for k, m in viol]


# ------------------------------------------------------------------ part main
def case_main(case):
    pt, sel, lc, seed = case
    p = dict(zip(AXN, pt))
    N = p['N']
    fs = set_grid(p['fs'], p['grid'])
    bw_arg, bw = bw_of(p['BW'], fs)
    BW = bw * fs
    sig, noi, n_pol = build_arrays(pt, seed)
    name = letter_case(sel, lc)
    where = f'pt={p} sel={name!r}'
    viol, obs, stats = [], [], {'pd_calls': 0, 'rng_requests': 0, 'answer_combos': 0, 'forms_rejected': 0}
    errs = {}

    o = oracle(make_input(sig, noi, n_pol), p, fs, bw, sel)
    R = o['v']['R_load']
    tol = o['tol']

    base = None
    for combo in itertools.product(range(len(ANSWERS)), repeat=len(o['expected'])):
        inp = make_input(sig, noi, n_pol)
        script = make_script(combo)
        try:
            with scripted_rng(script):
                out = call_pd(inp, p, bw_arg, name)
        except (ValueError, TypeError) as e:
            if not _from_library(e):
                raise
            if rejected(e, p):
                stats['forms_rejected'] += 1
                obs.append(('REJECTED', combo, str(e)[:60]))
                break
            viol.append((f'valid-arguments-rejected:{lc}', f'{where}: {type(e).__name__}: {e}'))
            obs.append(('EXC', combo, type(e).__name__))
            continue
        stats['pd_calls'] += 1
        stats['answer_combos'] += 1
        stats['rng_requests'] += len(script.requests)
        w = f'{where} answers={[ANSWERS[a] for a in combo]}'
        if not shape_check(out, N, viol, w):
            obs.append(('BADSHAPE', combo))
            continue
        reqs = script.requests
        obs.append((combo, _h(out.signal), _h(out.noise),
                    tuple((q.get('fn'), q.get('loc'), q.get('scale'), repr(q.get('size'))) for q in reqs)))
        if base is None:
            # ---- zero answers: deterministic oracle
            base = (out.signal.copy(), out.noise.copy(), [dict(q) for q in reqs])
            judge_zero(out, reqs, o, w, viol, errs)
            continue
        # ---- non-zero answers: deterministic signal, same requests, unit-gain linear entry
        b_sig, b_noise, b_reqs = base
        if not np.array_equal(out.signal, b_sig):
            viol.append(('sig:not-deterministic', f'{w}: out.signal changes with the RNG answers '
                                                  f'(max diff {np.abs(out.signal - b_sig).max():.3e})'))
        if [dict(q) for q in reqs] != b_reqs:
            viol.append((f'rng:requests-depend-on-answers:{sel}', f'{w}: request log {reqs} differs from {b_reqs}'))
            continue
        if any(q.get('fn') != 'normal' or q['size'] is None or _size_n(q['size']) != N or not isinstance(q['scale'], float) for q in reqs):
            continue  # already reported by match_requests on the zero-answer run (incl. a per-sample, array-valued scale)
        z = np.zeros(N)
        for i, q in enumerate(reqs):
            aid = combo[i] if i < len(combo) else 0
            z = z + pattern(aid, N) * q['scale']
        want = lpf_ref(R * z, BW, fs)
        got = out.noise - b_noise
        zs = R * float(np.abs(z).max())
        scale = o['det_scale'] + zs
        e = float(np.abs(got - want).max())
        errs['gain'] = max(errs.get('gain', 0.0), e / scale if scale else e)
        if e > tol['f'] * scale + R * tol['q']:
            viol.append((f'noise:rng-gain:{sel}',
                         f'{w}: out.noise - out.noise|0 differs from LPF(R_load*z) by {e:.3e} (scale {scale:.3e}); '
                         f'the random terms do not enter linearly with unit gain'))
    return res(viol=_suffix(viol, p), obs=tuple(obs), nontrivial=o['nontrivial'] and base is not None, stats=stats,
               payload={'errs': errs, 'cls': precision_class(p), 'requests': base[2] if base else None})


# ------------------------------------------------------------------ part inv
GROUP = [('gphase', 'j'), ('gphase', 0.7), ('sphase', 'seeded'),
         ('pol', 'swap'), ('pol', 'rot45'), ('pol', 'circ'), ('pol', 'su2'),
         ('scale', 'r', 0.3), ('scale', 'R_load', 3.0), ('scale', 'amp', 1.7)]


def unitary(kind, seed):
    s = math.sqrt(0.5)
    if kind == 'swap':
        return np.array([[0, 1], [1, 0]], complex)
    if kind == 'rot45':
        return np.array([[s, -s], [s, s]], complex)
    if kind == 'circ':
        return np.array([[s, 1j * s], [1j * s, s]], complex)
    g = _rs(seed, 'su2').randn(4)
    g = g / np.linalg.norm(g)
    a, b = g[0] + 1j * g[1], g[2] + 1j * g[3]
    return np.array([[a, -np.conj(b)], [b, np.conj(a)]], complex)


def transform(inp, el, seed):
    """apply a group element to the stored arrays of `inp` (in complex128); returns constructor arrays (sig, noise)"""
    S = np.asarray(inp.signal).astype(complex)
    Z = None if inp.noise is None else np.asarray(inp.noise).astype(complex)
    N = S.shape[-1]
    if el[0] == 'gphase':
        ph = 1j if el[1] == 'j' else np.exp(1j * el[1])
        return S * ph, None if Z is None else Z * ph
    if el[0] == 'sphase':
        ph = np.exp(2j * np.pi * _rs(seed, 'sphase', N).rand(N))
        return S * ph, None if Z is None else Z * ph
    if el[0] == 'pol':
        U = unitary(el[1], seed)
        S2 = np.vstack([S, np.zeros(N, complex)]) if S.ndim == 1 else S
        Z2 = None if Z is None else (np.vstack([Z, np.zeros(N, complex)]) if Z.ndim == 1 else Z)
        return U @ S2, None if Z2 is None else U @ Z2
    if el[0] == 'scale' and el[1] == 'amp':
        return S * el[2], None if Z is None else Z * el[2]
    return S.copy(), None if Z is None else Z.copy()


def case_inv(case):
    pt, seed = case
    from opticomlib.typing import optical_signal
    p = dict(zip(AXN, pt))
    N = p['N']
    fs = set_grid(p['fs'], p['grid'])
    bw_arg, bw = bw_of(p['BW'], fs)
    tol = tolerances(p, bw)
    sig, noi, n_pol = build_arrays(pt, seed)
    viol, obs, errs = [], [], {}
    stats = {'pd_calls': 0, 'group_elements': 0, 'forms_rejected': 0}
    base_in = make_input(sig, noi, n_pol)
    psig, beat, psm, pnm, bmag = terms(base_in)
    v = values(p)
    R, r = v['R_load'], v['r']
    floor = R * tol['q']
    sig_scale = R * r * float(psig.max())
    for sel in SELECTIONS:
        want_beat = SEL_TABLE[sel][0]
        det_scale = R * (r * bmag * (1 if want_beat else 0) + v['i_dark'])
        s0 = RNG()
        try:
            with scripted_rng(s0):
                o0 = call_pd(make_input(sig, noi, n_pol), p, bw_arg, sel)
        except TypeError as e:
            if not rejected(e, p):
                raise
            stats['forms_rejected'] += 1
            obs.append((sel, 'REJECTED'))
            continue
        stats['pd_calls'] += 1
        if not shape_check(o0, N, viol, f'pt={p} sel={sel}'):
            continue
        obs.append((sel, _h(o0.signal), _h(o0.noise)))
        for el in GROUP:
            tS, tZ = transform(base_in, el, seed)
            over = {}
            fsig = fnoise = 1.0
            if el[0] == 'scale':
                if el[1] in ('r', 'R_load'):
                    over[el[1]] = v[el[1]] * el[2]          # the scaled value is passed as a plain float
                    fsig = el[2]
                    fnoise = el[2] if el[1] == 'R_load' else None   # the noise part is affine, not linear, in r
                else:
                    fsig = el[2] ** 2
                    fnoise = None
            s1 = RNG()
            with scripted_rng(s1):
                o1 = call_pd(optical_signal(tS, tZ), p, bw_arg, sel, **over)
            stats['pd_calls'] += 1
            stats['group_elements'] += 1
            w = f'pt={p} sel={sel} element={el}'
            if not shape_check(o1, N, viol, w):
                continue
            tag = el[0] if el[0] != 'scale' else f'scale-{el[1]}'
            e = float(np.abs(o1.signal - fsig * o0.signal).max())
            sc = sig_scale * max(fsig, 1.0)
            errs[tag] = max(errs.get(tag, 0.0), e / sc if sc else e)
            if e > tol['f'] * sc + floor * max(fsig, 1.0):
                law = {'r': 'linear in r', 'R_load': 'linear in R_load', 'amp': 'quadratic in the field amplitude'}.get(
                    el[1] if el[0] == 'scale' else '', 'invariant')
                viol.append((f'sig:{tag}:{el[1]}' if el[0] != 'scale' else f'sig:{tag}',
                             f'{w}: signal part is not {law}: max dev {e:.3e} (scale {sc:.3e})'))
            if fnoise is not None:
                e = float(np.abs(o1.noise - fnoise * o0.noise).max())
                sc = det_scale * max(fnoise, 1.0)
                errs['noise-' + tag] = max(errs.get('noise-' + tag, 0.0), e / sc if sc else e)
                if e > tol['f'] * sc + floor * max(fnoise, 1.0):
                    viol.append((f'noise:{tag}:{el[1]}:{sel}',
                                 f'{w}: zero-answer noise part changes by {e:.3e} (scale {sc:.3e})'))
            if el[0] != 'scale':
                a = [(x.get('fn'), x.get('loc'), repr(x.get('size'))) for x in s0.requests]
                b = [(x.get('fn'), x.get('loc'), repr(x.get('size'))) for x in s1.requests]
                if a != b:
                    viol.append((f'rng:requests-not-invariant:{tag}', f'{w}: {s0.requests} vs {s1.requests}'))
                else:
                    for x, y in zip(s0.requests, s1.requests):
                        if not isinstance(x['scale'], float) or not isinstance(y['scale'], float):
                            continue        # a per-sample scale: reported by part main
                        s_floor = 2 * QE * (fs / 2) * 4 * DT_EPS.get(p['dtype'], (0, 0))[1]
                        if abs(x['scale'] ** 2 - y['scale'] ** 2) > tol['s'] * max(x['scale'] ** 2, y['scale'] ** 2) + s_floor:
                            viol.append((f'rng:variance-not-invariant:{tag}',
                                         f'{w}: requested variance {x["scale"] ** 2:.17g} -> {y["scale"] ** 2:.17g}'))
    return res(viol=_suffix(viol, p), obs=tuple(obs), nontrivial=bool(psig.max() > 0), stats=stats,
               payload={'errs': errs, 'cls': precision_class(p)})


# ------------------------------------------------------------------ part case: every letter case
CASE_POINT = dict(RICH, N=32, call='kw', grid='sps,R')
CASE_CHUNK = 128


def spelling(sel, mask):
    """bit i of mask set -> i-th LETTER of sel in upper case"""
    out, i = [], 0
    for c in sel:
        if c.isalpha():
            out.append(c.upper() if mask >> i & 1 else c)
            i += 1
        else:
            out.append(c)
    return ''.join(out)


def case_case(case):
    sel, lo, hi, seed = case
    p = dict(CASE_POINT)
    pt = tuple(p[a] for a in AXN)
    fs = set_grid(p['fs'], p['grid'])
    bw_arg, bw = bw_of(p['BW'], fs)
    tol = tolerances(p, bw)
    sig, noi, n_pol = build_arrays(pt, seed)
    combo = (2, 3)            # non-zero answers: every selected term is visible in the output

    def run(name):
        s = make_script(combo)
        with scripted_rng(s):
            out = call_pd(make_input(sig, noi, n_pol), p, bw_arg, name)
        return out, [dict(q) for q in s.requests]

    ref, ref_reqs = run(sel)
    scale = float(np.abs(ref.noise).max()) + float(np.abs(ref.signal).max())
    viol, hashes = [], hashlib.sha256()
    for mask in range(lo, hi):
        name = spelling(sel, mask)
        try:
            out, reqs = run(name)
        except (ValueError, TypeError) as e:
            if not _from_library(e):
                raise
            viol.append((f'valid-arguments-rejected:letter-case:{sel}', f'include_noise={name!r}: {type(e).__name__}: {e}'))
            hashes.update(b'EXC')
            continue
        hashes.update(_h(out.signal).encode() + _h(out.noise).encode())
        if not shape_check(out, p['N'], viol, f'include_noise={name!r}'):
            continue
        e = max(float(np.abs(out.signal - ref.signal).max()), float(np.abs(out.noise - ref.noise).max()))
        if reqs != ref_reqs or e > tol['f'] * scale:
            viol.append((f'case:differs-from-lowercase:{sel}',
                         f'include_noise={name!r} behaves differently from {sel!r}: max output difference {e:.3e} '
                         f'(scale {scale:.3e}), requests {reqs} vs {ref_reqs}'))
    return res(viol=viol, obs=(sel, lo, hi, hashes.hexdigest()), nontrivial=(sel, lo), stats={'pd_calls': hi - lo + 1, 'spellings': hi - lo})


def case_cases(seed):
    out = []
    for sel in SELECTIONS:
        n = 1 << sum(c.isalpha() for c in sel)
        out += [(sel, lo, min(lo + CASE_CHUNK, n), seed) for lo in range(0, n, CASE_CHUNK)]
    return out


# ------------------------------------------------------------------ part sweep: one shared, write-protected input object
def sweep_steps(p):
    """sequence of (overrides, selection, factor on the sampling rate); the detector bandwidth stays the same number of Hz"""
    steps = [({}, 'all', 1.0)]
    steps += [({'r': x}, 'all', 1.0) for x in CORE['r'] if x != p['r']]
    steps += [({'R_load': x}, 'all', 1.0) for x in CORE['R_load'] if x != p['R_load']]
    steps += [({}, s, 1.0) for s in SELECTIONS[:-1]]
    steps += [({}, 'all', 2.0), ({}, 'all', 1.0), ({}, 'ase-shot', 5.0), ({}, 'all', 1.0)]   # grid reconfigured in between
    return steps


def case_sweep(case):
    pt, seed = case
    p = dict(zip(AXN, pt))
    N = p['N']
    fs0 = set_grid(p['fs'], p['grid'])
    bw_arg, bw0 = bw_of(p['BW'], fs0)
    sig, noi, n_pol = build_arrays(pt, seed)
    inp = make_input(sig, noi, n_pol)          # THE shared object
    snap = freeze(inp)
    viol, obs, errs, first = [], [], {}, None
    stats = {'pd_calls': 0, 'sweep_steps': 0}
    fx_now = 1.0
    for i, (over, sel, fx) in enumerate(sweep_steps(p)):
        if fx != fx_now:
            fs = set_grid(p['fs'] * fx, 'sps,R', clean=False)      # reconfiguration on top of the grid in force
            fx_now = fx
        else:
            fs = fs0 * fx
        q = dict(p, **over)
        o = oracle(inp, q, fs, float(bw_arg) / fs, sel)
        s = RNG()
        with scripted_rng(s):
            out = call_pd(inp, q, bw_arg, sel)
        stats['pd_calls'] += 1
        stats['sweep_steps'] += 1
        w = f'pt={p} shared input, step {i}: {over} sel={sel} fs x{fx:g}'
        if not shape_check(out, N, viol, w):
            continue
        obs.append((i, _h(out.signal), _h(out.noise)))
        judge_zero(out, s.requests, o, w, viol, errs)
        if not unchanged(inp, snap):
            viol.append(('sweep:input-modified', f'{w}: the input object differs byte-wise after the call'))
            break
        if first is None:
            first = (out.signal.copy(), out.noise.copy())
    if first is not None and viol == []:
        if not (np.array_equal(out.signal, first[0]) and np.array_equal(out.noise, first[1])):
            viol.append(('sweep:not-repeatable', f'pt={p}: the last call repeats the first one on the same object and grid but the '
                                                 f'output differs by {np.abs(out.signal - first[0]).max():.3e} / {np.abs(out.noise - first[1]).max():.3e}'))
    viol = [(k if k.startswith('sweep:') else 'sweep:' + k, m) for k, m in viol]
    psig = terms(inp)[0]
    return res(viol=_suffix(viol, p), obs=tuple(obs), nontrivial=bool(psig.max() > 0), stats=stats,
               payload={'errs': errs, 'cls': precision_class(p)})


# ------------------------------------------------------------------ part exc
V, T_, VT = (ValueError,), (TypeError,), (ValueError, TypeError)
_next_up = float(np.nextafter(1.0, 2.0))
INVALID = [
    # r outside (0, 1]: both limits exactly, one ulp / one unit outside
    ('r', 0, V), ('r', 0.0, V), ('r', -0.0, V), ('r', -1, V), ('r', -5e-324, V), ('r', 1.5, V), ('r', _next_up, V), ('r', 2, V),
    ('r', float('inf'), V), ('r', float('-inf'), V),
    ('r', F('bool', False), VT), ('r', F('np.float64', 1.5), VT), ('r', F('np.float64', 0.0), VT), ('r', F('np.float32', 1.5), VT),
    ('r', F('np.int64', 2), VT), ('r', F('np.int64', 0), VT), ('r', F('0-d', 1.5), VT),
    ('r', '1', T_), ('r', None, T_), ('r', F('list', [0.5]), T_), ('r', F('tuple', (0.5,)), T_), ('r', F('array', [0.5]), T_),
    ('r', F('array', [0.5, 0.5]), T_), ('r', b'1', T_), ('r', F('dict', {}), T_),
    # T < 0
    ('T', -1, V), ('T', -1e-300, V), ('T', -5e-324, V), ('T', float('-inf'), V), ('T', -300.0, V),
    ('T', F('np.float64', -1.0), VT), ('T', F('np.int64', -1), VT), ('T', F('np.float32', -1.0), VT),
    ('T', 'x', T_), ('T', '300', T_), ('T', None, T_), ('T', F('list', [300.0]), T_), ('T', F('tuple', (300.0,)), T_),
    ('T', F('array', [300.0]), T_), ('T', F('array', [300.0, 77.0]), T_),
    # R_load < 0
    ('R_load', -50, V), ('R_load', -1e-300, V), ('R_load', -5e-324, V), ('R_load', float('-inf'), V), ('R_load', -50.0, V),
    ('R_load', F('np.float64', -50.0), VT), ('R_load', F('np.int64', -50), VT),
    ('R_load', F('list', [50]), T_), ('R_load', '50', T_), ('R_load', None, T_), ('R_load', F('tuple', (50.0,)), T_),
    ('R_load', F('array', [50.0]), T_), ('R_load', F('array', [50.0, 50.0]), T_),
    # include_noise: strings that are not one of the seven options - unknown words, fragments, strings that CONTAIN valid
    # tokens / options, wrong order, wrong separators, surrounding whitespace - in lower and upper case
    ('include_noise', 'foo', V), ('include_noise', 'ase-foo', V), ('include_noise', 'thermal-foo', V), ('include_noise', '', V),
    ('include_noise', 'ase', V), ('include_noise', 'thermal', V), ('include_noise', 'shot', V), ('include_noise', 'only', V),
    ('include_noise', 'none', V), ('include_noise', 'noise', V), ('include_noise', '-', V), ('include_noise', 'al', V),
    ('include_noise', 'all-', V), ('include_noise', '-all', V), ('include_noise', 'alll', V), ('include_noise', 'overall', V),
    ('include_noise', 'all-noise', V), ('include_noise', 'all-only', V), ('include_noise', 'all-all', V),
    ('include_noise', 'ase-only ', V), ('include_noise', ' ase-only', V), ('include_noise', 'all ', V), ('include_noise', ' all', V),
    ('include_noise', 'all\n', V), ('include_noise', 'ase only', V), ('include_noise', 'ase_only', V), ('include_noise', 'aseonly', V),
    ('include_noise', 'ase--only', V), ('include_noise', 'ase-only-', V), ('include_noise', 'ase\u2011only', V),
    ('include_noise', 'shot-thermal', V), ('include_noise', 'shot-ase', V), ('include_noise', 'thermal-ase', V),
    ('include_noise', 'ase-thermal-shot', V), ('include_noise', 'ase-shot-thermal', V), ('include_noise', 'ase-ase', V),
    ('include_noise', 'ase-only,all', V), ('include_noise', 'phase-only', V), ('include_noise', 'no-shot', V),
    ('include_noise', 'thermal-only-shot', V), ('include_noise', 'ASE', V), ('include_noise', 'SHOT-THERMAL', V),
    ('include_noise', 'Overall', V), ('include_noise', 'ALL-NOISE', V), ('include_noise', 'ASE-ONLY ', V),
    ('include_noise', True, T_), ('include_noise', None, T_), ('include_noise', 0, T_), ('include_noise', F('list', ['all']), T_),
    ('include_noise', F('tuple', ('all',)), T_), ('include_noise', b'all', T_), ('include_noise', F('array', ['all']), T_),
    ('include_noise', F('set', ['all']), T_),
]
FORMS.update({'list': list, 'tuple': tuple, 'array': np.array, 'dict': dict, 'set': set})


def case_exc(case):
    pt, idx, sel, seed = case
    from opticomlib.devices import PD
    p = dict(zip(AXN, pt))
    fs = set_grid(p['fs'], p['grid'])
    sig, noi, n_pol = build_arrays(pt, seed)
    param, spec, allowed = INVALID[idx]
    value = realise(spec)
    shown = f'{spec[0]}({spec[1]!r})' if isinstance(spec, tuple) else repr(spec)
    kw = dict(r=p['r'], T=p['T'], R_load=p['R_load'], include_noise=sel, i_dark=p['i_dark'], Fn=p['Fn'])
    kw[param] = value
    inp = make_input(sig, noi, n_pol)
    got = None
    with scripted_rng(RNG()):
        try:
            PD(inp, p['BW'] * fs, **kw)
        except Exception as e:  # the documented errors are the subject of this part
            got = e
    viol = []
    names = '/'.join(t.__name__ for t in allowed)
    if got is None:
        viol.append((f'exc:{param}={shown}:no-error', f'pt={p}: PD(..., {param}={shown}) returned instead of raising {names}'))
    elif type(got) not in allowed:
        viol.append((f'exc:{param}={shown}:{type(got).__name__}',
                     f'pt={p}: PD(..., {param}={shown}) raised {type(got).__name__}({got}) instead of the documented {names}'))
    return res(viol=viol, obs=(param, shown, type(got).__name__, str(got)[:80]), nontrivial=(param, shown),
               stats={'pd_calls': 1})


# ------------------------------------------------------------------ independent frequency response (NEB)
def _bessel4_mag(W):
    """|H0(jW)| of the delay-normalised order-4 Bessel low-pass 105/theta_4(s)"""
    s = 1j * np.asarray(W, dtype=float)
    return np.abs(105.0 / ((((s + 10.0) * s + 45.0) * s + 105.0) * s + 105.0))


@functools.lru_cache(maxsize=1)
def _bessel4_c():
    """frequency scaling c with |H0(jc)|^2 = 1/2 ('mag' normalisation), by bisection"""
    lo, hi = 0.1, 10.0
    for _ in range(200):
        mid = 0.5 * (lo + hi)
        if _bessel4_mag(mid) ** 2 > 0.5:
            lo = mid
        else:
            hi = mid
    return 0.5 * (lo + hi)


def h_closed(w, bw_frac):
    """|H(e^{jw})| of the bilinear-transformed (pre-warped) order-4 'mag' Bessel with cutoff bw_frac*fs;
    written from the Bessel polynomial, does not use scipy"""
    W = np.tan(np.asarray(w, dtype=float) / 2) / math.tan(math.pi * bw_frac)
    return _bessel4_mag(_bessel4_c() * np.abs(W))


@functools.lru_cache(maxsize=32)
def neb(bw_frac):
    """rho4 = mean over the unit circle of |H|^4 (variance gain of the forward-backward filter for white noise),
    rho8 = mean |H|^8 (for the variance of the sample variance)"""
    M = 1 << 16
    w = (np.arange(M) + 0.5) * 2 * np.pi / M     # midpoint rule, avoids w = pi exactly
    h2 = h_closed(w, bw_frac) ** 2
    return float(np.mean(h2 ** 2)), float(np.mean(h2 ** 4))


def reference_selfcheck():
    """binds the scipy-designed reference filter to the closed form; returns max abs deviation of |H|"""
    worst = 0.0
    for frac in sorted({x if not isinstance(x, tuple) else x[1] for x in CORE['BW'] + EDGE['BW']}):
        sos = _ref_sos(frac, 1.0)
        w = np.linspace(0, np.pi, 513)[:-1]
        z = np.exp(-1j * w)
        H = np.ones_like(z)
        for b0, b1, b2, a0, a1, a2 in sos:
            H = H * (b0 + b1 * z + b2 * z * z) / (a0 + a1 * z + a2 * z * z)
        worst = max(worst, float(np.abs(np.abs(H) - h_closed(w, frac)).max()))
    return worst


# ------------------------------------------------------------------ part conf
CONF_N = 1 << 18
CONF_EDGE = 1024
CONF_CFG = [
    {}, {'BW': 0.05}, {'BW': 0.49}, {'r': 0.5}, {'R_load': 1e4}, {'T': 77.0}, {'Fn': 3}, {'i_dark': 1e-6},
    {'fs': 80e9}, {'layout': 'xy', 'onoise': 'small', 'r': 0.5},
    {'BW': 0.01}, {'grid': 'R,fs~', 'call': 'pos'},
]
CONF_SEL = ['thermal-only', 'shot-only', 'thermal-shot', 'ase-thermal', 'ase-shot', 'all']


def case_conf(case):
    cfg, sel, seed = case
    p = dict(SIMPLE)
    p.update(cfg)
    p['N'] = CONF_N
    pt = tuple(p[a] for a in AXN)
    fs = set_grid(p['fs'], p['grid'])
    bw_arg, bw = bw_of(p['BW'], fs)
    BW = bw * fs
    sig, noi, n_pol = build_arrays(pt, seed)
    inp = make_input(sig, noi, n_pol)
    psig, beat, psm, pnm, bmag = terms(inp)
    want_beat, want_T, want_N = SEL_TABLE[sel]
    v = values(p)
    s_t, s_n = variances(v, fs, psm, pnm)
    R, r = v['R_load'], v['r']
    var_w = ((s_t if want_T else 0.0) + (s_n if want_N else 0.0)) * R * R     # V^2 before the filter
    rho4, rho8 = neb(bw)
    np.random.seed(seed % (2 ** 32))
    out = call_pd(inp, p, bw_arg, sel)
    viol = []
    w = f'cfg={cfg} sel={sel} seed={seed}'
    if not shape_check(out, CONF_N, viol, w):
        return res(viol=viol, obs='BADSHAPE')
    det = lpf_ref(R * ((r * beat if want_beat else 0.0) + v['i_dark']) + np.zeros(CONF_N), BW, fs)
    y = (out.noise - det)[CONF_EDGE:-CONF_EDGE]
    M = y.size
    mean, var = float(y.mean()), float(y.var())
    e_var = var_w * (rho4 - 1.0 / M)                 # E[S]: the sample mean removes G(0)^2 var_w / M
    sd_var = var_w * math.sqrt(2.0 * rho8 / M)       # Var[S] = (2/M) sum_k c[k]^2 = (2/M) var_w^2 mean|H|^8
    sd_mean = math.sqrt(var_w / M)                   # Var[mean] = sum_k c[k] / M = var_w G(0)^2 / M
    zv = (var - e_var) / sd_var
    zm = mean / sd_mean
    if abs(zv) > 6:
        viol.append((f'conf:variance:{sel}', f'{w}: sample variance {var:.6e} V^2 vs (documented variance)*R_load^2*NEB = '
                                             f'{e_var:.6e} V^2: {zv:+.1f} sigma (sigma {sd_var:.3e})'))
    if abs(zm) > 6:
        viol.append((f'conf:mean:{sel}', f'{w}: sample mean of the random part {mean:.3e} V = {zm:+.1f} sigma'))
    if float(np.abs(out.signal - lpf_ref(R * r * psig, BW, fs)).max()) > TOL_F * R * r * float(psig.max()):
        viol.append(('conf:signal', f'{w}: signal part differs from LPF(R_load*r*sum|E|^2) under the real RNG'))
    return res(viol=viol, obs=(_h(out.signal), _h(out.noise)), nontrivial=True, stats={'pd_calls': 1},
               payload={'zv': zv, 'zm': zm})


# ------------------------------------------------------------------ driver
def _merge_errs(ctx, name, payloads):
    agg = {}
    for pl in payloads:
        if not pl:
            continue
        for k, v in pl.get('errs', {}).items():
            a = agg.setdefault(pl.get('cls', 'double'), {})
            a[k] = max(a.get(k, 0.0), v)
    out = {c: {k: float(f'{v:.3e}') for k, v in sorted(a.items())} for c, a in sorted(agg.items())}
    ctx.extra.setdefault('max_relative_error_observed', {})[name] = out
    for c, a in out.items():
        print(f'[C09] {name}: max relative errors, {c}-precision samples/scalars: {a}', flush=True)


def letter_cases_for(depth, i):
    """all three letter cases near the centres (<= 1 deviation), one rotating letter case further out;
    part `case` enumerates EVERY spelling at one point"""
    return LETTER_CASES if depth <= 1 else [LETTER_CASES[i % 3]]


def run(ctx):
    seed = int(ctx.seed)
    k_simple, k_rich, e_simple, e_rich = (2, 1, 0, 0) if ctx.quick else (3, 2, 1, 0)
    lat = lattice(k_simple, k_rich, e_simple, e_rich)
    pts = [p for p, _ in lat]
    n_edge = sum(len(e) for _, _, e in AXES)
    ctx.space('lattice.points', len(pts))
    ctx.space('axes', len(AXES))
    ctx.space('axes.edge_values', n_edge)
    ctx.rule(f'C09: deviation lattice over {len(AXES)} axes (core values {[(a, len(c)) for a, c, _ in AXES]}, edge values '
             f'{[(a, len(e)) for a, _, e in AXES]}): every point differing from the simplest baseline in <= {k_simple} axes by '
             f'core values, every edge value (dtypes, scalar forms, limits, lengths 17..33, BW/fs down to 1e-4, grid histories, '
             f'call forms, amplitude scales) with <= {e_simple} further core deviation(s), the same around the richest centre '
             f'{RICH} with <= {k_rich} / {e_rich} ({len(pts)} points); x all 7 include_noise selections x letter cases '
             f'{LETTER_CASES} (all three within one deviation of a centre, one rotating further out) '
             f'x EVERY combination of scripted answers {ANSWERS} to each numpy.random.normal request (4^requests); '
             f'invariance group {GROUP} over the lattice; ALL 2^n upper/lower spellings of the 7 selections; parameter / '
             f'selection / sampling-rate sweeps on one shared write-protected input; {len(INVALID)} invalid values over the '
             f'k<=1 core lattice; real-RNG conformance on 2^18-sample CW records, seeds {{seed, seed+1, seed+2}}')
    ctx.assume('numpy.random.normal(0, s, n) returns n independent N(0, s^2) draws (the scripted RNG decides which draws are '
               'requested and how they enter; the real-RNG runs only bind the script to the real generator)')
    ctx.assume('the reference zero-phase filter shares scipy.signal.bessel/sosfiltfilt with the implementation; its frequency '
               'response is bound to the Bessel polynomial closed form (self-check) and filter-independent facts are checked '
               'separately (CW constant, invariances, scaling laws); LPF itself is the subject of C11')
    ctx.assume('kB = 1.380649e-23 J/K and e = 1.602176634e-19 C (exact SI values)')
    ctx.assume('bool and numpy-scalar FORMS of legal r/T/R_load/BW/i_dark/Fn values: the statement is silent, the library may '
               'reject them with its documented TypeError or must treat them as the number (Python int/float must be accepted)')

    dev = reference_selfcheck()
    ctx.extra['reference_filter_vs_closed_form'] = float(f'{dev:.3e}')
    if dev > 1e-9:
        raise AssertionError(f'reference filter deviates from the Bessel closed form by {dev}')

    # ---- main
    cases = [(pt, sel, lc, seed) for i, (pt, d) in enumerate(lat) for j, sel in enumerate(SELECTIONS)
             for lc in letter_cases_for(d, i + j)]
    pl = ctx.pmap('main', case_main, cases, horizon=30)
    _merge_errs(ctx, 'main', pl)
    logs = [p_['requests'] for p_ in pl[:21] if p_ and p_.get('requests') is not None]
    ctx.extra['request_log_baseline'] = [{'selection': c[1], 'case': c[2], 'requests': l}
                                         for c, l in zip(cases[:21], logs)][:21]

    # ---- invariances and scaling laws
    pl = ctx.pmap('inv', case_inv, [(pt, seed) for pt in pts], horizon=60)
    _merge_errs(ctx, 'inv', pl)

    # ---- every letter case
    ctx.pmap('case', case_case, case_cases(seed), horizon=60)

    # ---- sweeps on one shared input object: k<=1 core lattice around both centres + the object-related edge values
    spts = [p for p, _ in lattice(1, 1)]
    spts += [tuple(dict(SIMPLE, **{a: e})[x] for x in AXN) for a in ('layout', 'onoise', 'dtype', 'kind') for e in EDGE[a]]
    pl = ctx.pmap('sweep', case_sweep, [(pt, seed) for pt in spts], horizon=60)
    _merge_errs(ctx, 'sweep', pl)

    # ---- documented exceptions over the k<=1 lattice, under every selection at the baseline
    epts = [p for p, _ in lattice(1, 0)]
    ecases = [(pt, i, 'all', seed) for pt in epts for i in range(len(INVALID))]
    ecases += [(epts[0], i, sel, seed) for sel in SELECTIONS[:-1] for i in range(len(INVALID)) if INVALID[i][0] != 'include_noise']
    ctx.pmap('exc', case_exc, ecases, horizon=20)

    # ---- real-RNG conformance
    ccases = [(cfg, sel, seed + d) for cfg in CONF_CFG for sel in CONF_SEL for d in (0, 1, 2)]
    pl = ctx.pmap('conf', case_conf, ccases, horizon=120, chunk=1)
    zs = [abs(p_['zv']) for p_ in pl if p_]
    zm = [abs(p_['zm']) for p_ in pl if p_]
    if zs:
        ctx.extra['conformance'] = {'runs': len(zs), 'max_abs_z_variance': round(max(zs), 2), 'max_abs_z_mean': round(max(zm), 2),
                                    'rms_z_variance': round(float(np.sqrt(np.mean(np.square(zs)))), 2)}
        print(f'[C09] conformance: {ctx.extra["conformance"]}', flush=True)
