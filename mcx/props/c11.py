"""C11 - LPF/BPF are linear zero-phase filters with unit DC gain and -6 dB at the cutoff.

Bounded-exhaustive *basis* enumeration: for every configuration (device, order, cutoff, fs,
where fs comes from, record length N) the real filter is applied to EVERY unit impulse e_k,
which yields the complete operator matrix M of that configuration.  The same basis is then
pushed through every other entry point of the block (integer / scaled ndarray, containers,
the noise component, each polarisation row, retH mode) and every response has to be the
corresponding column of M.  Superposition, constants, length, zero phase (2049-sample record),
the tone ladder (4096-sample record) and the retH clause are separate parts.

Parts
  operator : case = (cfg, N, kind, seed)        N in {17 (orders<=4), 28, 64, 257}
  zerophase: case = (cfg, kind)                 N = 2049
  tone     : case = (cfg, kind)                 N = 4096
  retH     : case = (cfg, N, container)         N in {28, 64, 257, 4096}   (LPF only)
cfg = (dev, order, cutoff/fs, fs, src) ; src='gv' (fs taken from gv.fs) or 'arg' (LPF(fs=...),
gv deliberately left at the OTHER rate).
"""
from __future__ import annotations

import hashlib
import os
from math import factorial

import numpy as np

from mcx.core.kernel import res
from mcx.core.env import gv_reset

ID = 'C11'
LEVEL = 'exploration'
NONTRIVIAL = ('a case is non-trivial when the operator of its configuration differs from the identity by more than 1e-3 '
              '(the filter really filters) and the case exercises one entry point (container kind / noise / polarisation '
              'row / coefficient pair / tone ladder) of one configuration; tags are (cfg, N, kind)')

CUTS = (0.01, 0.05, 0.1, 0.25, 0.45)
RATES = {16e9: dict(sps=16, R=1e9), 160e9: dict(sps=16, R=10e9)}
N_OP = (28, 64, 257)          # 28 = shortest record every order 1..8 accepts (sosfiltfilt padlen is 3*(order+1): 27 for order 8)
N_SHORT = 17                  # "longer than the 16-sample edge padding": accepted by orders 1..4 only (scipy refuses it for orders >= 5)
N_SYM = 2049
N_TONE = 4096
N_RETH = (28, 64, 257, 4096)

# ---- tolerances (see notes/C11.md for the justification of each)
TOL_LIN = 1e-10      # relative to max|M| ; measured <= 5e-14 (recursion rounding at cutoff 0.01 fs, order 8)
TOL_CONST = 1e-12    # relative to |constant| ; DC-gain cancellation bound ~ 8 passes * eps/(2 pi fc/fs)^2 = 4.5e-13 ; measured <= 4.6e-14
TOL_SYM = 1e-10      # of the peak ; measured 1.2e-14
TOL_FLAT = 1e-9      # stationarity / phase / monotonic slack / gain<=1 slack, absolute for a unit tone ; measured <= 8.1e-13
BAND_DB = 0.1        # "attenuated by 6.0 dB" -> 6.0 +- 0.1 (exact value 6.0206 ; grid-nearest tone deviates <= 0.035 dB)
TOL_RETH_CF = 1e-6   # closed-form Bessel vs retH: scipy finds the -3 dB normalisation with optimize.newton(tol=1.48e-8), slope |dH/dln w| <= n
TOL_RETH_SP = 1e-9   # same scipy design, zpk evaluation path instead of sos ; measured <= 1e-13
TOL_RETH_2P = 1e-3   # |retH|^2 against the measured two-pass tone gain (band from DESIGN)


# --------------------------------------------------------------------------- seams
def _install_memo():
    """scipy.signal.bessel is a pure function of its arguments and costs 2-6 ms, ten times the filtering of a short
    record.  The library redesigns the filter on every call; the harness memoises the design (per worker process) so
    that complete bases are affordable.  MCX_C11_NOMEMO=1 switches the memo off (same digests, ~7x slower)."""
    import scipy.signal as sg
    if os.environ.get('MCX_C11_NOMEMO') or getattr(sg.bessel, '_c11_memo', False):
        return
    orig = sg.bessel
    cache = {}

    def bessel(N, Wn, btype='low', analog=False, output='ba', norm='phase', fs=None):
        try:
            key = (int(N), float(Wn), str(btype), bool(analog), str(output), str(norm), None if fs is None else float(fs))
        except (TypeError, ValueError):
            return orig(N, Wn, btype=btype, analog=analog, output=output, norm=norm, fs=fs)
        if key not in cache:
            if len(cache) > 256:
                cache.clear()
            cache[key] = orig(N, Wn, btype=btype, analog=analog, output=output, norm=norm, fs=fs)
        r = cache[key]
        if isinstance(r, np.ndarray):
            return r.copy()
        return tuple(np.copy(x) for x in r)

    bessel._c11_memo = True
    sg.bessel = bessel


def other_rate(fs):
    return 160e9 if fs == 16e9 else 16e9


def setup(cfg):
    dev, n, c, fs, src = cfg
    _install_memo()
    gv_reset(**RATES[fs if src == 'gv' else other_rate(fs)])


def F(cfg, inp, retH=False):
    """one call of the real block"""
    dev, n, c, fs, src = cfg
    if dev == 'LPF':
        from opticomlib.devices import LPF
        kw = {}
        if src == 'arg':
            kw['fs'] = fs
        if retH:
            kw['retH'] = True
        return LPF(inp, c * fs, n=n, **kw)
    from opticomlib.devices import BPF
    return BPF(inp, 2 * c * fs, n=n)       # BW/2 either side of the carrier is the cutoff


def arrs(out):
    sig = np.asarray(out.signal)
    noi = getattr(out, 'noise', None)
    return sig, (None if noi is None else np.asarray(noi))


def in_shape(inp):
    return np.shape(inp) if isinstance(inp, np.ndarray) else np.shape(inp.signal)


def unit(N, k, dt=float):
    e = np.zeros(N, dtype=dt)
    e[k] = 1
    return e


# --------------------------------------------------------------------------- the operator matrix
_MCACHE = {}


def ref_matrix(cfg, N):
    """M[:, k] = F(e_k) through the plainest entry point (LPF: float64 ndarray; BPF: one-polarisation complex
    optical_signal without noise).  Returns (M, list of violations found on the way)."""
    key = (cfg, N)
    if key in _MCACHE:
        return _MCACHE[key]
    dev = cfg[0]
    viol = []
    M = np.zeros((N, N), dtype=float if dev == 'LPF' else complex)
    bad_len = None
    if dev == 'BPF':
        from opticomlib.typing import optical_signal
    for k in range(N):
        inp = unit(N, k) if dev == 'LPF' else optical_signal(unit(N, k, complex))
        sig, noi = arrs(F(cfg, inp))
        if sig.shape != (N,):
            if bad_len is None:
                bad_len = (k, sig.shape)
            continue
        M[:, k] = sig if dev == 'BPF' else sig.real
        if noi is not None and np.max(np.abs(noi)) > 0 and bad_len is None:
            viol.append((f'{dev}:crosstalk:noise-from-nothing', f'cfg={cfg} N={N} k={k}: noise-free input gave non-zero noise'))
    if bad_len is not None:
        viol.append((f'{dev}:length', f'cfg={cfg} N={N}: response to e_{bad_len[0]} has shape {bad_len[1]}'))
    if len(_MCACHE) >= 4:
        _MCACHE.clear()
    _MCACHE[key] = (M, viol)
    return M, viol


# --------------------------------------------------------------------------- basis kinds
LPF_KINDS = ('nd-f64', 'nd-int', 'nd-scaled', 'nd-retH', 'es', 'es+noise', 'es-noise-only', 'es-const+noise', 'es-cplx-dtype')
BPF_KINDS = ('os1', 'os1-f64', 'os1-scaled', 'os1+noise', 'os1-noise-only', 'os2', 'os2+noise', 'os2-const+noise', 'os2-npol')


def n_op(order):
    return ((N_SHORT,) if order <= 4 else ()) + N_OP


def perm(N, k):
    """three fixed permutations of the basis index, so that signal, noise and both rows carry DIFFERENT basis
    vectors in the same call and each of them still runs through the complete basis"""
    return (5 * k + 3) % N, (3 * k + 1) % N, N - 1 - k      # gcd(5,N)=gcd(3,N)=1 for N in {17,28,64,257}


def basis_input(dev, kind, N, k):
    """-> (input object, slots).  slot = (attr, row, spec) ; spec = ('b', coef, idx) expected coef*M[:,idx] |
    ('c', value) expected the constant | ('z',) expected zero"""
    s1, s2, s3 = perm(N, k)
    if dev == 'LPF':
        from opticomlib.typing import electrical_signal as ES
        if kind in ('nd-f64', 'nd-retH'):
            return unit(N, k), [('signal', None, ('b', 1.0, k))]
        if kind == 'nd-int':
            return unit(N, k, np.int64), [('signal', None, ('b', 1.0, k))]
        if kind == 'nd-scaled':
            return -2.5 * unit(N, k), [('signal', None, ('b', -2.5, k))]
        if kind == 'es':
            return ES(unit(N, k)), [('signal', None, ('b', 1.0, k))]
        if kind == 'es+noise':
            return ES(unit(N, k), unit(N, s1)), [('signal', None, ('b', 1.0, k)), ('noise', None, ('b', 1.0, s1))]
        if kind == 'es-noise-only':
            return ES(np.zeros(N), 0.5 * unit(N, k)), [('signal', None, ('z',)), ('noise', None, ('b', 0.5, k))]
        if kind == 'es-const+noise':
            return ES(np.full(N, 3.3), unit(N, k)), [('signal', None, ('c', 3.3)), ('noise', None, ('b', 1.0, k))]
        if kind == 'es-cplx-dtype':
            return ES(unit(N, k, complex), unit(N, s1, complex)), [('signal', None, ('b', 1.0, k)), ('noise', None, ('b', 1.0, s1))]
    else:
        from opticomlib.typing import optical_signal as OS
        z = (0.3 - 2j)
        if kind == 'os1':
            return OS(unit(N, k, complex)), [('signal', None, ('b', 1.0, k))]
        if kind == 'os1-f64':
            return OS(unit(N, k)), [('signal', None, ('b', 1.0, k))]
        if kind == 'os1-scaled':
            return OS(z * unit(N, k)), [('signal', None, ('b', z, k))]
        if kind == 'os1+noise':
            return OS(unit(N, k, complex), 1j * unit(N, s1)), [('signal', None, ('b', 1.0, k)), ('noise', None, ('b', 1j, s1))]
        if kind == 'os1-noise-only':
            return OS(np.zeros(N, complex), unit(N, k, complex)), [('signal', None, ('z',)), ('noise', None, ('b', 1.0, k))]
        if kind == 'os2':
            return OS(np.array([unit(N, k, complex), 1j * unit(N, s1)])), [('signal', 0, ('b', 1.0, k)), ('signal', 1, ('b', 1j, s1))]
        if kind == 'os2+noise':
            return (OS(np.array([unit(N, k, complex), unit(N, s1, complex)]), np.array([1j * unit(N, s2), -unit(N, s3, complex)])),
                    [('signal', 0, ('b', 1.0, k)), ('signal', 1, ('b', 1.0, s1)), ('noise', 0, ('b', 1j, s2)), ('noise', 1, ('b', -1.0, s3))])
        if kind == 'os2-const+noise':
            return (OS(np.array([np.full(N, 3.3 + 0j), np.full(N, -1 + 0j)]), np.array([unit(N, k, complex), np.zeros(N, complex)])),
                    [('signal', 0, ('c', 3.3)), ('signal', 1, ('c', -1.0)), ('noise', 0, ('b', 1.0, k)), ('noise', 1, ('z',))])
        if kind == 'os2-npol':
            return OS(unit(N, k, complex), n_pol=2), [('signal', 0, ('b', 1.0, k)), ('signal', 1, ('b', 1.0, k))]
    raise KeyError(kind)


def clause_of(attr, row):
    if attr == 'noise':
        return 'noise-path' if not row else 'noise-path-row1'
    return 'pol-row1' if row == 1 else 'signal-path'


class Fails:
    """first failing instance + count + worst error per key"""

    def __init__(self):
        self.d = {}

    def add(self, key, msg, err=0.0):
        if key not in self.d:
            self.d[key] = [msg, 1, err]
        else:
            e = self.d[key]
            e[1] += 1
            e[2] = max(e[2], err)

    def viol(self, prefix):
        return [(k, f'{prefix}: {m} [{c} failing response(s), worst {w:.3g}]') for k, (m, c, w) in self.d.items()]


def run_basis(cfg, N, kind, M, scale):
    dev = cfg[0]
    fails = Fails()
    h = hashlib.sha256()
    worst = 0.0
    worst_c = 0.0
    for k in range(N):
        inp, slots = basis_input(dev, kind, N, k)
        if kind == 'nd-retH':
            out, H = F(cfg, inp, retH=True)
        else:
            out = F(cfg, inp)
        sig, noi = arrs(out)
        h.update(np.ascontiguousarray(sig).tobytes())
        if noi is not None:
            h.update(np.ascontiguousarray(noi).tobytes())
        shp = in_shape(inp)
        if sig.shape != shp:
            fails.add(f'{dev}:length', f'k={k}: input shape {shp}, output signal shape {sig.shape}')
            continue
        has_noise_slot = any(a == 'noise' for a, _, _ in slots)
        if has_noise_slot and (noi is None or noi.shape != shp):
            fails.add(f'{dev}:length', f'k={k}: input noise shape {shp}, output noise {None if noi is None else noi.shape}')
            continue
        if not has_noise_slot and noi is not None and (noi.shape != shp or np.max(np.abs(noi)) > TOL_LIN * scale):
            fails.add(f'{dev}:crosstalk:noise-from-nothing', f'k={k}: noise-free input produced noise')
        for attr, row, spec in slots:
            a = sig if attr == 'signal' else noi
            got = a if row is None else a[row]
            cl = clause_of(attr, row)
            if not np.all(np.isfinite(got)):
                fails.add(f'{dev}:{cl}:non-finite', f'k={k}: non-finite output')
                continue
            if spec[0] == 'b':
                exp = spec[1] * M[:, spec[2]]
                err = float(np.max(np.abs(got - exp))) / (scale * max(1.0, abs(spec[1])))
                worst = max(worst, err)
                if err > TOL_LIN:
                    fails.add(f'{dev}:{cl}:matrix-mismatch',
                              f'k={k}: {attr}{"" if row is None else f"[{row}]"} should be {spec[1]}*M[:,{spec[2]}], max dev {err:.3g} of max|M|', err)
            elif spec[0] == 'c':
                err = float(np.max(np.abs(got - spec[1]))) / abs(spec[1])
                worst_c = max(worst_c, err)
                if err > TOL_CONST:
                    fails.add(f'{dev}:const:{cl}', f'k={k}: constant {spec[1]} came back with rel. dev {err:.3g}', err)
            else:
                err = float(np.max(np.abs(got)))
                if err > TOL_LIN * scale:
                    fails.add(f'{dev}:crosstalk:{cl}', f'k={k}: zero {attr} component came back non-zero ({err:.3g})', err)
    return fails, h.hexdigest(), worst, worst_c


# --------------------------------------------------------------------------- superposition / constants
PAIRS = ('ramp/alt', 'rand')
COEF_R = ((1.0, 1.0), (2.0, -0.5))
COEF_C = ((1.0, 1.0), (2.0, -0.5), (1j, 0.5 - 1j))


def fields(pair, N, seed, cfg, cplx):
    if pair == 'ramp/alt':
        x = np.linspace(-1.0, 1.0, N)
        y = np.where(np.arange(N) % 2 == 0, 1.0, -1.0)
        if cplx:
            x = x + 1j * x[::-1] ** 2
            y = y * np.exp(1j * np.pi * np.arange(N) / 7)
        return x, y
    _, n, c, fs, src = cfg
    rng = np.random.default_rng([int(seed), N, n, int(round(c * 1000)), int(fs / 1e9), src == 'arg'])
    if cplx:
        return rng.standard_normal(N) + 1j * rng.standard_normal(N), rng.standard_normal(N) + 1j * rng.standard_normal(N)
    return rng.standard_normal(N), rng.standard_normal(N)


def run_lin(cfg, N, kind, M, scale, seed):
    """kind = ('lin', container, pair, (a, b))"""
    dev = cfg[0]
    _, cont, pair, (a, b) = kind
    fails = Fails()
    cplx = dev == 'BPF'
    x, y = fields(pair, N, seed, cfg, cplx)
    if dev == 'LPF':
        from opticomlib.typing import electrical_signal as ES
        plain = lambda v: arrs(F(cfg, v.copy()))[0]
    else:
        from opticomlib.typing import optical_signal as OS
        plain = lambda v: arrs(F(cfg, OS(v.copy())))[0]
    Fx, Fy = plain(x), plain(y)
    sc = scale * max(np.max(np.abs(x)), np.max(np.abs(y))) * max(1.0, abs(a), abs(b))
    worst = 0.0

    def chk(key, got, exp, what):
        nonlocal worst
        if np.shape(got) != np.shape(exp):
            fails.add(f'{dev}:length', f'{what}: shape {np.shape(got)} expected {np.shape(exp)}')
            return
        err = float(np.max(np.abs(got - exp))) / sc
        worst = max(worst, err)
        if not err <= TOL_LIN:
            fails.add(key, f'{what}: max dev {err:.3g} (relative)', err)

    chk(f'{dev}:matrix-apply', Fx, M @ x, 'F(x) vs M@x')
    chk(f'{dev}:matrix-apply', Fy, M @ y, 'F(y) vs M@y')
    if cont in ('nd', 'os1'):
        Fz = plain(a * x + b * y)
        chk(f'{dev}:superposition', Fz, a * Fx + b * Fy, f'F({a}x+{b}y) vs {a}F(x)+{b}F(y) [{cont}]')
        obs = Fz
    elif cont == 'es+noise':
        out = F(cfg, ES(a * x + b * y, a * y - b * x))
        s, nz = arrs(out)
        chk(f'{dev}:superposition', s, a * Fx + b * Fy, f'signal of F(es({a}x+{b}y, noise={a}y-{b}x))')
        if nz is None:
            fails.add(f'{dev}:length', 'noise component vanished')
        else:
            chk(f'{dev}:superposition:noise-path', nz, a * Fy - b * Fx, 'noise of the same call')
        obs = s
    else:  # os2+noise
        out = F(cfg, OS(np.array([a * x + b * y, x]), np.array([y, a * y - b * x])))
        s, nz = arrs(out)
        if s.shape != (2, N) or nz is None or nz.shape != (2, N):
            fails.add(f'{dev}:length', f'2-pol output shapes {s.shape} / {None if nz is None else nz.shape}')
        else:
            chk(f'{dev}:superposition', s[0], a * Fx + b * Fy, 'row 0 of the signal')
            chk(f'{dev}:superposition:pol-row1', s[1], Fx, 'row 1 of the signal (= x)')
            chk(f'{dev}:superposition:noise-path', nz[0], Fy, 'row 0 of the noise (= y)')
            chk(f'{dev}:superposition:noise-path', nz[1], a * Fy - b * Fx, 'row 1 of the noise')
        obs = s
    return fails, hashlib.sha256(np.ascontiguousarray(obs).tobytes()).hexdigest(), worst, 0.0


CONSTS_R = (3.3, -1.0)
CONSTS_C = (3.3, -1.0, 2 - 1j)


def run_const(cfg, N, kind):
    """kind = ('const', container)"""
    dev = cfg[0]
    cont = kind[1]
    fails = Fails()
    worst = 0.0
    h = hashlib.sha256()

    def chk(got, v, what):
        nonlocal worst
        got = np.asarray(got)
        h.update(np.ascontiguousarray(got).tobytes())
        if got.shape != (N,):
            fails.add(f'{dev}:length', f'{what}: shape {got.shape}')
            return
        err = float(np.max(np.abs(got - v))) / abs(v)
        worst = max(worst, err)
        if not err <= TOL_CONST:
            fails.add(f'{dev}:const', f'{what}: constant {v} came back with rel. dev {err:.3g}', err)

    if dev == 'LPF':
        from opticomlib.typing import electrical_signal as ES
        if cont == 'nd':
            for v in CONSTS_R:
                chk(arrs(F(cfg, np.full(N, v)))[0], v, f'ndarray const {v}')
        else:
            s, nz = arrs(F(cfg, ES(np.full(N, CONSTS_R[0]), np.full(N, CONSTS_R[1]))))
            chk(s, CONSTS_R[0], 'signal of es(const, noise=const)')
            chk(nz if nz is not None else np.zeros(0), CONSTS_R[1], 'noise of es(const, noise=const)')
    else:
        from opticomlib.typing import optical_signal as OS
        if cont == 'os1':
            for v in CONSTS_C:
                chk(arrs(F(cfg, OS(np.full(N, v, dtype=complex))))[0], v, f'1-pol const {v}')
        else:
            s, nz = arrs(F(cfg, OS(np.array([np.full(N, 3.3 + 0j), np.full(N, 2 - 1j)]), np.array([np.full(N, -1 + 0j), np.full(N, 1j)]))))
            if s.shape != (2, N) or nz is None or nz.shape != (2, N):
                fails.add(f'{dev}:length', f'2-pol output shapes {s.shape}')
            else:
                chk(s[0], 3.3, 'signal row 0')
                chk(s[1], 2 - 1j, 'signal row 1')
                chk(nz[0], -1.0, 'noise row 0')
                chk(nz[1], 1j, 'noise row 1')
    return fails, h.hexdigest(), 0.0, worst


def case_operator(case):
    cfg, N, kind, seed = case
    setup(cfg)
    dev = cfg[0]
    M, v0 = ref_matrix(cfg, N)
    scale = float(np.max(np.abs(M))) or 1.0
    viol = []
    first_kind = kind == ('nd-f64' if dev == 'LPF' else 'os1')
    if first_kind:
        viol += v0                       # problems of the reference path are reported once per configuration
    if isinstance(kind, str):
        fails, dig, w, wc = run_basis(cfg, N, kind, M, scale)
    elif kind[0] == 'lin':
        fails, dig, w, wc = run_lin(cfg, N, kind, M, scale, seed)
    else:
        fails, dig, w, wc = run_const(cfg, N, kind)
    viol += fails.viol(f'cfg={cfg} N={N} kind={kind}')
    filters = float(np.max(np.abs(M - np.eye(N)))) > 1e-3
    calls = N if isinstance(kind, str) else 4
    return res(viol=viol, obs=(dig, round(scale, 9)), nontrivial=(cfg, N, kind) if filters else False,
               stats={'filter_calls': calls, 'basis_responses_compared': N if isinstance(kind, str) else 0},
               payload={'lin': w, 'const': wc, 'Mmax': scale})


# --------------------------------------------------------------------------- zero phase
def pulses(N):
    c = N // 2
    imp = np.zeros(N)
    imp[c] = 1.0
    rect = np.zeros(N)
    rect[c - 4:c + 5] = 1.0
    tri = np.zeros(N)
    tri[c - 8:c + 9] = 1.0 - np.abs(np.arange(-8, 9)) / 9.0
    return {'impulse': imp, 'rect9': rect, 'tri17': tri}


def case_zerophase(case):
    cfg, kind = case
    setup(cfg)
    dev, n, c, fs, src = cfg
    N = N_SYM
    ctr = N // 2
    L = min(ctr, int(6 / c + 50))
    P = pulses(N)
    fails = Fails()
    h = hashlib.sha256()
    worst = 0.0
    resp = []                    # (label, response array, is_impulse)
    if dev == 'LPF':
        from opticomlib.typing import electrical_signal as ES
        if kind == 'nd':
            for nm, p in P.items():
                resp.append((nm, arrs(F(cfg, p.copy()))[0], nm == 'impulse'))
        else:
            s, nz = arrs(F(cfg, ES(P['rect9'].copy(), P['impulse'].copy())))
            resp += [('rect9 (signal)', s, False), ('impulse (noise)', nz, True)]
            s, nz = arrs(F(cfg, ES(P['impulse'].copy(), P['tri17'].copy())))
            resp += [('impulse (signal)', s, True), ('tri17 (noise)', nz, False)]
    else:
        from opticomlib.typing import optical_signal as OS
        z = 1 + 0.5j
        if kind == 'os1':
            for nm, p in P.items():
                resp.append((nm, arrs(F(cfg, OS(z * p)))[0], nm == 'impulse'))
        else:
            s, nz = arrs(F(cfg, OS(np.array([z * P['impulse'], 1j * P['rect9']]), np.array([P['tri17'] + 0j, -z * P['impulse']]))))
            if s.shape != (2, N) or nz is None or nz.shape != (2, N):
                fails.add(f'{dev}:length', f'2-pol output shapes {s.shape}')
            else:
                resp += [('impulse (signal row 0)', s[0], True), ('rect9 (signal row 1)', s[1], False),
                         ('tri17 (noise row 0)', nz[0], False), ('impulse (noise row 1)', nz[1], True)]
    for nm, r, is_imp in resp:
        if r is None or np.shape(r) != (N,):
            fails.add(f'{dev}:length', f'{nm}: output shape {None if r is None else np.shape(r)}')
            continue
        h.update(np.ascontiguousarray(r).tobytes())
        peak = float(np.max(np.abs(r)))
        if not peak > 0 or not np.isfinite(peak):
            fails.add(f'{dev}:zero-phase:no-response', f'{nm}: peak {peak}')
            continue
        seg = r[ctr - L:ctr + L + 1]
        asym = float(np.max(np.abs(seg - seg[::-1]))) / peak
        worst = max(worst, asym)
        if not asym <= TOL_SYM:
            fails.add(f'{dev}:zero-phase:asymmetric', f'{nm}: response not symmetric about sample {ctr} over +-{L}: {asym:.3g} of the peak', asym)
        if is_imp and int(np.argmax(np.abs(r))) != ctr:
            fails.add(f'{dev}:zero-phase:delayed-peak', f'{nm}: peak at sample {int(np.argmax(np.abs(r)))}, impulse at {ctr}')
    return res(viol=fails.viol(f'cfg={cfg} kind={kind}'), obs=h.hexdigest(), nontrivial=(cfg, kind),
               stats={'filter_calls': len(resp), 'pulse_responses': len(resp)}, payload={'sym': worst})


# --------------------------------------------------------------------------- tones
def ladder(c, N=N_TONE):
    fr = [0.0, 0.2 * c, 0.4 * c, 0.6 * c, 0.8 * c, c] + [c + (0.49 - c) * j / 6 for j in range(1, 7)]
    return sorted(set(int(round(f * N)) for f in fr))


def case_tone(case):
    cfg, kind = case
    setup(cfg)
    dev, n, c, fs, src = cfg
    N = N_TONE
    t = np.arange(N)
    mid = slice(N // 4, 3 * N // 4)
    ks = ladder(c)
    kc = int(round(c * N))
    tones = [('grid', k, k / N) for k in ks] + [('exact-cutoff', None, c)]
    fails = Fails()
    h = hashlib.sha256()
    meas = {'flat': 0.0, 'phase': 0.0, 'cut_dev_dB': 0.0, 'reth2': 0.0}
    calls = 0
    suffix = ':fs-arg' if src == 'arg' else ''
    if dev == 'LPF':
        from opticomlib.typing import electrical_signal as ES
    else:
        from opticomlib.typing import optical_signal as OS

    def gains_of(f):
        """-> list of (label, pointwise complex gain on the middle half, input power, output power)"""
        nonlocal calls
        ex = np.exp(2j * np.pi * f * t)
        out = []
        if dev == 'LPF':
            co, si = ex.real.copy(), ex.imag.copy()
            if kind == 'nd':
                yc = arrs(F(cfg, co))[0]
                ys = arrs(F(cfg, si))[0]
                calls += 2
            else:
                yc, ys = arrs(F(cfg, ES(co, si)))
                calls += 1
            if np.shape(yc) != (N,) or ys is None or np.shape(ys) != (N,):
                fails.add(f'{dev}:length', f'f={f}: output shapes {np.shape(yc)}')
                return out
            out.append(('cos+i*sin', ((yc + 1j * ys) / ex)[mid], np.mean(co[mid] ** 2), np.mean(yc[mid] ** 2)))
        else:
            exm = np.conj(ex)
            if kind == 'os1':
                yp = arrs(F(cfg, OS(ex.copy())))[0]
                ym = arrs(F(cfg, OS(exm.copy())))[0]
                calls += 2
                rows = [('+f', yp, ex), ('-f', ym, exm)]
            else:
                s, nz = arrs(F(cfg, OS(np.array([ex, exm]), np.array([exm, ex]))))
                calls += 1
                if s.shape != (2, N) or nz is None or nz.shape != (2, N):
                    fails.add(f'{dev}:length', f'f={f}: 2-pol output shapes {s.shape}')
                    return out
                rows = [('+f signal row 0', s[0], ex), ('-f signal row 1', s[1], exm), ('-f noise row 0', nz[0], exm), ('+f noise row 1', nz[1], ex)]
            for lab, y, x in rows:
                if np.shape(y) != (N,):
                    fails.add(f'{dev}:length', f'f={f}: output shape {np.shape(y)}')
                    continue
                out.append((lab, (y / x)[mid], 1.0, float(np.mean(np.abs(y[mid]) ** 2))))
        return out

    series = {}       # label -> list of (k, gain) along the grid ladder
    cut = []
    for typ, k, f in tones:
        for lab, g, pin, pout in gains_of(f):
            if not np.all(np.isfinite(g)):
                fails.add(f'{dev}:tone:non-finite', f'f={f:.6g}*fs {lab}')
                continue
            A = complex(np.mean(g))
            flat = float(np.max(np.abs(g - A)))
            gain = abs(A)
            h.update(np.array([A.real, A.imag]).round(13).tobytes())
            meas['flat'] = max(meas['flat'], flat)
            meas['phase'] = max(meas['phase'], abs(A.imag))
            if flat > TOL_FLAT:
                fails.add(f'{dev}:tone:not-stationary', f'f={f:.6g}*fs {lab}: pointwise gain varies by {flat:.3g} on the middle half', flat)
            if abs(A.imag) > TOL_FLAT or (A.real < -TOL_FLAT):
                fails.add(f'{dev}:tone:phase', f'f={f:.6g}*fs {lab}: gain {A:.6g} is not real positive (delay / phase shift)', abs(A.imag))
            if gain > 1 + TOL_FLAT or pout > pin * (1 + TOL_FLAT) + 1e-18:
                fails.add(f'{dev}:tone:gain>1', f'f={f:.6g}*fs {lab}: gain {gain:.9g}, power {pin:.6g} -> {pout:.6g}', gain - 1)
            if typ == 'grid':
                series.setdefault(lab, []).append((k, gain))
            if typ == 'exact-cutoff' or k == kc:
                dB = 20 * np.log10(gain) if gain > 0 else -np.inf
                cut.append(round(float(dB), 6))
                dev_dB = abs(dB + 6.0)
                meas['cut_dev_dB'] = max(meas['cut_dev_dB'], float(dev_dB) if np.isfinite(dev_dB) else 999.0)
                if not dev_dB <= BAND_DB:
                    fails.add(f'{dev}:cutoff-6dB{suffix}', f'tone at {f:.6g}*fs ({typ}, cutoff {c}*fs) {lab}: {dB:.3f} dB, expected -6.0 +- {BAND_DB}', float(dev_dB) if np.isfinite(dev_dB) else 999.0)
    for lab, sr in series.items():
        gs = [g for _, g in sr]
        for i in range(len(gs) - 1):
            if gs[i + 1] > gs[i] + TOL_FLAT:
                fails.add(f'{dev}:tone:not-monotone', f'{lab}: gain rises from {gs[i]:.9g} at k={sr[i][0]} to {gs[i+1]:.9g} at k={sr[i+1][0]}', gs[i + 1] - gs[i])
    # retH against the measured two-pass gains (LPF, grid tones)
    if dev == 'LPF' and kind == 'nd' and series:
        out, H = F(cfg, np.cos(2 * np.pi * c * t), retH=True)
        calls += 1
        H = np.asarray(H)
        if H.shape != (N,):
            fails.add('LPF:retH:grid', f'retH has shape {H.shape}, record has {N} samples')
        else:
            for k, g in series['cos+i*sin']:
                for idx in (N // 2 + k, N // 2 - k):
                    e = abs(abs(H[idx % N]) ** 2 - g)
                    meas['reth2'] = max(meas['reth2'], float(e))
                    if not e <= TOL_RETH_2P:
                        fails.add('LPF:retH:two-pass-gain', f'|retH|^2 at grid line {idx - N // 2:+d} is {abs(H[idx % N])**2:.6g}, measured two-pass tone gain {g:.6g}', float(e))
    nt = (cfg, kind) if cut and all(-20 < d < -0.5 for d in cut) else False
    return res(viol=fails.viol(f'cfg={cfg} kind={kind}'), obs=(h.hexdigest(), tuple(cut)), nontrivial=nt,
               stats={'filter_calls': calls, 'tones': len(tones)}, payload=meas)


# --------------------------------------------------------------------------- retH
_KAPPA = {}


def bessel_poly(n):
    """reverse Bessel polynomial theta_n(s) = sum a_k s^k , a_k = (2n-k)! / (2^(n-k) k! (n-k)!)"""
    return [factorial(2 * n - k) / (2 ** (n - k) * factorial(k) * factorial(n - k)) for k in range(n + 1)]


def bessel_eval(n, s):
    a = bessel_poly(n)
    acc = np.zeros_like(s, dtype=complex) + a[n]
    for k in range(n - 1, -1, -1):
        acc = acc * s + a[k]
    return a[0] / acc


def kappa(n):
    """normalised frequency at which |theta_n(0)/theta_n(j w)|^2 = 1/2 (bisection; the magnitude is monotone)"""
    if n not in _KAPPA:
        lo, hi = 0.0, 16.0
        for _ in range(200):
            m = 0.5 * (lo + hi)
            if abs(bessel_eval(n, np.array([1j * m]))[0]) ** 2 > 0.5:
                lo = m
            else:
                hi = m
        _KAPPA[n] = 0.5 * (lo + hi)
    return _KAPPA[n]


def closed_form(n, c, f):
    """single-pass digital Bessel low-pass (bilinear transform, pre-warped, -3 dB at c) at f (cycles/sample)"""
    with np.errstate(all='ignore'):
        x = np.tan(np.pi * np.asarray(f, float)) / np.tan(np.pi * c)
        return bessel_eval(n, 1j * kappa(n) * x)


def case_reth(case):
    cfg, N, cont = case
    setup(cfg)
    dev, n, c, fs, src = cfg
    import scipy.signal as sg
    from opticomlib.typing import electrical_signal as ES
    fails = Fails()
    x = np.cos(2 * np.pi * 3 * np.arange(N) / N)
    inp = x if cont == 'nd' else ES(x, 0.1 * x[::-1].copy())
    r = F(cfg, inp, retH=True)
    meas = {'cf': 0.0, 'sp': 0.0}
    if not (isinstance(r, tuple) and len(r) == 2):
        return res(viol=[('LPF:retH:grid', f'cfg={cfg}: retH=True did not return (output, H)')], obs='no-tuple')
    out, H = r
    H = np.asarray(H)
    f = np.fft.fftshift(np.fft.fftfreq(N))
    if H.shape != (N,):
        fails.add('LPF:retH:grid', f'retH has shape {H.shape}, record has {N} samples')
    elif not np.all(np.isfinite(H)):
        fails.add('LPF:retH:grid', 'retH not finite')
    else:
        Hc = closed_form(n, c, f)
        e = float(np.max(np.abs(H - Hc)))
        meas['cf'] = e
        if not e <= TOL_RETH_CF:
            i = int(np.argmax(np.abs(H - Hc)))
            fails.add('LPF:retH:bessel-closed-form', f'retH deviates from the order-{n} Bessel low-pass (-3 dB at {c}*fs, bilinear) by {e:.3g} at f={f[i]:.5g}*fs: {H[i]:.6g} vs {Hc[i]:.6g}', e)
        z, p, k = sg.bessel(n, c * fs, btype='low', output='zpk', norm='mag', fs=fs)
        _, Hz = sg.freqz_zpk(z, p, k, worN=N, whole=True, fs=fs)
        e2 = float(np.max(np.abs(H - np.fft.fftshift(Hz))))
        meas['sp'] = e2
        if not e2 <= TOL_RETH_SP:
            fails.add('LPF:retH:scipy-prototype', f'retH deviates from fftshift(freqz) of an independently designed prototype by {e2:.3g}', e2)
    sig, noi = arrs(out)
    if sig.shape != (N,) or (cont != 'nd' and (noi is None or noi.shape != (N,))):
        fails.add('LPF:length', f'output shape {sig.shape} in retH mode')
    obs = hashlib.sha256(np.ascontiguousarray(H).tobytes()).hexdigest() if H.dtype != object else 'object'
    return res(viol=fails.viol(f'cfg={cfg} N={N} input={cont}'), obs=obs, nontrivial=(cfg, N, cont),
               stats={'filter_calls': 1, 'reth_points': int(H.size)}, payload=meas)


# --------------------------------------------------------------------------- driver
def configs(dev, orders):
    out = []
    for n in orders:
        for c in CUTS:
            for fs in (16e9, 160e9):
                out.append((dev, n, c, fs, 'gv'))
            if dev == 'LPF':
                for fs in (16e9, 160e9):
                    out.append((dev, n, c, fs, 'arg'))
    return out


def op_kinds(dev):
    if dev == 'LPF':
        ks = list(LPF_KINDS)
        ks += [('lin', cont, pair, ab) for cont in ('nd', 'es+noise') for pair in PAIRS for ab in COEF_R]
        ks += [('const', 'nd'), ('const', 'es+noise')]
    else:
        ks = list(BPF_KINDS)
        ks += [('lin', cont, pair, ab) for cont in ('os1', 'os2+noise') for pair in PAIRS for ab in COEF_C]
        ks += [('const', 'os1'), ('const', 'os2+noise')]
    return ks


def _maxes(payloads):
    out = {}
    for p in payloads:
        if p:
            for k, v in p.items():
                out[k] = max(out.get(k, 0.0), float(v))
    return {k: float(f'{v:.3g}') for k, v in out.items()}


def run(ctx):
    orders = (1, 4, 8) if ctx.quick else tuple(range(1, 9))
    ctx.rule(f'C11: bounded-exhaustive basis enumeration. configurations = device {{LPF,BPF}} x order {list(orders)} x cutoff '
             f'{list(CUTS)}*fs x fs {{16e9,160e9}} x fs-source {{gv.fs; LPF(fs=...) with gv at the other rate}}; for every '
             f'configuration and every N in {[N_SHORT] + list(N_OP)} (17 only for orders <= 4) the response to EVERY unit impulse e_k is taken (complete operator '
             f'matrix M) through the plain entry point and again through every container kind (9 per device: int/scaled/retH '
             f'ndarray, electrical/optical container, noise present/absent/alone, complex dtype, 1-/2-pol, n_pol broadcast) with '
             f'permuted basis vectors in signal, noise and the two rows; every response must be the matching column of M. '
             f'Superposition pairs {list(PAIRS)} x coefficient pairs, constants, zero phase on {N_SYM} samples, 13-tone '
             f'ladder on {N_TONE} samples, retH on N in {list(N_RETH)}')
    ctx.assume('scipy.signal.bessel is a pure function of its arguments (its result is memoised by the harness per worker; '
               'MCX_C11_NOMEMO=1 disables the memo); numpy/scipy arithmetic is IEEE double')
    ctx.assume('"away from the record edges" = middle half of a 4096-sample record (tones) and +-(6/fc+50) samples around the '
               'centre of a 2049-sample record (pulses); records are longer than the sosfiltfilt padding of every order (27)')
    ctx.assume(f'seeded random field members of the superposition alphabet are drawn from default_rng([VERIF_SEED={ctx.seed}, cfg])')
    measured = {}
    for dev in ('LPF', 'BPF'):
        cfgs = configs(dev, orders)
        ctx.space(f'{dev}.configurations', len(cfgs))
        kinds = op_kinds(dev)
        cases = [(cfg, N, kind, ctx.seed) for cfg in cfgs for N in n_op(cfg[1]) for kind in kinds]
        p = ctx.pmap(f'{dev}.operator', case_operator, cases, horizon=120, chunk=len(kinds))
        measured[f'{dev}.operator'] = _maxes(p)
        zk = ('nd', 'es+noise') if dev == 'LPF' else ('os1', 'os2+noise')
        p = ctx.pmap(f'{dev}.zerophase', case_zerophase, [(cfg, k) for cfg in cfgs for k in zk], horizon=60)
        measured[f'{dev}.zerophase'] = _maxes(p)
        p = ctx.pmap(f'{dev}.tone', case_tone, [(cfg, k) for cfg in cfgs for k in zk], horizon=60)
        measured[f'{dev}.tone'] = _maxes(p)
        if dev == 'LPF':
            p = ctx.pmap('LPF.retH', case_reth, [(cfg, N, cont) for cfg in cfgs for N in N_RETH for cont in ('nd', 'es+noise')], horizon=60)
            measured['LPF.retH'] = _maxes(p)
    ctx.extra['measured_max_errors'] = measured
    ctx.extra['tolerances'] = {'lin': TOL_LIN, 'const': TOL_CONST, 'sym': TOL_SYM, 'flat/phase/mono': TOL_FLAT, 'cutoff_band_dB': BAND_DB,
                               'retH_closed_form': TOL_RETH_CF, 'retH_scipy': TOL_RETH_SP, 'retH_two_pass': TOL_RETH_2P}
    print(f'[C11] measured maxima: {measured}', flush=True)
