"""C11 - LPF/BPF are linear zero-phase filters with unit DC gain and -6 dB at the cutoff.

Bounded-exhaustive *basis* enumeration: for every configuration (device, order, cutoff, fs,
where fs comes from, record length N) the real filter is applied to EVERY unit impulse e_k,
which yields the complete operator matrix M of that configuration.  The same basis is then
pushed through every other entry point of the block (integer / scaled ndarray, containers,
the noise component, each polarisation row, retH mode) and every response has to be the
corresponding column of M.  Superposition, constants, length, zero phase (2049-sample record),
the tone ladder (4096-sample record) and the retH clause are separate parts.

Parts
  operator  : case = (cfg, N, kind, seed)       N in {17 (orders<=4), 28, 64, 257}
  operator-x: same case form, the EXTENDED kinds (see below); quick: N <= 64, thorough: every N
  zerophase : case = (cfg, kind)                N = 2049
  tone      : case = (cfg, kind)                N = 4096
  retH      : case = (cfg, N, container)        N in {28, 64, 257, 4096}   (LPF only)
cfg = (dev, order, cutoff/fs, fs, src) ; src='gv' (fs taken from gv.fs) or 'arg' (LPF(fs=...),
gv deliberately left at the OTHER rate).

Extended kinds (added after seeded wave 3).  The property is scale free (linearity), so every part also runs on
  * an AMPLITUDE axis: the same waveforms multiplied by AMPS = 1e-12, 1e-9, 1e6 (1 is the base kind), judged with
    tolerances RELATIVE to the amplitude - signal, noise and the polarisation rows carry different amplitudes in one call;
  * RIPPLE-ON-DC inputs D + e*w (RIPPLES: (D, e/D) = (1, 1e-6), (-1e6, 1e-9), (1e-9, 1e-3)) : expected D + e*F(w);
  * the entry-point MODE axis: every LPF container kind (with / without / only noise, constant + noise) is run in
    retH=True mode as well as in plain mode (fs=... mode is part of cfg), through the signal AND the noise path.

Hardening pass (input classes, see notes/C11.md "Hardening pass").  More members of existing axes plus three parts:
  * sample DTYPES (DT: bool, int8...uint64, float16/32, complex64/128, integers near the limit of their dtype) through the
    ndarray, the container+noise and the 1-/2-pol entry points, complete basis each (operator-x);
  * SPELLINGS of the scalar arguments BW, n, fs (Python int, numpy ints, float32/64, 0-d arrays) and of the grid
    configuration (gv by (sps,fs), (R,fs) with non-integer fs/R, fs alone, wavelength + N) - same operator matrix expected;
  * layouts: all-zero noise, empty second polarisation, aliased signal/noise objects, strided / Fortran-ordered views,
    noise of another dtype than the signal; every input of the basis / superposition / history parts is WRITE-PROTECTED
    and compared byte for byte afterwards;
  * record lengths: the shortest legal record of EVERY order (max(17, 3*(n+1)+1)), retH also on 97 and 1025 points;
  * cutoffs: CUTS_FINE (tone, retH) fills the gaps of CUTS, in particular [0.25, 0.45)*fs;
  * chained calls F(F(x)), dtype-quantised superposition fields, integer-valued floats;
  * part history: ONE write-protected input object through sequences of calls between which the grid is reconfigured
    (7 menu entries, all ordered pairs; thorough: triples) with the same BW and n, with / without fs=...; every step is
    judged with an ABSOLUTE oracle (closed-form two-pass Bessel gain at three tones);
  * part sweep: one shared input object, BW swept up and down over 12 cutoffs and n over 1..8.
"""
from __future__ import annotations

import hashlib
import os
from math import factorial

import numpy as np

from mcx.core.kernel import res
from mcx.core.env import gv_reset, freeze, unchanged

ID = 'C11'
LEVEL = 'exploration'
NONTRIVIAL = ('a case is non-trivial when the operator of its configuration differs from the identity by more than 1e-3 '
              '(the filter really filters) and the case exercises one entry point (container kind / noise / polarisation '
              'row / coefficient pair / tone ladder) of one configuration; tags are (cfg, N, kind)')

CUTS = (0.01, 0.05, 0.1, 0.25, 0.45)
CUTS_FINE = (0.011, 0.02, 0.2, 0.3, 0.35, 0.4, 0.449)     # tone / retH parts only: fills the gaps of CUTS (identity shortcuts, thresholds)
RATES = {16e9: dict(sps=16, R=1e9), 160e9: dict(sps=16, R=10e9)}
N_OP = (28, 64, 257)          # 28 = shortest record every order 1..8 accepts (sosfiltfilt padlen is 3*(order+1): 27 for order 8)
N_SHORT = 17                  # "longer than the 16-sample edge padding": accepted by orders 1..4 only (scipy refuses it for orders >= 5)
N_SYM = 2049
N_TONE = 4096
N_RETH = (28, 64, 97, 257, 1025, 4096)      # + the shortest legal record of the order (n_min)
N_EXT_QUICK = (17, 28, 64)    # record lengths of the extended kinds in the quick tier (thorough: all of n_op)
AMPS = (1e-12, 1e-9, 1e-6, 1e6)     # amplitude axis (1.0 = the base kinds): pA / nA / uA level records and a large one
RIPPLES = ((1.0, 1e-6), (-1e6, 1e-9), (1e-9, 1e-3))     # (DC level D, ripple amplitude relative to |D|)

# ---- tolerances (see notes/C11.md for the justification of each)
TOL_LIN = 1e-10      # relative to max|M| ; measured <= 5e-14 (recursion rounding at cutoff 0.01 fs, order 8)
TOL_CONST = 1e-12    # relative to |constant| ; DC-gain cancellation bound ~ 8 passes * eps/(2 pi fc/fs)^2 = 4.5e-13 ; measured <= 4.6e-14
TOL_SYM = 1e-10      # of the peak ; measured 1.2e-14
TOL_FLAT = 1e-9      # stationarity / phase / monotonic slack / gain<=1 slack, absolute for a unit tone ; measured <= 8.1e-13
BAND_DB = 0.1        # "attenuated by 6.0 dB" -> 6.0 +- 0.1 (exact value 6.0206 ; grid-nearest tone deviates <= 0.035 dB)
TOL_RETH_CF = 1e-6   # closed-form Bessel vs retH: scipy finds the -3 dB normalisation with optimize.newton(tol=1.48e-8), slope |dH/dln w| <= n
TOL_RETH_SP = 1e-9   # same scipy design, zpk evaluation path instead of sos ; measured <= 1e-13
TOL_RETH_2P = 1e-3   # |retH|^2 against the measured two-pass tone gain (band from DESIGN)


# --------------------------------------------------------------------------- seams
def _install_memo():
    """scipy.signal.bessel is a pure function of its arguments and costs 2-6 ms, ten times the filtering of a short
    record.  The library redesigns the filter on every call; the harness memoises the design (per worker process) so
    that complete bases are affordable.  MCX_C11_NOMEMO=1 switches the memo off (same digests, ~7x slower)."""
    import scipy.signal as sg
    if os.environ.get('MCX_C11_NOMEMO') or getattr(sg.bessel, '_c11_memo', False):
        return
    orig = sg.bessel
    cache = {}

    def bessel(N, Wn, btype='low', analog=False, output='ba', norm='phase', fs=None):
        try:
            key = (int(N), float(Wn), str(btype), bool(analog), str(output), str(norm), None if fs is None else float(fs))
        except (TypeError, ValueError):
            return orig(N, Wn, btype=btype, analog=analog, output=output, norm=norm, fs=fs)
        if key not in cache:
            if len(cache) > 256:
                cache.clear()
            cache[key] = orig(N, Wn, btype=btype, analog=analog, output=output, norm=norm, fs=fs)
        r = cache[key]
        if isinstance(r, np.ndarray):
            return r.copy()
        return tuple(np.copy(x) for x in r)

    bessel._c11_memo = True
    sg.bessel = bessel


def other_rate(fs):
    return 160e9 if fs == 16e9 else 16e9


# spellings of the grid configuration: the SAME sampling rate r reached through another call form of gv
GV_SPELL = {
    'sps-fs': lambda r: dict(sps=16, fs=r),
    'R-fs': lambda r: dict(R=r / 12.5, fs=r),               # non-integer fs/R: gv.sps = 12 and gv.sps*gv.R = 0.96*gv.fs
    'fs-alone': lambda r: dict(fs=r),                       # R stays at its default, sps follows
    'wl-N': lambda r: dict(sps=16, R=r / 16, wavelength=1310e-9, N=8),
}
# spellings of the scalar arguments (BW, n, fs): "wherever a scalar is accepted"
SC_SPELL = ('pyint', 'np-int', 'np-f64', 'np-f32', '0d')


def _f32(v):
    """np.float32 where the value is exactly representable (then nothing but the type changes), else np.float64"""
    return np.float32(v) if float(np.float32(v)) == float(v) else np.float64(v)


def spell(sp, BW, n, fs):
    if sp is None:
        return BW, n, fs
    if sp == 'pyint':
        return int(round(BW)), int(n), int(round(fs))          # BW and fs of every configuration are whole numbers of Hz
    if sp == 'np-int':
        return np.int64(round(BW)), np.int32(n), np.int64(round(fs))
    if sp == 'np-f64':
        return np.float64(BW), np.int64(n), np.float64(fs)
    if sp == 'np-f32':
        return _f32(BW), np.uint8(n), _f32(fs)
    if sp == '0d':
        return np.array(BW), np.array(n), np.array(fs)
    raise KeyError(sp)


LOW_RATE = 16.0               # Hz: a legal sampling rate at which every BW of the enumeration is a FRACTIONAL number of Hz


def setup(cfg, gsp=None):
    dev, n, c, fs, src = cfg
    _install_memo()
    if fs == LOW_RATE:
        gv_reset(**(dict(sps=16, R=1.0) if src == 'gv' else RATES[16e9]))
        return
    r = fs if src == 'gv' else other_rate(fs)
    gv_reset(**(RATES[r] if gsp is None else GV_SPELL[gsp](r)))


def F(cfg, inp, retH=False, sp=None):
    """one call of the real block ; sp = spelling of the scalar arguments"""
    dev, n, c, fs, src = cfg
    BW, n, fs = spell(sp, c * fs if dev == 'LPF' else 2 * c * fs, n, fs)       # BPF: BW/2 either side of the carrier is the cutoff
    if dev == 'LPF':
        from opticomlib.devices import LPF
        kw = {}
        if src == 'arg':
            kw['fs'] = fs
        if retH:
            kw['retH'] = True
        return LPF(inp, BW, n=n, **kw)
    from opticomlib.devices import BPF
    return BPF(inp, BW, n=n)


def arrs(out):
    sig = np.asarray(out.signal)
    noi = getattr(out, 'noise', None)
    return sig, (None if noi is None else np.asarray(noi))


def in_shape(inp):
    return np.shape(inp) if isinstance(inp, np.ndarray) else np.shape(inp.signal)


def unit(N, k, dt=float):
    e = np.zeros(N, dtype=dt)
    e[k] = 1
    return e


# --------------------------------------------------------------------------- the operator matrix
_MCACHE = {}


def ref_matrix(cfg, N):
    """M[:, k] = F(e_k) through the plainest entry point (LPF: float64 ndarray; BPF: one-polarisation complex
    optical_signal without noise).  Returns (M, list of violations found on the way)."""
    key = (cfg, N)
    if key in _MCACHE:
        return _MCACHE[key]
    dev = cfg[0]
    viol = []
    M = np.zeros((N, N), dtype=float if dev == 'LPF' else complex)
    bad_len = None
    if dev == 'BPF':
        from opticomlib.typing import optical_signal
    for k in range(N):
        inp = unit(N, k) if dev == 'LPF' else optical_signal(unit(N, k, complex))
        sig, noi = arrs(F(cfg, inp))
        if sig.shape != (N,):
            if bad_len is None:
                bad_len = (k, sig.shape)
            continue
        M[:, k] = sig if dev == 'BPF' else sig.real
        if noi is not None and np.max(np.abs(noi)) > 0 and bad_len is None:
            viol.append((f'{dev}:crosstalk:noise-from-nothing', f'cfg={cfg} N={N} k={k}: noise-free input gave non-zero noise'))
    if bad_len is not None:
        viol.append((f'{dev}:length', f'cfg={cfg} N={N}: response to e_{bad_len[0]} has shape {bad_len[1]}'))
    if len(_MCACHE) >= 4:
        _MCACHE.clear()
    _MCACHE[key] = (M, viol)
    return M, viol


# --------------------------------------------------------------------------- basis kinds
LPF_KINDS = ('nd-f64', 'nd-int', 'nd-scaled', 'nd-retH', 'es', 'es+noise', 'es-noise-only', 'es-const+noise', 'es-cplx-dtype')
BPF_KINDS = ('os1', 'os1-f64', 'os1-scaled', 'os1+noise', 'os1-noise-only', 'os2', 'os2+noise', 'os2-const+noise', 'os2-npol')
# extended kinds: entry-point mode (retH) x container, amplitude axis, ripple on a DC level
LPF_XKINDS = (('es-retH', 'es+noise-retH', 'es-noise-only-retH', 'es-const+noise-retH')
              + tuple(f'{c}-amp:{i}' for c in ('nd', 'es+noise') for i in range(len(AMPS)))
              + tuple(f'{c}-ripple:{i}' for c in ('nd', 'es+noise') for i in range(len(RIPPLES))))
BPF_XKINDS = (tuple(f'{c}-amp:{i}' for c in ('os1', 'os2+noise') for i in range(len(AMPS)))
              + tuple(f'{c}-ripple:{i}' for c in ('os1', 'os2+noise') for i in range(len(RIPPLES))))
ZC = (0.3 - 2j)               # fixed complex coefficient of the BPF alphabets

# ---- hardening pass: sample dtypes.  name -> (dtype, coefficient the basis vector carries, class)
#   class 'exact'  : every value involved is exactly representable; judged with TOL_LIN
#   class 'lowprec': float16 / float32 / complex64 - judged with 8*eps(dtype) (the statement is silent about the working
#                    precision for a low-precision record; 0.5*e_k itself is exact in every one of them)
#   class 'unsigned' / 'full-scale-int': integer records whose edge extension 2*x[0]-x[k] leaves the dtype.  The property
#                    (linearity: F(x) for integer x == F of the same values as floats) is asserted under its own key
#                    {dev}:integer-input-wraparound:{class}  (finding C11_1, fixed in /repo 682ccba; the members always run)
DT = {
    'bool': (np.bool_, 1, 'exact'), 'i8': (np.int8, 3, 'exact'), 'i16': (np.int16, 3, 'exact'), 'i32': (np.int32, 3, 'exact'),
    'i64': (np.int64, 3, 'exact'), 'f16': (np.float16, 0.5, 'lowprec'), 'f32': (np.float32, 0.5, 'lowprec'),
    'c64': (np.complex64, 0.5, 'lowprec'), 'c128': (np.complex128, 0.5, 'exact'),
    'u8': (np.uint8, 3, 'unsigned'), 'u16': (np.uint16, 3, 'unsigned'), 'u32': (np.uint32, 3, 'unsigned'), 'u64': (np.uint64, 3, 'unsigned'),
    'i8-fs': (np.int8, 100, 'full-scale-int'), 'i16-fs': (np.int16, 30000, 'full-scale-int'),
}


def dt_tol(name):
    dt, _, cls = DT[name]
    return max(TOL_LIN, 8 * float(np.finfo(dt).eps)) if cls == 'lowprec' else TOL_LIN


LPF_HKINDS = (tuple(f'{c}-dt:{d}' for c in ('nd', 'es+noise') for d in DT)
              + tuple(f'{c}-sp:{x}' for c in ('nd', 'es+noise') for x in SC_SPELL)
              + tuple(f'{c}-gv:{g}' for c in ('nd', 'es+noise') for g in GV_SPELL)
              + ('es+zero-noise', 'es+zero-sum-noise', 'es-alias', 'es-mixed-dtype', 'es-mixed-dtype2', 'nd-strided', 'es+noise-retH-sp:np-int', 'nd-lowfs', 'es+noise-lowfs'))
BPF_HKINDS = (tuple(f'{c}-dt:{d}' for c in ('os1', 'os2+noise') for d in DT)
              + tuple(f'{c}-sp:{x}' for c in ('os1', 'os2+noise') for x in SC_SPELL)
              + tuple(f'{c}-gv:{g}' for c in ('os1', 'os2+noise') for g in GV_SPELL)
              + ('os2-row1-zero', 'os2+zero-noise', 'os2+zero-sum-noise', 'os2-alias', 'os2-fortran', 'os2-mixed-dtype', 'os2-mixed-dtype2', 'os1-lowfs', 'os2+noise-lowfs'))


def amp(i, shift=0):
    """member of the amplitude axis; shift walks cyclically so that the components of ONE call carry DIFFERENT amplitudes"""
    return AMPS[(i + shift) % len(AMPS)]


def ripple(i, shift=0, cplx=False):
    """-> (DC level D, ripple amplitude e).  BPF: complex level and complex ripple coefficient"""
    D, r = RIPPLES[(i + shift) % len(RIPPLES)]
    if cplx:
        return D * (1 - 0.5j), abs(D) * r * ZC
    return D, D * r


def on_dc(N, k, D, e, dt=float):
    """D + e*e_k as it is representable: -> (array, effective ripple coefficient e' with array[k] == D + e' exactly)"""
    a = np.full(N, D, dtype=dt)
    a[k] = D + e
    return a, a[k] - D


def n_min(order):
    """shortest record the statement admits for this order: longer than the 16-sample padding of the default order AND
    longer than scipy's padding 3*(order+1) (orders 1..8: 17, 17, 17, 17, 19, 22, 25, 28)"""
    return max(N_SHORT, 3 * (order + 1) + 1)


def n_op(order):
    return tuple(sorted({n_min(order)} | set(N_OP)))


def perm(N, k):
    """three fixed permutations of the basis index, so that signal, noise and both rows carry DIFFERENT basis
    vectors in the same call and each of them still runs through the complete basis"""
    m1 = 5 if N % 5 else 7                                  # multipliers coprime with N for every N in use (25: 7 and 3)
    return (m1 * k + 3) % N, (3 * k + 1) % N, N - 1 - k     # gcd(m1,N)=gcd(3,N)=1 for N in {17,19,22,25,28,64,257}


def kind_mode(kind):
    """-> (base container kind, retH mode?, key suffix, spelling of the scalar arguments, spelling of the grid)"""
    sp = gsp = None
    sfx = ''
    if kind.endswith('-lowfs'):      # the same order and cutoff/fs at fs = LOW_RATE (run_basis re-targets the configuration)
        kind, gsp, sfx = kind[:-6], 'lowfs', ':low-rate'
    if '-sp:' in kind:
        kind, sp = kind.split('-sp:')
        sfx = ':spelling'
    if '-gv:' in kind:
        kind, gsp = kind.split('-gv:')
        sfx = ':gv-form'
    if kind.endswith('-retH'):
        return (kind if kind == 'nd-retH' else kind[:-5]), True, ':retH-mode' + sfx, sp, gsp
    if '-amp:' in kind:
        return kind, False, ':amp', sp, gsp
    if '-ripple:' in kind:
        return kind, False, ':ripple', sp, gsp
    if '-dt:' in kind:
        return kind, False, ':dtype', sp, gsp
    if kind in LAYOUT_KINDS:
        return kind, False, ':layout', sp, gsp
    return kind, False, sfx, sp, gsp


LAYOUT_KINDS = ('es+zero-noise', 'es+zero-sum-noise', 'os2+zero-sum-noise', 'es-alias', 'es-mixed-dtype', 'es-mixed-dtype2', 'nd-strided', 'os2-row1-zero', 'os2+zero-noise',
                'os2-alias', 'os2-fortran', 'os2-mixed-dtype', 'os2-mixed-dtype2')


def dt_unit(N, k, name, sign=1):
    """coef*e_k held in the dtype `name` -> (array, coef as the float/complex the array really holds)"""
    dt, coef, cls = DT[name]
    a = np.zeros(N, dtype=dt)
    a[k] = coef if sign > 0 or cls == 'unsigned' or dt is np.bool_ else -coef
    c = a[k].item()
    return a, (float(c) if isinstance(c, (bool, int)) else c)


def basis_input(dev, kind, N, k):
    """-> (input object, slots).  slot = (attr, row, spec) ; spec = ('b', coef, idx) expected coef*M[:,idx] |
    ('c', value) expected the constant | ('z',) expected zero | ('r', D, e, idx) expected D + e*M[:,idx]"""
    s1, s2, s3 = perm(N, k)
    if dev == 'LPF':
        from opticomlib.typing import electrical_signal as ES
        if '-amp:' in kind:
            cont, i = kind.split('-amp:')
            i = int(i)
            a0, a1 = amp(i), amp(i, 1)
            if cont == 'nd':
                return a0 * unit(N, k), [('signal', None, ('b', a0, k))]
            return ES(a0 * unit(N, k), a1 * unit(N, s1)), [('signal', None, ('b', a0, k)), ('noise', None, ('b', a1, s1))]
        if '-ripple:' in kind:
            cont, i = kind.split('-ripple:')
            i = int(i)
            (D0, e0), (D1, e1) = ripple(i), ripple(i, 1)
            x0, f0 = on_dc(N, k, D0, e0)
            if cont == 'nd':
                return x0, [('signal', None, ('r', D0, f0, k))]
            x1, f1 = on_dc(N, s1, D1, e1)
            return ES(x0, x1), [('signal', None, ('r', D0, f0, k)), ('noise', None, ('r', D1, f1, s1))]
        if '-dt:' in kind:
            cont, name = kind.split('-dt:')
            x0, c0 = dt_unit(N, k, name)
            if cont == 'nd':
                return x0, [('signal', None, ('b', c0, k))]
            x1, c1 = dt_unit(N, s1, name, -1)
            return ES(x0, x1), [('signal', None, ('b', c0, k)), ('noise', None, ('b', c1, s1))]
        if kind == 'nd':                                   # plain float64 record (the -sp / -gv kinds use it)
            return unit(N, k), [('signal', None, ('b', 1.0, k))]
        if kind == 'es+zero-noise':                        # noise present but all zero: stays zero, signal unaffected
            return ES(unit(N, k), np.zeros(N)), [('signal', None, ('b', 1.0, k)), ('noise', None, ('z',))]
        if kind == 'es+zero-sum-noise':                    # noise e_k - e_s1: sum and mean exactly zero
            return ES(unit(N, s2), unit(N, k) - unit(N, s1)), [('signal', None, ('b', 1.0, s2)), ('noise', None, ('b', 1.0, k, s1))]
        if kind == 'es-alias':                             # the SAME array object as signal and as noise
            x = -2.5 * unit(N, k)
            e = ES(x)
            e.signal = x
            e.noise = x
            return e, [('signal', None, ('b', -2.5, k)), ('noise', None, ('b', -2.5, k))]
        if kind == 'es-mixed-dtype':                       # noise of another dtype than the signal (set as attribute)
            e = ES(unit(N, k))
            e.noise = (3 * unit(N, s1)).astype(np.int16)
            return e, [('signal', None, ('b', 1.0, k)), ('noise', None, ('b', 3.0, s1))]
        if kind == 'es-mixed-dtype2':                      # the other way round: integer signal, fractional float noise
            e = ES((3 * unit(N, k)).astype(np.int16))
            e.noise = 0.5 * unit(N, s1)
            return e, [('signal', None, ('b', 3.0, k)), ('noise', None, ('b', 0.5, s1))]
        if kind == 'nd-strided':                           # every second element of a buffer whose other elements are 7.0
            buf = np.full(2 * N, 7.0)
            buf[::2] = unit(N, k)
            return buf[::2], [('signal', None, ('b', 1.0, k))]
        if kind in ('nd-f64', 'nd-retH'):
            return unit(N, k), [('signal', None, ('b', 1.0, k))]
        if kind == 'nd-int':
            return unit(N, k, np.int64), [('signal', None, ('b', 1.0, k))]
        if kind == 'nd-scaled':
            return -2.5 * unit(N, k), [('signal', None, ('b', -2.5, k))]
        if kind == 'es':
            return ES(unit(N, k)), [('signal', None, ('b', 1.0, k))]
        if kind == 'es+noise':
            return ES(unit(N, k), unit(N, s1)), [('signal', None, ('b', 1.0, k)), ('noise', None, ('b', 1.0, s1))]
        if kind == 'es-noise-only':
            return ES(np.zeros(N), 0.5 * unit(N, k)), [('signal', None, ('z',)), ('noise', None, ('b', 0.5, k))]
        if kind == 'es-const+noise':
            return ES(np.full(N, 3.3), unit(N, k)), [('signal', None, ('c', 3.3)), ('noise', None, ('b', 1.0, k))]
        if kind == 'es-cplx-dtype':
            return ES(unit(N, k, complex), unit(N, s1, complex)), [('signal', None, ('b', 1.0, k)), ('noise', None, ('b', 1.0, s1))]
    else:
        from opticomlib.typing import optical_signal as OS
        z = ZC
        if '-amp:' in kind:
            cont, i = kind.split('-amp:')
            i = int(i)
            a0, a1, a2 = amp(i), amp(i, 1), amp(i, 2)
            if cont == 'os1':
                return OS(a0 * z * unit(N, k)), [('signal', None, ('b', a0 * z, k))]
            return (OS(np.array([a0 * unit(N, k, complex), 1j * a1 * unit(N, s1)]), np.array([a2 * z * unit(N, s2), -a0 * unit(N, s3, complex)])),
                    [('signal', 0, ('b', a0, k)), ('signal', 1, ('b', 1j * a1, s1)), ('noise', 0, ('b', a2 * z, s2)), ('noise', 1, ('b', -a0, s3))])
        if '-ripple:' in kind:
            cont, i = kind.split('-ripple:')
            i = int(i)
            R = [ripple(i, j, True) for j in range(3)]
            x0, f0 = on_dc(N, k, R[0][0], R[0][1], complex)
            if cont == 'os1':
                return OS(x0), [('signal', None, ('r', R[0][0], f0, k))]
            x1, f1 = on_dc(N, s1, R[1][0], R[1][1], complex)
            x2, f2 = on_dc(N, s2, R[2][0], R[2][1], complex)
            x3, f3 = on_dc(N, s3, np.conj(R[0][0]), np.conj(R[0][1]), complex)
            return (OS(np.array([x0, x1]), np.array([x2, x3])),
                    [('signal', 0, ('r', R[0][0], f0, k)), ('signal', 1, ('r', R[1][0], f1, s1)),
                     ('noise', 0, ('r', R[2][0], f2, s2)), ('noise', 1, ('r', np.conj(R[0][0]), f3, s3))])
        if '-dt:' in kind:
            cont, name = kind.split('-dt:')
            x0, c0 = dt_unit(N, k, name)
            if cont == 'os1':
                return OS(x0), [('signal', None, ('b', c0, k))]
            (x1, c1), (x2, c2), (x3, c3) = dt_unit(N, s1, name, -1), dt_unit(N, s2, name, -1), dt_unit(N, s3, name)
            return (OS(np.array([x0, x1]), np.array([x2, x3])),
                    [('signal', 0, ('b', c0, k)), ('signal', 1, ('b', c1, s1)), ('noise', 0, ('b', c2, s2)), ('noise', 1, ('b', c3, s3))])
        if kind == 'os2-row1-zero':                        # second polarisation empty, no noise
            return OS(np.array([z * unit(N, k), np.zeros(N, complex)])), [('signal', 0, ('b', z, k)), ('signal', 1, ('z',))]
        if kind == 'os2+zero-noise':                       # noise present but all zero in both polarisations
            return (OS(np.array([unit(N, k, complex), 1j * unit(N, s1)]), np.zeros((2, N), complex)),
                    [('signal', 0, ('b', 1.0, k)), ('signal', 1, ('b', 1j, s1)), ('noise', 0, ('z',)), ('noise', 1, ('z',))])
        if kind == 'os2+zero-sum-noise':                   # zero-sum noise in both polarisations
            return (OS(np.array([unit(N, k, complex), 1j * unit(N, s1)]), np.array([z * (unit(N, s2) - unit(N, s3)), unit(N, k) - unit(N, s1) + 0j])),
                    [('signal', 0, ('b', 1.0, k)), ('signal', 1, ('b', 1j, s1)), ('noise', 0, ('b', z, s2, s3)), ('noise', 1, ('b', 1.0, k, s1))])
        if kind == 'os2-alias':                            # the SAME (2,N) array object as signal and as noise
            A = np.array([z * unit(N, k), -unit(N, s1, complex)])
            o = OS(A)
            o.signal = A
            o.noise = A
            return o, [('signal', 0, ('b', z, k)), ('signal', 1, ('b', -1.0, s1)), ('noise', 0, ('b', z, k)), ('noise', 1, ('b', -1.0, s1))]
        if kind == 'os2-fortran':                          # column-major (2,N) arrays: the samples of a row are not contiguous
            A = np.asfortranarray(np.array([unit(N, k, complex), 1j * unit(N, s1)]))
            B = np.asfortranarray(np.array([z * unit(N, s2), -unit(N, s3, complex)]))
            return OS(A, B), [('signal', 0, ('b', 1.0, k)), ('signal', 1, ('b', 1j, s1)), ('noise', 0, ('b', z, s2)), ('noise', 1, ('b', -1.0, s3))]
        if kind == 'os2-mixed-dtype':                      # complex128 signal, int8 noise in one polarisation only
            o = OS(np.array([unit(N, k, complex), 1j * unit(N, s1)]))
            o.noise = np.array([3 * unit(N, s2), np.zeros(N)]).astype(np.int8)
            return o, [('signal', 0, ('b', 1.0, k)), ('signal', 1, ('b', 1j, s1)), ('noise', 0, ('b', 3.0, s2)), ('noise', 1, ('z',))]
        if kind == 'os2-mixed-dtype2':                     # the other way round: int8 signal, complex fractional noise
            o = OS(np.array([3 * unit(N, k), -3 * unit(N, s1)]).astype(np.int8))
            o.noise = np.array([0.5 * z * unit(N, s2), 0.5j * unit(N, s3)])
            return o, [('signal', 0, ('b', 3.0, k)), ('signal', 1, ('b', -3.0, s1)), ('noise', 0, ('b', 0.5 * z, s2)), ('noise', 1, ('b', 0.5j, s3))]
        if kind == 'os1':
            return OS(unit(N, k, complex)), [('signal', None, ('b', 1.0, k))]
        if kind == 'os1-f64':
            return OS(unit(N, k)), [('signal', None, ('b', 1.0, k))]
        if kind == 'os1-scaled':
            return OS(z * unit(N, k)), [('signal', None, ('b', z, k))]
        if kind == 'os1+noise':
            return OS(unit(N, k, complex), 1j * unit(N, s1)), [('signal', None, ('b', 1.0, k)), ('noise', None, ('b', 1j, s1))]
        if kind == 'os1-noise-only':
            return OS(np.zeros(N, complex), unit(N, k, complex)), [('signal', None, ('z',)), ('noise', None, ('b', 1.0, k))]
        if kind == 'os2':
            return OS(np.array([unit(N, k, complex), 1j * unit(N, s1)])), [('signal', 0, ('b', 1.0, k)), ('signal', 1, ('b', 1j, s1))]
        if kind == 'os2+noise':
            return (OS(np.array([unit(N, k, complex), unit(N, s1, complex)]), np.array([1j * unit(N, s2), -unit(N, s3, complex)])),
                    [('signal', 0, ('b', 1.0, k)), ('signal', 1, ('b', 1.0, s1)), ('noise', 0, ('b', 1j, s2)), ('noise', 1, ('b', -1.0, s3))])
        if kind == 'os2-const+noise':
            return (OS(np.array([np.full(N, 3.3 + 0j), np.full(N, -1 + 0j)]), np.array([unit(N, k, complex), np.zeros(N, complex)])),
                    [('signal', 0, ('c', 3.3)), ('signal', 1, ('c', -1.0)), ('noise', 0, ('b', 1.0, k)), ('noise', 1, ('z',))])
        if kind == 'os2-npol':
            return OS(unit(N, k, complex), n_pol=2), [('signal', 0, ('b', 1.0, k)), ('signal', 1, ('b', 1.0, k))]
    raise KeyError(kind)


def clause_of(attr, row):
    if attr == 'noise':
        return 'noise-path' if not row else 'noise-path-row1'
    return 'pol-row1' if row == 1 else 'signal-path'


class Fails:
    """first failing instance + count + worst error per key"""

    def __init__(self):
        self.d = {}

    def add(self, key, msg, err=0.0):
        if key not in self.d:
            self.d[key] = [msg, 1, err]
        else:
            e = self.d[key]
            e[1] += 1
            e[2] = max(e[2], err)

    def viol(self, prefix):
        return [(k, f'{prefix}: {m} [{c} failing response(s), worst {w:.3g}]') for k, (m, c, w) in self.d.items()]


def run_basis(cfg, N, kind, M, scale):
    """Tolerances are RELATIVE to the amplitude the component carries at the input (|coef| of its slot): a linear
    recursion in IEEE arithmetic is scale covariant (exactly for powers of two, to rounding otherwise; no member of the
    amplitude axis comes near under-/overflow: 1e-12 * the smallest tail kept is > 1e-300), so the rounding bound
    TOL_LIN*max|M|*|coef| that holds at |coef| = 1 holds at every |coef|.  Ripple on a DC level D: the two rounding sources
    add - TOL_CONST*|D| (DC-gain cancellation, which also covers the eps*|D| representation error of D + e) plus
    TOL_LIN*max|M|*|e|."""
    dev = cfg[0]
    base, reth, sfx, sp, gsp = kind_mode(kind)
    if gsp == 'lowfs':
        cfg = cfg[:3] + (LOW_RATE, cfg[4])       # same order and cutoff/fs -> the same operator M (design depends on BW/fs only)
        setup(cfg)
    elif gsp is not None:
        setup(cfg, gsp)              # the same rate, configured through another call form of gv (M was taken before)
    tol_lin, wrap = TOL_LIN, None
    if '-dt:' in base:
        name = base.split('-dt:')[1]
        tol_lin = dt_tol(name)
        wrap = DT[name][2] if DT[name][2] in ('unsigned', 'full-scale-int') else None
    fails = Fails()
    h = hashlib.sha256()
    worst = 0.0
    worst_c = 0.0
    for k in range(N):
        inp, slots = basis_input(dev, base, N, k)
        snap = freeze(inp)           # every input is write-protected and compared byte for byte after the call
        if reth:
            r = F(cfg, inp, retH=True, sp=sp)
            if not (isinstance(r, tuple) and len(r) == 2):
                fails.add('LPF:retH:grid', f'k={k}: retH=True did not return (output, H)')
                continue
            out = r[0]
        else:
            out = F(cfg, inp, sp=sp)
        if not unchanged(inp, snap):
            fails.add(f'{dev}:input-modified', f'k={k}: the input object was changed by the call')
        sig, noi = arrs(out)
        h.update(np.ascontiguousarray(sig).tobytes())
        if noi is not None:
            h.update(np.ascontiguousarray(noi).tobytes())
        shp = in_shape(inp)
        if sig.shape != shp:
            fails.add(f'{dev}:length', f'k={k}: input shape {shp}, output signal shape {sig.shape}')
            continue
        has_noise_slot = any(a == 'noise' for a, _, _ in slots)
        if has_noise_slot and (noi is None or noi.shape != shp):
            fails.add(f'{dev}:length', f'k={k}: input noise shape {shp}, output noise {None if noi is None else noi.shape}')
            continue
        # amplitude of the smallest component of this call: what "zero" is measured against
        amin = min([1.0] + [abs(sp[1]) for _, _, sp in slots if sp[0] == 'b'] + [abs(sp[2]) for _, _, sp in slots if sp[0] == 'r'])
        if not has_noise_slot and noi is not None and (noi.shape != shp or np.max(np.abs(noi)) > TOL_LIN * scale * amin):
            fails.add(f'{dev}:crosstalk:noise-from-nothing', f'k={k}: noise-free input produced noise')
        for attr, row, spec in slots:
            a = sig if attr == 'signal' else noi
            got = a if row is None else a[row]
            cl = clause_of(attr, row)
            if not np.all(np.isfinite(got)):
                fails.add(f'{dev}:{cl}:non-finite', f'k={k}: non-finite output')
                continue
            if spec[0] == 'b':
                exp = spec[1] * (M[:, spec[2]] if len(spec) == 3 else M[:, spec[2]] - M[:, spec[3]])      # 4-tuple: coef*(e_i - e_j)
                err = float(np.max(np.abs(got - exp))) / (scale * abs(spec[1]))
                if wrap is None:
                    worst = max(worst, err)
                if err > tol_lin:
                    fails.add(f'{dev}:{cl}:matrix-mismatch{sfx}' if wrap is None else f'{dev}:integer-input-wraparound:{wrap}',
                              f'k={k}: {attr}{"" if row is None else f"[{row}]"} should be {spec[1]}*{f"M[:,{spec[2]}]" if len(spec) == 3 else f"(M[:,{spec[2]}]-M[:,{spec[3]}])"}, max dev {err:.3g} of |coef|*max|M|', err)
            elif spec[0] == 'r':
                _, D, e, idx = spec
                exp = D + e * M[:, idx]
                tol = TOL_CONST * abs(D) + TOL_LIN * scale * abs(e)
                err = float(np.max(np.abs(got - exp))) / tol * TOL_LIN          # <= TOL_LIN  <=>  deviation <= tol
                worst = max(worst, err)
                if err > TOL_LIN:
                    fails.add(f'{dev}:{cl}:matrix-mismatch{sfx}',
                              f'k={k}: {attr}{"" if row is None else f"[{row}]"} should be {D} + {e:.6g}*M[:,{idx}], max dev {float(np.max(np.abs(got - exp))):.3g}, '
                              f'allowed {tol:.3g} (the ripple itself is {abs(e):.3g})', err)
            elif spec[0] == 'c':
                err = float(np.max(np.abs(got - spec[1]))) / abs(spec[1])
                worst_c = max(worst_c, err)
                if err > TOL_CONST:
                    fails.add(f'{dev}:const:{cl}{sfx}', f'k={k}: constant {spec[1]} came back with rel. dev {err:.3g}', err)
            else:
                err = float(np.max(np.abs(got)))
                if err > TOL_LIN * scale * amin:
                    fails.add(f'{dev}:crosstalk:{cl}{sfx}', f'k={k}: zero {attr} component came back non-zero ({err:.3g})', err)
    return fails, h.hexdigest(), worst, worst_c


# --------------------------------------------------------------------------- superposition / constants
PAIRS = ('ramp/alt', 'rand')
COEF_R = ((1.0, 1.0), (2.0, -0.5))
COEF_C = ((1.0, 1.0), (2.0, -0.5), (1j, 0.5 - 1j))
EXTS = tuple(('amp', i) for i in range(len(AMPS))) + tuple(('ripple', i) for i in range(len(RIPPLES)))


def fields(pair, N, seed, cfg, cplx):
    if pair == 'ramp/alt':
        x = np.linspace(-1.0, 1.0, N)
        y = np.where(np.arange(N) % 2 == 0, 1.0, -1.0)
        if cplx:
            x = x + 1j * x[::-1] ** 2
            y = y * np.exp(1j * np.pi * np.arange(N) / 7)
        return x, y
    _, n, c, fs, src = cfg
    rng = np.random.default_rng([int(seed), N, n, int(round(c * 1000)), int(fs / 1e9), src == 'arg'])
    if cplx:
        return rng.standard_normal(N) + 1j * rng.standard_normal(N), rng.standard_normal(N) + 1j * rng.standard_normal(N)
    return rng.standard_normal(N), rng.standard_normal(N)


_LCACHE = {}


def dress(w, ext, shift, cplx):
    """put the waveform w on the member `ext` of the amplitude / ripple axis.
    -> (input array, inv) ; inv(expected F(w)) = expected output ; plus the absolute tolerance per unit of max|M|*max|w|"""
    if ext is None:
        return w, (lambda Fw: Fw), 1.0, 0.0
    if ext[0] == 'amp':
        s = amp(ext[1], shift)
        return s * w, (lambda Fw: s * Fw), abs(s), 0.0
    D, e = ripple(ext[1], shift, cplx)
    return D + e * w, (lambda Fw: D + e * Fw), abs(e), TOL_CONST * abs(D)


def run_lin(cfg, N, kind, M, scale, seed):
    """kind = ('lin', container, pair, (a, b)[, ext]) ; ext = ('amp', i) | ('ripple', i): the combination a*x+b*y is put
    on that member of the amplitude / ripple axis (each component of a container on a DIFFERENT member) and the
    deviation is judged relative to the amplitude (amp) or with the two-term bound of run_basis (ripple)"""
    dev = cfg[0]
    cont, pair, (a, b) = kind[1:4]
    ext = kind[4] if len(kind) > 4 else None
    reth = cont.endswith('-retH')
    if reth:
        cont = cont[:-5]
    sfx = (':retH-mode' if reth else '') + ('' if ext is None else f':{ext[0]}')
    fails = Fails()
    cplx = dev == 'BPF'
    x, y = fields(pair, N, seed, cfg, cplx)
    if dev == 'LPF':
        from opticomlib.typing import electrical_signal as ES
        plain = lambda v: arrs(F(cfg, v.copy()))[0]
    else:
        from opticomlib.typing import optical_signal as OS
        plain = lambda v: arrs(F(cfg, OS(v.copy())))[0]
    ck = (cfg, N, pair, seed)
    if ck not in _LCACHE:            # F(x), F(y) through the plainest entry point: shared by the kinds of one (cfg, N, pair)
        if len(_LCACHE) >= 8:
            _LCACHE.clear()
        _LCACHE[ck] = (plain(x), plain(y))
    Fx, Fy = _LCACHE[ck]
    sc = scale * max(np.max(np.abs(x)), np.max(np.abs(y))) * max(1.0, abs(a), abs(b))
    worst = 0.0

    def chk(key, got, exp, what, unit_amp=1.0, tol_abs=0.0):
        nonlocal worst
        if np.shape(got) != np.shape(exp):
            fails.add(f'{dev}:length', f'{what}: shape {np.shape(got)} expected {np.shape(exp)}')
            return
        dv = float(np.max(np.abs(got - exp)))
        err = dv / (sc * unit_amp + tol_abs / TOL_LIN)          # <= TOL_LIN  <=>  dv <= TOL_LIN*sc*amp + tol_abs
        worst = max(worst, err)
        if not err <= TOL_LIN:
            fails.add(key, f'{what}: max dev {dv:.3g}, allowed {TOL_LIN * sc * unit_amp + tol_abs:.3g}', err)

    def call(inp):
        snap = freeze(inp)
        r = F(cfg, inp, retH=reth)
        if not unchanged(inp, snap):
            fails.add(f'{dev}:input-modified', 'the input object was changed by the call')
        if not reth:
            return r
        if not (isinstance(r, tuple) and len(r) == 2):
            fails.add('LPF:retH:grid', 'retH=True did not return (output, H)')
            return None
        return r[0]

    chk(f'{dev}:matrix-apply', Fx, M @ x, 'F(x) vs M@x')
    chk(f'{dev}:matrix-apply', Fy, M @ y, 'F(y) vs M@y')
    obs = np.zeros(0)
    if cont in ('nd', 'os1'):
        z, inv, ua, ta = dress(a * x + b * y, ext, 0, cplx)
        out = call(z if dev == 'LPF' else OS(z))
        if out is not None:
            Fz = arrs(out)[0]
            chk(f'{dev}:superposition{sfx}', Fz, inv(a * Fx + b * Fy), f'F({a}x+{b}y) vs {a}F(x)+{b}F(y) [{cont}{sfx}]', ua, ta)
            obs = Fz
    elif cont == 'es+noise':
        z, inv, ua, ta = dress(a * x + b * y, ext, 0, cplx)
        zn, invn, uan, tan_ = dress(a * y - b * x, ext, 1, cplx)
        out = call(ES(z, zn))
        if out is not None:
            s, nz = arrs(out)
            chk(f'{dev}:superposition{sfx}', s, inv(a * Fx + b * Fy), f'signal of F(es({a}x+{b}y, noise={a}y-{b}x)) [{sfx}]', ua, ta)
            if nz is None:
                fails.add(f'{dev}:length', 'noise component vanished')
            else:
                chk(f'{dev}:superposition:noise-path{sfx}', nz, invn(a * Fy - b * Fx), 'noise of the same call', uan, tan_)
            obs = s
    else:  # os2+noise
        d0 = dress(a * x + b * y, ext, 0, cplx)
        d1 = dress(x, ext, 1, cplx)
        d2 = dress(y, ext, 2, cplx)
        d3 = dress(a * y - b * x, ext, 0, cplx)
        out = call(OS(np.array([d0[0], d1[0]]), np.array([d2[0], d3[0]])))
        s, nz = arrs(out)
        if s.shape != (2, N) or nz is None or nz.shape != (2, N):
            fails.add(f'{dev}:length', f'2-pol output shapes {s.shape} / {None if nz is None else nz.shape}')
        else:
            chk(f'{dev}:superposition{sfx}', s[0], d0[1](a * Fx + b * Fy), 'row 0 of the signal', d0[2], d0[3])
            chk(f'{dev}:superposition:pol-row1{sfx}', s[1], d1[1](Fx), 'row 1 of the signal (= x)', d1[2], d1[3])
            chk(f'{dev}:superposition:noise-path{sfx}', nz[0], d2[1](Fy), 'row 0 of the noise (= y)', d2[2], d2[3])
            chk(f'{dev}:superposition:noise-path{sfx}', nz[1], d3[1](a * Fy - b * Fx), 'row 1 of the noise', d3[2], d3[3])
        obs = s
    return fails, hashlib.sha256(np.ascontiguousarray(obs).tobytes()).hexdigest(), worst, 0.0


CONSTS_R = (3.3, -1.0)
CONSTS_C = (3.3, -1.0, 2 - 1j)


def run_const(cfg, N, kind):
    """kind = ('const', container[, i]) ; i = index into AMPS: the same constants times that amplitude"""
    dev = cfg[0]
    cont = kind[1]
    reth = cont.endswith('-retH')
    if reth:
        cont = cont[:-5]
    g = [1.0, 1.0, 1.0] if len(kind) < 3 else [amp(kind[2], j) for j in range(3)]
    sfx = (':retH-mode' if reth else '') + ('' if len(kind) < 3 else ':amp')
    fails = Fails()
    worst = 0.0
    h = hashlib.sha256()

    def chk(got, v, what):
        nonlocal worst
        got = np.asarray(got)
        h.update(np.ascontiguousarray(got).tobytes())
        if got.shape != (N,):
            fails.add(f'{dev}:length', f'{what}: shape {got.shape}')
            return
        err = float(np.max(np.abs(got - v))) / abs(v)
        worst = max(worst, err)
        if not err <= TOL_CONST:
            fails.add(f'{dev}:const{sfx}', f'{what}: constant {v} came back with rel. dev {err:.3g}', err)

    def call(inp):
        if not reth:
            return F(cfg, inp)
        r = F(cfg, inp, retH=True)
        if not (isinstance(r, tuple) and len(r) == 2):
            fails.add('LPF:retH:grid', 'retH=True did not return (output, H)')
            return None
        return r[0]

    if dev == 'LPF':
        from opticomlib.typing import electrical_signal as ES
        if cont == 'nd':
            for j, v in enumerate(CONSTS_R):
                v = v * g[j]
                out = call(np.full(N, v))
                if out is not None:
                    chk(arrs(out)[0], v, f'ndarray const {v}')
        else:
            v0, v1 = CONSTS_R[0] * g[0], CONSTS_R[1] * g[1]
            out = call(ES(np.full(N, v0), np.full(N, v1)))
            if out is not None:
                s, nz = arrs(out)
                chk(s, v0, 'signal of es(const, noise=const)')
                chk(nz if nz is not None else np.zeros(0), v1, 'noise of es(const, noise=const)')
    else:
        from opticomlib.typing import optical_signal as OS
        if cont == 'os1':
            for j, v in enumerate(CONSTS_C):
                v = v * g[j]
                chk(arrs(F(cfg, OS(np.full(N, v, dtype=complex))))[0], v, f'1-pol const {v}')
        else:
            v = (3.3 * g[0], (2 - 1j) * g[1], -1.0 * g[2], 1j * g[0])
            s, nz = arrs(F(cfg, OS(np.array([np.full(N, v[0] + 0j), np.full(N, v[1])]), np.array([np.full(N, v[2] + 0j), np.full(N, v[3])]))))
            if s.shape != (2, N) or nz is None or nz.shape != (2, N):
                fails.add(f'{dev}:length', f'2-pol output shapes {s.shape}')
            else:
                chk(s[0], v[0], 'signal row 0')
                chk(s[1], v[1], 'signal row 1')
                chk(nz[0], v[2], 'noise row 0')
                chk(nz[1], v[3], 'noise row 1')
    return fails, h.hexdigest(), 0.0, worst


# ---- hardening pass: dtype-quantised fields and chained calls
FIELD_DT = tuple(k for k, v in DT.items() if v[2] in ('exact', 'lowprec')) + ('f64-int',)
FIELD_AMP = {'i8': 40, 'i16': 10000, 'i32': 10 ** 6, 'i64': 10 ** 6}     # 3*A stays inside the dtype (edge extension 2*x[0]-x[k])


def quantise(w, name):
    """the waveform w as a record of dtype `name` (integers: scaled to +-A and rounded; 'f64-int': integer-valued floats)"""
    if name == 'f64-int':
        return np.round(100 * w.real)
    dt = DT[name][0]
    if dt is np.bool_:
        return w.real > 0
    if name in FIELD_AMP:
        return np.round(w.real / np.max(np.abs(w.real)) * FIELD_AMP[name]).astype(dt)
    if np.issubdtype(dt, np.complexfloating):
        return w.astype(dt)
    return w.real.astype(dt)


def run_field(cfg, N, kind, M, scale, seed):
    """kind = ('field', container, pair, dtype name): records of that dtype in every component of the container;
    each component of the output must be M @ (the values the record holds) - linearity between an integer / low-precision
    record and the float64 basis the matrix was measured with"""
    dev = cfg[0]
    cont, pair, name = kind[1:4]
    cplx = dev == 'BPF'
    x, y = fields(pair, N, seed, cfg, cplx)
    comps = [quantise(w, name) for w in (x, y, x[::-1], y[::-1])]
    tol = TOL_LIN if name == 'f64-int' else dt_tol(name)
    fails = Fails()
    worst = 0.0
    if dev == 'LPF':
        from opticomlib.typing import electrical_signal as ES
        inp = comps[0] if cont == 'nd' else ES(comps[0], comps[1])
        used = [('signal', None, 0)] + ([('noise', None, 1)] if cont != 'nd' else [])
    else:
        from opticomlib.typing import optical_signal as OS
        inp = OS(comps[0]) if cont == 'os1' else OS(np.array([comps[0], comps[1]]), np.array([comps[2], comps[3]]))
        used = [('signal', None, 0)] if cont == 'os1' else [('signal', 0, 0), ('signal', 1, 1), ('noise', 0, 2), ('noise', 1, 3)]
    snap = freeze(inp)
    out = F(cfg, inp)
    if not unchanged(inp, snap):
        fails.add(f'{dev}:input-modified', 'the input object was changed by the call')
    sig, noi = arrs(out)
    h = hashlib.sha256(np.ascontiguousarray(sig).tobytes())
    for attr, row, j in used:
        a = sig if attr == 'signal' else noi
        got = None if a is None else (a if row is None else (a[row] if a.ndim == 2 else None))
        if got is None or got.shape != (N,):
            fails.add(f'{dev}:length', f'{attr} row {row}: output shape {None if a is None else a.shape}')
            continue
        v = comps[j].astype(complex) if cplx else np.real(comps[j]).astype(float)
        exp = M @ v
        err = float(np.max(np.abs(got - exp))) / (scale * max(float(np.max(np.abs(v))), 1e-300))
        worst = max(worst, err * TOL_LIN / tol)
        if not err <= tol:
            fails.add(f'{dev}:matrix-apply:{clause_of(attr, row)}:dtype', f'{attr}{"" if row is None else f"[{row}]"} of a {name} record: deviates from M@values by {err:.3g} of max|M|*max|x| (allowed {tol:.3g})', err)
    return fails, h.hexdigest(), worst, 0.0


def run_chain(cfg, N, kind, M, scale, seed):
    """kind = ('chain', container, pair): the container returned by one call is the input of the next (LPF on an ndarray:
    also the returned .signal array) ; expected M @ M @ x in every component"""
    dev = cfg[0]
    cont, pair = kind[1:3]
    cplx = dev == 'BPF'
    x, y = fields(pair, N, seed, cfg, cplx)
    fails = Fails()
    worst = 0.0
    if dev == 'LPF':
        from opticomlib.typing import electrical_signal as ES
        inp = x.copy() if cont == 'nd' else ES(x, y)
        used = [('signal', None, x)] + ([('noise', None, y)] if cont != 'nd' else [])
    else:
        from opticomlib.typing import optical_signal as OS
        inp = OS(x) if cont == 'os1' else OS(np.array([x, y]), np.array([y[::-1], x[::-1]]))
        used = [('signal', None, x)] if cont == 'os1' else [('signal', 0, x), ('signal', 1, y), ('noise', 0, y[::-1]), ('noise', 1, x[::-1])]
    out1 = F(cfg, inp)
    snap = freeze(out1)
    outs = [F(cfg, out1)]
    if dev == 'LPF' and cont == 'nd':
        outs.append(F(cfg, out1.signal))
    if not unchanged(out1, snap):
        fails.add(f'{dev}:input-modified', 'the container returned by the first call was changed by the second')
    h = hashlib.sha256()
    for out in outs:
        sig, noi = arrs(out)
        h.update(np.ascontiguousarray(sig).tobytes())
        for attr, row, v in used:
            a = sig if attr == 'signal' else noi
            got = None if a is None else (a if row is None else (a[row] if a.ndim == 2 else None))
            if got is None or got.shape != (N,):
                fails.add(f'{dev}:length', f'{attr} row {row}: output shape {None if a is None else a.shape}')
                continue
            exp = M @ (M @ v)
            err = float(np.max(np.abs(got - exp))) / (2 * scale * scale * float(np.max(np.abs(v))))
            worst = max(worst, err)
            if not err <= TOL_LIN:
                fails.add(f'{dev}:chained:{clause_of(attr, row)}', f'{attr}{"" if row is None else f"[{row}]"} of F(F(x)) deviates from M@M@x by {err:.3g}', err)
    return fails, h.hexdigest(), worst, 0.0


def case_operator(case):
    cfg, N, kind, seed = case
    setup(cfg)
    dev = cfg[0]
    M, v0 = ref_matrix(cfg, N)
    scale = float(np.max(np.abs(M))) or 1.0
    viol = []
    first_kind = kind in (('nd-f64', LPF_XKINDS[0], LPF_HKINDS[0]) if dev == 'LPF' else ('os1', BPF_XKINDS[0], BPF_HKINDS[0]))
    if first_kind:
        viol += v0                       # problems of the reference path are reported once per configuration and part
    if isinstance(kind, str):
        fails, dig, w, wc = run_basis(cfg, N, kind, M, scale)
    elif kind[0] == 'lin':
        fails, dig, w, wc = run_lin(cfg, N, kind, M, scale, seed)
    elif kind[0] == 'field':
        fails, dig, w, wc = run_field(cfg, N, kind, M, scale, seed)
    elif kind[0] == 'chain':
        fails, dig, w, wc = run_chain(cfg, N, kind, M, scale, seed)
    else:
        fails, dig, w, wc = run_const(cfg, N, kind)
    viol += fails.viol(f'cfg={cfg} N={N} kind={kind}')
    filters = float(np.max(np.abs(M - np.eye(N)))) > 1e-3
    calls = N if isinstance(kind, str) else 2
    return res(viol=viol, obs=(dig, round(scale, 9)), nontrivial=(cfg, N, kind) if filters else False,
               stats={'filter_calls': calls, 'basis_responses_compared': N if isinstance(kind, str) else 0},
               payload={'lin': w, 'const': wc, 'Mmax': scale})


# --------------------------------------------------------------------------- zero phase
def pulses(N):
    c = N // 2
    imp = np.zeros(N)
    imp[c] = 1.0
    rect = np.zeros(N)
    rect[c - 4:c + 5] = 1.0
    tri = np.zeros(N)
    tri[c - 8:c + 9] = 1.0 - np.abs(np.arange(-8, 9)) / 9.0
    return {'impulse': imp, 'rect9': rect, 'tri17': tri}


def split_kind(kind):
    """kind of the zerophase / tone parts: 'cont' | 'cont-retH' | (cont, 'amp', i) | (cont, 'ripple', i)
    -> (container, retH mode?, ext or None)"""
    ext = None
    if not isinstance(kind, str):
        kind, ext = kind[0], tuple(kind[1:])
    if kind.endswith('-retH'):
        return kind[:-5], True, ext
    return kind, False, ext


def mode_call(cfg, inp, reth, fails):
    """the block in plain or in retH=True mode -> output container (None when retH mode did not return a pair)"""
    if not reth:
        return F(cfg, inp)
    r = F(cfg, inp, retH=True)
    if not (isinstance(r, tuple) and len(r) == 2):
        fails.add('LPF:retH:grid', 'retH=True did not return (output, H)')
        return None
    return r[0]


def case_zerophase(case):
    cfg, kind = case
    setup(cfg)
    dev, n, c, fs, src = cfg
    cont, reth, ext = split_kind(kind)
    g = [1.0, 1.0, 1.0] if ext is None else [amp(ext[1], j) for j in range(3)]       # symmetry is judged relative to the peak
    N = N_SYM
    ctr = N // 2
    L = min(ctr, int(6 / c + 50))
    P = pulses(N)
    fails = Fails()
    h = hashlib.sha256()
    worst = 0.0
    resp = []                    # (label, response array, is_impulse)
    if dev == 'LPF':
        from opticomlib.typing import electrical_signal as ES
        if cont == 'nd':
            for nm, p in P.items():
                out = mode_call(cfg, g[0] * p, reth, fails)
                if out is not None:
                    resp.append((nm, arrs(out)[0], nm == 'impulse'))
        else:
            for (na, nb) in (('rect9', 'impulse'), ('impulse', 'tri17')):
                out = mode_call(cfg, ES(g[0] * P[na], g[1] * P[nb]), reth, fails)
                if out is not None:
                    s, nz = arrs(out)
                    resp += [(f'{na} (signal)', s, na == 'impulse'), (f'{nb} (noise)', nz, nb == 'impulse')]
    else:
        from opticomlib.typing import optical_signal as OS
        z = 1 + 0.5j
        if cont == 'os1':
            for nm, p in P.items():
                resp.append((nm, arrs(F(cfg, OS(g[0] * z * p)))[0], nm == 'impulse'))
        else:
            s, nz = arrs(F(cfg, OS(np.array([g[0] * z * P['impulse'], 1j * g[1] * P['rect9']]), np.array([g[2] * P['tri17'] + 0j, -z * g[0] * P['impulse']]))))
            if s.shape != (2, N) or nz is None or nz.shape != (2, N):
                fails.add(f'{dev}:length', f'2-pol output shapes {s.shape}')
            else:
                resp += [('impulse (signal row 0)', s[0], True), ('rect9 (signal row 1)', s[1], False),
                         ('tri17 (noise row 0)', nz[0], False), ('impulse (noise row 1)', nz[1], True)]
    for nm, r, is_imp in resp:
        if r is None or np.shape(r) != (N,):
            fails.add(f'{dev}:length', f'{nm}: output shape {None if r is None else np.shape(r)}')
            continue
        h.update(np.ascontiguousarray(r).tobytes())
        peak = float(np.max(np.abs(r)))
        if not peak > 0 or not np.isfinite(peak):
            fails.add(f'{dev}:zero-phase:no-response', f'{nm}: peak {peak}')
            continue
        seg = r[ctr - L:ctr + L + 1]
        asym = float(np.max(np.abs(seg - seg[::-1]))) / peak
        worst = max(worst, asym)
        if not asym <= TOL_SYM:
            fails.add(f'{dev}:zero-phase:asymmetric', f'{nm}: response not symmetric about sample {ctr} over +-{L}: {asym:.3g} of the peak', asym)
        if is_imp and int(np.argmax(np.abs(r))) != ctr:
            fails.add(f'{dev}:zero-phase:delayed-peak', f'{nm}: peak at sample {int(np.argmax(np.abs(r)))}, impulse at {ctr}')
    return res(viol=fails.viol(f'cfg={cfg} kind={kind}'), obs=h.hexdigest(), nontrivial=(cfg, kind),
               stats={'filter_calls': len(resp), 'pulse_responses': len(resp)}, payload={'sym': worst})


# --------------------------------------------------------------------------- tones
def ladder(c, N=N_TONE):
    fr = [0.0, 0.2 * c, 0.4 * c, 0.6 * c, 0.8 * c, c] + [c + (0.49 - c) * j / 6 for j in range(1, 7)]
    return sorted(set(int(round(f * N)) for f in fr))


def case_tone(case):
    """kind: see split_kind.  Amplitude members: the tones are multiplied by the amplitude and the gain is taken relative
    to it (every absolute slack is multiplied by the amplitude, resp. its square for powers).  Ripple members: the tone
    rides on a DC level, x = D + e*tone, and the gain is that of the ripple, (y - D)/(e*tone); the DC level contributes
    its own rounding TOL_CONST*|D| (this also covers the eps*|D| representation error of D + e*tone), i.e.
    TOL_CONST*|D/e| on the gain, which is added to the slack of every gain comparison."""
    cfg, kind = case
    setup(cfg)
    dev, n, c, fs, src = cfg
    cont, reth, ext = split_kind(kind)
    cplx = dev == 'BPF'
    N = N_TONE
    t = np.arange(N)
    mid = slice(N // 4, 3 * N // 4)
    ks = ladder(c)
    kc = int(round(c * N))
    tones = [('grid', k, k / N) for k in ks] + [('exact-cutoff', None, c)]
    fails = Fails()
    h = hashlib.sha256()
    kf, kp = ('flat', 'phase') if ext is None else (f'flat:{ext[0]}', f'phase:{ext[0]}')
    meas = {kf: 0.0, kp: 0.0, 'cut_dev_dB': 0.0, 'reth2': 0.0}
    calls = 0
    suffix = ':fs-arg' if src == 'arg' else ''
    sfx = (':retH-mode' if reth else '') + ('' if ext is None else f':{ext[0]}')
    if dev == 'LPF':
        from opticomlib.typing import electrical_signal as ES
    else:
        from opticomlib.typing import optical_signal as OS

    # per component j of one call: DC level D_j, amplitude e_j
    def comp(j):
        if ext is None:          # base kinds: every component of one call carries the tone with a DIFFERENT coefficient
            return 0.0, ((1.0, 1j, -0.5, ZC)[j] if cplx else (1.0, -0.5, 1.0, 1.0)[j])
        if ext[0] == 'amp':
            return 0.0, amp(ext[1], j)
        return ripple(ext[1], j, cplx)

    C = [comp(j) for j in range(4)]
    tol = TOL_FLAT + max(TOL_CONST * abs(D / e) for D, e in C)

    def gains_of(f):
        """-> list of (label, pointwise complex gain on the middle half, input power, output power) ; powers are
        relative to the squared amplitude and None for ripple members (the power of D + ripple is not that of a tone)"""
        nonlocal calls
        ex = np.exp(2j * np.pi * f * t)
        out = []
        if dev == 'LPF':
            co, si = ex.real.copy(), ex.imag.copy()
            if cont == 'nd':
                (D0, e0), (D1, e1) = C[0], C[0]
                oc = mode_call(cfg, D0 + e0 * co, reth, fails)
                os_ = mode_call(cfg, D0 + e0 * si, reth, fails)
                calls += 2
                if oc is None or os_ is None:
                    return out
                yc, ys = arrs(oc)[0], arrs(os_)[0]
            else:
                (D0, e0), (D1, e1) = C[0], C[1]
                o = mode_call(cfg, ES(D0 + e0 * co, D1 + e1 * si), reth, fails)
                calls += 1
                if o is None:
                    return out
                yc, ys = arrs(o)
            if np.shape(yc) != (N,) or ys is None or np.shape(ys) != (N,):
                fails.add(f'{dev}:length', f'f={f}: output shapes {np.shape(yc)}')
                return out
            gc, gs = (yc - D0) / e0, (ys - D1) / e1
            pw = (None, None) if ext is not None and ext[0] == 'ripple' else (float(np.mean(co[mid] ** 2)), float(np.mean(gc[mid] ** 2)))
            out.append(('cos+i*sin', ((gc + 1j * gs) / ex)[mid], pw[0], pw[1]))
        else:
            exm = np.conj(ex)
            if cont == 'os1':
                D0, e0 = C[0]
                yp = arrs(F(cfg, OS(D0 + e0 * ex)))[0]
                ym = arrs(F(cfg, OS(D0 + e0 * exm)))[0]
                calls += 2
                rows = [('+f', yp, ex, C[0]), ('-f', ym, exm, C[0])]
            else:
                s, nz = arrs(F(cfg, OS(np.array([C[0][0] + C[0][1] * ex, C[1][0] + C[1][1] * exm]), np.array([C[2][0] + C[2][1] * exm, C[3][0] + C[3][1] * ex]))))
                calls += 1
                if s.shape != (2, N) or nz is None or nz.shape != (2, N):
                    fails.add(f'{dev}:length', f'f={f}: 2-pol output shapes {s.shape}')
                    return out
                rows = [('+f signal row 0', s[0], ex, C[0]), ('-f signal row 1', s[1], exm, C[1]), ('-f noise row 0', nz[0], exm, C[2]), ('+f noise row 1', nz[1], ex, C[3])]
            for lab, y, x, (D, e) in rows:
                if np.shape(y) != (N,):
                    fails.add(f'{dev}:length', f'f={f}: output shape {np.shape(y)}')
                    continue
                g = (y - D) / (e * x)
                pw = (None, None) if ext is not None and ext[0] == 'ripple' else (1.0, float(np.mean(np.abs(g[mid]) ** 2)))
                out.append((lab, g[mid], pw[0], pw[1]))
        return out

    series = {}       # label -> list of (k, gain) along the grid ladder
    cut = []
    for typ, k, f in tones:
        for lab, g, pin, pout in gains_of(f):
            if not np.all(np.isfinite(g)):
                fails.add(f'{dev}:tone:non-finite{sfx}', f'f={f:.6g}*fs {lab}')
                continue
            A = complex(np.mean(g))
            flat = float(np.max(np.abs(g - A)))
            gain = abs(A)
            h.update(np.array([A.real, A.imag]).round(13 if ext is None else 6).tobytes())
            meas[kf] = max(meas[kf], flat)
            meas[kp] = max(meas[kp], abs(A.imag))
            if flat > tol:
                fails.add(f'{dev}:tone:not-stationary{sfx}', f'f={f:.6g}*fs {lab}: pointwise gain varies by {flat:.3g} on the middle half (allowed {tol:.3g})', flat)
            if abs(A.imag) > tol or (A.real < -tol):
                fails.add(f'{dev}:tone:phase{sfx}', f'f={f:.6g}*fs {lab}: gain {A:.6g} is not real positive (delay / phase shift)', abs(A.imag))
            if gain > 1 + tol or (pin is not None and pout > pin * (1 + TOL_FLAT) + 1e-18):
                fails.add(f'{dev}:tone:gain>1{sfx}', f'f={f:.6g}*fs {lab}: gain {gain:.9g}, power (relative to the amplitude) {pin} -> {pout}', gain - 1)
            if typ == 'grid':
                series.setdefault(lab, []).append((k, gain))
            if typ == 'exact-cutoff' or k == kc:
                dB = 20 * np.log10(gain) if gain > 0 else -np.inf
                cut.append(round(float(dB), 6 if ext is None else 3))
                dev_dB = abs(dB + 6.0)
                meas['cut_dev_dB'] = max(meas['cut_dev_dB'], float(dev_dB) if np.isfinite(dev_dB) else 999.0)
                if not dev_dB <= BAND_DB:
                    fails.add(f'{dev}:cutoff-6dB{suffix}{sfx}', f'tone at {f:.6g}*fs ({typ}, cutoff {c}*fs) {lab}: {dB:.3f} dB, expected -6.0 +- {BAND_DB}', float(dev_dB) if np.isfinite(dev_dB) else 999.0)
    for lab, sr in series.items():
        gs = [g for _, g in sr]
        for i in range(len(gs) - 1):
            if gs[i + 1] > gs[i] + tol:
                fails.add(f'{dev}:tone:not-monotone{sfx}', f'{lab}: gain rises from {gs[i]:.9g} at k={sr[i][0]} to {gs[i+1]:.9g} at k={sr[i+1][0]}', gs[i + 1] - gs[i])
    # retH against the measured two-pass gains (LPF, grid tones)
    if dev == 'LPF' and kind == 'nd' and series:
        out, H = F(cfg, np.cos(2 * np.pi * c * t), retH=True)
        calls += 1
        H = np.asarray(H)
        if H.shape != (N,):
            fails.add('LPF:retH:grid', f'retH has shape {H.shape}, record has {N} samples')
        else:
            for k, g in series['cos+i*sin']:
                for idx in (N // 2 + k, N // 2 - k):
                    e = abs(abs(H[idx % N]) ** 2 - g)
                    meas['reth2'] = max(meas['reth2'], float(e))
                    if not e <= TOL_RETH_2P:
                        fails.add('LPF:retH:two-pass-gain', f'|retH|^2 at grid line {idx - N // 2:+d} is {abs(H[idx % N])**2:.6g}, measured two-pass tone gain {g:.6g}', float(e))
    nt = (cfg, kind) if cut and all(-20 < d < -0.5 for d in cut) else False
    return res(viol=fails.viol(f'cfg={cfg} kind={kind}'), obs=(h.hexdigest(), tuple(cut)), nontrivial=nt,
               stats={'filter_calls': calls, 'tones': len(tones)}, payload=meas)


# --------------------------------------------------------------------------- retH
_KAPPA = {}


def bessel_poly(n):
    """reverse Bessel polynomial theta_n(s) = sum a_k s^k , a_k = (2n-k)! / (2^(n-k) k! (n-k)!)"""
    return [factorial(2 * n - k) / (2 ** (n - k) * factorial(k) * factorial(n - k)) for k in range(n + 1)]


def bessel_eval(n, s):
    a = bessel_poly(n)
    acc = np.zeros_like(s, dtype=complex) + a[n]
    for k in range(n - 1, -1, -1):
        acc = acc * s + a[k]
    return a[0] / acc


def kappa(n):
    """normalised frequency at which |theta_n(0)/theta_n(j w)|^2 = 1/2 (bisection; the magnitude is monotone)"""
    if n not in _KAPPA:
        lo, hi = 0.0, 16.0
        for _ in range(200):
            m = 0.5 * (lo + hi)
            if abs(bessel_eval(n, np.array([1j * m]))[0]) ** 2 > 0.5:
                lo = m
            else:
                hi = m
        _KAPPA[n] = 0.5 * (lo + hi)
    return _KAPPA[n]


def closed_form(n, c, f):
    """single-pass digital Bessel low-pass (bilinear transform, pre-warped, -3 dB at c) at f (cycles/sample)"""
    with np.errstate(all='ignore'):
        x = np.tan(np.pi * np.asarray(f, float)) / np.tan(np.pi * c)
        return bessel_eval(n, 1j * kappa(n) * x)


def case_reth(case):
    cfg, N, cont = case
    setup(cfg)
    dev, n, c, fs, src = cfg
    import scipy.signal as sg
    from opticomlib.typing import electrical_signal as ES
    fails = Fails()
    # cont = 'nd' | 'es+noise' | (same, i): the record (and, differently, its noise) on member i of the amplitude axis
    g = (1.0, 0.1)
    sp = None
    if not isinstance(cont, str):
        if cont[1] == 'sp':          # (container, 'sp', spelling of BW / n / fs)
            sp = cont[2]
        else:
            g = (amp(cont[1]), amp(cont[1], 1))
        cont = cont[0]
    x = g[0] * np.cos(2 * np.pi * 3 * np.arange(N) / N)
    xn = g[1] * np.cos(2 * np.pi * 3 * np.arange(N) / N)[::-1].copy()
    inp = x if cont == 'nd' else ES(x, xn)
    r = F(cfg, inp, retH=True, sp=sp)
    meas = {'cf': 0.0, 'sp': 0.0, 'out': 0.0}
    if not (isinstance(r, tuple) and len(r) == 2):
        return res(viol=[('LPF:retH:grid', f'cfg={cfg}: retH=True did not return (output, H)')], obs='no-tuple')
    out, H = r
    H = np.asarray(H)
    f = np.fft.fftshift(np.fft.fftfreq(N))
    if H.shape != (N,):
        fails.add('LPF:retH:grid', f'retH has shape {H.shape}, record has {N} samples')
    elif not np.all(np.isfinite(H)):
        fails.add('LPF:retH:grid', 'retH not finite')
    else:
        Hc = closed_form(n, c, f)
        e = float(np.max(np.abs(H - Hc)))
        meas['cf'] = e
        if not e <= TOL_RETH_CF:
            i = int(np.argmax(np.abs(H - Hc)))
            fails.add('LPF:retH:bessel-closed-form', f'retH deviates from the order-{n} Bessel low-pass (-3 dB at {c}*fs, bilinear) by {e:.3g} at f={f[i]:.5g}*fs: {H[i]:.6g} vs {Hc[i]:.6g}', e)
        z, p, k = sg.bessel(n, c * fs, btype='low', output='zpk', norm='mag', fs=fs)
        _, Hz = sg.freqz_zpk(z, p, k, worN=N, whole=True, fs=fs)
        e2 = float(np.max(np.abs(H - np.fft.fftshift(Hz))))
        meas['sp'] = e2
        if not e2 <= TOL_RETH_SP:
            fails.add('LPF:retH:scipy-prototype', f'retH deviates from fftshift(freqz) of an independently designed prototype by {e2:.3g}', e2)
    sig, noi = arrs(out)
    if sig.shape != (N,) or (cont != 'nd' and (noi is None or noi.shape != (N,))):
        fails.add('LPF:length', f'output shape {sig.shape} in retH mode')
    else:
        # the filtered record of retH mode is the filtered record of plain mode, component by component (the components
        # are filtered independently, so each equals the plain filtering of that array alone; bitwise on the pristine tree)
        for nm, got, arr, a in (('signal', sig, x, g[0]),) + ((('noise', noi, xn, g[1]),) if cont != 'nd' else ()):
            ref = arrs(F(cfg, arr.copy()))[0]
            e = float(np.max(np.abs(got - ref))) / a if ref.shape == (N,) else np.inf
            meas['out'] = max(meas['out'], e)
            if not e <= TOL_LIN:
                fails.add(f'LPF:retH:output:{nm}-path', f'{nm} component returned in retH mode differs from LPF of that array in plain mode by {e:.3g} of its amplitude', e)
    obs = hashlib.sha256(np.ascontiguousarray(H).tobytes()).hexdigest() if H.dtype != object else 'object'
    return res(viol=fails.viol(f'cfg={cfg} N={N} input={case[2]}'), obs=obs, nontrivial=(cfg, N, case[2]),
               stats={'filter_calls': 3 if cont != 'nd' else 2, 'reth_points': int(H.size)}, payload=meas)


# --------------------------------------------------------------------------- call histories / parameter sweeps
# Absolute oracle of these parts: the stationary gain of a forward-backward Bessel filter is |H(f)|^2 with H the closed
# form above (no scipy design routine involved).  Tolerance: scipy normalises the prototype with optimize.newton
# (tol 1.48e-8) and |d|H|^2/dln w| <= 2n <= 16 -> 2.4e-7 ; measured (retH part) 3e-14.
TOL_GAIN = 1e-6
H_BW = 3.2e9                  # LPF bandwidth of every history step (BPF: 2*H_BW); cutoff/fs = 0.2 ... 0.02 over the menu
H_TONES = (0.02, 0.05, 0.1, 0.2)          # cycles/sample: the SAME input objects serve every step of a history
GV_MENU = (                   # (call form, arguments, the sampling rate that configuration means)
    ('sps,R', dict(sps=16, R=1e9), 16e9),
    ('sps,R (10x)', dict(sps=16, R=10e9), 160e9),
    ('sps,fs', dict(sps=8, fs=40e9), 40e9),
    ('R,fs non-integer fs/R', dict(R=3e9, fs=40e9), 40e9),             # sps = 13, sps*R = 39e9
    ('R,fs non-integer fs/R (2)', dict(R=1.5e9, fs=25e9), 25e9),       # sps = 17, sps*R = 25.5e9
    ('fs alone', dict(fs=64e9), 64e9),                                  # R is whatever the previous step left
    ('sps,R,wavelength,N', dict(sps=20, R=1.25e9, wavelength=1310e-9, N=32), 25e9),
)


def tone_set(dev, cont, f, N=N_TONE):
    """unit tone at f cycles/sample in every component of one container (different coefficient in each component)
    -> (list of input objects, reader) ; reader(list of outputs) -> [(label, pointwise gain on the middle half)] or None"""
    t = np.arange(N)
    ex = np.exp(2j * np.pi * f * t)
    exm = np.conj(ex)
    mid = slice(N // 4, 3 * N // 4)

    def ok(*a):
        return all(v is not None and np.shape(v) == (N,) for v in a)

    if dev == 'LPF':
        from opticomlib.typing import electrical_signal as ES
        if cont == 'nd':
            def reader(outs):
                yc, ys = arrs(outs[0])[0], arrs(outs[1])[0]
                return [('cos+i*sin', ((yc + 1j * ys) / ex)[mid])] if ok(yc, ys) else None
            return [ex.real.copy(), ex.imag.copy()], reader

        def reader(outs):
            s, nz = arrs(outs[0])
            return [('signal=cos, noise=-0.5*sin', ((s + 1j * nz / -0.5) / ex)[mid])] if ok(s, nz) else None
        return [ES(ex.real.copy(), -0.5 * ex.imag)], reader
    from opticomlib.typing import optical_signal as OS
    if cont == 'os1':
        def reader(outs):
            y = arrs(outs[0])[0]
            return [('+f', (y / ex)[mid])] if ok(y) else None
        return [OS(ex)], reader

    def reader(outs):
        s, nz = arrs(outs[0])
        if nz is None or s.shape != (2, N) or nz.shape != (2, N):
            return None
        return [('+f signal row 0', (s[0] / ex)[mid]), ('-f signal row 1', (s[1] / (1j * exm))[mid]),
                ('-f noise row 0', (nz[0] / (-0.5 * exm))[mid]), ('+f noise row 1', (nz[1] / (ZC * ex))[mid])]
    return [OS(np.array([ex, 1j * exm]), np.array([-0.5 * exm, ZC * ex]))], reader


def judge_gains(fails, key, what, gains, n, c, f):
    """gains measured at f cycles/sample against the closed-form two-pass gain of the order-n filter with cutoff c"""
    exp = float(abs(closed_form(n, c, np.array([f]))[0]) ** 2)
    worst = 0.0
    for lab, g in gains:
        A = complex(np.mean(g)) if np.all(np.isfinite(g)) else complex(np.nan)
        e = abs(A - exp)
        worst = max(worst, e if np.isfinite(e) else 999.0)
        if not e <= TOL_GAIN:
            fails.add(key, f'{what}, tone at {f}*fs {lab}: gain {A:.6g}, the order-{n} filter with cutoff {c:.6g}*fs has {exp:.6g}', e if np.isfinite(e) else 999.0)
    return worst, exp


def case_history(case):
    """case = (dev, n, container, steps) ; step = (g, a): configure the grid with GV_MENU[g] (first step: gv.clean() +
    that call; later steps: that call on top of the previous state), then filter the SAME write-protected input objects
    with the SAME BW and n; a (LPF only) = menu index whose rate is passed as fs=... (the grid stays at GV_MENU[g])"""
    import warnings
    dev, n, cont, steps = case
    _install_memo()
    from opticomlib.typing import gv
    from opticomlib.devices import LPF, BPF
    sets = [(f,) + tone_set(dev, cont, f) for f in H_TONES]
    snaps = [[freeze(x) for x in inputs] for _, inputs, _ in sets]
    fails = Fails()
    obs = []
    worst = 0.0
    calls = 0
    for i, (g, a) in enumerate(steps):
        nm, kw, rate = GV_MENU[g]
        if i == 0:
            gv_reset(**kw)
        else:
            with warnings.catch_warnings():
                warnings.simplefilter('ignore')
                gv(**kw)
        fs = rate if a is None else GV_MENU[a][2]
        c = H_BW / fs
        what = f'step {i} (gv({", ".join(f"{k}={v:g}" for k, v in kw.items())}){"" if a is None else f", fs={fs:g}"})'
        key = f'{dev}:history:gain' + ('' if a is None else ':fs-arg') + (':first-call' if i == 0 else '')
        for (f, inputs, reader), snap in zip(sets, snaps):
            if dev == 'LPF':
                outs = [LPF(x, H_BW, n=n, **({} if a is None else {'fs': fs})) for x in inputs]
            else:
                outs = [BPF(x, 2 * H_BW, n=n) for x in inputs]
            calls += len(inputs)
            if [unchanged(x, sn) for x, sn in zip(inputs, snap)] != [True] * len(inputs):
                fails.add(f'{dev}:input-modified', f'{what}: the shared input object was changed by the call')
            gains = reader(outs)
            if gains is None:
                fails.add(f'{dev}:length', f'{what}: output shapes differ from the input')
                continue
            w, exp = judge_gains(fails, key, what, gains, n, c, f)
            worst = max(worst, w)
            obs.append(tuple(round(float(abs(np.mean(g_))), 9) for _, g_ in gains))
    return res(viol=fails.viol(f'case={case}'), obs=tuple(obs), nontrivial=case, stats={'filter_calls': calls, 'history_steps': len(steps)},
               payload={'gain': worst})


SWEEP_CUTS = tuple(sorted(CUTS + CUTS_FINE))


def case_sweep(case):
    """case = (cfg-like (dev, -, -, fs, src), container): ONE write-protected input object per tone; the cutoff is swept
    up and down over SWEEP_CUTS at order 4, then the order up and down over 1..8 at cutoff 0.1*fs"""
    (dev, _, _, fs, src), cont = case
    sets = [(f,) + tone_set(dev, cont, f) for f in (0.05, 0.2)]
    snaps = [[freeze(x) for x in inputs] for _, inputs, _ in sets]
    fails = Fails()
    obs = []
    worst = 0.0
    calls = 0
    seq = [(4, c) for c in SWEEP_CUTS + SWEEP_CUTS[::-1]] + [(n, 0.1) for n in tuple(range(1, 9)) + tuple(range(8, 0, -1))]
    setup((dev, 4, 0.1, fs, src))
    for i, (n, c) in enumerate(seq):
        cfg = (dev, n, c, fs, src)
        for (f, inputs, reader), snap in zip(sets, snaps):
            outs = [F(cfg, x) for x in inputs]
            calls += len(inputs)
            if [unchanged(x, sn) for x, sn in zip(inputs, snap)] != [True] * len(inputs):
                fails.add(f'{dev}:input-modified', f'call {i}: the shared input object was changed by the call')
            gains = reader(outs)
            if gains is None:
                fails.add(f'{dev}:length', f'call {i} (n={n}, cutoff {c}): output shapes differ from the input')
                continue
            w, exp = judge_gains(fails, f'{dev}:sweep:gain', f'call {i} of the sweep (n={n}, cutoff {c}*fs)', gains, n, c, f)
            worst = max(worst, w)
            obs.append(tuple(round(float(abs(np.mean(g_))), 9) for _, g_ in gains))
    return res(viol=fails.viol(f'case={case}'), obs=tuple(obs), nontrivial=case, stats={'filter_calls': calls}, payload={'gain': worst})


# --------------------------------------------------------------------------- driver
def configs(dev, orders, cuts=CUTS):
    out = []
    for n in orders:
        for c in cuts:
            for fs in (16e9, 160e9):
                out.append((dev, n, c, fs, 'gv'))
            if dev == 'LPF':
                for fs in (16e9, 160e9):
                    out.append((dev, n, c, fs, 'arg'))
    return out


def op_kinds(dev):
    if dev == 'LPF':
        ks = list(LPF_KINDS)
        ks += [('lin', cont, pair, ab) for cont in ('nd', 'es+noise') for pair in PAIRS for ab in COEF_R]
        ks += [('const', 'nd'), ('const', 'es+noise')]
    else:
        ks = list(BPF_KINDS)
        ks += [('lin', cont, pair, ab) for cont in ('os1', 'os2+noise') for pair in PAIRS for ab in COEF_C]
        ks += [('const', 'os1'), ('const', 'os2+noise')]
    return ks


def op_xkinds(dev):
    """extended kinds of the operator part: mode x container (LPF retH), amplitude axis, ripple on a DC level -
    complete basis through each, plus the superposition pairs (last coefficient pair) and the constants on the same axes"""
    na = range(len(AMPS))
    if dev == 'LPF':
        ks = list(LPF_XKINDS)
        ks += [('lin', cont, pair, ab) for cont in ('nd-retH', 'es+noise-retH') for pair in PAIRS for ab in COEF_R]
        ks += [('lin', cont, pair, COEF_R[-1], ext) for cont in ('nd', 'es+noise', 'es+noise-retH') for pair in PAIRS for ext in EXTS]
        ks += [('const', 'nd-retH'), ('const', 'es+noise-retH')]
        ks += [('const', cont, i) for cont in ('nd', 'es+noise', 'es+noise-retH') for i in na]
    else:
        ks = list(BPF_XKINDS)
        ks += [('lin', cont, pair, COEF_C[-1], ext) for cont in ('os1', 'os2+noise') for pair in PAIRS for ext in EXTS]
        ks += [('const', cont, i) for cont in ('os1', 'os2+noise') for i in na]
    return ks


def op_hkinds(dev):
    """hardening kinds of the operator part: complete basis through every dtype / spelling / gv call form / layout kind,
    dtype-quantised fields (every non-wrapping dtype + integer-valued floats) and chained calls"""
    conts = ('nd', 'es+noise') if dev == 'LPF' else ('os1', 'os2+noise')
    ks = list(LPF_HKINDS if dev == 'LPF' else BPF_HKINDS)
    ks += [('field', cont, pair, name) for cont in conts for pair in PAIRS for name in FIELD_DT]
    ks += [('chain', cont, pair) for cont in conts for pair in PAIRS]
    return ks


def history_cases(dev, orders, quick):
    """all ordered pairs of GV_MENU entries (a pair (g, g) is the repeated call); LPF: every step with / without fs=...
    (the rate of the NEXT menu entry while the grid stays where it is).  thorough: also all triples for orders 1, 4, 8"""
    m = range(len(GV_MENU))
    conts = ('nd', 'es+noise') if dev == 'LPF' else ('os1', 'os2+noise')
    args = (lambda g: (None, (g + 1) % len(GV_MENU))) if dev == 'LPF' else (lambda g: (None,))
    seqs = [((g0, a0), (g1, a1)) for g0 in m for g1 in m for a0 in args(g0) for a1 in args(g1)]
    out = [(dev, n, cont, sq) for n in orders for cont in conts for sq in seqs]
    if not quick:
        tri = [((g0, None), (g1, a1), (g2, None)) for g0 in m for g1 in m for g2 in m for a1 in args(g1)]
        out += [(dev, n, cont, sq) for n in (1, 4, 8) for cont in conts for sq in tri]
    return out


def wave_kinds(dev):
    """kinds of the zerophase part and of the tone part"""
    na = range(len(AMPS))
    if dev == 'LPF':
        base = ['nd', 'es+noise', 'nd-retH', 'es+noise-retH']
        amps = [(c, 'amp', i) for c in ('nd', 'es+noise', 'es+noise-retH') for i in na]
        rips = [(c, 'ripple', i) for c in ('nd', 'es+noise', 'es+noise-retH') for i in range(len(RIPPLES))]
    else:
        base = ['os1', 'os2+noise']
        amps = [(c, 'amp', i) for c in base for i in na]
        rips = [(c, 'ripple', i) for c in base for i in range(len(RIPPLES))]
    return base + amps, base + amps + rips


def _maxes(payloads):
    out = {}
    for p in payloads:
        if p:
            for k, v in p.items():
                out[k] = max(out.get(k, 0.0), float(v))
    return {k: float(f'{v:.3g}') for k, v in out.items()}


def run(ctx):
    orders = (1, 4, 8) if ctx.quick else tuple(range(1, 9))
    ctx.rule(f'C11: bounded-exhaustive basis enumeration. configurations = device {{LPF,BPF}} x order {list(orders)} x cutoff '
             f'{list(CUTS)}*fs x fs {{16e9,160e9}} x fs-source {{gv.fs; LPF(fs=...) with gv at the other rate}}; for every '
             f'configuration and every N in n_op(order) = {{n_min(order)}} + {list(N_OP)} the response to EVERY unit impulse e_k is taken (complete operator '
             f'matrix M) through the plain entry point and again through every container kind (9 per device: int/scaled/retH '
             f'ndarray, electrical/optical container, noise present/absent/alone, complex dtype, 1-/2-pol, n_pol broadcast) with '
             f'permuted basis vectors in signal, noise and the two rows; every response must be the matching column of M. '
             f'Superposition pairs {list(PAIRS)} x coefficient pairs, constants, zero phase on {N_SYM} samples, 13-tone '
             f'ladder on {N_TONE} samples, retH on N in {list(N_RETH)}. EXTENDED axes, crossed with every part: amplitude '
             f'{list(AMPS)} (judged relative to the amplitude; signal / noise / rows on different members in one call), '
             f'ripple on a DC level (D, e/|D|) in {list(RIPPLES)}, and the LPF mode axis (every container kind with / without / '
             f'only noise also in retH=True mode; fs=... mode is part of the configuration). Part operator-x pushes the '
             f'complete basis through {len(LPF_XKINDS)} (LPF) / {len(BPF_XKINDS)} (BPF) such kinds for N in '
             f'{list(N_EXT_QUICK) if ctx.quick else "n_op(order)"}')
    ctx.assume('scipy.signal.bessel is a pure function of its arguments (its result is memoised by the harness per worker; '
               'MCX_C11_NOMEMO=1 disables the memo); numpy/scipy arithmetic is IEEE double')
    ctx.assume('"away from the record edges" = middle half of a 4096-sample record (tones) and +-(6/fc+50) samples around the '
               'centre of a 2049-sample record (pulses); records are longer than 16 samples AND than the sosfiltfilt padding 3*(order+1) of their order')
    ctx.assume(f'seeded random field members of the superposition alphabet are drawn from default_rng([VERIF_SEED={ctx.seed}, cfg])')
    ctx.rule(f'HARDENING PASS. Part operator-h (same case form and the same M as reference): the complete basis through '
             f'{len(LPF_HKINDS)} (LPF) / {len(BPF_HKINDS)} (BPF) kinds = sample dtypes {list(DT)} x {{plain, container + noise / 2-pol + noise}}, '
             f'spellings of BW / n / fs {list(SC_SPELL)}, call forms of gv {list(GV_SPELL)} (same rate; (R,fs) with non-integer fs/R), '
             f'layouts {list(LAYOUT_KINDS)}; dtype-quantised fields {list(FIELD_DT)} and chained calls F(F(x)); N in '
             f'{"{n_min(order), 28}" if ctx.quick else "n_op(order)"}, n_min = max(17, 3*(order+1)+1) = shortest legal record of the order. '
             f'Every input of the basis / superposition / field / history / sweep cases is write-protected and compared byte for byte after the call. '
             f'Orders outside the quick set ({[n for n in range(1, 9) if n not in orders]}) run a thin slice (cutoff 0.1, fs 16e9, N = n_min, all base kinds + base tone kinds). '
             f'Tone and retH parts also on cutoffs {list(CUTS_FINE)} (base kinds). retH on N in {list(N_RETH)} + n_min. '
             f'Part history: sequences of (gv call form, optional fs=...) steps over the menu {[m[0] for m in GV_MENU]} - all ordered pairs'
             f'{"" if ctx.quick else " and (orders 1,4,8) all triples"} - on ONE shared write-protected input per tone {list(H_TONES)}, same BW and n in every step; '
             f'part sweep: cutoff up/down over {list(SWEEP_CUTS)} and order up/down over 1..8 on one shared input. Both judged '
             f'against the closed-form two-pass Bessel gain (absolute oracle, tolerance {TOL_GAIN}).')
    measured = {}
    thin_orders = [n for n in range(1, 9) if n not in orders]
    for dev in ('LPF', 'BPF'):
        cfgs = configs(dev, orders)
        thin = [(dev, n, 0.1, 16e9, 'gv') for n in thin_orders]          # quick only: orders the quick tier does not cross with everything
        fine = configs(dev, orders, CUTS_FINE)
        ctx.space(f'{dev}.configurations', len(cfgs) + len(thin) + len(fine))
        kinds = op_kinds(dev)
        cases = [(cfg, N, kind, ctx.seed) for cfg in cfgs for N in n_op(cfg[1]) for kind in kinds]
        cases += [(cfg, n_min(cfg[1]), kind, ctx.seed) for cfg in thin for kind in kinds]
        p = ctx.pmap(f'{dev}.operator', case_operator, cases, horizon=120, chunk=len(kinds))
        measured[f'{dev}.operator'] = _maxes(p)
        xk = op_xkinds(dev)
        cases = [(cfg, N, kind, ctx.seed) for cfg in cfgs for N in n_op(cfg[1]) if (not ctx.quick or N in N_EXT_QUICK) for kind in xk]
        p = ctx.pmap(f'{dev}.operator-x', case_operator, cases, horizon=120, chunk=len(xk))
        measured[f'{dev}.operator-x'] = _maxes(p)
        hk = op_hkinds(dev)
        cases = [(cfg, N, kind, ctx.seed) for cfg in cfgs for N in n_op(cfg[1]) if (not ctx.quick or N in (n_min(cfg[1]), 28)) for kind in hk]
        p = ctx.pmap(f'{dev}.operator-h', case_operator, cases, horizon=120, chunk=len(hk))
        measured[f'{dev}.operator-h'] = _maxes(p)
        zk, tk = wave_kinds(dev)
        p = ctx.pmap(f'{dev}.zerophase', case_zerophase, [(cfg, k) for cfg in cfgs for k in zk], horizon=60)
        measured[f'{dev}.zerophase'] = _maxes(p)
        base = tk[:2]                 # the plain and the container + noise (2-pol + noise) kinds
        p = ctx.pmap(f'{dev}.tone', case_tone, [(cfg, k) for cfg in cfgs for k in tk] + [(cfg, k) for cfg in fine + thin for k in base], horizon=60)
        measured[f'{dev}.tone'] = _maxes(p)
        if dev == 'LPF':
            rk = ['nd', 'es+noise'] + [(c, i) for c in ('nd', 'es+noise') for i in range(len(AMPS))] + [('nd', 'sp', 'np-int'), ('es+noise', 'sp', '0d')]
            cases = [(cfg, N, cont) for cfg in cfgs for N in sorted({n_min(cfg[1])} | set(N_RETH)) for cont in rk]
            cases += [(cfg, N, 'nd') for cfg in fine + thin for N in (n_min(cfg[1]), 97)]
            p = ctx.pmap('LPF.retH', case_reth, cases, horizon=60)
            measured['LPF.retH'] = _maxes(p)
        p = ctx.pmap(f'{dev}.history', case_history, history_cases(dev, orders, ctx.quick), horizon=60)
        measured[f'{dev}.history'] = _maxes(p)
        sw = [((dev, 0, 0, fs, src), cont) for fs in (16e9, 160e9) for src in (('gv', 'arg') if dev == 'LPF' else ('gv',))
              for cont in (('nd', 'es+noise') if dev == 'LPF' else ('os1', 'os2+noise'))]
        p = ctx.pmap(f'{dev}.sweep', case_sweep, sw, horizon=120)
        measured[f'{dev}.sweep'] = _maxes(p)
    ctx.extra['measured_max_errors'] = measured
    ctx.extra['tolerances'] = {'lin': TOL_LIN, 'const': TOL_CONST, 'sym': TOL_SYM, 'flat/phase/mono': TOL_FLAT, 'cutoff_band_dB': BAND_DB,
                               'retH_closed_form': TOL_RETH_CF, 'retH_scipy': TOL_RETH_SP, 'retH_two_pass': TOL_RETH_2P,
                               'history/sweep gain': TOL_GAIN, 'low-precision dtypes': '8*eps(dtype)'}
    print(f'[C11] measured maxima: {measured}', flush=True)
